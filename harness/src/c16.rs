//! C16 — metrics never lose concurrent updates and never influence results.
//!
//! Requests (see lean/IbModel/Driver/D16.lean for the grammar):
//!   `METRICS init=… th=… sched=…`  one replayable interleaving, at lock granularity, of real OS threads
//!        calling the REAL `MetricsCollector` methods on one shared collector. The interleaving is forced by
//!        a cooperative scheduler installed as the `verif_hooks::yield_point` callback (there is a yield
//!        point immediately before every `.lock()` in src/metrics.rs): every managed thread parks at each
//!        yield point until the scheduler grants it, so exactly one thread runs between two grants and a
//!        schedule (list of thread ids) determines the execution. All complete schedules of a program are
//!        ENUMERATED by stateless depth-first search (re-execution with a longer forced prefix).
//!        Answer: final snapshot, elapsed present?, to_json keys, critical sections per call, complete?.
//!   `STRESS init=… threads=… per=… amounts=…`  free-running threads (no scheduler), final counter.
//!   `MRUN coll=0|1 pre=… runs=… <pipeline>`  GENERATED pipelines (`pipe::gen_prog`, reorder-inert and hazard-free)
//!        built with the public builders and collected with / without a collector; the request carries the
//!        pipeline's description (the `PIPE` grammar) and the MODEL plans and executes it inside `runCollectProg`,
//!        so the expected result is computed, not echoed.
//!   `MSLEEP sleep=… ticks=… <pipeline>`  a pipeline whose closure sleeps, run 1..3 times on one pipeline.
//!   `MPOISON how=… checks=… <pipeline>`  a collector that survived a panic inside a critical section is attached.
//!   `MOVF checks=… init=… add=…`  one increment at the u64 boundary.
//!   `SMOKE`  every public call on one thread under a watchdog (a self-dead-locking call = HANG, not a hung check).
//!   `MJSON sum0=… ops=…`  the JSON export over the whole VALUE space: counters, gauges (1.5, NaN, ±inf, ±0.0, random
//!        bit patterns), histograms (empty / 1 / many values, NaN and infinities included), user metrics whose
//!        `value()` is null / an object / an array / a string, descriptions, names "", "A", " a ", non-ASCII, "a.b",
//!        names differing only in case; `to_json()`, `snapshot()` and `save_to_file()` (file parsed back).
//!   `MMID mid=… <pipeline>`  one run during which the pipeline's own closure uses the USER's handle or empties the
//!        slot (`take_metrics`): what the user's handle shows afterwards.
//!   `MHELD which=start|end mode=…`  one run whose `record_metrics_start` / `_end` meets a pipeline graph lock HELD by
//!        another thread (hook `verif_with_graph_lock_held`) and released 30 ms later: the stamp must be taken.
//!   `MHELDC init=… call=<op>`  one collector call made while another thread HOLDS the collector's mutex (hook
//!        `verif_with_lock_held`): it must wait and take effect (`update-dropped-under-contention`).
//!   `MCONTEND nodes=… observers=3`  free-running: hundreds of runs (fresh collector each) of a small branch of a
//!        pipeline with a 1500-node side branch while three threads take snapshots / read the slot / add nodes;
//!        after EVERY successful run both stamps must be there (`elapsed-missing-after-success`).
//!   `FIRSTINC a=… b=…`  two free-running threads that both start `increment_counter` on a name that is ABSENT,
//!        on 10^4 fresh collectors (released together by a spin barrier).
//!
//! Oracles (independent of the Lean model):
//!   * increment-only programs: final counter = initial + Σ increments            (`lost-update`)
//!   * any program: the final snapshot is one the REAL code produces when the same calls are made one
//!     after the other in some order that respects each thread's program order   (`non-serializable-outcome`)
//!   * every name registered / set / incremented is a key of `to_json()`         (`json-missing-registered-key`)
//!   * `to_json()[k].value == snapshot()[k]` for every stored k; no other member except the execution time,
//!     which equals `elapsed().as_millis()`                                      (`json-value-differs-from-snapshot`,
//!     `json-has-unregistered-member`, `json-execution-time-differs-from-elapsed`, `json-execution-time-missing`;
//!     KNOWN FINDING `json-user-metric-shadowed-by-execution-time`)
//!   * free-running stress: final = init + Σ                                    (`lost-update-free-running`)
//!   * result with a collector attached == result without                        (`collector-changed-result`)
//!   * result == plain-vector reference interpreter `pipe::reference`            (`pipeline-result-differs-from-reference`)
//!   * after a successful run `elapsed()` is `Some`                              (`elapsed-missing-after-success`)
//!   * after EVERY run of the sleeping pipeline SLEEP_MS <= elapsed() <= wall time of that run
//!     (so a second run refreshes both stamps)                                   (`elapsed-outside-run-window`)
//!   * below 2^64 an increment is exact; at the boundary the metric stays a counter and the
//!     collector stays usable                   (`overflow-corrupts-counter`, `collector-unusable-after-overflow`)
//!   * every call returns: scheduler time-out (confirmed by re-execution), watchdogs around free-running
//!     threads and pipeline runs (every time-out is confirmed by a second execution with a longer limit before
//!     it is reported), SMOKE, and a progress watchdog over the whole check (`collector-call-hangs`,
//!     `run-does-not-terminate`)
//!   * MJSON (the expectation is built from the REQUEST, not from `snapshot()`): the key set of `to_json()` is exactly
//!     the set of names registered / set / incremented (+ the execution time iff both stamps), each member's value is
//!     the registered metric's own `value()` bit for bit, its description the metric's, no other member; the
//!     histogram's statistics equal a plain re-computation; `snapshot()` likewise; the file written by
//!     `save_to_file` parses back to `to_json()` (`json-missing-registered-key`, `json-has-unregistered-member`,
//!     `json-value-differs-from-registered-metric`, `json-description-differs`, `histogram-stats-wrong`,
//!     `snapshot-differs-from-registered-metrics`, `save-to-file-differs-from-to-json`, `save-to-file-failed`,
//!     `export-panicked`)
//!   * every guard acquisition of the collector's mutex (COUNTED by the `verif-hooks` wrapper around `lock()`)
//!     is preceded by a yield point, per call                                   (`lock-acquisition-without-yield-point`)
//!   * two threads that both start on an absent name: final = a + b                  (`lost-update-free-running`)

use crate::ctx::{Ctx, guarded};
use crate::pipe::{self, Fn_, Mode as PMode, Outcome, Prog as PProg, Shape, Step, V};
use ironbeam::metrics::{CounterMetric, GaugeMetric, Metric, MetricsCollector};
use ironbeam::{ExecMode, NodeId, Pipeline, Runner, from_vec};
use std::cell::{Cell, RefCell};
use std::collections::{BTreeMap, BTreeSet, HashSet};
use std::sync::{Arc, Mutex, Once};

// ---------------------------------------------------------------------------------------------
// programs
// ---------------------------------------------------------------------------------------------

#[derive(Clone, Copy, Debug, PartialEq, Eq, Hash)]
enum Op {
    Inc(&'static str, u64),
    Set(&'static str, u64),
    RegC(&'static str, u64),
    RegG(&'static str, u64),
    St,
    En,
    El,
    Js,
    Sn,
}

#[derive(Clone, Copy, Debug, PartialEq, Eq, Hash)]
enum Val {
    C(u64),
    G(u64),
}

type Init = Vec<(&'static str, Val)>;
type Prog = Vec<Vec<Op>>;

fn enc_op(o: &Op) -> String {
    match o {
        Op::Inc(k, n) => format!("i:{k}:{n}"),
        Op::Set(k, n) => format!("s:{k}:{n}"),
        Op::RegC(k, n) => format!("rc:{k}:{n}"),
        Op::RegG(k, n) => format!("rg:{k}:{n}"),
        Op::St => "st".into(),
        Op::En => "en".into(),
        Op::El => "el".into(),
        Op::Js => "js".into(),
        Op::Sn => "sn".into(),
    }
}
fn enc_ops(ops: &[Op]) -> String {
    if ops.is_empty() { "-".into() } else { ops.iter().map(enc_op).collect::<Vec<_>>().join(",") }
}
fn enc_prog(p: &Prog) -> String {
    p.iter().map(|t| enc_ops(t)).collect::<Vec<_>>().join("/")
}
fn enc_init(i: &Init) -> String {
    if i.is_empty() {
        "-".into()
    } else {
        i.iter()
            .map(|(k, v)| match v { Val::C(n) => format!("{k}:c{n}"), Val::G(n) => format!("{k}:g{n}") })
            .collect::<Vec<_>>()
            .join(",")
    }
}
fn enc_sched(s: &[usize]) -> String {
    if s.is_empty() { "-".into() } else { s.iter().map(|x| x.to_string()).collect::<Vec<_>>().join(",") }
}

fn boxed(k: &str, v: Val) -> Box<dyn Metric> {
    match v {
        Val::C(n) => Box::new(CounterMetric::with_value(k, n)),
        Val::G(n) => Box::new(GaugeMetric::new(k, n as f64)),
    }
}

fn mk_collector(init: &Init) -> MetricsCollector {
    let mut c = MetricsCollector::new();
    // register_all is a loop over register
    c.register_all(init.iter().map(|(k, v)| boxed(k, *v)).collect());
    c
}

fn apply(c: &MetricsCollector, op: &Op) {
    match op {
        Op::Inc(k, n) => c.increment_counter(k, *n),
        Op::Set(k, n) => c.set_counter(k, *n),
        Op::RegC(k, n) => {
            let mut h = c.clone(); // clones share the inner state
            h.register(boxed(k, Val::C(*n)));
        }
        Op::RegG(k, n) => {
            let mut h = c.clone();
            h.register(boxed(k, Val::G(*n)));
        }
        Op::St => c.record_start(),
        Op::En => c.record_end(),
        Op::El => { let _ = c.elapsed(); }
        Op::Js => { let _ = c.to_json(); }
        Op::Sn => { let _ = c.snapshot(); }
    }
}

fn join_or(v: Vec<String>, sep: &str) -> String {
    if v.is_empty() { "-".into() } else { v.join(sep) }
}

fn canon_snapshot(c: &MetricsCollector) -> String {
    let snap = c.snapshot();
    let mut rows: Vec<String> = snap
        .iter()
        .map(|(k, v)| {
            if let Some(n) = v.as_u64() {
                format!("{k}:c{n}")
            } else if let Some(f) = v.as_f64() {
                format!("{k}:g{}", f as u64)
            } else {
                format!("{k}:?")
            }
        })
        .collect();
    rows.sort();
    join_or(rows, ",")
}
const EXEC_KEY: &str = "execution_time_ms";
const EXEC_DESC: &str = "Total pipeline execution time in milliseconds";

fn is_exec_entry(e: &serde_json::Value) -> bool {
    e.get("description").and_then(|d| d.as_str()) == Some(EXEC_DESC) && e.get("value").is_some_and(|v| v.is_u64())
}

/// What `to_json()` shows, canonically: sorted `key:val` (`c<n>` / `g<n>` for a metric's value, `T` for the
/// execution-time member), the sorted keys, and the verdict of the property's own statement about the
/// export evaluated on the REAL values (independent of the model): every metric of the snapshot is a member
/// with exactly its value; nothing else is a member except the execution time, which equals `elapsed()`.
struct JsonObs {
    canon: String,
    keys: Vec<String>,
    fail: Option<(&'static str, String)>,
}
fn json_obs(c: &MetricsCollector) -> JsonObs {
    let snap = c.snapshot();
    let el = c.elapsed();
    let j = c.to_json();
    let empty = serde_json::Map::new();
    let obj = j.as_object().unwrap_or(&empty);
    let mut rows = vec![];
    let mut keys = vec![];
    let mut fail: Option<(&'static str, String)> = None;
    let set_fail = |sig: &'static str, d: String, fail: &mut Option<(&'static str, String)>| {
        // a listed known finding must not mask another failure of the same case
        if fail.is_none() || fail.as_ref().is_some_and(|f| f.0 == "json-user-metric-shadowed-by-execution-time") {
            *fail = Some((sig, d));
        }
    };
    for (k, e) in obj {
        keys.push(k.clone());
        let v = e.get("value").cloned().unwrap_or(serde_json::Value::Null);
        let shown = if is_exec_entry(e) && k == EXEC_KEY {
            "T".to_string()
        } else if let Some(n) = v.as_u64() {
            format!("c{n}")
        } else if let Some(f) = v.as_f64() {
            format!("g{}", f as u64)
        } else {
            "?".to_string()
        };
        rows.push(format!("{k}:{shown}"));
        match snap.get(k) {
            Some(sv) => {
                if *sv != v || (is_exec_entry(e) && k == EXEC_KEY) {
                    if k == EXEC_KEY && is_exec_entry(e) {
                        set_fail("json-user-metric-shadowed-by-execution-time", format!("snapshot has {k} = {sv} but to_json()[{k}] is the execution time {e}"), &mut fail);
                    } else {
                        set_fail("json-value-differs-from-snapshot", format!("to_json()[{k}].value = {v}, snapshot()[{k}] = {sv}"), &mut fail);
                    }
                }
            }
            None => {
                if !(k == EXEC_KEY && is_exec_entry(e)) {
                    set_fail("json-has-unregistered-member", format!("to_json() has {k} = {e} which is not a stored metric"), &mut fail);
                }
            }
        }
        if k == EXEC_KEY && is_exec_entry(e) {
            let ms = el.map(|d| d.as_millis() as u64);
            if v.as_u64() != ms || ms.is_none() {
                set_fail("json-execution-time-differs-from-elapsed", format!("to_json()[{k}].value = {v}, elapsed() = {el:?}"), &mut fail);
            }
        }
    }
    for k in snap.keys() {
        if !obj.contains_key(k) {
            set_fail("json-missing-registered-key", format!("{k} is in the snapshot but to_json keys = {keys:?}"), &mut fail);
        }
    }
    if el.is_some() && !obj.get(EXEC_KEY).is_some_and(is_exec_entry) {
        set_fail("json-execution-time-missing", format!("elapsed() = {el:?} but to_json() has no execution-time member"), &mut fail);
    }
    rows.sort();
    keys.sort();
    JsonObs { canon: join_or(rows, ","), keys, fail }
}

// ---------------------------------------------------------------------------------------------
// the cooperative scheduler
// ---------------------------------------------------------------------------------------------

const RUNNING: u8 = 0;
const PARKED: u8 = 1;
const FINISHED: u8 = 2;
const NO_GRANT: usize = usize::MAX;

/// Scheduler state shared by the managed threads of one execution. Hand-offs are by atomics with a
/// short spin and then micro-sleeps (a critical section lasts microseconds; a futex round trip per
/// hand-off was the dominating cost of the enumeration).
struct Coop {
    st: Vec<std::sync::atomic::AtomicU8>,
    grant: std::sync::atomic::AtomicUsize,
    /// set by the scheduler when it gives up on this execution (a managed thread neither parked nor
    /// finished within `HANG_SECS`): parked threads then run on freely so that they do not spin for ever
    abandoned: std::sync::atomic::AtomicBool,
}

/// a critical section of the collector lasts microseconds; a managed thread that stays RUNNING this long
/// is blocked (a lock taken twice, a lock held across a yield point, …): the execution is a HANG
const HANG_SECS: u64 = 10;
/// limit of the CONFIRMING re-execution of a time-out
const HANG_CONFIRM_SECS: u64 = 40;
static HANG_LIMIT: std::sync::atomic::AtomicU64 = std::sync::atomic::AtomicU64::new(HANG_SECS);
static HANGS: std::sync::atomic::AtomicUsize = std::sync::atomic::AtomicUsize::new(0);
/// time-outs that did not repeat (machine stalls), reported in the evidence
static STALLS: std::sync::atomic::AtomicUsize = std::sync::atomic::AtomicUsize::new(0);
fn hangs() -> usize {
    HANGS.load(std::sync::atomic::Ordering::Relaxed)
}

/// spin, then yield, then micro-sleep until `cond` holds; `false` when `limit` elapsed first
fn wait_until(limit: Option<std::time::Duration>, mut cond: impl FnMut() -> bool) -> bool {
    let mut n = 0u32;
    let mut t0: Option<std::time::Instant> = None;
    while !cond() {
        n += 1;
        if n < 4000 {
            std::hint::spin_loop();
        } else if n < 4200 {
            std::thread::yield_now();
        } else {
            std::thread::sleep(std::time::Duration::from_micros(50));
            if let Some(l) = limit {
                let t = *t0.get_or_insert_with(std::time::Instant::now);
                if t.elapsed() > l {
                    return cond();
                }
            }
        }
    }
    true
}

thread_local! {
    static ME: RefCell<Option<(usize, Arc<Coop>)>> = const { RefCell::new(None) };
    /// yield points of src/metrics.rs passed by this thread (managed or not)
    static SECS: Cell<u32> = const { Cell::new(0) };
}

/// run `f` on this thread; returns (guard acquisitions of the collector mutex counted by the hook inside
/// src/metrics.rs, yield points passed)
fn counted(f: impl FnOnce()) -> (u32, u32) {
    install_callback();
    let y0 = SECS.with(Cell::get);
    let l0 = ironbeam::verif_hooks::locks_acquired_by_this_thread();
    f();
    ((ironbeam::verif_hooks::locks_acquired_by_this_thread() - l0) as u32, SECS.with(Cell::get) - y0)
}

fn install_callback() {
    static ONCE: Once = Once::new();
    ONCE.call_once(|| {
        ironbeam::verif_hooks::set_yield_callback(Some(Arc::new(|site: &'static str| {
            if !site.starts_with("metrics:") {
                return;
            }
            SECS.with(|s| s.set(s.get() + 1));
            let me = ME.with(|m| m.borrow().clone());
            if let Some((tid, coop)) = me {
                use std::sync::atomic::Ordering::{Acquire, Release};
                if coop.abandoned.load(Acquire) {
                    return;
                }
                coop.st[tid].store(PARKED, Release);
                wait_until(None, || coop.grant.load(Acquire) == tid || coop.abandoned.load(Acquire));
                if coop.abandoned.load(Acquire) {
                    return;
                }
                coop.grant.store(NO_GRANT, Release);
            }
        })));
    });
}

type Job = Box<dyn FnOnce() + Send>;
static POOL: Mutex<Vec<std::sync::mpsc::Sender<Job>>> = Mutex::new(Vec::new());

/// persistent worker threads (one per thread id) so that an execution does not pay for thread creation
fn pool_submit(worker: usize, job: Job) {
    let mut p = POOL.lock().unwrap();
    while p.len() <= worker {
        let (tx, rx) = std::sync::mpsc::channel::<Job>();
        let name = format!("c16-sched-{}", p.len());
        std::thread::Builder::new().name(name).spawn(move || {
            while let Ok(j) = rx.recv() {
                j();
            }
        }).expect("spawn");
        p.push(tx);
    }
    p[worker].send(job).expect("worker alive");
}

struct FinishGuard(usize, Arc<Coop>);
impl Drop for FinishGuard {
    fn drop(&mut self) {
        self.1.st[self.0].store(FINISHED, std::sync::atomic::Ordering::Release);
    }
}

enum Policy<'a> {
    /// forced prefix (entries naming a finished / unknown thread are skipped), then lowest enabled thread
    Prefix(&'a [usize]),
    /// a uniformly random enabled thread at every step
    Random(&'a mut crate::ctx::Rng),
}

struct Exec {
    taken: Vec<usize>,
    enabled: Vec<Vec<usize>>,
    complete: bool,
    /// guard acquisitions per call, per thread (counted by the hook in src/metrics.rs)
    secs: Vec<Vec<u32>>,
    /// yield points passed per call, per thread
    yields: Vec<Vec<u32>>,
    snap: String,
    keys: Vec<String>,
    json: String,
    json_fail: Option<(&'static str, String)>,
    el: bool,
    panicked: bool,
    hang: bool,
}

impl Exec {
    fn answer(&self) -> String {
        if self.hang {
            return "HANG".into();
        }
        if self.panicked {
            return "PANIC".into();
        }
        let secs = self
            .secs
            .iter()
            .map(|t| join_or(t.iter().map(|x| x.to_string()).collect(), "."))
            .collect::<Vec<_>>()
            .join("/");
        format!(
            "snap={} el={} json={} secs={} complete={}",
            self.snap,
            if self.el { "T" } else { "F" },
            self.json,
            secs,
            if self.complete { "T" } else { "F" }
        )
    }
}

/// Run `prog` on a fresh collector with real threads under the cooperative scheduler. A time-out is
/// CONFIRMED by re-running the schedule prefix that led to it (on a fresh collector, fresh threads): a
/// deadlock is deterministic at lock granularity and hangs again; a stall of the machine (the box is shared,
/// load averages of 60 on 16 cores occur) does not. Only a confirmed time-out is reported as HANG.
fn execute(init: &Init, prog: &Prog, policy: Policy) -> Exec {
    let r = execute_confirmed(init, prog, policy);
    HANG_LIMIT.store(HANG_SECS, std::sync::atomic::Ordering::Relaxed);
    r
}
fn execute_confirmed(init: &Init, prog: &Prog, policy: Policy) -> Exec {
    // a time-out is reported only if it repeats TWICE (40 s each) after the machine has become responsive again
    let confirm = || {
        progress();
        settle();
        HANG_LIMIT.store(HANG_CONFIRM_SECS, std::sync::atomic::Ordering::Relaxed);
    };
    let (first, forced): (Exec, Option<&[usize]>) = match policy {
        Policy::Prefix(p) => (execute_once(init, prog, Policy::Prefix(p)), Some(p)),
        Policy::Random(r) => (execute_once(init, prog, Policy::Random(r)), None),
    };
    if !first.hang {
        return first;
    }
    let taken = first.taken.clone();
    let mut again = first;
    for _ in 0..2 {
        confirm();
        let ex = match forced {
            // the same forced prefix
            Some(p) => execute_once(init, prog, Policy::Prefix(p)),
            // the same choices up to the time-out, then the lowest enabled thread: a complete schedule
            None => {
                let mut e = execute_once(init, prog, Policy::Prefix(&taken));
                e.complete = !e.hang;
                e
            }
        };
        if !ex.hang {
            STALLS.fetch_add(1, std::sync::atomic::Ordering::Relaxed);
            return ex;
        }
        again = ex;
    }
    HANGS.fetch_add(1, std::sync::atomic::Ordering::Relaxed);
    Exec { taken, ..again }
}

fn execute_once(init: &Init, prog: &Prog, mut policy: Policy) -> Exec {
    install_callback();
    let n = prog.len();
    let coll = mk_collector(init);
    use std::sync::atomic::Ordering::{Acquire, Release};
    let coop = Arc::new(Coop {
        st: (0..n).map(|_| std::sync::atomic::AtomicU8::new(RUNNING)).collect(),
        grant: std::sync::atomic::AtomicUsize::new(NO_GRANT),
        abandoned: std::sync::atomic::AtomicBool::new(false),
    });
    let (rtx, rrx) = std::sync::mpsc::channel::<(usize, Option<(Vec<u32>, Vec<u32>)>)>();
    for (tid, ops) in prog.iter().enumerate() {
        let ops = ops.clone();
        let c = coll.clone();
        let coop2 = coop.clone();
        let rtx = rtx.clone();
        pool_submit(tid, Box::new(move || {
            let r = std::panic::catch_unwind(std::panic::AssertUnwindSafe(|| {
                let _fin = FinishGuard(tid, coop2.clone());
                ME.with(|m| *m.borrow_mut() = Some((tid, coop2.clone())));
                let mut secs = Vec::with_capacity(ops.len());
                let mut ylds = Vec::with_capacity(ops.len());
                for op in &ops {
                    let (l, y) = counted(|| apply(&c, op));
                    secs.push(l);
                    ylds.push(y);
                }
                (secs, ylds)
            }));
            ME.with(|m| *m.borrow_mut() = None);
            let _ = rtx.send((tid, r.ok()));
        }));
    }
    let mut taken = vec![];
    let mut enabled_log = vec![];
    let mut complete = false;
    let mut pos = 0usize; // position in a forced prefix
    let mut prefix_done = false;
    let mut hang = false;
    loop {
        // wait until no managed thread is running
        if !wait_until(Some(std::time::Duration::from_secs(HANG_LIMIT.load(std::sync::atomic::Ordering::Relaxed))), || coop.st.iter().all(|s| s.load(Acquire) != RUNNING)) {
            hang = true;
            break;
        }
        let enabled: Vec<usize> = (0..n).filter(|i| coop.st[*i].load(Acquire) == PARKED).collect();
        let choice = match &mut policy {
            Policy::Prefix(p) => {
                let mut ch = None;
                while pos < p.len() {
                    let t = p[pos];
                    pos += 1;
                    if enabled.contains(&t) {
                        ch = Some(t);
                        break;
                    }
                }
                if ch.is_none() && !prefix_done {
                    prefix_done = true;
                    complete = enabled.is_empty();
                }
                ch.or_else(|| enabled.first().copied())
            }
            Policy::Random(r) => {
                if enabled.is_empty() {
                    complete = true;
                    None
                } else {
                    Some(enabled[r.below(enabled.len())])
                }
            }
        };
        match choice {
            None => break,
            Some(t) => {
                taken.push(t);
                enabled_log.push(enabled);
                coop.st[t].store(RUNNING, Release);
                coop.grant.store(t, Release);
            }
        }
    }
    if let Policy::Prefix(p) = &policy {
        if !prefix_done {
            // the whole prefix was consumed exactly when the last thread finished
            let _ = p;
            complete = true;
        }
    }
    if hang {
        // release the parked threads, abandon the blocked one(s) together with their worker threads
        // (a thread blocked on a mutex cannot be cancelled), and never touch this collector again
        coop.abandoned.store(true, Release);
        POOL.lock().unwrap_or_else(std::sync::PoisonError::into_inner).clear();
        std::mem::forget(coll);
        return Exec { taken, enabled: enabled_log, complete: false, secs: vec![vec![]; n], yields: vec![vec![]; n], snap: String::new(), keys: vec![], json: String::new(), json_fail: None, el: false, panicked: false, hang: true };
    }
    let mut secs = vec![vec![]; n];
    let mut yields = vec![vec![]; n];
    let mut panicked = false;
    for _ in 0..n {
        match rrx.recv() {
            Ok((tid, Some((s, y)))) => { secs[tid] = s; yields[tid] = y; }
            _ => panicked = true,
        }
    }
    let obs = guarded(|| (canon_snapshot(&coll), json_obs(&coll), coll.elapsed().is_some()));
    match obs {
        Ok((snap, j, el)) => Exec { taken, enabled: enabled_log, complete, secs, yields, snap, keys: j.keys, json: j.canon, json_fail: j.fail, el, panicked, hang: false },
        Err(_) => Exec { taken, enabled: enabled_log, complete, secs, yields, snap: String::new(), keys: vec![], json: String::new(), json_fail: None, el: false, panicked: true, hang: false },
    }
}

type State = BTreeMap<String, Val>;

fn state_of(c: &MetricsCollector) -> State {
    c.snapshot()
        .into_iter()
        .map(|(k, v)| {
            let val = if let Some(n) = v.as_u64() { Val::C(n) } else { Val::G(v.as_f64().unwrap_or(0.0) as u64) };
            (k, val)
        })
        .collect()
}
fn collector_of(st: &State) -> MetricsCollector {
    let mut c = MetricsCollector::new();
    for (k, v) in st {
        c.register(boxed(k, *v));
    }
    c
}

/// All final snapshots the REAL code produces when the calls are made one after the other (single thread,
/// no scheduler) in every order that respects each thread's program order. Computed level by level over the
/// vectors of per-thread positions (the metric map is the whole state that matters for a snapshot; it is
/// rebuilt with the real `register` between calls), so the cost is polynomial, not one run per order.
fn serial_outcomes(init: &Init, prog: &Prog) -> HashSet<String> {
    use std::collections::HashMap;
    let n = prog.len();
    let total: usize = prog.iter().map(Vec::len).sum();
    let mut cur: HashMap<Vec<usize>, HashSet<State>> = HashMap::new();
    cur.entry(vec![0; n]).or_default().insert(state_of(&mk_collector(init)));
    for _ in 0..total {
        let mut next: HashMap<Vec<usize>, HashSet<State>> = HashMap::new();
        for (pos, states) in &cur {
            for t in 0..n {
                if pos[t] < prog[t].len() {
                    let mut np = pos.clone();
                    np[t] += 1;
                    let slot = next.entry(np).or_default();
                    for st in states {
                        let c = collector_of(st);
                        apply(&c, &prog[t][pos[t]]);
                        slot.insert(state_of(&c));
                    }
                }
            }
        }
        cur = next;
    }
    cur.values()
        .flat_map(|states| states.iter())
        .map(|st| {
            join_or(st.iter().map(|(k, v)| match v { Val::C(n) => format!("{k}:c{n}"), Val::G(n) => format!("{k}:g{n}") }).collect(), ",")
        })
        .collect()
}

fn written_names(init: &Init, prog: &Prog) -> BTreeSet<&'static str> {
    let mut s = BTreeSet::new();
    for (k, _) in init {
        s.insert(*k);
    }
    for t in prog {
        for op in t {
            match op {
                Op::Inc(k, _) | Op::Set(k, _) | Op::RegC(k, _) | Op::RegG(k, _) => { s.insert(*k); }
                _ => {}
            }
        }
    }
    s
}

/// `Some(expected final counters)` when the program consists of increments only and every initial metric
/// is a counter: final = initial + Σ increments, per name.
fn inc_only_expectation(init: &Init, prog: &Prog) -> Option<BTreeMap<&'static str, u64>> {
    let mut m = BTreeMap::new();
    for (k, v) in init {
        match v {
            Val::C(n) => { m.insert(*k, *n); }
            Val::G(_) => return None,
        }
    }
    let mut any = false;
    for t in prog {
        for op in t {
            match op {
                Op::Inc(k, n) => { *m.entry(*k).or_insert(0) += *n; any = true; }
                Op::St | Op::En | Op::El | Op::Js | Op::Sn => {}
                _ => return None,
            }
        }
    }
    if any { Some(m) } else { None }
}

struct ProgOracle {
    serial: HashSet<String>,
    inc_only: Option<String>,
    names: BTreeSet<&'static str>,
}
fn prog_oracle(init: &Init, prog: &Prog) -> ProgOracle {
    let inc_only = inc_only_expectation(init, prog)
        .map(|m| join_or(m.iter().map(|(k, n)| format!("{k}:c{n}")).collect(), ","));
    ProgOracle { serial: serial_outcomes(init, prog), inc_only, names: written_names(init, prog) }
}

fn emit(cx: &mut Ctx, init: &Init, prog: &Prog, sched: &[usize], ex: &Exec, orc: &ProgOracle, what: &str) {
    let nt = prog.iter().filter(|t| !t.is_empty()).count() >= 2;
    let req = format!("METRICS init={} th={} sched={}", enc_init(init), enc_prog(prog), enc_sched(sched));
    let i = cx.case(req, ex.answer(), nt);
    tick(cx);
    cx.count(&format!("metrics:{what}"));
    let max_secs = ex.secs.iter().flatten().copied().max().unwrap_or(0);
    cx.count(&format!("metrics:max-sections-per-call={max_secs}"));
    if ex.hang {
        cx.oracle_fail(i, "collector-call-hangs", format!("after the schedule prefix {:?} a thread neither reached its next lock acquisition nor finished within {HANG_SECS} s, nor — twice, each time after the machine had become responsive again — within {HANG_CONFIRM_SECS} s", ex.taken));
        return;
    }
    if ex.panicked {
        cx.oracle_fail(i, "collector-panicked", "a collector call panicked".into());
        return;
    }
    if ex.secs != ex.yields {
        cx.oracle_fail(i, "lock-acquisition-without-yield-point", format!("guard acquisitions per call {:?} (counted inside src/metrics.rs) differ from the yield points passed {:?}: the scheduler does not see every critical section", ex.secs, ex.yields));
        return;
    }
    if let Some(want) = &orc.inc_only {
        if &ex.snap != want {
            cx.oracle_fail(i, "lost-update", format!("increment-only program: final {} but initial + sum of increments = {}", ex.snap, want));
            return;
        }
    }
    if !orc.serial.contains(&ex.snap) {
        cx.oracle_fail(
            i,
            "non-serializable-outcome",
            format!("final snapshot {} is not produced by any one-call-at-a-time order (serial outcomes: {:?})", ex.snap, {
                let mut v: Vec<_> = orc.serial.iter().cloned().collect();
                v.sort();
                v.truncate(6);
                v
            }),
        );
        return;
    }
    for k in &orc.names {
        if !ex.keys.iter().any(|x| x == k) {
            cx.oracle_fail(i, "json-missing-registered-key", format!("{k} was registered but to_json keys = {:?}", ex.keys));
            return;
        }
    }
    if let Some((sig, d)) = &ex.json_fail {
        cx.oracle_fail(i, sig, d.clone());
    }
}

/// Enumerate every complete schedule of `prog` on the real code (stateless DFS); returns the number of
/// executions and whether the enumeration was cut off by `cap`.
fn explore(cx: &mut Ctx, init: &Init, prog: &Prog, cap: usize, what: &str) -> (usize, bool) {
    if hangs() >= 2 {
        cx.count("metrics:skipped-after-2-hangs");
        return (0, true);
    }
    let orc = prog_oracle(init, prog);
    let mut prefix: Vec<usize> = vec![];
    let mut runs = 0usize;
    loop {
        let mut ex = execute(init, prog, Policy::Prefix(&prefix));
        runs += 1;
        // the request carries the whole schedule that was taken (forced prefix + lowest-thread-first tail)
        ex.complete = true;
        let sched = ex.taken.clone();
        emit(cx, init, prog, &sched, &ex, &orc, what);
        if ex.hang {
            return (runs, true);
        }
        // backtrack: deepest position with an untried (larger) enabled thread
        let mut next = None;
        for j in (0..ex.taken.len()).rev() {
            if let Some(t) = ex.enabled[j].iter().copied().filter(|t| *t > ex.taken[j]).min() {
                let mut p = ex.taken[..j].to_vec();
                p.push(t);
                next = Some(p);
                break;
            }
        }
        match next {
            None => return (runs, false),
            Some(p) => prefix = p,
        }
        if runs >= cap {
            cx.count("metrics:enumeration-truncated-programs");
            return (runs, true);
        }
    }
}

fn all_progs(alpha: &[Op], shape: &[usize]) -> Vec<Prog> {
    let mut out: Vec<Prog> = vec![vec![]];
    for &len in shape {
        let mut seqs: Vec<Vec<Op>> = vec![vec![]];
        for _ in 0..len {
            let mut nx = vec![];
            for s in &seqs {
                for o in alpha {
                    let mut t = s.clone();
                    t.push(*o);
                    nx.push(t);
                }
            }
            seqs = nx;
        }
        let mut nx = vec![];
        for p in &out {
            for s in &seqs {
                let mut q = p.clone();
                q.push(s.clone());
                nx.push(q);
            }
        }
        out = nx;
    }
    out
}

/// increments whose amounts are distinct powers of two: the final value says exactly which were reflected
fn binary_weight_prog(threads: usize, per: usize) -> Prog {
    (0..threads).map(|t| (0..per).map(|j| Op::Inc("a", 1u64 << (t * per + j))).collect()).collect()
}

// ---------------------------------------------------------------------------------------------
// free-running stress
// ---------------------------------------------------------------------------------------------

fn stress(cx: &mut Ctx, init: Option<u64>, threads: usize, per: usize, amounts: &[u64], jitter: bool) {
    let amounts_v = amounts.to_vec();
    let want: u64 = init.unwrap_or(0) + (0..threads).map(|t| amounts[t % amounts.len()] * per as u64).sum::<u64>();
    let req = format!(
        "STRESS init={} threads={threads} per={per} amounts={}",
        init.map(|n| n.to_string()).unwrap_or_else(|| "none".into()),
        amounts.iter().map(|x| x.to_string()).collect::<Vec<_>>().join(",")
    );
    // the whole free-running run sits under a watchdog: a deadlocking collector gives HANG, not a hung check
    let mut r = None;
    for (attempt, secs) in [60u64, 150].into_iter().enumerate() {
        if attempt > 0 {
            settle();
        }
        let a = amounts_v.clone();
        r = pipe::with_watchdog(secs, move || stress_body(init, threads, per, &a, jitter));
        progress();
        if r.is_some() {
            break;
        }
        cx.count("stress:time-out-re-executed");
    }
    let (got, panicked) = match r {
        Some(Ok(x)) => x,
        Some(Err(_)) => (Err("panic".to_string()), true),
        None => {
            HANGS.fetch_add(1, std::sync::atomic::Ordering::Relaxed);
            let i = cx.case(req, "HANG".into(), true);
            cx.oracle_fail(i, "collector-call-hangs", format!("{threads} free-running threads x {per} increments did not finish within 60 s, nor within 150 s when run again after the machine had settled"));
            return;
        }
    };
    let real = match (&got, panicked) {
        (Ok(Some(n)), false) => format!("final={n} complete=T"),
        _ => "PANIC".into(),
    };
    let i = cx.case(req, real, threads >= 2);
    tick(cx);
    cx.count("stress:runs");
    cx.count_n("stress:increments", (threads * per) as u64);
    if got != Ok(Some(want)) {
        cx.oracle_fail(i, "lost-update-free-running", format!("{threads} threads x {per} increments: final {got:?}, initial + sum = {want}"));
    }
}

fn stress_body(init: Option<u64>, threads: usize, per: usize, amounts: &[u64], jitter: bool) -> (Result<Option<u64>, String>, bool) {
    let coll = MetricsCollector::new();
    if let Some(n) = init {
        coll.set_counter("ctr", n);
    }
    let barrier = Arc::new(std::sync::Barrier::new(threads));
    let hs: Vec<_> = (0..threads)
        .map(|t| {
            let c = coll.clone();
            let b = barrier.clone();
            let amt = amounts[t % amounts.len()];
            std::thread::spawn(move || {
                b.wait();
                for j in 0..per {
                    c.increment_counter("ctr", amt);
                    if jitter && j % 64 == 0 {
                        std::thread::yield_now();
                    }
                }
            })
        })
        .collect();
    let mut panicked = false;
    for h in hs {
        panicked |= h.join().is_err();
    }
    let got = guarded(|| coll.snapshot().get("ctr").and_then(|v| v.as_u64()));
    (got, panicked)
}

// ---------------------------------------------------------------------------------------------
// pipelines with / without a collector
// ---------------------------------------------------------------------------------------------

const SLEEP_MS: u64 = 4;
const GAP_MS: u64 = 25;

fn outcome_of(r: Option<Result<anyhow::Result<Vec<V>>, String>>) -> Outcome {
    match r {
        None => Outcome::Hang,
        Some(Err(msg)) => Outcome::Panic(msg),
        Some(Ok(Err(e))) => Outcome::Err(format!("{e}")),
        Some(Ok(Ok(rows))) => Outcome::Rows(rows),
    }
}

/// Build `prog` with the public builders on the GIVEN pipeline (which may carry a collector) and collect
/// it with the real engine; canonical `PIPE` answer.
fn run_prog_on(p: &Pipeline, prog: &PProg, mode: PMode) -> String {
    let mut out = Outcome::Hang;
    // a run that does not come back within 10 s is tried once more with 40 s before it counts as a HANG
    for (attempt, secs) in [10, 40].into_iter().enumerate() {
        progress();
        if attempt > 0 {
            settle();
        }
        let (p2, prog2) = (p.clone(), prog.clone());
        out = outcome_of(pipe::with_watchdog(secs, move || {
            let c = pipe::build(&p2, &prog2);
            pipe::collect(c, mode)
        }));
        if !matches!(out, Outcome::Hang) {
            break;
        }
    }
    pipe::outcome_answer(&out, prog.canon())
}

/// One `run_collect` that fails while planning (`pe`: unknown terminal node) or while executing
/// (`ee`: the requested element type is not the collection's).
fn run_failing(p: &Pipeline, kind: &str) -> String {
    let r = Runner { mode: ExecMode::Sequential, ..Default::default() };
    match kind {
        "pe" => match r.run_collect::<i64>(p, NodeId::new(987_654_321)) {
            Err(_) => "pe".into(),
            Ok(_) => "ok:unexpected".into(),
        },
        _ => {
            let c = from_vec(p, vec![1i64, 2, 3]);
            match r.run_collect::<String>(p, c.node_id()) {
                Err(_) => "ee".into(),
                Ok(_) => "ok:unexpected".into(),
            }
        }
    }
}

/// the request text of a pipeline: the `PIPE` grammar without the `PIPE` kind
fn prog_text(prog: &PProg, mode: PMode) -> String {
    prog.request(&mode.enc()).trim_start_matches("PIPE ").to_string()
}

/// `MRUN`: the same generated program collected (a) on a pipeline without a collector — the baseline —,
/// (b) on a second pipeline without one, (c) on a pipeline WITH a collector, optionally while another
/// thread hammers that collector. The model computes the expected result from the program's description.
/// what another thread does to the shared collector WHILE the pipeline runs
#[derive(Clone, Copy, PartialEq, Eq, Debug)]
enum Hammer {
    No,
    /// `increment_counter` + `snapshot`
    IncSnap,
    /// `set_counter`, `register` (gauge / counter under changing names), `increment_counter`, `to_json`, `elapsed`
    SetRegister,
}

fn mrun(cx: &mut Ctx, prog: &PProg, mode: PMode, pre: &[Op], runs: &[&str], hammer: Hammer) {
    let canon = prog.canon();
    let base = run_prog_on(&Pipeline::default(), prog, mode);
    // independent plain-Rust evaluation of the same steps (no ironbeam, no Lean)
    let want_ref = pipe::ref_answer(&pipe::reference(prog), canon);
    for with in [false, true] {
        let p = Pipeline::default();
        let coll = MetricsCollector::new();
        for op in pre {
            apply(&coll, op);
        }
        if with {
            p.set_metrics(coll.clone());
        }
        let stop = Arc::new(std::sync::atomic::AtomicBool::new(false));
        let hammer_thread = if with && hammer != Hammer::No {
            let c = coll.clone();
            let s = stop.clone();
            Some(std::thread::spawn(move || {
                let mut n = 0u64;
                while !s.load(std::sync::atomic::Ordering::Relaxed) {
                    c.increment_counter("hammer", 1);
                    if hammer == Hammer::IncSnap {
                        let _ = c.snapshot();
                    } else {
                        c.set_counter("hset", n);
                        let mut h = c.clone();
                        match n % 3 {
                            0 => h.register(Box::new(GaugeMetric::new("hreg", n as f64).with_description("hammer"))),
                            1 => h.register(Box::new(CounterMetric::with_value("hreg", n))),
                            _ => h.register(Box::new(ironbeam::metrics::HistogramMetric::with_values("hreg", vec![n as f64, 1.0]))),
                        }
                        let _ = c.to_json();
                        let _ = c.elapsed();
                    }
                    n += 1;
                }
                n
            }))
        } else {
            None
        };
        let mut res = vec![];
        let mut last_ok = false;
        let mut mismatch = None;
        for k in runs {
            if *k == "ok" {
                let t = run_prog_on(&p, prog, mode);
                if t != base {
                    mismatch = Some(t.clone());
                }
                last_ok = t.starts_with("OK");
                res.push(t);
            } else {
                // a run that does not come back within 10 s is tried once more with 40 s before it counts as a HANG
                let mut out = None;
                for (attempt, secs) in [10u64, 40].into_iter().enumerate() {
                    if attempt > 0 {
                        settle();
                    }
                    let (p2, k2) = (p.clone(), k.to_string());
                    out = pipe::with_watchdog(secs, move || run_failing(&p2, &k2));
                    progress();
                    if out.is_some() {
                        break;
                    }
                }
                res.push(match out {
                    None => "HANG".into(),
                    Some(Err(_)) => "PANIC".into(),
                    Some(Ok(t)) => t,
                });
                last_ok = false;
            }
        }
        stop.store(true, std::sync::atomic::Ordering::Relaxed);
        let hammered = hammer_thread.map(|h| h.join().unwrap_or(0));
        let got = p.get_metrics();
        let mut real = format!("coll={}", if got.is_some() { "T" } else { "F" });
        let mut el = false;
        let mut jfail = None;
        let mut keys = vec![];
        if let Some(c) = &got {
            el = c.elapsed().is_some();
            let j = json_obs(c);
            let strip = |s: &str| join_or(s.split(',').filter(|r| !r.starts_with("hammer:") && !r.starts_with("hset:") && !r.starts_with("hreg:") && *r != "-").map(String::from).collect(), ",");
            let json_s = strip(&j.canon);
            let snap_s = strip(&canon_snapshot(c));
            keys = j.keys;
            jfail = j.fail;
            // is a start stamp present? observable as: after one more record_end an elapsed time exists
            c.record_end();
            let start_set = c.elapsed().is_some();
            let taken = p.take_metrics().is_some();
            let after = p.get_metrics().is_some();
            real.push_str(&format!(
                " el={} start={} json={} snap={} take={} after={}",
                if el { "T" } else { "F" },
                if start_set { "T" } else { "F" },
                json_s,
                snap_s,
                if taken { "T" } else { "F" },
                if after { "T" } else { "F" }
            ));
            if !taken || after {
                jfail = Some(("take-metrics-wrong", format!("take_metrics().is_some() = {taken}, get_metrics() afterwards is_some() = {after}")));
            }
        }
        real.push_str(&format!(" res= {}", res.join(" ;; ")));
        let req = format!("MRUN coll={} pre={} runs={} {}", u8::from(with), enc_ops(pre), runs.join(","), prog_text(prog, mode));
        let i = cx.case(req, real, with && prog.src.len() >= 2 && !prog.steps.is_empty());
        tick(cx);
        cx.count(&format!("mrun:mode:{}", match mode { PMode::Seq => "seq", PMode::Par(_) => "par" }));
        cx.count(if with { "mrun:with-collector" } else { "mrun:without-collector" });
        cx.count(&format!("mrun:outcome:{}", base.split(' ').next().unwrap_or("")));
        if with {
            pipe::count_prog(cx, prog);
        }
        if res.iter().any(|r| r == "HANG") || base == "HANG" {
            cx.oracle_fail(i, "run-does-not-terminate", format!("no result within 10 s nor, run again, within 40 s: baseline {base}, runs {res:?}"));
            continue;
        }
        if let Some(n) = hammered {
            cx.count(&format!("mrun:hammered-during-run:{hammer:?}"));
            if let Some(c) = &got {
                let h = c.snapshot().get("hammer").and_then(|v| v.as_u64());
                if n > 0 && h != Some(n) {
                    cx.oracle_fail(i, "lost-update-free-running", format!("hammer thread made {n} increments, counter shows {h:?}"));
                }
            }
        }
        if let Some(t) = mismatch {
            cx.oracle_fail(i, "collector-changed-result", format!("{} {}: without collector {base}, {} {t}", prog_text(prog, mode), mode.enc(), if with { "with collector" } else { "second pipeline without collector" }));
        }
        if base != want_ref {
            cx.oracle_fail(i, "pipeline-result-differs-from-reference", format!("{}: real (no collector) {base}, plain-vector reference {want_ref}", prog_text(prog, mode)));
        }
        if with && last_ok && !el {
            cx.oracle_fail(i, "elapsed-missing-after-success", "run_collect returned Ok but elapsed() is None".into());
        }
        if with {
            for k in written_names(&vec![], &vec![pre.to_vec()]) {
                if !keys.iter().any(|x| x == k) {
                    cx.oracle_fail(i, "json-missing-registered-key", format!("{k} registered before the run, to_json keys = {keys:?}"));
                }
            }
            if let Some((sig, d)) = jfail {
                cx.oracle_fail(i, sig, d);
            }
        }
    }
}

/// `MSLEEP`: a pipeline whose closure sleeps `SLEEP_MS`, run `nruns` times on one pipeline with a collector
/// (`GAP_MS` apart). The stamps are taken inside the run, on both sides of the sleep, so after EVERY run
/// `SLEEP_MS <= elapsed() <= wall time of THAT run` (measured here around the call): a start stamp that is
/// not refreshed by the second run gives an elapsed time above the window, an end stamp that is not
/// refreshed gives zero (`duration_since` saturates). `execution_time_ms` of `to_json()` must be that elapsed time.
fn msleep(cx: &mut Ctx, mode: PMode, nruns: usize) {
    // a run that does not come back within 10 s is a machine stall or a dead-lock: the WHOLE case is run again
    // from scratch (fresh pipeline and collector, so that a late stamp of the stalled run cannot disturb the
    // measurement) with a 60 s limit; only a second time-out is reported
    let mut got = msleep_attempt(mode, nruns, 10);
    progress();
    if got.is_none() {
        cx.count("msleep:time-out-re-executed");
        settle();
        got = msleep_attempt(mode, nruns, 60);
        progress();
    }
    match got {
        Some((req, real, fails)) => {
            let i = cx.case(req, real, nruns >= 2);
            tick(cx);
            cx.count(&format!("msleep:runs={nruns}"));
            for (sig, d) in fails {
                cx.oracle_fail(i, sig, d);
            }
        }
        None => {
            let i = cx.case(format!("ORACLE-ONLY msleep-{}-{nruns}", mode.enc()), "-".into(), false);
            tick(cx);
            cx.oracle_fail(i, "run-does-not-terminate", format!("a pipeline whose closure sleeps {SLEEP_MS} ms ({}, {nruns} runs) did not return within 10 s nor, run again from scratch, within 60 s", mode.enc()));
        }
    }
}

fn msleep_attempt(mode: PMode, nruns: usize, watchdog_secs: u64) -> Option<(String, String, Vec<(&'static str, String)>)> {
    let n0 = 5i64;
    let prog = PProg { shape: Shape::T, src: vec![V::I(n0)], steps: vec![Step::Map(Fn_::Add(1))] };
    let p = Pipeline::default();
    let coll = MetricsCollector::new();
    p.set_metrics(coll.clone());
    let sleep = std::time::Duration::from_millis(SLEEP_MS);
    let (mut els, mut jts, mut res, mut ticks) = (vec![], vec![], vec![], vec![]);
    let mut fails: Vec<(&'static str, String)> = vec![];
    for r in 0..nruns {
        if r > 0 {
            std::thread::sleep(std::time::Duration::from_millis(GAP_MS));
        }
        let p2 = p.clone();
        let w0 = std::time::Instant::now();
        let out = outcome_of(pipe::with_watchdog(watchdog_secs, move || {
            let c = from_vec(&p2, vec![V::I(n0)]).map(move |v: &V| {
                std::thread::sleep(sleep);
                Fn_::Add(1).eval(v)
            });
            pipe::collect(pipe::Coll::T(c), mode)
        }));
        let wall = w0.elapsed();
        if matches!(out, Outcome::Hang) {
            return None;
        }
        res.push(pipe::outcome_answer(&out, "seq"));
        let el = coll.elapsed();
        let class = match el {
            None => "none",
            Some(d) if d < sleep => "below",
            Some(d) if d > wall => "above",
            Some(_) => "in",
        };
        if class != "in" {
            fails.push(("elapsed-outside-run-window", format!("run {} slept {SLEEP_MS} ms and took {wall:?} of wall time, but elapsed() = {el:?} ({class})", r + 1)));
        }
        let j = coll.to_json();
        let jv = j.get(EXEC_KEY).filter(|e| is_exec_entry(e)).and_then(|e| e.get("value")).and_then(|v| v.as_u64());
        let jt = match el { Some(d) => jv == Some(d.as_millis() as u64), None => j.get(EXEC_KEY).is_none() };
        if !jt {
            fails.push(("json-execution-time-differs-from-elapsed", format!("run {}: elapsed() = {el:?}, to_json()[execution_time_ms] = {:?}", r + 1, j.get(EXEC_KEY))));
        }
        els.push(class);
        jts.push(if jt { "T" } else { "F" });
        // nominal clock handed to the model: the harness reads w0, the run stamps a and b = a + sleep, the harness reads w1
        let b = 100 * r as u64;
        ticks.push(format!("{}.{}.{}.{}", b, b + 1, b + 1 + SLEEP_MS, b + 2 + SLEEP_MS));
    }
    let req = format!("MSLEEP sleep={SLEEP_MS} ticks={} {}", ticks.join(","), prog_text(&prog, mode));
    let real = format!("el={} jt={} res= {}", els.join(","), jts.join(","), res.join(" ;; "));
    Some((req, real, fails))
}

struct Panicky;
impl Metric for Panicky {
    fn name(&self) -> &str { "boom" }
    fn value(&self) -> serde_json::Value { panic!("user metric panicked in value()") }
    fn as_any(&self) -> &dyn std::any::Any { self }
}

/// is this build compiled with overflow checks (the harness and ironbeam share one cargo profile)?
fn overflow_checks() -> bool {
    guarded(|| {
        let x = std::hint::black_box(u64::MAX);
        #[allow(arithmetic_overflow)]
        let y = x + std::hint::black_box(1);
        std::hint::black_box(y)
    })
    .is_err()
}

/// `MPOISON how=… checks=…  <pipeline>`: a panic inside a critical section of the collector (u64 overflow of
/// `count + value` with overflow checks on; a user metric whose `value()` panics during `snapshot()`),
/// caught by the caller; afterwards the collector is attached to a pipeline and the pipeline is run.
fn poison_case(cx: &mut Ctx, how: &str, prog: &PProg, mode: PMode) {
    let checks = overflow_checks();
    let base = run_prog_on(&Pipeline::default(), prog, mode);
    let c = MetricsCollector::new();
    match how {
        "overflow" => {
            c.set_counter("c", u64::MAX);
            let _ = guarded(|| c.increment_counter("c", 1));
        }
        "usermetric" => {
            let mut h = c.clone();
            h.register(Box::new(Panicky));
            let _ = guarded(|| c.snapshot());
        }
        _ => c.set_counter("c", 1),
    }
    let p = Pipeline::default();
    p.set_metrics(c.clone());
    let got = run_prog_on(&p, prog, mode);
    let cv = if how == "usermetric" { "-".to_string() } else {
        guarded(|| c.snapshot().get("c").and_then(|v| v.as_u64())).ok().flatten().map_or("?".into(), |n| n.to_string())
    };
    let i = cx.case(format!("MPOISON how={how} checks={} {}", u8::from(checks), prog_text(prog, mode)), format!("c={cv} res= {got}"), how != "none");
    tick(cx);
    cx.count(&format!("mpoison:{how}"));
    if got != base {
        cx.oracle_fail(i, "poisoned-collector-changed-result", format!("pipeline without collector: {base}; with a collector that had a panic inside a critical section ({how}): {got}"));
    }
}

/// `MOVF`: one `increment_counter("c", add)` at the `u64` boundary. Whatever the build profile does with the
/// overflowing addition (panic / wrap), afterwards the collector must still be usable and the metric still
/// a counter; below the boundary the sum must be exact.
fn overflow_case(cx: &mut Ctx, init: Option<Result<u64, ()>>, add: u64) {
    let checks = overflow_checks();
    let c = MetricsCollector::new();
    match init {
        Some(Ok(n)) => c.set_counter("c", n),
        Some(Err(())) => { let mut h = c.clone(); h.register(boxed("c", Val::G(1))); }
        None => {}
    }
    let call = guarded(|| c.increment_counter("c", add));
    let snap = guarded(|| canon_snapshot(&c)).unwrap_or_else(|_| "PANIC".into());
    let usable = guarded(|| { c.increment_counter("other", 1); c.snapshot().get("other").and_then(|v| v.as_u64()) }) == Ok(Some(1));
    let req = format!("MOVF checks={} init={} add={add}", u8::from(checks), match init { Some(Ok(n)) => n.to_string(), Some(Err(())) => "g".into(), None => "none".into() });
    let i = cx.case(req, format!("call={} snap={snap}", if call.is_ok() { "ok" } else { "PANIC" }), true);
    tick(cx);
    cx.count("movf:cases");
    if !usable {
        cx.oracle_fail(i, "collector-unusable-after-overflow", format!("after increment_counter(c, {add}) on {init:?} the collector no longer accepts calls"));
    }
    if let Some(Ok(n)) = init {
        match n.checked_add(add) {
            Some(sum) => {
                if call.is_err() || snap != format!("c:c{sum}") {
                    cx.oracle_fail(i, "lost-update", format!("{n} + {add} fits u64 but the call gave {call:?}, snapshot {snap}"));
                }
            }
            None => {
                // beyond the counter type the sum law cannot hold for any u64 counter (out of the property's
                // scope): the only demands are that the metric is still a counter and the collector usable;
                // WHAT the code does there (panic / wrap) is pinned by the correspondence with `incAtomic64`
                cx.count("movf:overflowing");
                if !snap.starts_with("c:c") {
                    cx.oracle_fail(i, "overflow-corrupts-counter", format!("{n} + {add} overflows u64; afterwards the metric is not a counter any more: {snap}"));
                }
            }
        }
    }
}

// ---------------------------------------------------------------------------------------------
// lock sites of src/metrics.rs (source scan): the scheduler only sees locks that have a yield point
// ---------------------------------------------------------------------------------------------

fn repo_metrics_rs() -> Option<String> {
    repo_src("src/metrics.rs")
}
fn repo_src(file: &str) -> Option<String> {
    let manifest = std::fs::read_to_string(concat!(env!("CARGO_MANIFEST_DIR"), "/Cargo.toml")).ok()?;
    let line = manifest.lines().find(|l| l.trim_start().starts_with("ironbeam"))?;
    let i = line.find("path")?;
    let rest = &line[i..];
    let q1 = rest.find('"')?;
    let q2 = rest[q1 + 1..].find('"')?;
    let path = &rest[q1 + 1..q1 + 1 + q2];
    std::fs::read_to_string(format!("{path}/{file}")).ok()
}

/// `LOCKSITES`: every public method of the collector is called ONCE on this thread and the guard acquisitions
/// it makes are COUNTED by the wrapper the `verif-hooks` feature puts around `self.inner.lock()` inside
/// src/metrics.rs (not a text scan: whatever the method's code looks like, every `.lock()`/`.try_lock()` on the
/// collector's mutex is counted when it happens), together with the yield points it passes. `uncovered` =
/// methods whose acquisitions and yield points differ (a critical section the cooperative scheduler cannot see)
/// + lock expressions in src/metrics.rs that do NOT go through the counting wrapper (`Mutex::lock(&…)`, a
/// second mutex, …; text scan, only as a tripwire for the counter's own blind spot).
fn lock_sites(cx: &mut Ctx) {
    use ironbeam::metrics::HistogramMetric;
    let fresh = || {
        let mut c = MetricsCollector::new();
        c.register(boxed("a", Val::C(1)));
        c.register(boxed("g", Val::G(2)));
        c
    };
    let dir = tempfile::tempdir().ok();
    let path = dir.as_ref().map(|d| d.path().join("m.json").to_string_lossy().to_string()).unwrap_or_else(|| "/tmp/c16-locksites.json".into());
    let mut rows: Vec<(&str, (u32, u32))> = vec![];
    let c = fresh();
    rows.push(("elapsed", counted(|| { let _ = c.elapsed(); })));
    rows.push(("increment_counter/absent", counted(|| c.increment_counter("zz", 1))));
    rows.push(("increment_counter/counter", counted(|| c.increment_counter("a", 1))));
    rows.push(("increment_counter/other", counted(|| c.increment_counter("g", 1))));
    rows.push(("print", counted(|| c.print())));
    rows.push(("record_end", counted(|| c.record_end())));
    rows.push(("record_start", counted(|| c.record_start())));
    let mut h = c.clone();
    rows.push(("register", counted(|| h.register(Box::new(HistogramMetric::new("h"))))));
    rows.push(("register_all/2", counted(|| h.register_all(vec![boxed("r1", Val::C(1)), boxed("r2", Val::G(1))]))));
    rows.push(("save_to_file", counted(|| { let _ = c.save_to_file(&path); })));
    rows.push(("set_counter", counted(|| c.set_counter("a", 3))));
    rows.push(("snapshot", counted(|| { let _ = c.snapshot(); })));
    rows.push(("to_json", counted(|| { let _ = c.to_json(); })));
    let mut uncovered: Vec<String> = rows.iter().filter(|(_, (l, y))| l != y).map(|(m, (l, y))| format!("{m}: {l} acquisitions, {y} yield points")).collect();
    // tripwire for what the counter cannot see: lock expressions that bypass `self.inner.lock()`
    match repo_metrics_rs() {
        Some(src) => {
            let body = src.split("trait VerifCountedLock").next().unwrap_or("");
            for (n, l) in body.lines().enumerate() {
                let t = l.trim_start();
                if t.starts_with("//") {
                    continue;
                }
                let code = t.split("//").next().unwrap_or("");
                let mut rest = code;
                while let Some(i) = rest.find("lock(") {
                    let before = &rest[..i];
                    let counted_form = before.ends_with("self.inner.") || before.ends_with("self.inner.try_");
                    if !counted_form {
                        uncovered.push(format!("line {}: lock expression that is not `self.inner.lock()`: {}", n + 1, t));
                    }
                    rest = &rest[i + 5..];
                }
            }
            if !src.contains("impl VerifCountedLock for Arc<Mutex<MetricsCollectorInner>>") {
                uncovered.push("the counting wrapper (hook) is missing from src/metrics.rs".into());
            }
        }
        None => cx.notes.push("C16: src/metrics.rs not readable from the harness; the textual tripwire of LOCKSITES was skipped (the counted acquisitions were compared)".into()),
    }
    // a `try_lock` anywhere in the collector or in the pipeline's metric calls silently SKIPS the update under
    // contention (seeded change C16-b: `record_metrics_start/end` with `try_lock` lose a stamp when another thread
    // holds the graph lock) — invisible to the cooperative scheduler, whose threads never pause while holding a lock
    for file in ["src/metrics.rs", "src/pipeline.rs"] {
        if let Some(src) = repo_src(file) {
            let body = src.split("trait VerifCountedLock").next().unwrap_or("");
            for (n, l) in body.lines().enumerate() {
                let t = l.trim_start();
                if !t.starts_with("//") && t.split("//").next().unwrap_or("").contains("try_lock") {
                    uncovered.push(format!("{file} line {}: try_lock (an update that is skipped when the lock is contended): {}", n + 1, t));
                }
            }
        }
    }
    let real = format!(
        "sites={} uncovered={}",
        join_or(rows.iter().map(|(k, (l, _))| format!("{k}:{l}")).collect(), ","),
        uncovered.len()
    );
    let i = cx.case("LOCKSITES".into(), real, false);
    cx.count_n("locksites:guard-acquisitions-counted", rows.iter().map(|(_, (l, _))| u64::from(*l)).sum());
    if !uncovered.is_empty() {
        cx.oracle_fail(i, "lock-acquisition-without-yield-point", format!("critical sections the cooperative scheduler cannot see: {uncovered:?}"));
    }
}

// ---------------------------------------------------------------------------------------------
// MJSON: the export over the whole value space
// ---------------------------------------------------------------------------------------------

use ironbeam::metrics::HistogramMetric;
use serde_json::Value as JV;

/// a user `impl Metric` with an arbitrary JSON value and an optional description
struct UserMetric {
    name: String,
    value: JV,
    desc: Option<String>,
}
impl Metric for UserMetric {
    fn name(&self) -> &str { &self.name }
    fn value(&self) -> JV { self.value.clone() }
    fn description(&self) -> Option<&str> { self.desc.as_deref() }
    fn as_any(&self) -> &dyn std::any::Any { self }
}

#[derive(Clone, Debug)]
enum JM {
    C(u64),
    G(f64, Option<String>),
    H(Vec<f64>, Option<String>),
    U(JV, Option<String>),
}
#[derive(Clone, Debug)]
enum JOp {
    Reg(String, JM),
    Set(String, u64),
    Inc(String, u64),
    St,
    En,
}

fn name_hex(s: &str) -> String {
    if s.is_empty() { "_".into() } else { crate::ctx::hex(s.as_bytes()) }
}
fn desc_tok(d: Option<&str>) -> String {
    match d {
        None => "-".into(),
        Some(d) => format!("d{}", crate::ctx::hex(d.as_bytes())),
    }
}
/// canonical rendering of a JSON value: floats by their bits, strings and member names in hex, members sorted
fn val_tok(v: &JV) -> String {
    match v {
        JV::Null => "n".into(),
        JV::Bool(b) => if *b { "bt".into() } else { "bf".into() },
        JV::Number(n) => {
            if let Some(u) = n.as_u64() { format!("u{u}") }
            else if let Some(i) = n.as_i64() { format!("i{i}") }
            else { format!("f{:016x}", n.as_f64().unwrap_or(f64::NAN).to_bits()) }
        }
        JV::String(s) => format!("s{}", crate::ctx::hex(s.as_bytes())),
        JV::Array(a) => format!("[{}]", a.iter().map(val_tok).collect::<Vec<_>>().join("|")),
        JV::Object(o) => {
            let mut rows: Vec<String> = o.iter().map(|(k, v)| format!("{}>{}", name_hex(k), val_tok(v))).collect();
            rows.sort();
            format!("{{{}}}", rows.join("|"))
        }
    }
}

fn jm_box(name: &str, m: &JM) -> Box<dyn Metric> {
    match m {
        JM::C(n) => Box::new(CounterMetric::with_value(name, *n)),
        JM::G(f, d) => {
            let g = GaugeMetric::new(name, *f);
            Box::new(match d { Some(d) => g.with_description(d.clone()), None => g })
        }
        JM::H(vs, d) => {
            // half of the values through `with_values`, the rest through `record`
            let k = vs.len() / 2;
            let mut h = HistogramMetric::with_values(name, vs[..k].to_vec());
            for v in &vs[k..] {
                h.record(*v);
            }
            Box::new(match d { Some(d) => h.with_description(d.clone()), None => h })
        }
        JM::U(v, d) => Box::new(UserMetric { name: name.to_string(), value: v.clone(), desc: d.clone() }),
    }
}

fn enc_jop(o: &JOp) -> String {
    match o {
        JOp::Reg(k, JM::C(n)) => format!("rc:{}:{n}", name_hex(k)),
        JOp::Reg(k, JM::G(f, d)) => format!("rg:{}:{:016x}:{}", name_hex(k), f.to_bits(), desc_tok(d.as_deref())),
        JOp::Reg(k, JM::H(vs, d)) => format!(
            "rh:{}:{}:{}",
            name_hex(k),
            if vs.is_empty() { "_".into() } else { vs.iter().map(|v| format!("{:016x}", v.to_bits())).collect::<Vec<_>>().join(".") },
            desc_tok(d.as_deref())
        ),
        JOp::Reg(k, JM::U(v, d)) => format!("ru:{}:{}:{}", name_hex(k), val_tok(v), desc_tok(d.as_deref())),
        JOp::Set(k, n) => format!("s:{}:{n}", name_hex(k)),
        JOp::Inc(k, n) => format!("i:{}:{n}", name_hex(k)),
        JOp::St => "st".into(),
        JOp::En => "en".into(),
    }
}

/// what the property says the export must show for one name: the metric's own `value()` and `description()`
#[derive(Clone, Debug)]
struct Expect {
    value: JV,
    desc: Option<String>,
    counter: Option<u64>,
    /// for a histogram: the statistics re-computed here from the recorded values
    hist: Option<JV>,
}

/// the standard library's start value of `Iterator::sum::<f64>()` (0.0 or -0.0, depending on the toolchain)
fn sum0() -> f64 {
    Vec::<f64>::new().iter().sum::<f64>()
}

/// plain re-computation of the histogram statistics (order by `total_cmp` through an integer key)
fn hist_expect(vs: &[f64]) -> JV {
    if vs.is_empty() {
        return serde_json::json!({"count": 0, "sum": 0.0, "mean": 0.0, "min": 0.0, "max": 0.0, "p50": 0.0, "p95": 0.0, "p99": 0.0});
    }
    let key = |f: &f64| { let b = f.to_bits(); if b >> 63 == 1 { !b } else { b | (1 << 63) } };
    let mut sorted = vs.to_vec();
    sorted.sort_by_key(key);
    let n = sorted.len();
    let mut sum = sum0();
    for x in &sorted {
        sum += *x;
    }
    serde_json::json!({"count": n, "sum": sum, "mean": sum / n as f64, "min": sorted[0], "max": sorted[n - 1],
        "p50": sorted[n / 2], "p95": sorted[n * 95 / 100], "p99": sorted[n * 99 / 100]})
}

fn mjson(cx: &mut Ctx, ops: &[JOp], what: &str) {
    let req = format!("MJSON sum0={:016x} ops={}", sum0().to_bits(), join_or(ops.iter().map(enc_jop).collect(), ";"));
    // expectation from the REQUEST alone (never from snapshot())
    let mut exp: BTreeMap<String, Expect> = BTreeMap::new();
    let (mut st, mut en) = (false, false);
    for o in ops {
        match o {
            JOp::Reg(k, m) => {
                let twin = jm_box(k, m);
                let value = guarded(|| twin.value()).unwrap_or(JV::String("<value() panicked>".into()));
                let hist = if let JM::H(vs, _) = m { Some(hist_expect(vs)) } else { None };
                exp.insert(k.clone(), Expect { value, desc: twin.description().map(String::from), counter: if let JM::C(n) = m { Some(*n) } else { None }, hist });
            }
            JOp::Set(k, n) => { exp.insert(k.clone(), Expect { value: serde_json::json!(n), desc: None, counter: Some(*n), hist: None }); }
            JOp::Inc(k, n) => {
                match exp.get(k).map(|e| e.counter) {
                    None => { exp.insert(k.clone(), Expect { value: serde_json::json!(n), desc: None, counter: Some(*n), hist: None }); }
                    Some(Some(c)) => { let s = c + n; exp.insert(k.clone(), Expect { value: serde_json::json!(s), desc: None, counter: Some(s), hist: None }); }
                    Some(None) => {} // a metric of another type is left alone
                }
            }
            JOp::St => st = true,
            JOp::En => en = true,
        }
    }
    // the real calls
    let ops2 = ops.to_vec();
    let run = guarded(move || {
        let c = MetricsCollector::new();
        for o in &ops2 {
            match o {
                JOp::Reg(k, m) => { let mut h = c.clone(); h.register(jm_box(k, m)); }
                JOp::Set(k, n) => c.set_counter(k, *n),
                JOp::Inc(k, n) => c.increment_counter(k, *n),
                JOp::St => c.record_start(),
                JOp::En => c.record_end(),
            }
        }
        let snap = c.snapshot();
        let el = c.elapsed();
        let j = c.to_json();
        let dir = tempfile::tempdir().map_err(|e| format!("tempdir: {e}"));
        let file: Result<JV, String> = dir.and_then(|d| {
            let path = d.path().join("metrics.json");
            let ps = path.to_string_lossy().to_string();
            c.save_to_file(&ps).map_err(|e| format!("save_to_file: {e}"))?;
            let text = std::fs::read_to_string(&path).map_err(|e| format!("read: {e}"))?;
            serde_json::from_str::<JV>(&text).map_err(|e| format!("parse: {e}"))
        });
        (snap, el, j, file)
    });
    // `T` (= "this member is the built-in execution-time entry") is only decided when both stamps are set: without them
    // to_json() inserts no such entry, and a USER metric registered under that name with the built-in description and an
    // integer value is indistinguishable from it by content (a false alarm seen once: seed 7, ops `ru:execution_time_ms:
    // u2163:<built-in description>;en`).
    let stamps_set = ops.iter().any(|o| matches!(o, JOp::St)) && ops.iter().any(|o| matches!(o, JOp::En));
    let render_doc = |j: &JV| -> String {
        let empty = serde_json::Map::new();
        let obj = j.as_object().unwrap_or(&empty);
        let mut rows: Vec<String> = obj
            .iter()
            .map(|(k, e)| {
                let v = e.get("value").cloned().unwrap_or(JV::String("<no value member>".into()));
                let d = e.get("description").and_then(|d| d.as_str());
                let shown = if k == EXEC_KEY && stamps_set && is_exec_entry(e) { "T".to_string() } else { val_tok(&v) };
                format!("{}={}~{}", name_hex(k), shown, desc_tok(d))
            })
            .collect();
        rows.sort();
        join_or(rows, ",")
    };
    let (snap, el, j, file) = match run {
        Ok(x) => x,
        Err(msg) => {
            let i = cx.case(req, "PANIC".into(), true);
            tick(cx);
            cx.count(&format!("mjson:{what}"));
            cx.oracle_fail(i, "export-panicked", format!("registering the metrics of the request and reading snapshot()/to_json()/save_to_file() panicked: {msg}"));
            return;
        }
    };
    let mut srows: Vec<String> = snap.iter().map(|(k, v)| format!("{}={}", name_hex(k), val_tok(v))).collect();
    srows.sort();
    let real = format!(
        "snap={} json={} file={}",
        join_or(srows, ","),
        render_doc(&j),
        match &file { Ok(f) => render_doc(f), Err(e) => format!("ERR:{}", e.replace([' ', ',', '\n'], "_")) }
    );
    let i = cx.case(req, real, exp.len() >= 2);
    tick(cx);
    cx.count(&format!("mjson:{what}"));
    cx.count(&format!("mjson:metrics={}", match exp.len() { 0 => "0", 1 => "1", 2..=4 => "2-4", _ => "5+" }));
    for o in ops {
        if let JOp::Reg(_, m) = o {
            cx.count(match m {
                JM::C(_) => "mjson:kind:counter",
                JM::G(f, _) if f.is_nan() => "mjson:kind:gauge-nan",
                JM::G(f, _) if f.is_infinite() => "mjson:kind:gauge-inf",
                JM::G(..) => "mjson:kind:gauge-finite",
                JM::H(v, _) if v.is_empty() => "mjson:kind:hist-empty",
                JM::H(v, _) if v.len() == 1 => "mjson:kind:hist-1",
                JM::H(v, _) if v.iter().any(|x| x.is_nan()) => "mjson:kind:hist-with-nan",
                JM::H(..) => "mjson:kind:hist-many",
                JM::U(v, _) if v.is_null() => "mjson:kind:user-null",
                JM::U(v, _) if v.is_object() => "mjson:kind:user-object",
                JM::U(..) => "mjson:kind:user-other",
            });
        }
    }
    // ---- the property's statement about the export, evaluated on the real output
    let mut fails: Vec<(&'static str, String)> = vec![];
    let empty = serde_json::Map::new();
    let obj = j.as_object().unwrap_or(&empty);
    if !j.is_object() {
        fails.push(("json-missing-registered-key", format!("to_json() is not an object: {j}")));
    }
    let both = st && en;
    for (k, e) in &exp {
        match obj.get(k) {
            None => fails.push(("json-missing-registered-key", format!("{k:?} was registered but to_json() keys = {:?}", obj.keys().collect::<Vec<_>>()))),
            Some(m) => {
                if both && k == EXEC_KEY && is_exec_entry(m) {
                    fails.push(("json-user-metric-shadowed-by-execution-time", format!("{k:?} = {} was registered but to_json()[{k:?}] is the execution time {m}", e.value)));
                    continue;
                }
                let v = m.get("value");
                if v.map(val_tok) != Some(val_tok(&e.value)) {
                    fails.push(("json-value-differs-from-registered-metric", format!("{k:?}: the metric's value() is {}, to_json()[{k:?}] = {m}", e.value)));
                }
                let d = m.get("description");
                if d.and_then(|d| d.as_str()) != e.desc.as_deref() || (d.is_some() && e.desc.is_none()) {
                    fails.push(("json-description-differs", format!("{k:?}: the metric's description() is {:?}, to_json()[{k:?}] = {m}", e.desc)));
                }
                if let Some(mo) = m.as_object() {
                    if mo.keys().any(|x| x != "value" && x != "description") {
                        fails.push(("json-has-unregistered-member", format!("to_json()[{k:?}] = {m} has members other than value/description")));
                    }
                }
            }
        }
    }
    for (k, m) in obj {
        if !exp.contains_key(k) && !(both && k == EXEC_KEY && is_exec_entry(m)) {
            fails.push(("json-has-unregistered-member", format!("to_json() has {k:?} = {m}, which was never registered")));
        }
    }
    if both {
        match obj.get(EXEC_KEY) {
            Some(m) if is_exec_entry(m) => {
                if m.get("value").and_then(|v| v.as_u64()) != el.map(|d| d.as_millis() as u64) {
                    fails.push(("json-execution-time-differs-from-elapsed", format!("to_json()[execution_time_ms] = {m}, elapsed() = {el:?}")));
                }
            }
            _ => fails.push(("json-execution-time-missing", format!("both stamps are set (elapsed() = {el:?}) but to_json() has no execution-time member"))),
        }
    }
    if both != el.is_some() {
        fails.push(("elapsed-missing-after-success", format!("record_start called: {st}, record_end called: {en}, elapsed() = {el:?}")));
    }
    for (k, e) in &exp {
        if let Some(want) = &e.hist {
            if val_tok(&e.value) != val_tok(want) {
                fails.push(("histogram-stats-wrong", format!("{k:?}: HistogramMetric::value() = {}, plain re-computation = {want}", e.value)));
            }
        }
    }
    let snap_keys: BTreeSet<&String> = snap.keys().collect();
    let exp_keys: BTreeSet<&String> = exp.keys().collect();
    if snap_keys != exp_keys || exp.iter().any(|(k, e)| snap.get(k).map(val_tok) != Some(val_tok(&e.value))) {
        fails.push(("snapshot-differs-from-registered-metrics", format!("snapshot() = {snap:?}, registered: {:?}", exp.iter().map(|(k, e)| (k, &e.value)).collect::<Vec<_>>())));
    }
    match &file {
        Err(e) => fails.push(("save-to-file-failed", e.clone())),
        Ok(f) => {
            // the two calls read the clock-free state; execution_time_ms is a stored pair of stamps, so it is equal too
            if render_doc(f) != render_doc(&j) || f.as_object().map(|o| o.len()) != Some(obj.len()) {
                fails.push(("save-to-file-differs-from-to-json", format!("file: {f}, to_json(): {j}")));
            }
        }
    }
    // a listed known finding must not mask another failure of the same case: report it last
    fails.sort_by_key(|f| f.0 == "json-user-metric-shadowed-by-execution-time");
    let mut seen = HashSet::new();
    for (sig, d) in fails {
        if seen.insert(sig) {
            cx.oracle_fail(i, sig, d);
        }
    }
}

const JNAMES: [&str; 22] = [
    "", "A", "a", " a ", "a ", "\u{e9}", "e\u{301}", "a.b", "Rows", "rows", "ROWS", " rows", "execution_time_ms", "Execution_Time_Ms",
    "a:b", "a,b", "\u{540d}\u{524d}", "a\nb", "value", "description", "a\"b", "\u{1f600}",
];
const JDESCS: [&str; 5] = ["", "rows read", "d\u{e9}bit", "Total pipeline execution time in milliseconds", "a b,c:d"];

fn gen_f64(cx: &mut Ctx, allow_nan: bool) -> f64 {
    let pool = [1.5, -0.0, 0.0, f64::INFINITY, f64::NEG_INFINITY, 1e300, -1e300, f64::MAX, f64::MIN_POSITIVE, 5e-324, -2.5, 3.0, 0.1, 1e-9, 123456789.125];
    match cx.rng.below(10) {
        0 if allow_nan => *cx.rng.pick(&[f64::NAN, -f64::NAN, f64::from_bits(0x7ff0_0000_0000_0001), f64::from_bits(0xfff8_0000_dead_beef)]),
        0..=5 => *cx.rng.pick(&pool),
        6 | 7 => cx.rng.range(-50, 50) as f64 / 4.0,
        _ => {
            let f = f64::from_bits(cx.rng.next_u64());
            if f.is_nan() && !allow_nan { 7.25 } else { f }
        }
    }
}
fn gen_json(cx: &mut Ctx, depth: usize) -> JV {
    match cx.rng.below(if depth == 0 { 7 } else { 5 }) {
        0 => JV::Null,
        1 => serde_json::json!(cx.rng.next_u64() >> cx.rng.below(64)),
        2 => serde_json::json!(-(cx.rng.below(1000) as i64) - 1),
        3 => { let f = gen_f64(cx, false); if f.is_finite() { serde_json::json!(f) } else { JV::Bool(cx.rng.chance(1, 2)) } }
        4 => JV::String((*cx.rng.pick(&JNAMES)).to_string()),
        5 => {
            let n = cx.rng.below(4);
            JV::Array((0..n).map(|_| gen_json(cx, depth + 1)).collect())
        }
        _ => {
            let n = cx.rng.below(4);
            let mut m = serde_json::Map::new();
            for _ in 0..n {
                let k = (*cx.rng.pick(&JNAMES)).to_string();
                let v = gen_json(cx, depth + 1);
                m.insert(k, v);
            }
            JV::Object(m)
        }
    }
}
fn gen_desc(cx: &mut Ctx) -> Option<String> {
    if cx.rng.chance(1, 2) { None } else { Some((*cx.rng.pick(&JDESCS)).to_string()) }
}
fn gen_jm(cx: &mut Ctx) -> JM {
    match cx.rng.below(10) {
        0 | 1 => JM::C(if cx.rng.chance(1, 4) { cx.rng.next_u64() >> cx.rng.below(64) } else { cx.rng.below(100) as u64 }),
        2 | 3 | 4 => { let f = gen_f64(cx, true); JM::G(f, gen_desc(cx)) }
        5 | 6 | 7 => {
            let n = match cx.rng.below(8) { 0 => 0, 1 => 1, 2 => 2, 3 => 21 + cx.rng.below(20), 4 => 100 + cx.rng.below(30), _ => 2 + cx.rng.below(12) };
            let nan = cx.rng.chance(1, 4);
            let small = cx.rng.chance(1, 2);
            let vs = (0..n).map(|_| if small { cx.rng.range(-8, 8) as f64 / 2.0 + if nan && cx.rng.chance(1, 5) { f64::NAN } else { 0.0 } } else { gen_f64(cx, nan) }).collect();
            JM::H(vs, gen_desc(cx))
        }
        _ => { let v = gen_json(cx, 0); JM::U(v, gen_desc(cx)) }
    }
}
fn gen_jops(cx: &mut Ctx) -> Vec<JOp> {
    let n = 1 + cx.rng.below(7);
    // a few names per case so that replacements and collisions-by-case happen
    let k = 1 + cx.rng.below(5);
    let names: Vec<String> = (0..k).map(|_| (*cx.rng.pick(&JNAMES)).to_string()).collect();
    let mut ops: Vec<JOp> = (0..n)
        .map(|_| {
            let name = cx.rng.pick(&names).clone();
            match cx.rng.below(10) {
                0 => JOp::Set(name, cx.rng.below(1000) as u64),
                1 | 2 => JOp::Inc(name, 1 + cx.rng.below(9) as u64),
                _ => JOp::Reg(name, gen_jm(cx)),
            }
        })
        .collect();
    match cx.rng.below(6) {
        0 => ops.push(JOp::St),
        1 => ops.push(JOp::En),
        2 | 3 => {
            let at = cx.rng.below(ops.len() + 1);
            ops.insert(at, JOp::St);
            ops.push(JOp::En);
        }
        _ => {}
    }
    ops
}

fn mjson_block(cx: &mut Ctx) {
    let s = |x: &str| x.to_string();
    let d = |x: &str| Some(x.to_string());
    // (1) corpus: the value space named by the audit, one metric kind / name at a time and all together
    let nan33: Vec<f64> = {
        // the reproduction of defect #20: 33 recorded values, 8 of them NaN (the pinned-commit sort panicked)
        let mut seed = 12345u64;
        (0..33).map(|_| { seed ^= seed << 13; seed ^= seed >> 7; seed ^= seed << 17; if seed % 4 == 0 { f64::NAN } else { (seed % 1000) as f64 } }).collect()
    };
    let singles: Vec<JOp> = vec![
        JOp::Reg(s("h0"), JM::H(vec![], None)),
        JOp::Reg(s("h1"), JM::H(vec![2.5], d("one value"))),
        JOp::Reg(s("hm"), JM::H((1..=100).rev().map(f64::from).collect(), None)),
        JOp::Reg(s("hz"), JM::H(vec![0.0, -0.0, 0.0, -0.0], None)),
        JOp::Reg(s("hneg0"), JM::H(vec![-0.0], None)),
        JOp::Reg(s("hinf"), JM::H(vec![f64::INFINITY, 1.0, f64::NEG_INFINITY], None)),
        JOp::Reg(s("hbig"), JM::H(vec![f64::MAX, f64::MAX, 1.0], None)),
        JOp::Reg(s("hnan"), JM::H(vec![1.0, f64::NAN, 3.0], None)),
        JOp::Reg(s("hnan33"), JM::H(nan33, d("latency"))),
        JOp::Reg(s("g"), JM::G(1.5, None)),
        JOp::Reg(s("gnan"), JM::G(f64::NAN, None)),
        JOp::Reg(s("ginf"), JM::G(f64::INFINITY, d("ratio"))),
        JOp::Reg(s("gninf"), JM::G(f64::NEG_INFINITY, None)),
        JOp::Reg(s("gnz"), JM::G(-0.0, None)),
        JOp::Reg(s("gint"), JM::G(3.0, d(""))),
        JOp::Reg(s("uobj"), JM::U(serde_json::json!({"a": 1, "b": [1.5, null, "x"], "": {"c": -2}}), d("a user metric"))),
        JOp::Reg(s("unull"), JM::U(JV::Null, d("null-valued"))),
        JOp::Reg(s("unull2"), JM::U(JV::Null, None)),
        JOp::Reg(s("ustr"), JM::U(serde_json::json!("text"), None)),
        JOp::Reg(s("ubig"), JM::U(serde_json::json!(u64::MAX), None)),
        JOp::Reg(s("c"), JM::C(u64::MAX)),
        JOp::Reg(s("c0"), JM::C(0)),
    ];
    for o in &singles {
        mjson(cx, &[o.clone()], "corpus");
        mjson(cx, &[JOp::St, o.clone(), JOp::En], "corpus");
    }
    mjson(cx, &singles, "corpus");
    for name in JNAMES {
        mjson(cx, &[JOp::Reg(s(name), JM::C(7))], "corpus-name");
        mjson(cx, &[JOp::Set(s(name), 3), JOp::Inc(s(name), 4), JOp::St, JOp::En], "corpus-name");
    }
    // every name at once (no name collapses into another), with every way of creating a metric
    let all: Vec<JOp> = JNAMES.iter().enumerate().map(|(i, n)| match i % 4 {
        0 => JOp::Reg(s(n), JM::C(i as u64)),
        1 => JOp::Set(s(n), i as u64),
        2 => JOp::Inc(s(n), i as u64),
        _ => JOp::Reg(s(n), JM::G(i as f64 + 0.5, d(n))),
    }).collect();
    mjson(cx, &all, "corpus-name");
    mjson(cx, &[JOp::Reg(s("Rows"), JM::C(1)), JOp::Reg(s("rows"), JM::C(2)), JOp::Reg(s(" rows"), JM::C(3)), JOp::Inc(s("ROWS"), 4)], "corpus-name");
    // increment on a non-counter is ignored; replace a counter by a gauge and back
    mjson(cx, &[JOp::Reg(s("x"), JM::G(2.0, None)), JOp::Inc(s("x"), 5), JOp::Reg(s("y"), JM::C(1)), JOp::Inc(s("y"), 5), JOp::Reg(s("y"), JM::H(vec![1.0], None)), JOp::Inc(s("y"), 1), JOp::Set(s("x"), 9), JOp::Inc(s("x"), 1)], "corpus");
    mjson(cx, &[], "corpus");
    mjson(cx, &[JOp::St], "corpus");
    mjson(cx, &[JOp::En, JOp::St], "corpus");
    // the known finding, through every kind of metric
    mjson(cx, &[JOp::Reg(s(EXEC_KEY), JM::G(f64::NAN, None)), JOp::St, JOp::En], "corpus");
    mjson(cx, &[JOp::St, JOp::En, JOp::Reg(s(EXEC_KEY), JM::U(JV::Null, d(EXEC_DESC)))], "corpus");
    // (2) random
    for _ in 0..cx.budget(350, 6000) {
        let ops = gen_jops(cx);
        mjson(cx, &ops, "random");
    }
}

// ---------------------------------------------------------------------------------------------
// MMID: the user's handle / the slot while the engine runs
// ---------------------------------------------------------------------------------------------

#[derive(Clone, Copy, Debug, PartialEq, Eq)]
enum Mid {
    Op(Op),
    Take,
}

fn mmid_attempt(mid: &[Mid], mode: PMode, secs: u64) -> Option<(Outcome, MetricsCollector, Pipeline)> {
    let n0 = 5i64;
    let p = Pipeline::default();
    let coll = MetricsCollector::new();
    p.set_metrics(coll.clone());
    let (p2, p3, c2) = (p.clone(), p.clone(), coll.clone());
    let done = Arc::new(std::sync::atomic::AtomicBool::new(false));
    let mid2 = mid.to_vec();
    let out = outcome_of(pipe::with_watchdog(secs, move || {
        let c = from_vec(&p2, vec![V::I(n0)]).map(move |v: &V| {
            if !done.swap(true, std::sync::atomic::Ordering::SeqCst) {
                for ev in &mid2 {
                    match ev {
                        Mid::Op(op) => apply(&c2, op),
                        Mid::Take => { let _ = p3.take_metrics(); }
                    }
                }
            }
            Fn_::Add(1).eval(v)
        });
        pipe::collect(pipe::Coll::T(c), mode)
    }));
    if matches!(out, Outcome::Hang) { None } else { Some((out, coll, p)) }
}

fn mmid(cx: &mut Ctx, mid: &[Mid], mode: PMode) {
    let prog = PProg { shape: Shape::T, src: vec![V::I(5)], steps: vec![Step::Map(Fn_::Add(1))] };
    let mid_s = join_or(mid.iter().map(|m| match m { Mid::Op(o) => enc_op(o), Mid::Take => "take".into() }).collect(), ",");
    let req = format!("MMID mid={mid_s} {}", prog_text(&prog, mode));
    let mut got = mmid_attempt(mid, mode, 10);
    progress();
    if got.is_none() {
        settle();
        got = mmid_attempt(mid, mode, 40);
        progress();
    }
    let Some((out, coll, p)) = got else {
        let i = cx.case(req, "HANG".into(), true);
        tick(cx);
        cx.oracle_fail(i, "run-does-not-terminate", format!("a run whose closure does [{mid_s}] on the user's handle / the pipeline did not return within 10 s nor, run again from scratch, within 40 s"));
        return;
    };
    let res = pipe::outcome_answer(&out, "seq");
    let att = p.get_metrics().is_some();
    let el = coll.elapsed().is_some();
    let j = json_obs(&coll);
    let snap = canon_snapshot(&coll);
    coll.record_end();
    let start = coll.elapsed().is_some();
    let b = |x: bool| if x { "T" } else { "F" };
    let real = format!("att={} el={} start={} snap={} json={} res= {res}", b(att), b(el), b(start), snap, j.canon);
    let i = cx.case(req, real, !mid.is_empty());
    tick(cx);
    cx.count(&format!("mmid:{}", if mid.contains(&Mid::Take) { "with-take" } else { "without-take" }));
    let base = pipe::ref_answer(&pipe::reference(&prog), "seq");
    if res != base {
        cx.oracle_fail(i, "collector-changed-result", format!("result {res}, plain-vector reference {base} (closure did [{mid_s}] on the collector / slot)"));
    }
    let writes_stamp = mid.iter().any(|m| matches!(m, Mid::Op(Op::St) | Mid::Op(Op::En)));
    if !mid.contains(&Mid::Take) && !writes_stamp && res.starts_with("OK") && !el {
        cx.oracle_fail(i, "elapsed-missing-after-success", format!("the run succeeded with the collector attached throughout, but the user's handle has elapsed() = None (closure did [{mid_s}])"));
    }
    if let Some((sig, d)) = j.fail {
        cx.oracle_fail(i, sig, d);
    }
}

fn mmid_block(cx: &mut Ctx) {
    let fixed: Vec<Vec<Mid>> = vec![
        vec![], vec![Mid::Take], vec![Mid::Op(Op::Inc("a", 1))], vec![Mid::Op(Op::Set("a", 5)), Mid::Op(Op::RegC("b", 2))],
        vec![Mid::Take, Mid::Op(Op::Inc("a", 1))], vec![Mid::Op(Op::Inc("a", 1)), Mid::Take], vec![Mid::Op(Op::St)], vec![Mid::Op(Op::En)],
        vec![Mid::Op(Op::El), Mid::Op(Op::Js), Mid::Op(Op::Sn)], vec![Mid::Op(Op::RegG("a", 3)), Mid::Op(Op::Inc("a", 2))],
        vec![Mid::Take, Mid::Take], vec![Mid::Op(Op::Set("execution_time_ms", 9))],
    ];
    for mid in &fixed {
        for mode in [PMode::Seq, PMode::Par(2)] {
            mmid(cx, mid, mode);
        }
    }
    for _ in 0..cx.budget(30, 300) {
        let n = cx.rng.below(4);
        let mid: Vec<Mid> = (0..n).map(|_| if cx.rng.chance(1, 5) { Mid::Take } else { Mid::Op(random_op(cx)) }).collect();
        let mode = if cx.rng.chance(1, 2) { PMode::Seq } else { PMode::Par(1 + cx.rng.below(3)) };
        mmid(cx, &mid, mode);
    }
}

// ---------------------------------------------------------------------------------------------
// MHELD / MCONTEND: the stamps of a run whose pipeline lock is CONTENDED
// ---------------------------------------------------------------------------------------------

/// One run whose `record_metrics_start` (`which = "start"`) or `record_metrics_end` (`"end"`) meets a HELD
/// pipeline graph lock: another thread holds it (hook `Pipeline::verif_with_graph_lock_held`) from before the
/// call until ~30 ms later. The code must WAIT for the lock and stamp; a `try_lock` that gives up loses the
/// stamp. Deterministic: the runner is released only once the lock is held; if the runner is delayed by more
/// than the holding time the lock is simply free again (no detection in that round, never a false alarm).
fn mheld_attempt(which: &'static str, mode: PMode, secs: u64) -> Option<(Outcome, MetricsCollector)> {
    use std::sync::mpsc::channel;
    let n0 = 5i64;
    let p = Pipeline::default();
    let coll = MetricsCollector::new();
    p.set_metrics(coll.clone());
    let (in_exec_tx, in_exec_rx) = channel::<()>();
    let (held_tx, held_rx) = channel::<()>();
    let held_rx = Arc::new(Mutex::new(held_rx));
    let in_exec_tx = Arc::new(Mutex::new(in_exec_tx));
    let first = Arc::new(std::sync::atomic::AtomicBool::new(true));
    let at_end = which == "end";
    let c = {
        let (held_rx, in_exec_tx, first) = (held_rx.clone(), in_exec_tx.clone(), first.clone());
        from_vec(&p, vec![V::I(n0)]).map(move |v: &V| {
            if at_end && first.swap(false, std::sync::atomic::Ordering::SeqCst) {
                // tell the holder that the engine is running, then wait until the lock IS held
                let _ = in_exec_tx.lock().map(|t| t.send(()));
                let _ = held_rx.lock().map(|r| r.recv_timeout(std::time::Duration::from_secs(5)));
            }
            Fn_::Add(1).eval(v)
        })
    };
    let hold = std::time::Duration::from_millis(30);
    let p_holder = p.clone();
    let (go_tx, go_rx) = channel::<()>();
    let holder = std::thread::spawn(move || {
        if at_end {
            if in_exec_rx.recv_timeout(std::time::Duration::from_secs(20)).is_err() {
                return;
            }
            p_holder.verif_with_graph_lock_held(|| {
                let _ = held_tx.send(());
                std::thread::sleep(hold);
            });
        } else {
            p_holder.verif_with_graph_lock_held(|| {
                let _ = go_tx.send(());
                std::thread::sleep(hold);
            });
        }
    });
    if !at_end {
        // start the run only once the lock is held
        let _ = go_rx.recv_timeout(std::time::Duration::from_secs(20));
    }
    let out = outcome_of(pipe::with_watchdog(secs, move || pipe::collect(pipe::Coll::T(c), mode)));
    let _ = holder.join();
    if matches!(out, Outcome::Hang) { None } else { Some((out, coll)) }
}

fn mheld(cx: &mut Ctx, which: &'static str, mode: PMode) {
    let req = format!("MHELD which={which} mode={}", mode.enc());
    let mut got = mheld_attempt(which, mode, 15);
    progress();
    if got.is_none() {
        settle();
        got = mheld_attempt(which, mode, 60);
        progress();
    }
    let Some((out, coll)) = got else {
        let i = cx.case(req, "HANG".into(), true);
        tick(cx);
        cx.oracle_fail(i, "run-does-not-terminate", format!("a run whose record_metrics_{which} met a held pipeline lock (released after 30 ms) did not return within 15 s nor, run again, within 60 s"));
        return;
    };
    let res = pipe::outcome_answer(&out, "seq");
    let el = coll.elapsed();
    let j = coll.to_json();
    let jt = j.get(EXEC_KEY).is_some_and(is_exec_entry);
    let b = |x: bool| if x { "T" } else { "F" };
    let i = cx.case(req, format!("el={} jt={} res= {res}", b(el.is_some()), b(jt)), true);
    tick(cx);
    cx.count(&format!("mheld:{which}"));
    if res.starts_with("OK") && (el.is_none() || !jt) {
        cx.oracle_fail(i, "elapsed-missing-after-success", format!("record_metrics_{which} met a pipeline lock held by another thread (released 30 ms later); the run succeeded ({res}) but elapsed() = {el:?}, to_json() = {j}: the stamp was skipped instead of waiting for the lock"));
    }
    if res != "OK L1 I6" {
        cx.oracle_fail(i, "collector-changed-result", format!("result {res}, expected OK L1 I6"));
    }
}

/// `MHELDC init=… call=<op>`: the call is made by a second thread WHILE this thread holds the collector's mutex
/// (hook `MetricsCollector::verif_with_lock_held`; released 30 ms after the caller was started). The call must
/// wait for the lock and take effect: a `try_lock` that gives up drops the update (design finding C16-2).
fn mheldc(cx: &mut Ctx, init: &Init, op: Op) {
    let req = format!("MHELDC init={} call={}", enc_init(init), enc_op(&op));
    let run = |secs: u64| -> Option<Result<(String, bool), String>> {
        let init = init.clone();
        pipe::with_watchdog(secs, move || {
            let coll = mk_collector(&init);
            if op == Op::En {
                coll.record_start(); // so that the end stamp under test makes elapsed() available
            }
            let c2 = coll.clone();
            let (tx, rx) = std::sync::mpsc::channel::<()>();
            let caller = std::thread::spawn(move || {
                let _ = rx.recv_timeout(std::time::Duration::from_secs(20));
                apply(&c2, &op);
            });
            coll.verif_with_lock_held(|| {
                let _ = tx.send(());
                std::thread::sleep(std::time::Duration::from_millis(30));
            });
            let _ = caller.join();
            if op == Op::St {
                coll.record_end(); // the start stamp under test + this end stamp = elapsed() available
            }
            (canon_snapshot(&coll), coll.elapsed().is_some())
        })
    };
    let mut r = run(15);
    progress();
    if r.is_none() {
        settle();
        r = run(60);
        progress();
    }
    let (real, fail): (String, Option<(&'static str, String)>) = match r {
        None => ("HANG".into(), Some(("collector-call-hangs", format!("{} made while another thread held the collector lock for 30 ms did not return within 15 s nor, run again, within 60 s", enc_op(&op))))),
        Some(Err(m)) => ("PANIC".into(), Some(("collector-panicked", m))),
        Some(Ok((snap, el))) => {
            // independent expectation: the same call made without any contention
            let plain = mk_collector(init);
            apply(&plain, &op);
            let want = canon_snapshot(&plain);
            let want_el = matches!(op, Op::St | Op::En);
            let fail = if snap != want || el != want_el {
                Some(("update-dropped-under-contention", format!("{} made while another thread held the collector lock: snapshot {snap}, elapsed available: {el}; without contention {want}, {want_el}", enc_op(&op))))
            } else {
                None
            };
            (format!("snap={snap} el={}", if el { "T" } else { "F" }), fail)
        }
    };
    let i = cx.case(req, real, true);
    tick(cx);
    cx.count("mheldc:calls-against-a-held-collector-lock");
    if let Some((sig, d)) = fail {
        cx.oracle_fail(i, sig, d);
    }
}

/// Free-running: a pipeline with a large never-executed side branch (so that `snapshot()` holds the graph lock
/// for a while), observer threads that keep taking snapshots / reading the slot / adding nodes, and the main
/// thread running the small branch again and again, each time with a FRESH collector. After EVERY successful
/// run: `elapsed()` is `Some` and `execution_time_ms` is exported. A requirement, not a timing verdict: on
/// correct code it cannot fail however loaded the machine is. Returns (runs, missing, wrong results, first detail).
fn mcontend_body(nodes: usize, max_runs: usize, budget: std::time::Duration) -> (usize, usize, usize, Option<String>) {
    let p = Pipeline::default();
    let mut side = from_vec(&p, vec![0u32]);
    for _ in 0..nodes {
        side = side.map(|x: &u32| *x);
    }
    let out = from_vec(&p, vec![1i64, 2, 3, 4]).map(|x: &i64| x * 10);
    let stop = Arc::new(std::sync::atomic::AtomicBool::new(false));
    let observers: Vec<_> = (0..3)
        .map(|k| {
            let (p, stop) = (p.clone(), stop.clone());
            std::thread::spawn(move || {
                let mut added = 0usize;
                while !stop.load(std::sync::atomic::Ordering::Relaxed) {
                    match k {
                        0 => { let _ = std::hint::black_box(p.snapshot()); }
                        1 => { let _ = std::hint::black_box(p.get_metrics()); let _ = std::hint::black_box(p.snapshot()); }
                        _ => {
                            if added < 400 {
                                let _ = from_vec(&p, vec![1u8]).map(|x: &u8| *x);
                                added += 1;
                            } else {
                                let _ = std::hint::black_box(p.snapshot());
                            }
                        }
                    }
                }
            })
        })
        .collect();
    let t0 = std::time::Instant::now();
    let (mut runs, mut missing, mut wrong) = (0usize, 0usize, 0usize);
    let mut first = None;
    while runs < max_runs && t0.elapsed() < budget {
        p.set_metrics(MetricsCollector::new());
        let got = out.clone().collect_seq();
        let m = p.take_metrics();
        runs += 1;
        match (&got, &m) {
            (Ok(v), Some(m)) => {
                if *v != vec![10, 20, 30, 40] {
                    wrong += 1;
                    first.get_or_insert(format!("run {runs}: result {v:?}"));
                }
                let el = m.elapsed();
                let j = m.to_json();
                if el.is_none() || !j.get(EXEC_KEY).is_some_and(is_exec_entry) {
                    missing += 1;
                    first.get_or_insert(format!("run {runs}: elapsed() = {el:?}, to_json() = {j}"));
                }
            }
            _ => {
                wrong += 1;
                first.get_or_insert(format!("run {runs}: result {:?}, collector still attached: {}", got.as_ref().map_err(|e| e.to_string()), m.is_some()));
            }
        }
    }
    stop.store(true, std::sync::atomic::Ordering::Relaxed);
    for h in observers {
        let _ = h.join();
    }
    (runs, missing, wrong, first)
}

fn mcontend(cx: &mut Ctx, nodes: usize, max_runs: usize, budget_secs: u64) {
    let req = format!("MCONTEND nodes={nodes} observers=3");
    let mut r = None;
    for (attempt, secs) in [budget_secs + 30, budget_secs + 90].into_iter().enumerate() {
        if attempt > 0 {
            settle();
        }
        r = pipe::with_watchdog(secs, move || mcontend_body(nodes, max_runs, std::time::Duration::from_secs(budget_secs)));
        progress();
        if r.is_some() {
            break;
        }
    }
    match r {
        None => {
            let i = cx.case(req, "HANG".into(), true);
            tick(cx);
            cx.oracle_fail(i, "run-does-not-terminate", format!("runs of a small branch while 3 threads inspect / extend the same pipeline did not finish (twice, limit {} s)", budget_secs + 90));
        }
        Some(Err(msg)) => {
            let i = cx.case(req, "PANIC".into(), true);
            tick(cx);
            cx.oracle_fail(i, "collector-panicked", msg);
        }
        Some(Ok((runs, missing, wrong, first))) => {
            let i = cx.case(req, format!("missing={missing} wrong={wrong}"), true);
            tick(cx);
            cx.count_n("mcontend:runs-under-contention", runs as u64);
            if missing > 0 {
                cx.oracle_fail(i, "elapsed-missing-after-success", format!("{missing} of {runs} successful runs (fresh collector each, 3 threads taking snapshots / reading the slot / adding nodes on the same pipeline, {nodes}-node side branch) ended without both stamps: {}", first.clone().unwrap_or_default()));
            }
            if wrong > 0 {
                cx.oracle_fail(i, "collector-changed-result", format!("{wrong} of {runs} runs under contention returned something else than [10, 20, 30, 40] with the collector attached: {}", first.unwrap_or_default()));
            }
        }
    }
}

// ---------------------------------------------------------------------------------------------
// FIRSTINC: two free-running threads that both start on an ABSENT name, on many fresh collectors
// ---------------------------------------------------------------------------------------------

/// Both threads walk over the same vector of fresh collectors; before round `i` each publishes `i` and spins
/// until the other has published it too, so the two `increment_counter` calls of a round start within
/// nanoseconds of each other on a name that does not exist yet. Returns (rounds done, rounds whose final value
/// is not a + b, first such value).
fn first_inc_body(rounds: usize, a: u64, b: u64, budget: std::time::Duration) -> (usize, usize, Option<String>) {
    use std::sync::atomic::{AtomicUsize, Ordering::{Acquire, Release}};
    let colls: Arc<Vec<MetricsCollector>> = Arc::new((0..rounds).map(|_| MetricsCollector::new()).collect());
    let at = Arc::new([AtomicUsize::new(0), AtomicUsize::new(0)]);
    let stop_round = Arc::new(AtomicUsize::new(rounds));
    let t0 = std::time::Instant::now();
    let hs: Vec<_> = [a, b]
        .into_iter()
        .enumerate()
        .map(|(me, amt)| {
            let (colls, at, stop_round) = (colls.clone(), at.clone(), stop_round.clone());
            std::thread::spawn(move || {
                let mut i = 0usize;
                while i < stop_round.load(Acquire) {
                    if me == 0 && i % 64 == 0 && t0.elapsed() > budget {
                        // both threads stop at the same round: the other one is at most one round away
                        stop_round.fetch_min(i + 64, Release);
                    }
                    at[me].store(i + 1, Release);
                    let mut spins = 0u32;
                    while at[1 - me].load(Acquire) < i + 1 {
                        spins += 1;
                        if spins < 2000 { std::hint::spin_loop(); } else { std::thread::yield_now(); }
                    }
                    colls[i].increment_counter("k", amt);
                    i += 1;
                }
                i
            })
        })
        .collect();
    let done: Vec<usize> = hs.into_iter().map(|h| h.join().unwrap_or(0)).collect();
    let n = done.iter().copied().min().unwrap_or(0);
    let mut lost = 0usize;
    let mut first = None;
    for c in colls.iter().take(n) {
        let v = c.snapshot().get("k").and_then(|v| v.as_u64());
        if v != Some(a + b) {
            lost += 1;
            first.get_or_insert(format!("{v:?}"));
        }
    }
    (n, lost, first)
}

fn first_inc(cx: &mut Ctx, rounds: usize, a: u64, b: u64, budget_secs: u64) {
    let req = format!("FIRSTINC a={a} b={b}");
    let mut r = None;
    for (attempt, secs) in [budget_secs + 30, budget_secs + 90].into_iter().enumerate() {
        if attempt > 0 {
            settle();
        }
        r = pipe::with_watchdog(secs, move || first_inc_body(rounds, a, b, std::time::Duration::from_secs(budget_secs)));
        progress();
        if r.is_some() {
            break;
        }
    }
    match r {
        None => {
            let i = cx.case(req, "HANG".into(), true);
            tick(cx);
            cx.oracle_fail(i, "collector-call-hangs", format!("two threads incrementing an absent counter on fresh collectors did not finish (twice, limit {} s)", budget_secs + 90));
        }
        Some(Err(msg)) => {
            let i = cx.case(req, "PANIC".into(), true);
            tick(cx);
            cx.oracle_fail(i, "collector-panicked", msg);
        }
        Some(Ok((n, lost, first))) => {
            let i = cx.case(req, format!("lost={lost}"), true);
            tick(cx);
            cx.count_n("firstinc:fresh-collectors", n as u64);
            if n < rounds {
                cx.count("firstinc:stopped-by-time-budget(machine-load)");
            }
            if lost > 0 {
                cx.oracle_fail(i, "lost-update-free-running", format!("two threads started increment_counter(k, {a}) / (k, {b}) together on an ABSENT name on {n} fresh collectors: {lost} ended with a value other than {} (first: {})", a + b, first.unwrap_or_default()));
            }
        }
    }
}

// ---------------------------------------------------------------------------------------------
// the run
// ---------------------------------------------------------------------------------------------

const A4: [Op; 4] = [Op::Inc("a", 1), Op::Inc("a", 2), Op::Set("a", 5), Op::RegC("a", 7)];
const A3: [Op; 3] = [Op::Inc("a", 1), Op::Set("a", 5), Op::RegC("a", 7)];
const A7: [Op; 7] =
    [Op::Inc("a", 1), Op::Inc("a", 2), Op::Set("a", 5), Op::RegC("a", 7), Op::RegG("a", 3), Op::Inc("b", 4), Op::St];

fn random_op(cx: &mut Ctx) -> Op {
    let names = ["a", "b", "execution_time_ms"];
    let nn = if cx.rng.chance(1, 8) { 3 } else { 2 };
    let k = names[cx.rng.below(nn)];
    match cx.rng.below(14) {
        0..=4 => Op::Inc(k, 1 + cx.rng.below(9) as u64),
        5 | 6 => Op::Set(k, cx.rng.below(50) as u64),
        7 | 8 => Op::RegC(k, cx.rng.below(50) as u64),
        9 => Op::RegG(k, cx.rng.below(9) as u64),
        10 => Op::St,
        11 => Op::En,
        12 => *cx.rng.pick(&[Op::El, Op::Js]),
        _ => Op::Sn,
    }
}

/// `SMOKE`: every public call of the collector (and the pipeline's metric calls), one after the other on
/// ONE thread, on collectors in every state the calls distinguish (name absent / counter / other metric),
/// under a watchdog. Everything else in this check makes such calls on the harness's own thread (the serial
/// oracle, the `pre` calls of MRUN, MOVF, …): a call that dead-locks on its own (a lock taken twice) would
/// hang the CHECK instead of being reported. If this block does not come back the verdict is HANG and the
/// remaining blocks are skipped.
fn smoke(cx: &mut Ctx) -> bool {
    let body = || {
        let ops = [
            Op::Inc("a", 1), Op::Inc("a", 2), Op::Set("a", 5), Op::Inc("a", 1), Op::RegC("a", 7), Op::Inc("a", 3), Op::RegG("a", 3),
            Op::Inc("a", 1), Op::El, Op::Js, Op::St, Op::El, Op::Js, Op::En, Op::El, Op::Js, Op::Sn, Op::Inc("b", 4), Op::Inc("b", 4),
            Op::Set("execution_time_ms", 9), Op::Inc("execution_time_ms", 1), Op::Js, Op::St, Op::En,
        ];
        for init in [vec![], vec![("a", Val::C(10))], vec![("a", Val::G(2))]] {
            let c = mk_collector(&init);
            for op in &ops {
                apply(&c, op);
            }
            let _ = (canon_snapshot(&c), json_obs(&c).canon, c.elapsed());
            let p = Pipeline::default();
            p.set_metrics(c.clone());
            p.record_metrics_start();
            p.record_metrics_end();
            let _ = p.get_metrics().map(|m| m.elapsed());
            let _ = p.take_metrics();
            p.record_metrics_start();
            p.record_metrics_end();
        }
    };
    let mut r = pipe::with_watchdog(20, body);
    if r.is_none() {
        settle();
        r = pipe::with_watchdog(60, body); // confirm: a machine stall does not repeat, a dead-lock does
    }
    let real = match &r { Some(Ok(())) => "ok", Some(Err(_)) => "PANIC", None => "HANG" };
    let i = cx.case("SMOKE".into(), real.into(), false);
    tick(cx);
    match r {
        Some(Ok(())) => true,
        Some(Err(msg)) => {
            cx.oracle_fail(i, "collector-panicked", format!("a collector call made on one thread, without any concurrency, panicked: {msg}"));
            true
        }
        None => {
            cx.oracle_fail(i, "collector-call-hangs", "a sequence of collector / pipeline metric calls made on ONE thread did not return within 60 s (a call dead-locks on its own); all other blocks skipped".into());
            false
        }
    }
}

/// progress of the worker thread (cases registered + attempts of watchdogged runs), watched by `run`
static PROGRESS: std::sync::atomic::AtomicU64 = std::sync::atomic::AtomicU64::new(0);
/// cases registered so far (deterministic for a seed and tier: the coordinate of a stall)
static CASES: std::sync::atomic::AtomicU64 = std::sync::atomic::AtomicU64::new(0);
static LAST_REQ: Mutex<String> = Mutex::new(String::new());
/// `Some(n)` in the CONFIRMING child process: leave with exit code 0 as soon as more than `n` cases exist
static CONFIRM_AT: std::sync::OnceLock<Option<u64>> = std::sync::OnceLock::new();
fn confirm_at() -> Option<u64> {
    *CONFIRM_AT.get_or_init(|| std::env::var("IBH_C16_CONFIRM_AT").ok().and_then(|v| v.parse().ok()))
}
fn tick(cx: &Ctx) {
    PROGRESS.fetch_add(1, std::sync::atomic::Ordering::Relaxed);
    let n = CASES.fetch_add(1, std::sync::atomic::Ordering::Relaxed) + 1;
    if let Some(at) = confirm_at() {
        if n > at {
            // the confirming re-execution got PAST the point where the first process stood still
            std::process::exit(0);
        }
    }
    if let (Some(r), Ok(mut g)) = (cx.reqs.last(), LAST_REQ.try_lock()) {
        g.clear();
        g.push_str(r);
    }
}
/// the worker is alive although no case has been registered (between the attempts of a watchdogged run)
fn progress() {
    PROGRESS.fetch_add(1, std::sync::atomic::Ordering::Relaxed);
}
/// no progress during this many seconds IN WHICH THE MACHINE WAS RESPONSIVE = a call on the worker's own
/// thread may not be returning (then confirmed by re-execution in a fresh process before anything is reported)
const STALL_SECS: u64 = 240;
/// `IBH_C16_STALL_SECS` shortens the limit (used to exercise the watchdog itself with a dead-locking mutant)
fn stall_secs() -> u64 {
    std::env::var("IBH_C16_STALL_SECS").ok().and_then(|v| v.parse().ok()).unwrap_or(STALL_SECS)
}

/// is some thread of this process in uninterruptible sleep (state D: waiting for a page to come back from
/// disk, for memory reclaim, for I/O)? Then the machine is holding the process up, not the code under test.
fn some_thread_in_d_state() -> bool {
    let Ok(rd) = std::fs::read_dir("/proc/self/task") else { return false };
    for e in rd.flatten() {
        if let Ok(st) = std::fs::read_to_string(e.path().join("stat")) {
            // "<tid> (<comm>) <state> ..." — comm may contain blanks and parentheses: take what follows the LAST ')'
            if let Some(i) = st.rfind(')') {
                if st[i + 1..].trim_start().starts_with('D') {
                    return true;
                }
            }
        }
    }
    false
}

/// Wait until the machine answers promptly again (a thread start + channel round trip within 200 ms, three
/// times in a row), for at most two minutes: a time-out is re-executed AFTER the stall that may have caused it,
/// not in the middle of it (stalls of this box come in storms: memory pressure, page-cache thrashing).
fn settle() {
    let t0 = std::time::Instant::now();
    let mut good = 0;
    while good < 3 && t0.elapsed().as_secs() < 120 {
        let t = std::time::Instant::now();
        let (tx, rx) = std::sync::mpsc::channel::<u64>();
        let h = std::thread::spawn(move || { let _ = tx.send(std::hint::black_box((0..20_000u64).sum())); });
        let ok = rx.recv_timeout(std::time::Duration::from_secs(5)).is_ok() && t.elapsed().as_millis() < 200 && !some_thread_in_d_state();
        let _ = h.join();
        if ok { good += 1; } else { good = 0; std::thread::sleep(std::time::Duration::from_millis(500)); }
        progress();
    }
}

fn tier_name(t: crate::ctx::Tier) -> &'static str {
    match t { crate::ctx::Tier::Quick => "quick", crate::ctx::Tier::Thorough => "thorough", crate::ctx::Tier::Search => "search" }
}

/// Re-execute the whole check (same seed, same tier) in a FRESH process up to the case at which this process
/// stands still. `Some(true)`: the fresh process stands still at the same case (a call that does not return:
/// deterministic); `Some(false)`: it got past that case, or stalled elsewhere (this machine stalls: not a
/// verdict); `None`: this process moved on by itself meanwhile, or the re-execution could not be started.
fn confirm_stall_in_fresh_process(prop: &str, seed: u64, tier: crate::ctx::Tier, at_cases: u64, progress_then: u64) -> Option<bool> {
    let exe = std::env::current_exe().ok()?;
    let dir = tempfile::tempdir().ok()?;
    let mut child = std::process::Command::new(exe)
        .args([prop, "--tier", tier_name(tier), "--seed", &seed.to_string(), "--out"])
        .arg(dir.path())
        .env("IBH_C16_CONFIRM_AT", at_cases.to_string())
        .stdin(std::process::Stdio::null())
        .stdout(std::process::Stdio::null())
        .stderr(std::process::Stdio::null())
        .spawn()
        .ok()?;
    let t0 = std::time::Instant::now();
    loop {
        std::thread::sleep(std::time::Duration::from_secs(1));
        if PROGRESS.load(std::sync::atomic::Ordering::Relaxed) != progress_then {
            let _ = child.kill();
            let _ = child.wait();
            return None;
        }
        match child.try_wait() {
            Ok(Some(st)) => return Some(st.code() == Some(3)),
            Ok(None) => {}
            Err(_) => return None,
        }
        if t0.elapsed().as_secs() > 6 * 3600 {
            let _ = child.kill();
            let _ = child.wait();
            return Some(false);
        }
    }
}

/// The whole check runs on a worker thread; this thread only watches its progress. Every block has its own
/// guard (SMOKE, the scheduler's time-out, watchdogs around free-running threads and pipeline runs), but the
/// worker also calls the real collector directly (serial oracle, `pre` calls, MOVF, …): should such a call
/// block in a state the SMOKE block did not reach, the check must still END with a verdict — HANG, a
/// violation — instead of hanging itself. No verdict comes from one clock reading: a second during which this
/// thread woke late or some thread sat in uninterruptible sleep does not count (the machine, not the code), and
/// when `STALL_SECS` responsive seconds have passed without progress the check is RE-EXECUTED in a fresh process
/// up to that case; only if that process stands still at the same case is `collector-call-hangs` reported.
pub fn run(cx: &mut Ctx) {
    let (prop, seed, tier) = (cx.prop.clone(), cx.seed, cx.tier);
    let (tx, rx) = std::sync::mpsc::channel::<Ctx>();
    {
        let prop = prop.clone();
        std::thread::Builder::new()
            .name("c16-worker".into())
            .stack_size(64 << 20)
            .spawn(move || {
                let mut inner = Ctx::new(&prop, seed, tier);
                run_inner(&mut inner);
                let _ = tx.send(inner);
            })
            .expect("spawn");
    }
    let mut notes: Vec<String> = vec![];
    let mut last_p = PROGRESS.load(std::sync::atomic::Ordering::Relaxed);
    let mut stuck_secs = 0u64;
    let mut discounted = 0u64;
    loop {
        let t = std::time::Instant::now();
        match rx.recv_timeout(std::time::Duration::from_secs(1)) {
            Ok(inner) => {
                *cx = inner;
                if discounted > 0 {
                    notes.push(format!("C16 progress watchdog: {discounted} s without progress were not counted (this thread woke late or a thread was in uninterruptible sleep: machine stall)"));
                }
                cx.notes.extend(notes);
                return;
            }
            Err(std::sync::mpsc::RecvTimeoutError::Disconnected) => panic!("C16 worker thread died"),
            Err(std::sync::mpsc::RecvTimeoutError::Timeout) => {
                let p = PROGRESS.load(std::sync::atomic::Ordering::Relaxed);
                if p != last_p {
                    last_p = p;
                    stuck_secs = 0;
                    continue;
                }
                if t.elapsed().as_millis() > 1500 || some_thread_in_d_state() {
                    discounted += 1;
                    continue;
                }
                stuck_secs += 1;
                if stuck_secs <= stall_secs() {
                    continue;
                }
                let cases = CASES.load(std::sync::atomic::Ordering::Relaxed);
                let lastreq = LAST_REQ.lock().map(|g| g.clone()).unwrap_or_default();
                if confirm_at().is_some() {
                    // this IS the confirming process: say where it stands still and leave
                    std::process::exit(if Some(cases) == confirm_at() { 3 } else { 4 });
                }
                match confirm_stall_in_fresh_process(&prop, seed, tier, cases, p) {
                    Some(true) => {
                        let i = cx.case("SMOKE".into(), "HANG".into(), false);
                        cx.oracle_fail(i, "collector-call-hangs", format!("the check made no progress for {} s after {cases} cases, and a re-execution in a fresh process stood still after the same {cases} cases: a call into the real code does not return (last registered request: {lastreq})", stall_secs()));
                        return;
                    }
                    Some(false) => {
                        notes.push(format!("C16 progress watchdog: no progress for {} s after {cases} cases, but a re-execution in a fresh process got past that case: machine stall, not a verdict", stall_secs()));
                        stuck_secs = 0;
                    }
                    None => {
                        stuck_secs = 0;
                    }
                }
            }
        }
    }
}

/// ORACLE-ONLY: pipelines with a collector attached, run by `Runner { checkpoint_config: Some(enabled), .. }` in both
/// modes; after every successful run: result == the run without collector and without checkpointing, `elapsed()` is
/// `Some`, and `execution_time_ms` is a member of `to_json()`.
fn ckpt_runs(cx: &mut Ctx) {
    use ironbeam::checkpoint::{CheckpointConfig, CheckpointPolicy};
    let dir = match tempfile::Builder::new().prefix("ibh-c16-ck-").tempdir() { Ok(d) => d, Err(_) => { cx.count("mckpt:no-tempdir(skipped)"); return; } };
    let kv = |k: i64, v: i64| (k, v);
    let rows: Vec<(i64, i64)> = (0..24).map(|i| kv(i % 4, i)).collect();
    let mut k = 0usize;
    for par in [None, Some(1usize), Some(3)] {
        for shape in 0..3 {
            for pol in [CheckpointPolicy::AfterEveryBarrier, CheckpointPolicy::EveryNNodes(1), CheckpointPolicy::Hybrid { barriers: true, interval_secs: 0 }] {
                k += 1;
                let build = |p: &Pipeline| {
                    let c = from_vec(p, rows.clone());
                    match shape {
                        0 => c.map(|r: &(i64, i64)| (r.0, r.1 + 1)),
                        1 => c.group_by_key().map(|r: &(i64, Vec<i64>)| (r.0, r.1.iter().sum::<i64>())),
                        _ => c.combine_values(ironbeam::combiners::Sum::<i64>::new()).filter(|r: &(i64, i64)| r.0 != 2),
                    }
                };
                let mode = match par { None => ExecMode::Sequential, Some(n) => ExecMode::Parallel { threads: None, partitions: Some(n) } };
                let plain = { let p = Pipeline::default(); let c = build(&p); guarded(move || c.collect_seq()) };
                let coll = MetricsCollector::new();
                let p = Pipeline::default();
                p.set_metrics(coll.clone());
                let c = build(&p);
                let cfg = CheckpointConfig { enabled: true, directory: dir.path().join(format!("r{k}")), policy: pol.clone(), auto_recover: k % 2 == 0, max_checkpoints: Some(2) };
                let p2 = p.clone();
                let got = guarded(move || Runner { mode, checkpoint_config: Some(cfg), ..Default::default() }.run_collect::<(i64, i64)>(&p2, c.node_id()));
                let i = cx.case(format!("ORACLE-ONLY metrics-with-checkpointing shape={shape} mode={} policy#{}", par.map_or("seq".into(), |n| format!("par:{n}")), k % 3), "-".into(), true);
                tick(cx);
                cx.count("mckpt:runs");
                let canon = |r: &Result<anyhow::Result<Vec<(i64, i64)>>, String>| match r { Ok(Ok(v)) => { let mut v = v.clone(); v.sort(); Some(v) } _ => None };
                match (canon(&plain), canon(&got)) {
                    (Some(a), Some(b)) if a == b => {
                        let has_key = coll.to_json().get("execution_time_ms").is_some();
                        if coll.elapsed().is_none() || !has_key {
                            cx.oracle_fail(i, "elapsed-missing-after-success", format!("checkpointed run succeeded; elapsed()={:?}, execution_time_ms in to_json: {has_key}", coll.elapsed()));
                        }
                    }
                    (Some(_), _) => cx.oracle_fail(i, "collector-changed-result", format!("plain={plain:?} checkpointed-with-collector={got:?}")),
                    _ => cx.count("mckpt:plain-run-failed(skipped)"),
                }
            }
        }
    }
}

fn run_inner(cx: &mut Ctx) {
    if !smoke(cx) {
        return;
    }
    let init10: Init = vec![("a", Val::C(10))];
    // the exhaustive blocks do not depend on the seed: the search tier keeps the quick shapes and
    // spends its larger budget on the random blocks
    let quick = cx.tier != crate::ctx::Tier::Thorough;
    let cap = if quick { 4000 } else { 400_000 };

    lock_sites(cx);
    // a collector whose mutex was poisoned by a panic inside one of its own critical sections must
    // still not change (here: abort) the pipeline it is attached to
    {
        let kv = |k: i64, v: i64| V::pair(V::I(k), V::I(v));
        let fixed = PProg { shape: Shape::KV, src: (0..40).map(|i| kv(i % 5, i)).collect(), steps: vec![Step::Gbk] };
        for how in ["overflow", "usermetric", "none"] {
            poison_case(cx, how, &fixed, PMode::Seq);
            let g = gen_inert_prog(cx, 0);
            let mode = if cx.rng.chance(1, 2) { PMode::Seq } else { PMode::Par(1 + cx.rng.below(4)) };
            poison_case(cx, how, &g, mode);
        }
    }
    // a collector attached to a pipeline that is run through a CHECKPOINTING runner: `run_collect` has a separate dispatch
    // for `checkpoint_config: Some(enabled)`; the stamps and the result must be what the plain run gives
    // (round-4 seeded change C16-6: that branch returned early, past `record_metrics_end`)
    ckpt_runs(cx);
    // the u64 boundary of `count + value`
    for (init, add) in [
        (Some(Ok(u64::MAX)), 1u64), (Some(Ok(u64::MAX)), 2), (Some(Ok(u64::MAX - 1)), 1), (Some(Ok(u64::MAX - 1)), 2),
        (Some(Ok(u64::MAX - 5)), 5), (Some(Ok(u64::MAX - 5)), 6), (Some(Ok(1 << 63)), 1 << 63), (Some(Ok(1 << 63)), (1 << 63) - 1),
        (Some(Ok(7)), u64::MAX), (Some(Ok(0)), u64::MAX), (None, u64::MAX), (Some(Err(())), u64::MAX), (Some(Ok(10)), 5),
    ] {
        overflow_case(cx, init, add);
    }
    for _ in 0..cx.budget(10, 100) {
        let near = u64::MAX - cx.rng.below(20) as u64;
        let add = cx.rng.below(40) as u64;
        overflow_case(cx, Some(Ok(near)), add);
    }

    // (1) corpus: design witness of defect #14 (two threads, one increment each, read-read-write-write)
    {
        let prog: Prog = vec![vec![Op::Inc("a", 1)], vec![Op::Inc("a", 1)]];
        let orc = prog_oracle(&init10, &prog);
        for sched in [vec![0, 1, 0, 1], vec![0, 0, 1, 1], vec![1, 0], vec![]] {
            let ex = execute(&init10, &prog, Policy::Prefix(&sched));
            emit(cx, &init10, &prog, &sched, &ex, &orc, "corpus");
        }
        let prog3: Prog = vec![vec![Op::Inc("a", 1), Op::Inc("a", 2)], vec![Op::Set("a", 5)], vec![Op::Inc("a", 4)]];
        let orc3 = prog_oracle(&init10, &prog3);
        for sched in [vec![0, 2, 0, 2, 1, 0, 0], vec![2, 1, 0, 0, 2]] {
            let ex = execute(&init10, &prog3, Policy::Prefix(&sched));
            emit(cx, &init10, &prog3, &sched, &ex, &orc3, "corpus");
        }
    }

    let t_start = std::time::Instant::now();
    let lap = |what: &str| {
        if std::env::var("IBH_TIMING").is_ok() {
            eprintln!("[c16] {what}: {:.2}s", t_start.elapsed().as_secs_f64());
        }
    };
    // (2) exhaustive small scope: every program of the shape over the alphabet x EVERY complete schedule
    let shapes: Vec<Vec<usize>> = if quick {
        vec![vec![1, 1], vec![2, 1], vec![1, 2], vec![2, 2], vec![3, 1], vec![1, 3], vec![3, 2], vec![2, 3], vec![1, 1, 1], vec![2, 1, 1]]
    } else {
        vec![
            vec![1, 1], vec![2, 1], vec![1, 2], vec![2, 2], vec![3, 1], vec![1, 3], vec![3, 2], vec![2, 3], vec![3, 3],
            vec![1, 1, 1], vec![2, 1, 1], vec![1, 2, 1], vec![1, 1, 2], vec![2, 2, 1], vec![2, 1, 2], vec![1, 2, 2], vec![2, 2, 2],
        ]
    };
    let mut total_scheds = 0usize;
    let mut total_progs = 0usize;
    let mut truncated = 0usize;
    for shape in &shapes {
        for prog in all_progs(&A4, shape) {
            let (r, cut) = explore(cx, &init10, &prog, cap, "exhaustive-A4");
            total_scheds += r;
            total_progs += 1;
            truncated += usize::from(cut);
        }
    }
    cx.exhaustive_blocks.push(format!(
        "METRICS: init a=10; every program of shapes {shapes:?} (ops per thread) over {{inc a 1, inc a 2, set a 5, register counter a 7}} x every complete lock-granular schedule of the real code: {total_progs} programs, {total_scheds} schedules, {truncated} programs cut off at {cap} schedules"
    ));
    lap("A4");
    // two threads x THREE mixed calls each (quick tier too): every program over {inc, set, register}
    {
        let (mut s3, mut p3, mut t3) = (0usize, 0usize, 0usize);
        for prog in all_progs(&A3, &[3, 3]) {
            let (r, cut) = explore(cx, &init10, &prog, cap, "exhaustive-A3-3x3");
            s3 += r;
            p3 += 1;
            t3 += usize::from(cut);
        }
        cx.exhaustive_blocks.push(format!(
            "METRICS: init a=10; every program of shape [3, 3] over {{inc a 1, set a 5, register counter a 7}} x every complete schedule: {p3} programs, {s3} schedules, {t3} cut off"
        ));
    }
    lap("A3 3x3");
    // THREE threads x THREE mixed calls each: every thread runs one of the mixed kind sequences of the menu
    // (I = increment by a distinct power of two, S = set, R = register a counter; distinct values per
    // position, so the final value tells which serialisation happened); all multisets of three sequences
    // in the thorough tier, two programs in the quick tier; EVERY complete schedule (1680 per program)
    {
        let menu: Vec<&str> = vec!["ISI", "SIR", "IRS", "RII", "IIS", "SRI", "ISS", "RSR"];
        let mut picks: Vec<[usize; 3]> = vec![];
        if quick {
            picks.push([0, 1, 2]);
            picks.push([3, 4, 5]);
        } else {
            for a in 0..menu.len() { for b in a..menu.len() { for c in b..menu.len() { picks.push([a, b, c]); } } }
        }
        let (mut s9, mut t9) = (0usize, 0usize);
        for pk in &picks {
            let prog: Prog = pk.iter().enumerate().map(|(t, m)| mixed_thread(menu[*m], t)).collect();
            let (r, cut) = explore(cx, &init10, &prog, cap, "exhaustive-3-threads-x-3-mixed");
            s9 += r;
            t9 += usize::from(cut);
        }
        cx.exhaustive_blocks.push(format!(
            "METRICS: init a=10; 3 threads x 3 mixed calls each, thread programs drawn from the kind sequences {menu:?} (I inc / S set / R register, distinct amounts): {} programs x every complete schedule = {s9} schedules, {t9} cut off at {cap}",
            picks.len()
        ));
    }
    lap("3x3x3 mixed");
    // wider alphabet (gauge under the same name, a second name, record_start), absent initial counter
    let mut s7 = 0usize;
    let mut p7 = 0usize;
    let mut t7 = 0usize;
    let shapes7: Vec<Vec<usize>> = if quick { vec![vec![1, 1], vec![2, 1], vec![1, 1, 1]] } else { vec![vec![1, 1], vec![2, 1], vec![2, 2], vec![1, 1, 1], vec![2, 1, 1]] };
    for init in [vec![], vec![("a", Val::C(10))], vec![("a", Val::G(2))]] {
        for shape in &shapes7 {
            for prog in all_progs(&A7, shape) {
                let (r, cut) = explore(cx, &init, &prog, cap, "exhaustive-A7");
                s7 += r;
                p7 += 1;
                t7 += usize::from(cut);
            }
        }
    }
    cx.exhaustive_blocks.push(format!(
        "METRICS: init in {{none, a=counter 10, a=gauge 2}}; shapes {shapes7:?} over {{inc a 1, inc a 2, set a 5, reg counter a 7, reg gauge a 3, inc b 4, record_start}} x every complete schedule: {p7} programs, {s7} schedules, {t7} cut off"
    ));
    lap("A7");
    // increments with distinct power-of-two amounts: 2 and 3 threads x up to 3 increments, every schedule
    let mut sb = 0usize;
    let mut tb = 0usize;
    let bw: Vec<(usize, usize)> = vec![(2, 1), (2, 2), (2, 3), (3, 1), (3, 2), (3, 3)];
    for (t, per) in &bw {
        for init in [vec![("a", Val::C(10))], vec![]] {
            let (r, cut) = explore(cx, &init, &binary_weight_prog(*t, *per), cap, "exhaustive-binary-weights");
            sb += r;
            tb += usize::from(cut);
        }
    }
    cx.exhaustive_blocks.push(format!(
        "METRICS: (threads, increments per thread) in {bw:?}, amounts distinct powers of two, init a=10 and absent, every complete schedule: {sb} schedules, {tb} cut off at {cap}"
    ));

    lap("binary");
    // (3) random programs, random schedules; plus arbitrary (possibly incomplete / over-long) forced schedules
    let rounds = cx.budget(250, 6000);
    for _ in 0..rounds {
        if hangs() >= 2 {
            cx.count("metrics:skipped-after-2-hangs");
            break;
        }
        let nthreads = 2 + cx.rng.below(3);
        let prog: Prog = (0..nthreads).map(|_| { let l = cx.rng.below(5); (0..l).map(|_| random_op(cx)).collect() }).collect();
        let init: Init = match cx.rng.below(4) {
            0 => vec![],
            1 => vec![("a", Val::C(cx.rng.below(100) as u64))],
            2 => vec![("a", Val::C(cx.rng.below(100) as u64)), ("b", Val::C(3))],
            _ => vec![("a", Val::G(1)), ("b", Val::C(cx.rng.below(10) as u64))],
        };
        let orc = prog_oracle(&init, &prog);
        for _ in 0..3 {
            let ex = {
                let mut r = cx.rng.clone();
                let ex = execute(&init, &prog, Policy::Random(&mut r));
                cx.rng = r;
                ex
            };
            let sched = ex.taken.clone();
            emit(cx, &init, &prog, &sched, &ex, &orc, "random-schedule");
        }
        let glen = cx.rng.below(12);
        let garbage: Vec<usize> = (0..glen).map(|_| cx.rng.below(nthreads + 1)).collect();
        let ex = execute(&init, &prog, Policy::Prefix(&garbage));
        emit(cx, &init, &prog, &garbage, &ex, &orc, "arbitrary-forced-schedule");
    }
    lap("random");
    // 16 threads under the scheduler, increments only, random schedules
    for _ in 0..cx.budget(10, 200) {
        if hangs() >= 2 {
            cx.count("metrics:skipped-after-2-hangs");
            break;
        }
        let per = 1 + cx.rng.below(4);
        let prog: Prog = (0..16).map(|t| (0..per).map(|_| Op::Inc("a", 1 + (t as u64 % 5))).collect()).collect();
        let init: Init = vec![("a", Val::C(cx.rng.below(1000) as u64))];
        let orc = ProgOracle { serial: HashSet::new(), inc_only: inc_only_expectation(&init, &prog).map(|m| join_or(m.iter().map(|(k, n)| format!("{k}:c{n}")).collect(), ",")), names: written_names(&init, &prog) };
        let ex = {
            let mut r = cx.rng.clone();
            let ex = execute(&init, &prog, Policy::Random(&mut r));
            cx.rng = r;
            ex
        };
        // serial set of an increment-only program is the single expected outcome
        let orc = ProgOracle { serial: orc.inc_only.iter().cloned().collect(), ..orc };
        let sched = ex.taken.clone();
        emit(cx, &init, &prog, &sched, &ex, &orc, "random-schedule-16-threads");
    }

    lap("16 threads");
    // (4) free-running stress (no scheduler): 16 threads x 20 000 increments and smaller shapes
    let reps = cx.budget(1, 3);
    for r in 0..reps {
        if hangs() > 0 {
            cx.count("stress:skipped-after-a-hang");
            break;
        }
        stress(cx, Some(5), 16, 20_000, &[1], false);
        stress(cx, None, 16, 20_000, &[1, 2, 3], r % 2 == 0);
        stress(cx, Some(1000), 2, 50_000, &[1, 7], false);
        stress(cx, Some(0), 4, 20_000, &[3], true);
        stress(cx, Some(0), 8, 5_000, &[1, 2], true);
    }

    // two threads that both start on an ABSENT name, 10^4 fresh collectors (the first increment creates the
    // counter: a second critical section there has no other witness than a free-running race)
    if hangs() == 0 {
        first_inc(cx, cx.budget(10_000, 100_000), 1, 2, cx.budget(6, 40) as u64);
        if !quick {
            first_inc(cx, 100_000, 5, 5, 40);
        }
    }
    lap("stress");
    // (5) real pipelines with and without a collector: GENERATED programs (pipe::gen_prog: every transform
    // family, barriers, joins, global combines), reorder-inert and hazard-free so that the plain-vector
    // reference applies; the model computes the expected result from the description
    let prounds = cx.budget(300, 1500);
    for round in 0..prounds {
        let prog = gen_inert_prog(cx, round);
        let mode = if cx.rng.chance(1, 2) { PMode::Seq } else { PMode::Par(*cx.rng.pick(&pipe::partition_choices(prog.src.len()))) };
        let npre = cx.rng.below(4);
        let pre: Vec<Op> = (0..npre)
            .map(|_| match cx.rng.below(4) {
                0 => Op::RegC("rows", cx.rng.below(100) as u64),
                1 => Op::RegG("ratio", cx.rng.below(9) as u64),
                2 => Op::Inc("calls", 1 + cx.rng.below(5) as u64),
                _ => Op::Set("execution_time_ms", 9),
            })
            .collect();
        let runs: Vec<&str> = match round % 7 {
            0 | 1 => vec!["ok"],
            2 => vec!["ok", "ok"],
            3 => vec!["pe"],
            4 => vec!["ok", "pe"],
            5 => vec!["ee", "ok"],
            _ => vec!["ok", "ee"],
        };
        let hammer = if hangs() > 0 { Hammer::No } else { match round % 6 { 0 | 3 => Hammer::IncSnap, 1 | 4 => Hammer::SetRegister, _ => Hammer::No } };
        mrun(cx, &prog, mode, &pre, &runs, hammer);
    }
    {
        let small = PProg { shape: Shape::T, src: (1..=5).map(V::I).collect(), steps: vec![Step::Map(Fn_::Mul(2)), Step::Filter(pipe::Pred::Ne(6))] };
        for runs in [vec!["pe"], vec!["ee"], vec!["pe", "ee", "ok"], vec!["ok", "ee", "pe"]] {
            mrun(cx, &small, PMode::Seq, &[Op::RegC("rows", 1)], &runs, Hammer::No);
        }
        // the shadowing witness: a user counter named execution_time_ms, then a successful run
        mrun(cx, &small, PMode::Seq, &[Op::Set("execution_time_ms", 9)], &["ok"], Hammer::No);
    }
    lap("pipelines");
    // (6) sleeping pipeline, run once / twice / three times: elapsed covers exactly the LAST run
    for mode in [PMode::Seq, PMode::Par(2)] {
        for nruns in [1usize, 2, 3] {
            msleep(cx, mode, nruns);
        }
    }
    for _ in 0..cx.budget(0, 6) {
        let mode = if cx.rng.chance(1, 2) { PMode::Seq } else { PMode::Par(1 + cx.rng.below(3)) };
        msleep(cx, mode, 2);
    }
    lap("sleep");
    // (7) the JSON export over the whole value space; the user's handle / the slot during a run
    mjson_block(cx);
    lap("mjson");
    mmid_block(cx);
    lap("mmid");
    // (8) the stamps when the pipeline's graph lock is contended: held on purpose (deterministic), then free-running
    for _ in 0..cx.budget(2, 10) {
        for which in ["start", "end"] {
            for mode in [PMode::Seq, PMode::Par(2)] {
                mheld(cx, which, mode);
            }
        }
    }
    for op in [Op::Inc("a", 3), Op::Inc("zz", 4), Op::Set("a", 5), Op::RegC("b", 7), Op::RegG("a", 2), Op::St, Op::En] {
        mheldc(cx, &vec![("a", Val::C(10))], op);
    }
    mcontend(cx, 1500, cx.budget(300, 3000), cx.budget(5, 40) as u64);
    lap("contended");
    cx.notes.push("C16 'attaching a collector never changes the result': in the Lean model this clause is STRUCTURAL (run_collect hands the node graph, never the metrics slot, to planner and engine), so its theorems hold by construction; the assurance for it is the MRUN/MPOISON/MSLEEP/MMID differential cases (real run with a collector == real run without == model's computed result == plain-vector reference), including runs during which another thread increments / sets / registers on the shared collector".into());
    let stalls = STALLS.load(std::sync::atomic::Ordering::Relaxed);
    if stalls > 0 {
        cx.count_n("metrics:time-outs-not-confirmed-by-re-execution(machine-stall)", stalls as u64);
    }
}

/// a generated program in which the value-only reorder pass is the identity (known finding of C02/C03)
/// and no hash-ordered list reaches an order-sensitive step: for these the plain-vector reference is exact
fn gen_inert_prog(cx: &mut Ctx, round: usize) -> PProg {
    let opts = pipe::GenOpts {
        max_steps: 7,
        max_rows: cx.budget(16, 40),
        barriers: round % 2 == 0,
        joins: round % 5 == 0,
        globals: round % 3 == 0,
        nonlocal_batches: false,
    };
    loop {
        let p = pipe::gen_prog(&mut cx.rng, &opts);
        if pipe::reorder_inert(&p) && pipe::hazard_free(&p) {
            return p;
        }
        cx.count("mrun:generated-program-rejected(reorder-active-or-hash-order-hazard)");
    }
}

/// thread `t` of a 3 x 3 mixed program: the kind sequence with amounts that identify thread and position
fn mixed_thread(kinds: &str, t: usize) -> Vec<Op> {
    kinds
        .chars()
        .enumerate()
        .map(|(j, k)| {
            let pos = (3 * t + j) as u64;
            match k {
                'I' => Op::Inc("a", 1 << pos),
                'S' => Op::Set("a", 1000 * (pos + 1)),
                _ => Op::RegC("a", 100_000 * (pos + 1)),
            }
        })
        .collect()
}
