//! C15 — approximate aggregations stay within their stated bounds (t-digest quantiles, KMV distinct count).
//!
//! Requests (see `lean/IbModel/Driver/D15.lean` for the grammar):
//!   `TDIGEST <δ> <aq|raw|med> <full|q> <tree> <values> <qs> <cdfs>`   numbers = hex bit patterns of f64
//!   `KMV <k> <new|raw> <full|est> <tree> <ranks>`
//! Real side: the real `TDigest` / `ApproxQuantiles` / `ApproxMedian` / `KMVApproxDistinctCount` code driven
//! through the public `CombineFn` / `LiftableCombiner` API in exactly the merge tree named by the request
//! (state read through the `verif-hooks` accessors), and real pipelines (`combine_globally(_lifted)`,
//! `combine_values`, `group_by_key().combine_values_lifted`, `approx_distinct_count(_per_key)`) in sequential
//! and parallel mode, whose merge tree is derived from the engine's documented split.
//!
//! Oracle (independent of the Lean model, evaluated on the real `f64` answers):
//!   t-digest: NaN iff no finite input; `min ≤ q̂ ≤ max` strictly (no tolerance); `q̂ = min` for q ≤ 0,
//!   `q̂ = max` for q ≥ 1; `q̂` never decreases as q increases (grid); total weight = number of finite inputs;
//!   the answer is unchanged when the non-finite inputs are removed from the request; the centroids of the digest
//!   that was queried are sorted by mean.
//!   Every inversion of the estimate is classified on the REAL centroids of the digest that was queried
//!   (`verif_state`; for `finish` the compressed copy, accepted only if `quantile` on it reproduces the answer bit
//!   for bit; for pipelines the accumulator rebuilt in the engine's merge tree, same condition): kind `B` = the
//!   covering centroid changes between the two grid points (signature of the known finding
//!   `quantile-not-monotone-in-q`), `S` = same covering branch, `U` = unsorted centroids, `X` = digest unknown —
//!   `S`/`U`/`X` have their own signatures, which are not known findings. The kind letters are part of the answer
//!   line, so the Lean model (`TDigest.cover` on `Float`) has to agree with the classification as well.
//!   KMV: heap = set = the k smallest distinct ranks; exact count while #distinct < k; `(k-1)/r_k` otherwise;
//!   the estimate equals that of the sorted, de-duplicated, single-partition run (order / duplicates / partitioning).
//!   Empirical only (statistical claims, not provable): rank error of the t-digest on large inputs, error band of KMV.

use crate::ctx::{Ctx, Rng, Tier, guarded};
use ironbeam::collection::LiftableCombiner;
use ironbeam::combiners::{ApproxMedian, ApproxQuantiles, KMVAcc, KMVApproxDistinctCount, TDigest, verif_rank_from_value};
use ironbeam::{CombineFn, from_vec, Pipeline};

/* ------------------------------------------------------------------ encoding */

fn hx(x: f64) -> String { format!("{:016x}", x.to_bits()) }
fn hxs(xs: &[f64]) -> String {
    if xs.is_empty() { "-".into() } else { xs.iter().map(|x| hx(*x)).collect::<Vec<_>>().join(",") }
}
fn ft(x: f64) -> String { format!("F{x:?}") }

#[derive(Clone, Debug)]
pub enum Tree { L(usize), B(usize), /** `TDigest::new` + `add_weighted` of (value, weight) pairs */ W(usize), M(Box<Tree>, Box<Tree>) }
impl Tree {
    fn enc(&self, out: &mut Vec<String>) {
        match self {
            Tree::L(n) => out.push(format!("L{n}")),
            Tree::B(n) => out.push(format!("B{n}")),
            Tree::W(n) => out.push(format!("W{n}")),
            Tree::M(l, r) => { out.push("M".into()); l.enc(out); r.enc(out); }
        }
    }
    fn encode(&self) -> String { let mut v = vec![]; self.enc(&mut v); v.join(",") }
    fn size(&self) -> usize { match self { Tree::L(n) | Tree::B(n) | Tree::W(n) => *n, Tree::M(l, r) => l.size() + r.size() } }
    fn has_w(&self) -> bool { match self { Tree::W(_) => true, Tree::M(l, r) => l.has_w() || r.has_w(), _ => false } }
    /// per input position: does it sit in a `W` leaf (its weight is used)?
    fn in_w(&self, out: &mut Vec<bool>) {
        match self {
            Tree::L(n) | Tree::B(n) => out.extend(std::iter::repeat(false).take(*n)),
            Tree::W(n) => out.extend(std::iter::repeat(true).take(*n)),
            Tree::M(l, r) => { l.in_w(out); r.in_w(out); }
        }
    }
    fn leaves(&self) -> usize { match self { Tree::M(l, r) => l.leaves() + r.leaves(), _ => 1 } }
    /// the same tree after deleting the values whose `keep` flag is false
    fn restrict(&self, keep: &[bool], pos: &mut usize) -> Tree {
        match self {
            Tree::L(n) => { let c = keep[*pos..*pos + n].iter().filter(|b| **b).count(); *pos += n; Tree::L(c) }
            Tree::B(n) => { let c = keep[*pos..*pos + n].iter().filter(|b| **b).count(); *pos += n; Tree::B(c) }
            Tree::W(n) => { let c = keep[*pos..*pos + n].iter().filter(|b| **b).count(); *pos += n; Tree::W(c) }
            Tree::M(l, r) => { let a = l.restrict(keep, pos); let b = r.restrict(keep, pos); Tree::M(Box::new(a), Box::new(b)) }
        }
    }
}
/// left fold of leaves: M(M(a,b),c)…
fn fold_tree(mut leaves: Vec<Tree>) -> Tree {
    let mut acc = leaves.remove(0);
    for l in leaves { acc = Tree::M(Box::new(acc), Box::new(l)); }
    acc
}
fn random_tree(rng: &mut Rng, n: usize, depth: usize, allow_built: bool) -> Tree {
    if depth == 0 || rng.chance(2, 5) {
        if allow_built && rng.chance(1, 4) { Tree::B(n) } else { Tree::L(n) }
    } else {
        let a = match rng.below(4) { 0 => 0, 1 => n, _ => rng.below(n + 1) };
        Tree::M(Box::new(random_tree(rng, a, depth - 1, allow_built)), Box::new(random_tree(rng, n - a, depth - 1, allow_built)))
    }
}

/* ------------------------------------------------------------------ t-digest: real side */

fn eval_td(c: &ApproxQuantiles<f64>, delta: f64, t: &Tree, vals: &[f64], wts: &[f64], pos: &mut usize) -> TDigest {
    match t {
        Tree::L(n) => {
            let mut acc = c.create();
            for v in &vals[*pos..*pos + n] { c.add_input(&mut acc, *v); }
            *pos += n;
            acc
        }
        Tree::B(n) => { let a = c.build_from_group(&vals[*pos..*pos + n]); *pos += n; a }
        Tree::W(n) => {
            // direct use of the public `TDigest`: `new` + `add_weighted`
            let mut acc = TDigest::new(delta);
            for j in *pos..*pos + n { acc.add_weighted(vals[j], wts[j]); }
            *pos += n;
            acc
        }
        Tree::M(l, r) => {
            let mut a = eval_td(c, delta, l, vals, wts, pos);
            let b = eval_td(c, delta, r, vals, wts, pos);
            c.merge(&mut a, b);
            a
        }
    }
}

#[derive(Clone, Copy, PartialEq, Debug)]
enum Fin { Aq, Raw, Med }
impl Fin { fn s(self) -> &'static str { match self { Fin::Aq => "aq", Fin::Raw => "raw", Fin::Med => "med" } } }

/// `(centroids as (mean, weight), total_weight, min, max)` as returned by the `verif_state` hook
type St = (Vec<(f64, f64)>, f64, f64, f64);

/// `queried` = the state of the digest `quantile` was evaluated on: the merged accumulator itself for `raw`,
/// its compressed copy for `aq` / `med` (`finish` compresses once more). The compressed copy is obtained through
/// the public API only: `TDigest::new(δ).merge(&acc)` = take `acc`'s min/max/centroids/total and `compress()`.
/// `None` = not known (a pipeline result that could not be re-derived from its merge tree).
struct TdOut { est: Vec<f64>, state: St, cdfs: Vec<f64>, queried: Option<St> }

fn ones(n: usize) -> Vec<f64> { vec![1.0; n] }

/// the harness's own statement of which weights `add_weighted` accepts: positive finite numbers
fn weight_ok(w: f64) -> bool { w.is_finite() && w > 0.0 }

fn real_td(delta: f64, fin: Fin, tree: &Tree, vals: &[f64], qs: &[f64], cdfs: &[f64]) -> Result<TdOut, String> {
    real_tdw(delta, fin, tree, vals, &ones(vals.len()), qs, cdfs)
}

fn real_tdw(delta: f64, fin: Fin, tree: &Tree, vals: &[f64], wts: &[f64], qs: &[f64], cdfs: &[f64]) -> Result<TdOut, String> {
    guarded(|| {
        let c = ApproxQuantiles::<f64>::new(qs.to_vec(), delta);
        let mut pos = 0;
        let acc = eval_td(&c, delta, tree, vals, wts, &mut pos);
        let state = acc.verif_state();
        let cd: Vec<f64> = cdfs.iter().map(|v| acc.cdf(*v)).collect();
        let qs_eff: Vec<f64> = if fin == Fin::Med { vec![0.5] } else { qs.to_vec() };
        let (queried, requery) = if fin == Fin::Raw { (state.clone(), acc.quantiles(&qs_eff)) } else {
            let mut d = TDigest::new(delta);
            d.merge(&acc);
            (d.verif_state(), d.quantiles(&qs_eff))
        };
        let est = match fin {
            Fin::Aq => c.finish(acc),
            Fin::Raw => acc.quantiles(qs),
            Fin::Med => vec![CombineFn::<f64, TDigest, f64>::finish(&ApproxMedian::<f64>::new(delta), acc)],
        };
        // the centroids are only evidence for an answer that `quantile` on them reproduces bit for bit
        let same = requery.len() == est.len() && requery.iter().zip(&est).all(|(a, b)| a.to_bits() == b.to_bits() || (a.is_nan() && b.is_nan()));
        TdOut { est, state, cdfs: cd, queried: if same { Some(queried) } else { None } }
    })
}

fn inversions(qs: &[f64], est: &[f64]) -> Vec<usize> {
    let mut v = vec![];
    for i in 0..qs.len().saturating_sub(1).min(est.len().saturating_sub(1)) {
        if !est[i].is_nan() && !est[i + 1].is_nan() && qs[i] <= qs[i + 1] && est[i] > est[i + 1] { v.push(i); }
    }
    v
}

/// which branch of `TDigest::quantile` answers `q` on the digest `st` (re-derivation of the walk, for attribution only)
#[derive(Clone, Copy, PartialEq, Debug)]
enum Cover { Min, Max, At(usize), Past }

fn cover(st: &St, q: f64) -> Cover {
    let (cs, total, _, _) = st;
    let q = if q.is_nan() { q } else { q.clamp(0.0, 1.0) };
    if (q - 0.0).abs() <= f64::EPSILON { return Cover::Min; }
    if (q - 1.0).abs() <= f64::EPSILON { return Cover::Max; }
    if cs.len() == 1 { return Cover::Min; }
    let target = q * total;
    let mut cum = 0.0;
    for (i, (_, w)) in cs.iter().enumerate() {
        let next = cum + w;
        if next >= target { return Cover::At(i); }
        cum = next;
    }
    Cover::Past
}

fn sorted_by_mean(st: &St) -> bool { st.0.windows(2).all(|w| w[0].0 <= w[1].0) }

/// Where does the inversion between the grid points `q1 ≤ q2` sit?
///   `B` — the centroids are sorted and the centroid that covers `q·W` CHANGES between the two points: the
///         saw-tooth of the known finding (interpolation between the neighbours' means restarts at a boundary);
///   `S` — sorted centroids, both points are answered by the same branch / the same centroid: NOT the known finding
///         (in exact arithmetic impossible: Lean `quantile_monotone_same_cover`);
///   `U` — `quantile` walked centroids that are not sorted by mean: NOT the known finding;
///   `X` — the digest that was queried is not known.
fn inv_kind(queried: Option<&St>, q1: f64, q2: f64) -> char {
    match queried {
        None => 'X',
        Some(st) if !sorted_by_mean(st) => 'U',
        Some(st) => if cover(st, q1) == cover(st, q2) { 'S' } else { 'B' },
    }
}

fn td_answer(o: &TdOut, qs_eff: &[f64], full: bool) -> String {
    let mut s = String::from("Q");
    for e in &o.est { s.push(' '); s.push_str(&ft(*e)); }
    if !full { return s; }
    let (cs, total, mn, mx) = &o.state;
    s.push_str(&format!(" | S {} {} {} {}", cs.len(), ft(*total), ft(*mn), ft(*mx)));
    s.push_str(" | C");
    for (m, w) in cs { s.push(' '); s.push_str(&ft(*m)); s.push(' '); s.push_str(&ft(*w)); }
    s.push_str(" | D");
    for d in &o.cdfs { s.push(' '); s.push_str(&ft(*d)); }
    s.push_str(" | INV");
    let inv = inversions(qs_eff, &o.est);
    if inv.is_empty() { s.push_str(" -"); } else { for i in inv { s.push_str(&format!(" {}{i}", inv_kind(o.queried.as_ref(), qs_eff[i], qs_eff[i + 1]))); } }
    s
}

/// the property's own statement on the real answer. An INPUT is a finite value (in a `W` leaf: offered with a
/// positive finite weight); everything else must be ignored.
fn td_oracle(cx: &mut Ctx, i: usize, delta: f64, fin: Fin, tree: &Tree, vals: &[f64], wts: &[f64], qs: &[f64], o: &TdOut, check_total: bool) {
    let qs_eff: Vec<f64> = if fin == Fin::Med { vec![0.5] } else { qs.to_vec() };
    let mut in_w = vec![];
    tree.in_w(&mut in_w);
    let keep: Vec<bool> = (0..vals.len()).map(|j| vals[j].is_finite() && (!in_w[j] || weight_ok(wts[j]))).collect();
    let fin_vals: Vec<f64> = (0..vals.len()).filter(|j| keep[*j]).map(|j| vals[j]).collect();
    let fin_wts: Vec<f64> = (0..vals.len()).filter(|j| keep[*j]).map(|j| wts[j]).collect();
    let n = fin_vals.len();
    if check_total && !tree.has_w() && o.state.1 != n as f64 {
        cx.oracle_fail(i, "tdigest-total-weight-not-count-of-finite-inputs", format!("total={} finite inputs={n}", o.state.1));
    }
    if check_total && tree.has_w() {
        // sums of multiples of 1/4 below 2^50 are exact in f64 in any order
        let used: Vec<f64> = (0..vals.len()).filter(|j| keep[*j]).map(|j| if in_w[j] { wts[j] } else { 1.0 }).collect();
        if used.iter().all(|w| (*w * 4.0).fract() == 0.0 && *w <= 1e6) {
            let want: f64 = used.iter().sum();
            if o.state.1 != want {
                cx.oracle_fail(i, "tdigest-total-weight-not-sum-of-accepted-weights", format!("total={} sum of the accepted weights={want} ({n} accepted inputs)", o.state.1));
            }
            cx.count("tdigest:weighted, total weight checked exactly");
        }
    }
    if n == 0 {
        if o.est.iter().any(|e| !e.is_nan()) {
            cx.oracle_fail(i, "tdigest-not-nan-on-empty-input", format!("est={:?}", o.est));
        }
        return;
    }
    let mn = fin_vals.iter().copied().fold(f64::INFINITY, f64::min);
    let mx = fin_vals.iter().copied().fold(f64::NEG_INFINITY, f64::max);
    for (j, e) in o.est.iter().enumerate() {
        let q = qs_eff[j];
        if e.is_nan() {
            cx.oracle_fail(i, "tdigest-nan-on-nonempty-input", format!("q={q:?} est=NaN with {n} finite inputs"));
            continue;
        }
        if !(mn <= *e && *e <= mx) {
            cx.oracle_fail(i, "tdigest-estimate-outside-min-max", format!("q={q:?} est={e:?} min={mn:?} max={mx:?} excess={:e}", if *e > mx { *e - mx } else { mn - *e }));
        }
        if q <= 0.0 && *e != mn {
            cx.oracle_fail(i, "tdigest-q0-not-min", format!("q={q:?} est={e:?} min={mn:?}"));
        }
        if q >= 1.0 && *e != mx {
            cx.oracle_fail(i, "tdigest-q1-not-max", format!("q={q:?} est={e:?} max={mx:?}"));
        }
    }
    let inv = inversions(&qs_eff, &o.est);
    if !inv.is_empty() {
        cx.count("tdigest:non-monotone cases");
        // one failure per kind of inversion; only kind B (at a centroid boundary of sorted centroids) carries the
        // signature of the known finding
        for (kind, sig) in [('B', "quantile-not-monotone-in-q"),
                            ('S', "quantile-decreases-inside-one-centroid"),
                            ('U', "quantile-decreases-on-unsorted-centroids"),
                            ('X', "quantile-decreases-unattributed")] {
            let js: Vec<usize> = inv.iter().copied().filter(|j| inv_kind(o.queried.as_ref(), qs_eff[*j], qs_eff[*j + 1]) == kind).collect();
            if let Some(j) = js.first() {
                cx.count(&format!("tdigest:inversions of kind {kind}"));
                let cov = o.queried.as_ref().map(|st| format!("{:?} -> {:?}, {} centroids", cover(st, qs_eff[*j]), cover(st, qs_eff[*j + 1]), st.0.len())).unwrap_or_default();
                cx.oracle_fail(i, sig, format!("{} inversions of kind {kind}; first: q={:?} -> {:?} but q={:?} -> {:?} (covering branch {cov})",
                    js.len(), qs_eff[*j], o.est[*j], qs_eff[*j + 1], o.est[*j + 1]));
            }
        }
    }
    // non-finite inputs (and pairs with an inadmissible weight) are ignored: same request without them gives the same answer
    if n != vals.len() {
        let mut pos = 0;
        let t2 = tree.restrict(&keep, &mut pos);
        match real_tdw(delta, fin, &t2, &fin_vals, &fin_wts, qs, &[]) {
            Ok(o2) => {
                let same = o2.est.len() == o.est.len() && o2.est.iter().zip(&o.est).all(|(a, b)| a.to_bits() == b.to_bits() || (a.is_nan() && b.is_nan()) || a == b);
                if !same {
                    cx.oracle_fail(i, "tdigest-nonfinite-input-changes-result", format!("with={:?} without={:?}", o.est, o2.est));
                }
            }
            Err(e) => cx.oracle_fail(i, "tdigest-panic", format!("finite-only rerun panicked: {e}")),
        }
        cx.count("tdigest:with non-finite inputs or inadmissible weights");
    }
}

fn one_td(cx: &mut Ctx, delta: f64, fin: Fin, tree: &Tree, vals: &[f64], qs: &[f64], cdfs: &[f64]) {
    one_tdw(cx, delta, fin, tree, vals, &ones(vals.len()), qs, cdfs);
}

fn one_tdw(cx: &mut Ctx, delta: f64, fin: Fin, tree: &Tree, vals: &[f64], wts: &[f64], qs: &[f64], cdfs: &[f64]) {
    debug_assert_eq!(tree.size(), vals.len());
    debug_assert_eq!(wts.len(), vals.len());
    let weighted = tree.has_w();
    let req = if weighted {
        format!("TDIGESTW {} {} full {} {} {} {} {}", hx(delta), fin.s(), tree.encode(), hxs(vals), hxs(wts), hxs(qs), hxs(cdfs))
    } else {
        format!("TDIGEST {} {} full {} {} {} {}", hx(delta), fin.s(), tree.encode(), hxs(vals), hxs(qs), hxs(cdfs))
    };
    let qs_eff: Vec<f64> = if fin == Fin::Med { vec![0.5] } else { qs.to_vec() };
    let nt = vals.len() >= 2 && !qs_eff.is_empty();
    match real_tdw(delta, fin, tree, vals, wts, qs, cdfs) {
        Ok(o) => {
            let i = cx.case(req, td_answer(&o, &qs_eff, true), nt);
            cx.count(&format!("tdigest:fin={}", fin.s()));
            cx.count(&format!("tdigest:n~{}", bucket(vals.len())));
            cx.count(&format!("tdigest:leaves~{}", bucket(tree.leaves())));
            cx.count(&format!("tdigest:centroids~{}", bucket(o.state.0.len())));
            if weighted {
                cx.count("tdigest:weighted (add_weighted leaves)");
                let mut in_w = vec![];
                tree.in_w(&mut in_w);
                for j in 0..wts.len() {
                    if in_w[j] {
                        let w = wts[j];
                        cx.count(if w.is_nan() { "tdigest:weight NaN" } else if w.is_infinite() { "tdigest:weight ±inf" } else if w == 0.0 { "tdigest:weight 0" }
                                 else if w < 0.0 { "tdigest:weight negative" } else if w < 1.0 { "tdigest:weight in (0,1)" } else if w == 1.0 { "tdigest:weight 1" } else { "tdigest:weight > 1" });
                    }
                }
                if o.state.0.len() == 1 && o.state.2 < o.state.3 { cx.count("tdigest:single centroid with min < max"); }
            }
            match &o.queried {
                None => cx.oracle_fail(i, "tdigest-finish-differs-from-compress-then-quantile", format!("est={:?}", o.est)),
                Some(st) => if !sorted_by_mean(st) {
                    // the walk of `quantile` / `cdf` presupposes centroids sorted by mean (anchor: "sorted weighted
                    // centroids after compress()"; Lean, exact arithmetic: `tdigest_sorted_after_compress`, `tdigest_sorted_always`)
                    cx.count(&format!("tdigest:queried digest not sorted by mean (fin={})", fin.s()));
                    let j = st.0.windows(2).position(|w| !(w[0].0 <= w[1].0)).unwrap_or(0);
                    cx.oracle_fail(i, "tdigest-queried-centroids-not-sorted-by-mean", format!("fin={} centroid {j} mean {:?} > centroid {} mean {:?} ({} centroids)", fin.s(), st.0[j].0, j + 1, st.0[j + 1].0, st.0.len()));
                }
            }
            // every stored centroid carries a positive finite weight (what `add_weighted` admits)
            if let Some((m, w)) = o.state.0.iter().find(|(_, w)| !weight_ok(*w)) {
                cx.oracle_fail(i, "tdigest-centroid-with-inadmissible-weight", format!("centroid mean {m:?} weight {w:?}"));
            }
            td_oracle(cx, i, delta, fin, tree, vals, wts, qs, &o, true);
        }
        Err(e) => {
            let i = cx.case(req, "PANIC".into(), nt);
            cx.oracle_fail(i, "tdigest-panic", e);
        }
    }
}

fn bucket(n: usize) -> &'static str {
    match n { 0 => "0", 1 => "1", 2 => "2", 3..=4 => "3-4", 5..=8 => "5-8", 9..=32 => "9-32", 33..=128 => "33-128", 129..=1024 => "129-1024", _ => ">1024" }
}

fn grid(n: usize) -> Vec<f64> { (0..=n).map(|i| i as f64 / n as f64).collect() }

/* ------------------------------------------------------------------ KMV: real side */

/// what a KMV leaf is fed with: hand-picked ranks (through the `verif_try_insert` hook; `L` leaves only), or `u64`
/// VALUES through the real `add_input` (`L`) / the real `build_from_group` (`B`), which hash them themselves
#[derive(Clone, Copy)]
enum KIn<'a> { Ranks(&'a [f64]), Values(&'a [u64]) }
impl KIn<'_> {
    fn len(&self) -> usize { match self { KIn::Ranks(r) => r.len(), KIn::Values(v) => v.len() } }
    fn ranks(&self) -> Vec<f64> { match self { KIn::Ranks(r) => r.to_vec(), KIn::Values(v) => v.iter().map(verif_rank_from_value).collect() } }
}

fn eval_kmv(c: &KMVApproxDistinctCount<u64>, t: &Tree, input: KIn, pos: &mut usize) -> KMVAcc {
    match t {
        Tree::L(n) => {
            let mut acc = c.create();
            match input {
                KIn::Ranks(ranks) => for r in &ranks[*pos..*pos + n] { acc.verif_try_insert(*r); },
                KIn::Values(vals) => for v in &vals[*pos..*pos + n] { c.add_input(&mut acc, *v); },
            }
            *pos += n;
            acc
        }
        Tree::B(n) => {
            let acc = match input {
                KIn::Values(vals) => c.build_from_group(&vals[*pos..*pos + n]),
                KIn::Ranks(_) => panic!("harness: a B leaf needs values (build_from_group hashes them itself)"),
            };
            *pos += n;
            acc
        }
        Tree::W(_) => panic!("harness: no weighted leaves for KMV"),
        Tree::M(l, r) => {
            let mut a = eval_kmv(c, l, input, pos);
            let b = eval_kmv(c, r, input, pos);
            c.merge(&mut a, b);
            a
        }
    }
}

fn kmv_comb(k: usize, raw: bool) -> KMVApproxDistinctCount<u64> {
    let mut c = KMVApproxDistinctCount::<u64>::new(k);
    if raw { c.k = k; }
    c
}

struct KmvOut { est: Result<f64, String>, heap: Vec<f64>, set: Vec<f64>, k: usize }

fn real_kmv(k: usize, raw: bool, tree: &Tree, input: KIn) -> Result<KmvOut, String> {
    guarded(|| {
        let c = kmv_comb(k, raw);
        let mut pos = 0;
        let acc = eval_kmv(&c, tree, input, &mut pos);
        let (heap, set, kk) = acc.verif_state();
        let est = guarded(|| c.finish(acc));
        KmvOut { est, heap, set, k: kk }
    })
}

fn kmv_reference(ranks: &[f64], k: usize) -> (Vec<f64>, usize) {
    let mut d: Vec<f64> = ranks.to_vec();
    d.sort_by(f64::total_cmp);
    d.dedup_by(|a, b| a == b);
    let dn = d.len();
    d.truncate(k);
    (d, dn)
}

const COLLISION_KEY: &str = "kmv:rank collision among inputs (hash not injective on them): exactness in VALUES not judged";
/// `hinj` of the Lean theorem `kmv_exact_below_k` is an assumption about SipHash + the 53-bit rank; the harness may
/// skip at most this many cases per run for that reason (expected: 0; two distinct u64 values share a rank with
/// probability 2^-53 per pair). More skips = the rank function lost its resolution = an oracle failure.
const COLLISION_BOUND: u64 = 1;

fn one_kmv(cx: &mut Ctx, k: usize, raw: bool, tree: &Tree, ranks: &[f64]) { one_kmv_in(cx, k, raw, tree, KIn::Ranks(ranks)); }

fn one_kmv_in(cx: &mut Ctx, k: usize, raw: bool, tree: &Tree, input: KIn) {
    debug_assert_eq!(tree.size(), input.len());
    let ranks_v = input.ranks();
    let ranks = &ranks_v[..];
    let req = format!("KMV {k} {} full {} {}", if raw { "raw" } else { "new" }, tree.encode(), hxs(ranks));
    let nt = ranks.len() >= 2;
    let o = match real_kmv(k, raw, tree, input) {
        Ok(o) => o,
        Err(e) => { let i = cx.case(req, "PANIC".into(), nt); cx.oracle_fail(i, "kmv-panic", e); return; }
    };
    let est_tok = match &o.est { Ok(e) => ft(*e), Err(_) => "PANIC".into() };
    let mut ans = format!("{est_tok} M{} H{} K{} | H", o.set.len(), o.heap.len(), o.k);
    for h in &o.heap { ans.push(' '); ans.push_str(&ft(*h)); }
    ans.push_str(" | S");
    for h in &o.set { ans.push(' '); ans.push_str(&ft(*h)); }
    let i = cx.case(req, ans, nt);
    // the sketch size the property speaks about: `new(k)` documents max(k, 4); `raw` sets the public field
    let keff = if raw { k } else { k.max(4) };
    if o.k != keff {
        cx.oracle_fail(i, "kmv-sketch-size-not-max(k,4)", format!("requested k={k} ({}) accumulator k={}", if raw { "field" } else { "new" }, o.k));
    }
    let (want, d) = kmv_reference(ranks, keff);
    cx.count(&format!("kmv:k={}", if keff <= 8 { keff.to_string() } else { bucket(keff).to_string() }));
    cx.count(if d < keff { "kmv:below-k" } else if d == keff { "kmv:d=k" } else { "kmv:above-k" });
    cx.count(&format!("kmv:leaves~{}", bucket(tree.leaves())));
    if let KIn::Values(_) = input { cx.count("kmv:fed with values (real add_input / build_from_group)"); }
    if matches!(input, KIn::Values(_)) && tree.encode().contains('B') { cx.count("kmv:trees with a build_from_group leaf"); }
    if keff == 0 { cx.count("kmv:k=0 (correspondence only)"); return; }
    if o.heap.len() > keff {
        cx.oracle_fail(i, "kmv-heap-larger-than-k", format!("|heap|={} k={keff}", o.heap.len()));
    }
    if o.heap != o.set {
        cx.oracle_fail(i, "kmv-heap-and-set-differ", format!("heap={:?} set={:?}", o.heap.len(), o.set.len()));
    }
    if o.heap != want {
        let j = o.heap.iter().zip(&want).position(|(a, b)| a != b).unwrap_or(o.heap.len().min(want.len()));
        cx.oracle_fail(i, "kmv-kept-ranks-not-k-smallest-distinct", format!("|heap|={} |want|={} first difference at {j}: {:?} vs {:?}", o.heap.len(), want.len(), o.heap.get(j), want.get(j)));
    }
    match &o.est {
        Err(e) => cx.oracle_fail(i, "kmv-panic", e.clone()),
        Ok(est) => {
            if d < keff {
                if *est != d as f64 { cx.oracle_fail(i, "kmv-not-exact-below-k", format!("distinct={d} k={keff} est={est:?}")); }
            } else {
                let wantest = (keff as f64 - 1.0) / want[keff - 1];
                if *est != wantest && !(est.is_nan() && wantest.is_nan()) {
                    cx.oracle_fail(i, "kmv-estimate-not-(k-1)/r_k", format!("est={est:?} want={wantest:?}"));
                }
            }
            // exact in terms of distinct VALUES (the property's wording) needs the hash to be injective on them
            if let KIn::Values(vals) = input {
                let mut dv: Vec<u64> = vals.to_vec();
                dv.sort(); dv.dedup();
                if dv.len() != d { cx.count(COLLISION_KEY); }
                else if d < keff && *est != dv.len() as f64 { cx.oracle_fail(i, "kmv-not-exact-below-k", format!("distinct values={} k={keff} est={est:?}", dv.len())); }
            }
            // independent of duplicates, order, partitioning: same as the sorted distinct single-leaf run
            let (alld, _) = kmv_reference(ranks, usize::MAX);
            if let Ok(o2) = real_kmv(k, raw, &Tree::L(alld.len()), KIn::Ranks(&alld)) {
                match o2.est {
                    Ok(e2) if e2 == *est || (e2.is_nan() && est.is_nan()) => {}
                    other => cx.oracle_fail(i, "kmv-depends-on-order-duplicates-or-partitioning", format!("est={est:?}, sorted distinct single run={other:?}")),
                }
            }
        }
    }
}

/* ------------------------------------------------------------------ pipelines */

/// the engine's split of a vector source: `clamp(parts,1,max(len,1))`, then contiguous chunks of `ceil(len/n)`
fn engine_chunks(len: usize, parts: usize) -> Vec<usize> {
    let n = parts.max(1).min(len.max(1));
    if n <= 1 || len <= 1 { return vec![len]; }
    let chunk = len.div_ceil(n);
    let mut v = vec![];
    let mut left = len;
    while left > 0 { let c = chunk.min(left); v.push(c); left -= c; }
    v
}

#[derive(Clone, Copy, Debug, PartialEq)]
enum Mode { Seq, Par(usize) }
impl Mode { fn chunks(self, len: usize) -> Vec<usize> { match self { Mode::Seq => vec![len], Mode::Par(p) => engine_chunks(len, p) } } }

fn collect<T: ironbeam::RFBound>(pc: ironbeam::PCollection<T>, mode: Mode) -> Result<Vec<T>, String> {
    match guarded(|| match mode { Mode::Seq => pc.collect_seq(), Mode::Par(p) => pc.collect_par(Some([4usize, 1, 2, 8][p % 4]), Some(p)) }) {
        Ok(Ok(v)) => Ok(v),
        Ok(Err(e)) => Err(format!("ERR {e}")),
        Err(e) => Err(format!("PANIC {e}")),
    }
}

/// Merge trees a correct engine may use over the per-partition leaves (sizes in source order): the documented one
/// first (today: left fold; keyed merges start from an empty accumulator), then other association orders, fan-ins and
/// leaf kinds. A pipeline answer is accepted as "produced by the accumulator code" if ANY of them reproduces it bit
/// for bit — the property does not prescribe the engine's merge tree, so a refactor inside this family is no alarm.
fn admissible_trees(documented: &Tree, sizes: &[usize], built: bool) -> Vec<Tree> {
    let mut out = vec![documented.clone()];
    let n: usize = sizes.iter().sum();
    for b in [built, !built] {
        let leaf = |c: usize| if b { Tree::B(c) } else { Tree::L(c) };
        let leaves: Vec<Tree> = sizes.iter().map(|c| leaf(*c)).collect();
        if leaves.is_empty() { out.push(leaf(0)); continue; }
        // left fold, left fold from an empty accumulator
        out.push(fold_tree(leaves.clone()));
        let mut from_empty = vec![Tree::L(0)]; from_empty.extend(leaves.clone());
        out.push(fold_tree(from_empty));
        // right fold
        let mut it = leaves.clone().into_iter().rev();
        let mut acc = it.next().unwrap();
        for l in it { acc = Tree::M(Box::new(l), Box::new(acc)); }
        out.push(acc);
        // rounds with fan-in f (each group left-folded)
        for f in [2usize, 3, 4, 8] {
            let mut level = leaves.clone();
            while level.len() > 1 {
                level = level.chunks(f).map(|g| fold_tree(g.to_vec())).collect();
            }
            out.push(level.remove(0));
        }
        // no partitioning at all
        out.push(leaf(n));
    }
    let mut seen = std::collections::BTreeSet::new();
    out.retain(|t| seen.insert(t.encode()));
    out
}

/// global quantiles: `combine_globally(ApproxQuantiles)` / `combine_globally_lifted` / ApproxMedian
fn pipe_td_global(cx: &mut Ctx, delta: f64, vals: &[f64], qs: &[f64], mode: Mode, lifted: bool, median: bool) {
    let p = Pipeline::default();
    let src = from_vec(&p, vals.to_vec());
    let res: Result<Vec<f64>, String> = if median {
        let c = ApproxMedian::<f64>::new(delta);
        let pc = if lifted { src.combine_globally_lifted(c, None) } else { src.combine_globally(c, None) };
        collect(pc, mode)
    } else {
        let c = ApproxQuantiles::<f64>::new(qs.to_vec(), delta);
        let pc = if lifted { src.combine_globally_lifted(c, None) } else { src.combine_globally(c, None) };
        collect(pc, mode).map(|v| v.into_iter().flatten().collect())
    };
    let chunks = mode.chunks(vals.len());
    let tree = fold_tree(chunks.iter().map(|c| if lifted { Tree::B(*c) } else { Tree::L(*c) }).collect());
    let fin = if median { Fin::Med } else { Fin::Aq };
    let trees = admissible_trees(&tree, &chunks, lifted);
    pipe_td_case(cx, delta, fin, &trees, vals, qs, res, &format!("pipe:global{}{}:{mode:?}", if lifted { "-lifted" } else { "" }, if median { "-median" } else { "" }));
}

/// `trees[0]` = the documented merge tree, the rest = other admissible ones (tried only if the first does not
/// reproduce the pipeline's answer)
fn pipe_td_case(cx: &mut Ctx, delta: f64, fin: Fin, trees: &[Tree], vals: &[f64], qs: &[f64], res: Result<Vec<f64>, String>, label: &str) {
    let qs_eff: Vec<f64> = if fin == Fin::Med { vec![0.5] } else { qs.to_vec() };
    cx.count(label.split(':').take(2).collect::<Vec<_>>().join(":").as_str());
    match res {
        Ok(est) => {
            // the digest the pipeline queried is not observable; re-derive it by running the real accumulator
            // code in an admissible merge tree and accept its centroids as evidence only if that reproduces the
            // pipeline's answer bit for bit. The request names the tree that did, so the Lean model is asked
            // about the same tree.
            let mut found: Option<(usize, St)> = None;
            for (ti, t) in trees.iter().enumerate() {
                if let Ok(r) = real_td(delta, fin, t, vals, qs, &[]) {
                    let same = r.est.len() == est.len() && r.est.iter().zip(&est).all(|(a, b)| a.to_bits() == b.to_bits() || (a.is_nan() && b.is_nan()));
                    if same { if let Some(q) = r.queried { found = Some((ti, q)); break; } }
                }
            }
            let ti = found.as_ref().map_or(0, |f| f.0);
            match &found {
                Some((0, _)) => {}
                Some(_) => cx.count("tdigest:pipeline answer reproduced by an admissible merge tree other than the documented one"),
                // Not an oracle failure (no clause of the property names the engine's merge tree): the request below
                // carries the documented tree with the pipeline's answer, so this surfaces as a model/implementation
                // disagreement (the correspondence for pipelines no longer holds and has to be re-established).
                None => cx.count("tdigest:pipeline answer not reproduced by any admissible merge tree"),
            }
            let tree = &trees[ti];
            let req = format!("TDIGEST {} {} q {} {} {} -", hx(delta), fin.s(), tree.encode(), hxs(vals), hxs(qs));
            let o = TdOut { est, state: (vec![], 0.0, 0.0, 0.0), cdfs: vec![], queried: found.map(|f| f.1) };
            let i = cx.case(req, td_answer(&o, &qs_eff, false), vals.len() >= 2);
            td_oracle(cx, i, delta, fin, tree, vals, &ones(vals.len()), qs, &o, false);
        }
        Err(e) => {
            let req = format!("TDIGEST {} {} q {} {} {} -", hx(delta), fin.s(), trees[0].encode(), hxs(vals), hxs(qs));
            let i = cx.case(req, e.split(' ').next().unwrap_or("PANIC").to_string(), true);
            cx.oracle_fail(i, "tdigest-pipeline-failed", format!("{label}: {e}"));
        }
    }
}

/// per-key quantiles: `combine_values` or `group_by_key().combine_values_lifted` (the planner lifts the
/// latter back to element-wise `add_input`), one request per key
fn pipe_td_keyed(cx: &mut Ctx, delta: f64, rows: &[(u32, f64)], qs: &[f64], mode: Mode, via_gbk: bool, median: bool) {
    let p = Pipeline::default();
    let src = from_vec(&p, rows.to_vec());
    let res: Result<Vec<(u32, Vec<f64>)>, String> = if median {
        let c = ApproxMedian::<f64>::new(delta);
        let pc = if via_gbk { src.group_by_key().combine_values_lifted(c) } else { src.combine_values(c) };
        collect(pc, mode).map(|v| v.into_iter().map(|(k, m)| (k, vec![m])).collect())
    } else {
        let c = ApproxQuantiles::<f64>::new(qs.to_vec(), delta);
        let pc = if via_gbk { src.group_by_key().combine_values_lifted(c) } else { src.combine_values(c) };
        collect(pc, mode)
    };
    let label = format!("pipe:keyed{}{}:{mode:?}", if via_gbk { "-gbk-lifted" } else { "" }, if median { "-median" } else { "" });
    let fin = if median { Fin::Med } else { Fin::Aq };
    let mut keys: Vec<u32> = rows.iter().map(|r| r.0).collect();
    keys.sort(); keys.dedup();
    let chunks = mode.chunks(rows.len());
    match res {
        Err(e) => {
            let i = cx.case(format!("TDIGEST {} {} q L0 - {} -", hx(delta), fin.s(), hxs(qs)), e.split(' ').next().unwrap_or("PANIC").to_string(), true);
            cx.oracle_fail(i, "tdigest-pipeline-failed", format!("{label}: {e}"));
        }
        Ok(mut out) => {
            out.sort_by_key(|r| r.0);
            let out_keys: Vec<u32> = out.iter().map(|r| r.0).collect();
            if out_keys != keys {
                let i = cx.case(format!("TDIGEST {} {} q L0 - {} -", hx(delta), fin.s(), hxs(qs)), "KEYS".into(), true);
                cx.oracle_fail(i, "tdigest-pipeline-keys-differ", format!("{label}: got {out_keys:?} want {keys:?}"));
                return;
            }
            for (k, est) in out {
                // values of this key per source chunk, in order; merge starts from an empty accumulator
                let mut leaves = vec![Tree::L(0)];
                let mut sizes = vec![];
                let mut vals = vec![];
                let mut off = 0;
                for c in &chunks {
                    let part: Vec<f64> = rows[off..off + c].iter().filter(|r| r.0 == k).map(|r| r.1).collect();
                    off += c;
                    if !part.is_empty() { leaves.push(Tree::L(part.len())); sizes.push(part.len()); vals.extend(part); }
                }
                let tree = fold_tree(leaves);
                let trees = admissible_trees(&tree, &sizes, false);
                pipe_td_case(cx, delta, fin, &trees, &vals, qs, Ok(est), &label);
            }
        }
    }
}

fn pipe_kmv_case(cx: &mut Ctx, k: usize, tree: &Tree, values: &[u64], res: Result<f64, String>, label: &str) {
    let ranks: Vec<f64> = values.iter().map(verif_rank_from_value).collect();
    let req = format!("KMV {k} new est {} {}", tree.encode(), hxs(&ranks));
    cx.count(label.split(':').take(2).collect::<Vec<_>>().join(":").as_str());
    match res {
        Ok(est) => {
            let i = cx.case(req, ft(est), values.len() >= 2);
            let mut d: Vec<u64> = values.to_vec();
            d.sort(); d.dedup();
            let (dr, dn) = kmv_reference(&ranks, usize::MAX);
            if dn != d.len() { cx.count(COLLISION_KEY); return; }
            let keff = k.max(4);
            if d.len() < keff {
                if est != d.len() as f64 { cx.oracle_fail(i, "kmv-not-exact-below-k", format!("{label}: distinct={} k={keff} est={est:?}", d.len())); }
            } else {
                let want = (keff as f64 - 1.0) / dr[keff - 1];
                if est != want { cx.oracle_fail(i, "kmv-depends-on-order-duplicates-or-partitioning", format!("{label}: est={est:?}, (k-1)/r_k of the distinct inputs={want:?}")); }
            }
        }
        Err(e) => {
            let i = cx.case(req, e.split(' ').next().unwrap_or("PANIC").to_string(), true);
            cx.oracle_fail(i, "kmv-pipeline-failed", format!("{label}: {e}"));
        }
    }
}

fn pipe_kmv_global(cx: &mut Ctx, k: usize, values: &[u64], mode: Mode, lifted: bool) {
    let p = Pipeline::default();
    let src = from_vec(&p, values.to_vec());
    let pc = if lifted { src.combine_globally_lifted(KMVApproxDistinctCount::<u64>::new(k), None) } else { src.approx_distinct_count(k) };
    let res = collect(pc, mode).and_then(|v| v.first().copied().ok_or_else(|| "ERR empty".to_string()));
    // (the estimate depends on the members of the input only — the tree named in the request is the documented
    // one, but any other gives the same answer: Lean `kmv_independent`)
    let tree = fold_tree(mode.chunks(values.len()).iter().map(|c| if lifted { Tree::B(*c) } else { Tree::L(*c) }).collect());
    pipe_kmv_case(cx, k, &tree, values, res, &format!("pipe:kmv-global{}:{mode:?}", if lifted { "-lifted" } else { "" }));
}

fn pipe_kmv_keyed(cx: &mut Ctx, k: usize, rows: &[(u32, u64)], mode: Mode, via_gbk: bool) {
    let p = Pipeline::default();
    let src = from_vec(&p, rows.to_vec());
    let pc = if via_gbk { src.group_by_key().combine_values_lifted(KMVApproxDistinctCount::<u64>::new(k)) } else { src.approx_distinct_count_per_key(k) };
    let res = collect(pc, mode);
    let label = format!("pipe:kmv-keyed{}:{mode:?}", if via_gbk { "-gbk-lifted" } else { "" });
    let chunks = mode.chunks(rows.len());
    let mut keys: Vec<u32> = rows.iter().map(|r| r.0).collect();
    keys.sort(); keys.dedup();
    match res {
        Err(e) => {
            let i = cx.case(format!("KMV {k} new est L0 -"), e.split(' ').next().unwrap_or("PANIC").to_string(), true);
            cx.oracle_fail(i, "kmv-pipeline-failed", format!("{label}: {e}"));
        }
        Ok(mut out) => {
            out.sort_by_key(|r| r.0);
            if out.iter().map(|r| r.0).collect::<Vec<_>>() != keys {
                let i = cx.case(format!("KMV {k} new est L0 -"), "KEYS".into(), true);
                cx.oracle_fail(i, "kmv-pipeline-keys-differ", label.clone());
                return;
            }
            for (key, est) in out {
                let mut leaves = vec![Tree::L(0)];
                let mut vals = vec![];
                let mut off = 0;
                for c in &chunks {
                    let part: Vec<u64> = rows[off..off + c].iter().filter(|r| r.0 == key).map(|r| r.1).collect();
                    off += c;
                    if !part.is_empty() { leaves.push(Tree::L(part.len())); vals.extend(part); }
                }
                pipe_kmv_case(cx, k, &fold_tree(leaves), &vals, Ok(est), &label);
            }
        }
    }
}

/* ------------------------------------------------------------------ generators */

fn gen_values(rng: &mut Rng, n: usize) -> Vec<f64> {
    let style = rng.below(16);
    let mut v: Vec<f64> = (0..n).map(|i| match style {
        12 => f64::from_bits(rng.next_u64() >> 12) * if rng.chance(1, 2) { -1.0 } else { 1.0 }, // subnormals (exponent field 0)
        13 => rng.range(-6, 6) as f64 * 5e-324,                            // the smallest subnormals, ties, ±0
        14 => *rng.pick(&[0.1, 0.2, 0.3, 0.7, 0.1, 0.3]),                   // inexact decimals, heavy ties (rounding of merged means)
        15 => { let u = (rng.next_u64() >> 11) as f64 / (1u64 << 53) as f64; (0.9 + 0.1 * u) * f64::MAX * if rng.chance(1, 3) { -1.0 } else { 1.0 } } // sums and differences overflow to ±inf
        0 => i as f64 + 1.0,                                              // ramp
        1 => rng.range(0, 3) as f64,                                       // heavy ties
        2 => rng.range(-5, 5) as f64 * 0.1,                                // small decimals, ties
        3 => (rng.next_u64() >> 11) as f64 / (1u64 << 53) as f64,         // uniform [0,1)
        4 => ((rng.next_u64() >> 11) as f64 / (1u64 << 53) as f64 - 0.5) * 2e300, // huge magnitudes
        5 => ((rng.next_u64() >> 11) as f64 / (1u64 << 53) as f64 - 0.5) * 2e-300, // tiny magnitudes
        6 => { let e = rng.range(-300, 300) as i32; let s = if rng.chance(1, 2) { -1.0 } else { 1.0 }; s * 10f64.powi(e) } // mixed exponents
        7 => 1e15 + rng.range(0, 9) as f64 * 0.125,                        // large offset, small spread
        8 => -((rng.next_u64() % 1000) as f64).exp2() % 1e10,              // negative, skewed
        9 => { let u = (rng.next_u64() >> 11) as f64 / (1u64 << 53) as f64; -(1.0 - u).ln() } // exponential
        10 => *rng.pick(&[f64::MAX, f64::MIN, f64::MIN_POSITIVE, 5e-324, -5e-324, 0.0, -0.0, 1.0, -1.0, f64::MAX / 2.0, f64::MIN / 2.0, 1.7e308, -1.7e308]),
        11 => f64::from_bits(rng.next_u64()),                              // arbitrary bit patterns (may be NaN/inf)
        _ => unreachable!(),
    }).collect();
    // sprinkle non-finite inputs
    if rng.chance(1, 5) && n > 0 {
        for _ in 0..1 + rng.below(3) {
            let i = rng.below(n);
            v[i] = *rng.pick(&[f64::NAN, f64::INFINITY, f64::NEG_INFINITY, -f64::NAN]);
        }
    }
    match rng.below(4) {
        0 => v.sort_by(f64::total_cmp),
        1 => { v.sort_by(f64::total_cmp); v.reverse(); }
        _ => {}
    }
    v
}

/// weights for `add_weighted`: the ordinary ones are multiples of 1/4 (their sums are exact, so the total weight is
/// checked exactly), the degenerate ones must be ignored, the exotic ones exercise the ε-tests of `quantile`
const W_ORD: [f64; 5] = [0.25, 0.5, 1.0, 2.0, 3.0];
const W_DEG: [f64; 7] = [0.0, -0.0, -1.0, f64::NAN, f64::INFINITY, f64::NEG_INFINITY, -0.25];
const W_EXO: [f64; 8] = [1e-17, 8.673617379884035e-19, 5e-324, 1e300, 1e-300, 0.1, 0.3, 7.5];
fn gen_weights(rng: &mut Rng, n: usize) -> Vec<f64> {
    let style = rng.below(6);
    (0..n).map(|_| match style {
        0 | 1 => *rng.pick(&W_ORD),
        2 => if rng.chance(1, 4) { *rng.pick(&W_DEG) } else { *rng.pick(&W_ORD) },
        3 => 0.5,
        4 => if rng.chance(1, 3) { *rng.pick(&W_EXO) } else { *rng.pick(&W_ORD) },
        _ => *rng.pick(&[0.25, 0.25, 0.5, 1.0]),
    }).collect()
}
/// turn some (or all) element-wise leaves into `add_weighted` leaves
fn weighted_tree(rng: &mut Rng, t: &Tree, all: bool) -> Tree {
    match t {
        Tree::L(n) => if all || rng.chance(2, 3) { Tree::W(*n) } else { Tree::L(*n) },
        Tree::M(l, r) => Tree::M(Box::new(weighted_tree(rng, l, all)), Box::new(weighted_tree(rng, r, all))),
        other => other.clone(),
    }
}

fn gen_delta(rng: &mut Rng) -> f64 {
    match rng.below(10) {
        0 => 1.0, 1 => 2.0, 2 => 5.0, 3 => 20.0, 4 => 100.0, 5 => 100.0, 6 => 3.5, 7 => 10.0, 8 => 50.0,
        _ => *rng.pick(&[0.0, 0.5, -1.0, 1000.0, 7.25]),
    }
}

fn gen_qs(rng: &mut Rng) -> Vec<f64> {
    match rng.below(8) {
        6 => vec![f64::NEG_INFINITY, -1e300, f64::NAN, 0.0, 0.3, f64::NAN, 0.6, 1.0, 1e300, f64::INFINITY, -f64::NAN],
        7 => { let mut v = grid(10); let i = rng.below(v.len()); v[i] = *rng.pick(&[f64::NAN, f64::INFINITY, f64::NEG_INFINITY]); v }
        0 => grid(100),
        1 => grid(20),
        2 => vec![0.0, 0.25, 0.5, 0.75, 1.0],
        3 => vec![0.01, 0.05, 0.10, 0.25, 0.50, 0.75, 0.90, 0.95, 0.99],
        4 => { let mut v: Vec<f64> = (0..1 + rng.below(8)).map(|_| (rng.next_u64() >> 11) as f64 / (1u64 << 53) as f64).collect(); v.sort_by(f64::total_cmp); v }
        _ => vec![-1.0, -0.0, 0.0, 1e-17, 2.220446049250313e-16, 3e-16, 0.5, 1.0 - 3e-16, 1.0 - 1.1102230246251565e-16, 1.0, 1.0000000000000002, 2.0, f64::INFINITY],
    }
}

fn gen_cdfs(rng: &mut Rng, vals: &[f64]) -> Vec<f64> {
    let mut v = vec![];
    for _ in 0..rng.below(4) {
        if !vals.is_empty() && rng.chance(2, 3) {
            let x = *rng.pick(vals);
            if x.is_finite() { v.push(if rng.chance(1, 2) { x } else { x * 0.5 + 0.25 }); }
        } else if rng.chance(1, 6) { v.push(*rng.pick(&[f64::NAN, f64::INFINITY, f64::NEG_INFINITY, 1e308, -1e308, 5e-324, 0.0, -0.0])); }
        else { v.push(rng.range(-3, 12) as f64 * 0.5); }
    }
    v
}

fn gen_ranks(rng: &mut Rng, n: usize, dom: usize) -> Vec<f64> {
    // ranks = hashes of values drawn from a domain of `dom` values => duplicates
    (0..n).map(|_| verif_rank_from_value(&(rng.below(dom) as u64 * 7919 + 13))).collect()
}

/* ------------------------------------------------------------------ empirical accuracy (not provable) */

fn rank_error(sorted: &[f64], est: f64, q: f64) -> f64 {
    let n = sorted.len() as f64;
    let lo = sorted.partition_point(|x| *x < est) as f64 / n;
    let hi = sorted.partition_point(|x| *x <= est) as f64 / n;
    if q < lo { lo - q } else if q > hi { q - hi } else { 0.0 }
}

/// Empirical rank-error bounds per input distribution (uniform, exponential, cubic = extremely dense around the
/// median, 50 distinct values with ties), for δ ≥ 100, n ≥ 5000, 1..64 partitions. The documented accuracy is
/// "typically within 1-2%" (`ApproxQuantiles`), which only the cubic distribution comes close to.
/// The inputs of this block come from FIXED internal seeds (nothing here depends on `VERIF_SEED`): it is a
/// regression measurement with head-room, identical on every run of an unchanged tree, not a statistical test
/// whose verdict depends on the draw.
const RANK_BOUND: [f64; 4] = [0.01, 0.01, 0.02, 0.02];
const EMPIRICAL_SEED: u64 = 0x0C15_E3D1_7A2B_0001;

fn unit(rng: &mut Rng) -> f64 { (rng.next_u64() >> 11) as f64 / (1u64 << 53) as f64 }

fn empirical(cx: &mut Ctx) {
    let thorough = cx.tier != Tier::Quick;
    let mut rng = Rng(EMPIRICAL_SEED);
    let nmax = if thorough { 100_000 } else { 20_000 };
    let qs = vec![0.01, 0.05, 0.1, 0.25, 0.5, 0.75, 0.9, 0.95, 0.99];
    let mut worst: f64 = 0.0;
    let mut worst_by_dist = [0.0f64; 4];
    let mut worst_by_path = std::collections::BTreeMap::<&'static str, f64>::new();
    let dists = if thorough { 4 } else { 2 };
    for dist in 0..dists {
        // (the digest keeps ~n/(δ/8) centroids, so a run costs O(n²/δ): only two distributions at full size)
        let n = if dist < 2 { nmax } else { nmax / 4 };
        for order in 0..3 {
            let mut vals: Vec<f64> = (0..n).map(|_| {
                let u = unit(&mut rng);
                match dist { 0 => u, 1 => -(1.0 - u).ln(), 2 => (u - 0.5).powi(3) * 1e6, _ => (u * 50.0).floor() }
            }).collect();
            match order { 0 => {}, 1 => vals.sort_by(f64::total_cmp), _ => { vals.sort_by(f64::total_cmp); vals.reverse(); } }
            let mut sorted = vals.clone();
            sorted.sort_by(f64::total_cmp);
            for &delta in if thorough { &[100.0, 500.0][..] } else { &[100.0][..] } {
                for &parts in if !thorough || delta == 100.0 { &[1usize, 7, 64][..] } else if order == 0 { &[16usize][..] } else { &[][..] } {
                    let mode = if parts == 1 { Mode::Seq } else { Mode::Par(parts) };
                    // every entry point of observe_at: global, global lifted, per key (the key's values = the whole input,
                    // interleaved with a second key), per key through group_by_key + lifted
                    let paths: &[&'static str] = if order == 0 { &["global", "global-lifted", "keyed", "keyed-gbk-lifted"] } else { &["global"] };
                    for &path in paths {
                        if path != "global" && (delta != 100.0 || (thorough && parts == 7)) { continue; }
                        let c = ApproxQuantiles::<f64>::new(qs.clone(), delta);
                        let p = Pipeline::default();
                        let est: Vec<f64> = match path {
                            "global" => match collect(from_vec(&p, vals.clone()).combine_globally(c, None), mode) { Ok(v) => v.into_iter().flatten().collect(), Err(_) => continue },
                            "global-lifted" => match collect(from_vec(&p, vals.clone()).combine_globally_lifted(c, None), mode) { Ok(v) => v.into_iter().flatten().collect(), Err(_) => continue },
                            _ => {
                                let rows: Vec<(u32, f64)> = vals.iter().enumerate().flat_map(|(j, v)| if j % 3 == 0 { vec![(1u32, *v), (2u32, -*v)] } else { vec![(1u32, *v)] }).collect();
                                let src = from_vec(&p, rows);
                                let pc = if path == "keyed" { src.combine_values(c) } else { src.group_by_key().combine_values_lifted(c) };
                                match collect(pc, mode) { Ok(v) => v.into_iter().find(|r| r.0 == 1).map(|r| r.1).unwrap_or_default(), Err(_) => continue }
                            }
                        };
                        if est.len() != qs.len() {
                            let i = cx.case(format!("TDIGEST {} aq q L0 - - -", hx(delta)), "Q".into(), false);
                            cx.oracle_fail(i, "tdigest-pipeline-failed", format!("empirical block: path={path} returned {} estimates for {} quantiles", est.len(), qs.len()));
                            continue;
                        }
                        for (q, e) in qs.iter().zip(&est) {
                            let err = rank_error(&sorted, *e, *q);
                            worst = worst.max(err);
                            worst_by_dist[dist] = worst_by_dist[dist].max(err);
                            let w = worst_by_path.entry(path).or_insert(0.0);
                            *w = w.max(err);
                            cx.count("empirical:tdigest rank-error evaluations");
                            cx.count(&format!("empirical:tdigest rank-error evaluations, path={path}"));
                            if err > RANK_BOUND[dist] {
                                let i = cx.case(format!("TDIGEST {} aq q L0 - - -", hx(delta)), "Q".into(), false);
                                cx.oracle_fail(i, "tdigest-rank-error-above-bound(empirical)", format!("path={path} dist={dist} order={order} n={n} δ={delta} parts={parts} q={q} est={e} rank error={err:.4} bound={}", RANK_BOUND[dist]));
                            }
                        }
                    }
                }
            }
        }
    }
    cx.notes.push(format!("empirical (not a theorem; fixed internal seed, independent of VERIF_SEED): worst t-digest rank error by distribution (uniform, exponential, cubic, 50 ties): {worst_by_dist:.5?}; by entry point: {worst_by_path:.5?}"));
    cx.notes.push(format!("empirical (not a theorem): worst t-digest rank error {worst:.5} over n≤{nmax} inputs, δ≥100, 1..64 partitions (bounds checked per distribution: {RANK_BOUND:?})"));
    // KMV error band: |est/d - 1| ≤ 5/sqrt(k) for d ≫ k  (fixed draws as well)
    let seeds = if thorough { 200 } else { 40 };
    let mut worst_rel: f64 = 0.0;
    let mut outside = 0;
    for s in 0..seeds {
        let k = [64usize, 256, 1024][s % 3];
        let d = k * (8 + rng.below(24));
        let base = rng.next_u64();
        let mut values: Vec<u64> = (0..d as u64).map(|i| base.wrapping_add(i.wrapping_mul(0x9E37_79B9))).collect();
        let dups: Vec<u64> = (0..d / 2).map(|_| values[rng.below(d)]).collect();
        values.extend(dups);
        for i in (1..values.len()).rev() { let j = rng.below(i + 1); values.swap(i, j); }
        let p = Pipeline::default();
        let mode = if s % 2 == 0 { Mode::Seq } else { Mode::Par(1 + rng.below(16)) };
        let src = from_vec(&p, values);
        let pc = if s % 4 >= 2 { src.combine_globally_lifted(KMVApproxDistinctCount::<u64>::new(k), None) } else { src.approx_distinct_count(k) };
        if let Ok(v) = collect(pc, mode) {
            let rel = (v[0] / d as f64 - 1.0).abs();
            worst_rel = worst_rel.max(rel * (k as f64).sqrt());
            cx.count("empirical:kmv error-band evaluations");
            if rel > 5.0 / (k as f64).sqrt() {
                outside += 1;
                let i = cx.case(format!("KMV {k} new est L0 -"), ft(0.0), false);
                cx.oracle_fail(i, "kmv-estimate-outside-5/sqrt(k)(empirical)", format!("k={k} d={d} est={} rel={rel:.4}", v[0]));
            }
        }
    }
    // round 6 — the EXACT regime at scale: 300 000 distinct values (plus duplicates) under k = 400 000, and 150 000 per key
    // under k = 200 000. "Exact below k" must not depend on the cardinality being small: a rank function with fewer than
    // ~50 significant bits (an f32, the high 32 bits of the hash) makes distinct values share a rank from ~10^4..10^5
    // values on, and the sketch's duplicate filter swallows them. Fixed inputs (53-bit ranks: collision odds ~5e-6).
    for (which, n, k) in [("global", 300_000usize, 400_000usize), ("global-par", 300_000, 400_000), ("per-key", 150_000, 200_000)] {
        let values: Vec<u64> = (0..n as u64).map(|i| 0xA24B_AED4_963E_E407u64.wrapping_add(i.wrapping_mul(0x9E37_79B9_7F4A_7C15))).chain((0..1000u64).map(|i| 0xA24B_AED4_963E_E407u64.wrapping_add((i * 37).wrapping_mul(0x9E37_79B9_7F4A_7C15)))).collect();
        let p = Pipeline::default();
        let got: Vec<f64> = match which {
            "global" => collect(from_vec(&p, values).approx_distinct_count(k), Mode::Seq).unwrap_or_default(),
            "global-par" => collect(from_vec(&p, values).approx_distinct_count(k), Mode::Par(7)).unwrap_or_default(),
            _ => {
                let rows: Vec<(u32, u64)> = values.iter().map(|v| (1u32, *v)).chain(values.iter().take(5).map(|v| (2u32, *v))).collect();
                collect(from_vec(&p, rows).approx_distinct_count_per_key(k), Mode::Par(3)).unwrap_or_default().into_iter().filter(|r| r.0 == 1).map(|r| r.1).collect()
            }
        };
        let i = cx.case(format!("ORACLE-ONLY kmv-exact-at-scale {which} n={n} k={k}"), "-".into(), true);
        cx.count("empirical:kmv exact-below-k at scale");
        if got.len() != 1 || got[0] != n as f64 {
            cx.oracle_fail(i, "kmv-not-exact-below-k-at-scale", format!("{which}: {n} distinct values under k={k}: estimate {got:?}"));
        }
    }
    cx.notes.push(format!("empirical (not a theorem; fixed internal seed, independent of VERIF_SEED): worst KMV relative error = {worst_rel:.3}/sqrt(k) over {seeds} fixed draws, d in 8k..32k (band checked: 5/sqrt(k)); outside: {outside}"));
}

/* ------------------------------------------------------------------ run */

fn all_trees(n: usize) -> Vec<Tree> {
    // every way to cut n values into ≤ 3 contiguous leaves, both association orders, plus a built variant
    let mut v = vec![Tree::L(n), Tree::B(n)];
    for a in 0..=n {
        v.push(Tree::M(Box::new(Tree::L(a)), Box::new(Tree::L(n - a))));
        v.push(Tree::M(Box::new(Tree::B(a)), Box::new(Tree::L(n - a))));
        for b in 0..=(n - a) {
            let c = n - a - b;
            v.push(Tree::M(Box::new(Tree::M(Box::new(Tree::L(a)), Box::new(Tree::L(b)))), Box::new(Tree::L(c))));
            v.push(Tree::M(Box::new(Tree::L(a)), Box::new(Tree::M(Box::new(Tree::L(b)), Box::new(Tree::L(c))))));
        }
    }
    v
}

pub fn run(cx: &mut Ctx) {
    let t0 = std::time::Instant::now();
    let mut marks: Vec<(String, f64)> = vec![];
    /* (1) corpus: design witnesses and minimised past failures */
    // the saw-tooth: q̂(.25)=2 > q̂(.26)=1.08 on [1,2,3,4], δ=100
    one_td(cx, 100.0, Fin::Raw, &Tree::L(4), &[1.0, 2.0, 3.0, 4.0], &[0.25, 0.26, 0.5, 0.51], &[]);
    one_td(cx, 100.0, Fin::Aq, &Tree::L(4), &[1.0, 2.0, 3.0, 4.0], &grid(100), &[0.0, 1.0, 2.5, 4.0, 5.0]);
    // rounding above max (fixed by the clamp): left + 1.0·(right − left) > right
    one_td(cx, 100.0, Fin::Aq, &Tree::L(3), &[0.1, 0.7, 0.3], &grid(100), &[]);
    one_td(cx, 100.0, Fin::Aq, &Tree::L(3), &[-1.7e308, 0.0, 1.7e308], &grid(20), &[]);
    one_td(cx, 100.0, Fin::Aq, &Tree::L(120), &vec![f64::MAX; 120], &grid(20), &[]);
    {
        let mut v = vec![f64::MIN; 60]; v.extend(vec![f64::MAX; 60]);
        one_td(cx, 100.0, Fin::Aq, &Tree::M(Box::new(Tree::L(70)), Box::new(Tree::L(50))), &v, &grid(20), &[]);
    }
    one_td(cx, 100.0, Fin::Aq, &Tree::L(0), &[], &[0.0, 0.5, 1.0], &[1.0]);
    one_td(cx, 100.0, Fin::Med, &Tree::L(2), &[f64::NAN, f64::INFINITY], &[], &[]);
    one_td(cx, 100.0, Fin::Aq, &Tree::L(3), &[f64::NAN, 5.0, f64::NEG_INFINITY], &[0.0, 0.5, 1.0], &[]);
    // answers that are literally inf / NaN, and subnormal ones (compared literally / to 1e-12 relative by ibcheck):
    // cdf overflows: (1e308 − (−1.7e308)) = inf, inf / inf = NaN
    one_td(cx, 100.0, Fin::Aq, &Tree::B(2), &[-1.7e308, 1.7e308], &grid(20), &[1e308, -1e308, 0.0, f64::NAN, f64::INFINITY, f64::NEG_INFINITY]);
    one_td(cx, 100.0, Fin::Raw, &Tree::B(3), &[-1.7e308, 1.0, 1.7e308], &[0.2, 0.4, 0.6, 0.8], &[1.5e308, -1.5e308, 0.5]);
    // merged mean overflows before the division (mul_add → ±inf, clamped back to max/min): δ = 1 merges everything
    one_td(cx, 1.0, Fin::Aq, &Tree::M(Box::new(Tree::L(3)), Box::new(Tree::L(3))), &[1.7e308, 1.6e308, 1.5e308, 1.7e308, 1.6e308, 1.5e308], &grid(20), &[1.55e308]);
    one_td(cx, 1.0, Fin::Aq, &Tree::L(6), &[-1.7e308, -1.6e308, -1.5e308, -1.7e308, -1.6e308, -1.5e308], &grid(20), &[-1.55e308]);
    // subnormal values, means and interpolants; total weight of the smallest subnormals
    one_td(cx, 100.0, Fin::Aq, &Tree::L(5), &[5e-324, 1.5e-323, 1e-323, 0.0, -5e-324], &grid(20), &[1e-323, 7e-324, 0.0, -0.0]);
    one_td(cx, 2.0, Fin::Aq, &Tree::M(Box::new(Tree::B(4)), Box::new(Tree::L(4))), &[5e-324, 1e-323, 5e-324, 1.5e-323, 2.5e-323, 1e-323, 2e-323, 5e-324], &grid(20), &[1.2e-323]);
    one_td(cx, 100.0, Fin::Raw, &Tree::L(4), &[f64::MIN_POSITIVE, f64::MIN_POSITIVE / 2.0, 2.0 * f64::MIN_POSITIVE, 3e-310], &grid(100), &[2.3e-308]);
    // unusual q: NaN (falls through to max, or min for a single centroid), ±inf (clamped)
    one_td(cx, 100.0, Fin::Raw, &Tree::L(3), &[1.0, 2.0, 3.0], &[f64::NAN, f64::NEG_INFINITY, f64::INFINITY, -f64::NAN, 0.5], &[]);
    one_td(cx, 100.0, Fin::Aq, &Tree::L(1), &[7.0], &[f64::NAN, f64::NEG_INFINITY, f64::INFINITY], &[]);
    // quantile / cdf straight after `add`, values arriving out of order (direct use of the public TDigest):
    // the walk must see the centroids in order of mean
    one_td(cx, 100.0, Fin::Raw, &Tree::L(3), &[3.0, 1.0, 2.0], &[0.5, 0.6], &[1.5, 2.5]);
    one_td(cx, 100.0, Fin::Raw, &Tree::L(100), &(1..=100).rev().map(f64::from).collect::<Vec<_>>(), &grid(20), &[25.0, 50.0]);
    // inexact decimals with ties, small δ: the merged mean of equal values is rounded
    one_td(cx, 2.0, Fin::Aq, &Tree::L(9), &[0.1, 0.1, 0.1, 0.1, 0.1, 0.1, 0.1, 0.3, 0.3], &grid(100), &[0.1]);
    // `add_weighted` (public): two half-weight points merge into ONE centroid whose min < max — q = 1 must still answer
    // max (before the fix the single-centroid short cut of `quantile` answered min); a zero / negative / NaN / infinite
    // weight is not an input (before the fix: `is_empty()` with data, `finish` NaN while `quantile` answered 3)
    let m = |l: Tree, r: Tree| Tree::M(Box::new(l), Box::new(r));
    one_tdw(cx, 100.0, Fin::Raw, &m(Tree::L(0), Tree::W(2)), &[1.0, 2.0], &[0.5, 0.5], &[0.0, 0.5, 0.999, 1.0, 2.0], &[1.0, 1.5, 2.0]);
    one_tdw(cx, 100.0, Fin::Aq, &Tree::W(2), &[1.0, 2.0], &[0.5, 0.5], &[0.0, 0.5, 1.0], &[]);
    one_tdw(cx, 100.0, Fin::Med, &Tree::W(2), &[1.0, 2.0], &[0.25, 0.25], &[], &[]);
    one_tdw(cx, 100.0, Fin::Raw, &Tree::W(1), &[3.0], &[0.0], &[0.0, 0.5, 1.0], &[3.0]);
    one_tdw(cx, 100.0, Fin::Aq, &Tree::W(1), &[3.0], &[0.0], &[0.0, 0.5, 1.0], &[]);
    one_tdw(cx, 100.0, Fin::Raw, &Tree::W(3), &[3.0, 5.0, 4.0], &[0.0, 1.0, -1.0], &[0.0, 0.5, 1.0], &[4.0]);
    one_tdw(cx, 100.0, Fin::Raw, &Tree::W(3), &[3.0, 5.0, 4.0], &[1.0, f64::NAN, 2.0], &grid(20), &[4.0]);
    one_tdw(cx, 100.0, Fin::Aq, &m(Tree::W(2), Tree::L(2)), &[3.0, 5.0, 4.0, 1.0], &[f64::INFINITY, 0.5, 9.0, 9.0], &grid(20), &[]);
    one_tdw(cx, 100.0, Fin::Raw, &m(Tree::W(2), Tree::W(1)), &[1.0, 2.0, 7.0], &[-1.0, 0.0, f64::NEG_INFINITY], &[0.0, 0.5, 1.0], &[1.0]);
    one_tdw(cx, 2.0, Fin::Aq, &Tree::W(6), &[1.0, 2.0, 3.0, 4.0, 5.0, 6.0], &[0.25, 0.5, 3.0, 0.25, 2.0, 0.5], &grid(100), &[2.5]);
    // weights below ε: the `(next − cum).abs() < ε` exit of the walk
    one_tdw(cx, 100.0, Fin::Raw, &Tree::W(4), &[1.0, 2.0, 3.0, 4.0], &[1e-17, 1.0, 5e-324, 1e-17], &grid(20), &[2.5]);
    // the convenience constructors are `new` with a documented q list
    for (name, c, want) in [
        ("five_number_summary", ApproxQuantiles::<f64>::five_number_summary(100.0), vec![0.0, 0.25, 0.5, 0.75, 1.0]),
        ("percentiles", ApproxQuantiles::<f64>::percentiles(100.0), vec![0.01, 0.05, 0.10, 0.25, 0.50, 0.75, 0.90, 0.95, 0.99]),
        ("median", ApproxQuantiles::<f64>::median(100.0), vec![0.5]),
    ] {
        let vals: Vec<f64> = (0..300).map(|i| ((i * 7919) % 307) as f64 * 0.5).collect();
        let got = guarded(|| { let mut acc = c.create(); for v in &vals { c.add_input(&mut acc, *v); } c.finish(acc) });
        let req = format!("TDIGEST {} aq q L{} {} {} -", hx(100.0), vals.len(), hxs(&vals), hxs(&want));
        match got {
            Ok(est) => {
                let o = TdOut { est, state: (vec![], 0.0, 0.0, 0.0), cdfs: vec![], queried: None };
                let i = cx.case(req, td_answer(&o, &want, false), true);
                let same = real_td(100.0, Fin::Aq, &Tree::L(vals.len()), &vals, &want, &[]).map(|r| r.est.len() == o.est.len() && r.est.iter().zip(&o.est).all(|(a, b)| a.to_bits() == b.to_bits())).unwrap_or(false);
                if !same { cx.oracle_fail(i, "approxquantiles-convenience-constructor-differs-from-new", format!("{name}: est={:?}", o.est)); }
                cx.count("tdigest:convenience constructors");
            }
            Err(e) => { let i = cx.case(req, "PANIC".into(), true); cx.oracle_fail(i, "tdigest-panic", e); }
        }
    }
    one_kmv(cx, 4, false, &Tree::L(6), &[0.5, 0.25, 0.5, 0.75, 0.125, 0.25]);
    // the real `add_input` / `build_from_group` on values (they hash the values themselves)
    one_kmv_in(cx, 4, false, &m(Tree::B(4), Tree::L(3)), KIn::Values(&[7, 9, 7, 11, 13, 9, 15]));
    one_kmv_in(cx, 2, true, &m(Tree::B(5), Tree::B(2)), KIn::Values(&[1, 2, 3, 4, 5, 6, 1]));
    one_kmv_in(cx, 5000, false, &Tree::B(3), KIn::Values(&[1, 2, 2]));
    one_kmv(cx, 2, true, &Tree::M(Box::new(Tree::L(3)), Box::new(Tree::L(3))), &[0.5, 0.25, 0.75, 0.125, 0.25, 0.9]);
    one_kmv(cx, 0, true, &Tree::L(2), &[0.5, 0.25]);

    marks.push(("corpus".into(), t0.elapsed().as_secs_f64()));
    /* (2) small-scope exhaustive */
    {
        // t-digest: every sequence of length ≤ n over {1, 2, 2.5, NaN}, every ≤3-leaf merge tree, δ ∈ {1, 100}, 21-point grid
        // (NOT `cx.budget`: in the search tier that multiplies by 10, and this is an exponent)
        let n = if cx.tier == Tier::Quick { 3 } else { 4 };
        let alpha = [1.0, 2.0, 2.5, f64::NAN];
        let mut seqs: Vec<Vec<f64>> = vec![vec![]];
        let mut frontier: Vec<Vec<f64>> = vec![vec![]];
        for _ in 0..n {
            let mut next = vec![];
            for s in &frontier { for a in alpha { let mut t = s.clone(); t.push(a); next.push(t); } }
            seqs.extend(next.iter().cloned());
            frontier = next;
        }
        let g = grid(20);
        let mut cnt = 0;
        for s in &seqs {
            for t in all_trees(s.len()) {
                for delta in [1.0, 100.0] {
                    one_td(cx, delta, Fin::Aq, &t, s, &g, &[1.5]);
                    cnt += 1;
                }
            }
        }
        cx.exhaustive_blocks.push(format!("t-digest: all value sequences of length <= {n} over {{1, 2, 2.5, NaN}} x all merge trees with <= 3 leaves (element-wise and build_from_group leaves, both association orders) x δ in {{1,100}} on a 21-point q grid ({cnt} digests)"));
        // KMV: every rank sequence of length ≤ m over 4 ranks, k ∈ {1,2,3}, every ≤3-leaf tree
        let m = if cx.tier == Tier::Quick { 4 } else { 5 };
        let ralpha = [0.125, 0.25, 0.5, 0.75];
        let mut rseqs: Vec<Vec<f64>> = vec![vec![]];
        let mut frontier: Vec<Vec<f64>> = vec![vec![]];
        for _ in 0..m {
            let mut next = vec![];
            for s in &frontier { for a in ralpha { let mut t = s.clone(); t.push(a); next.push(t); } }
            rseqs.extend(next.iter().cloned());
            frontier = next;
        }
        let mut cnt = 0;
        for s in &rseqs {
            for t in all_trees(s.len()) {
                if matches!(t, Tree::B(_)) || matches!(&t, Tree::M(l, _) if matches!(**l, Tree::B(_))) { continue; }
                for k in [1usize, 2, 3] {
                    one_kmv(cx, k, true, &t, s);
                    cnt += 1;
                }
            }
        }
        cx.exhaustive_blocks.push(format!("KMV: all rank sequences of length <= {m} over 4 ranks x all merge trees with <= 3 leaves x k in {{1,2,3}} ({cnt} accumulators)"));
    }

    /* (2a) small-scope exhaustive, `add_weighted` */
    {
        let thorough = cx.tier != Tier::Quick;
        let full: Vec<(f64, f64)> = {
            let mut a = vec![];
            for v in [1.0, 2.0, 2.5] { for w in [0.25, 0.5, 1.0, 3.0] { a.push((v, w)); } }
            a.extend([(1.0, 0.0), (2.0, -1.0), (2.5, f64::NAN), (f64::NAN, 0.5), (2.0, f64::INFINITY)]);
            a
        };
        let small: Vec<(f64, f64)> = vec![(1.0, 0.5), (2.0, 0.5), (2.5, 0.25), (2.0, 1.0), (1.0, 3.0), (1.0, 0.0), (2.5, -1.0), (2.0, f64::NAN)];
        let mut seqs: Vec<Vec<(f64, f64)>> = vec![vec![]];
        for a in &full { seqs.push(vec![*a]); for b in &full { seqs.push(vec![*a, *b]); } }
        let three = if thorough { &full } else { &small };
        for a in three { for b in three { for c in three { seqs.push(vec![*a, *b, *c]); } } }
        let g = grid(20);
        let mut cnt = 0;
        for sq in &seqs {
            let n = sq.len();
            let vals: Vec<f64> = sq.iter().map(|p| p.0).collect();
            let wts: Vec<f64> = sq.iter().map(|p| p.1).collect();
            let mut trees = vec![Tree::W(n), m(Tree::L(0), Tree::W(n))];
            for a in 1..n { trees.push(m(Tree::W(a), Tree::W(n - a))); trees.push(m(Tree::W(a), Tree::L(n - a))); }
            for t in trees {
                for delta in [1.0, 100.0] {
                    one_tdw(cx, delta, if cnt % 5 == 0 { Fin::Raw } else { Fin::Aq }, &t, &vals, &wts, &g, &[1.5]);
                    cnt += 1;
                }
            }
        }
        cx.exhaustive_blocks.push(format!("t-digest, add_weighted: all (value, weight) sequences of length <= 2 over {{1, 2, 2.5}} x {{0.25, 0.5, 1, 3}} plus 5 pairs that must be ignored (weight 0, -1, NaN, inf; value NaN), of length 3 over {} x W(n) / merged into an empty digest / every 2-way split into weighted+weighted and weighted+unit leaves x δ in {{1,100}} on a 21-point q grid ({cnt} digests)", if thorough { "the same 17 pairs" } else { "8 of them" }));
    }

    /* (2b) extreme compression settings at sizes that cross their compress thresholds, unusual q values */
    {
        let thorough = cx.tier != Tier::Quick;
        let mut cnt = 0;
        let special_qs = vec![f64::NEG_INFINITY, -1.0, f64::NAN, 0.0, 1e-17, 0.1, 0.25, 0.5, 0.75, 0.9, 1.0 - 3e-16, 1.0, 2.0, f64::INFINITY, f64::NAN];
        for &delta in &[0.0, 0.5, -1.0, 1000.0, f64::INFINITY, f64::NEG_INFINITY, f64::NAN, f64::MIN_POSITIVE, 1e308, 1.0, 2.0] {
            let sizes: Vec<usize> = if delta == 1000.0 { if thorough { vec![1, 7, 300, 2100, 2600, 5000] } else { vec![7, 2100] } }
                                    else if thorough { vec![1, 2, 3, 7, 60, 400, 1500] } else { vec![1, 2, 7, 60, 400] };
            for &n in &sizes {
                let mut sets: Vec<Vec<f64>> = vec![
                    (0..n).map(|i| i as f64 + 1.0).collect(),
                    (0..n).rev().map(|i| i as f64 * 0.1).collect(),
                    (0..n).map(|i| ((i * 7919) % 101) as f64 * 0.1 - 3.0).collect(),
                ];
                for _ in 0..2 { sets.push(gen_values(&mut cx.rng, n)); }
                for (si, vals) in sets.iter().enumerate() {
                    let a = cx.rng.below(n + 1);
                    let b = cx.rng.below(n - a + 1);
                    let trees = [Tree::L(n), Tree::B(n),
                        Tree::M(Box::new(Tree::L(a)), Box::new(Tree::L(n - a))),
                        Tree::M(Box::new(Tree::M(Box::new(Tree::B(a)), Box::new(Tree::L(b)))), Box::new(Tree::L(n - a - b)))];
                    let tree = &trees[(si + cnt) % 4];
                    let fin = match cnt % 4 { 0 => Fin::Raw, 1 => Fin::Med, _ => Fin::Aq };
                    let qs = if cnt % 3 == 0 { special_qs.clone() } else { grid(20) };
                    let cdfs = gen_cdfs(&mut cx.rng, vals);
                    one_td(cx, delta, fin, tree, vals, &qs, &cdfs);
                    cnt += 1;
                }
            }
        }
        cx.exhaustive_blocks.push(format!("t-digest: δ in {{0, 0.5, -1, 1000, ±inf, NaN, 2.2e-308, 1e308, 1, 2}} x sizes up to {} ({} for δ=1000, i.e. past the 2δ compress threshold) x ramp / reversed / scrambled-ties / 2 random value sets, rotating over 4 tree shapes, raw/med/aq and a q list with NaN, ±inf, out-of-range and ε-close-to-end-point values ({cnt} digests; systematic, not exhaustive)", if thorough { 1500 } else { 400 }, if thorough { 5000 } else { 2100 }));
    }

    marks.push(("exhaustive".into(), t0.elapsed().as_secs_f64()));
    /* (3) random block */
    let rounds = cx.budget(3000, 20000);
    for _ in 0..rounds {
        let n = match cx.rng.below(10) { 0 => cx.rng.below(3), 1..=5 => cx.rng.below(12), 6..=8 => cx.rng.below(80), _ => 100 + cx.rng.below(500) };
        let vals = gen_values(&mut cx.rng, n);
        let delta = if n > 150 { *cx.rng.pick(&[5.0, 20.0, 100.0]) } else { gen_delta(&mut cx.rng) };
        let tree = random_tree(&mut cx.rng, n, 4, true);
        let qs = gen_qs(&mut cx.rng);
        let cdfs = gen_cdfs(&mut cx.rng, &vals);
        let fin = match cx.rng.below(5) { 0 => Fin::Raw, 1 => Fin::Med, _ => Fin::Aq };
        if cx.rng.chance(1, 4) {
            // direct use of the public `TDigest::add_weighted`, alone or merged with unit-weight accumulators
            let all = cx.rng.chance(1, 2);
            let wt = weighted_tree(&mut cx.rng, &tree, all);
            let wts = gen_weights(&mut cx.rng, n);
            let fin = if cx.rng.chance(1, 2) { Fin::Raw } else { fin };
            one_tdw(cx, delta, fin, &wt, &vals, &wts, &qs, &cdfs);
        } else {
            one_td(cx, delta, fin, &tree, &vals, &qs, &cdfs);
        }
    }
    let rounds = cx.budget(3000, 20000);
    for _ in 0..rounds {
        let raw = cx.rng.chance(1, 2);
        let k = if raw { *cx.rng.pick(&[0usize, 1, 2, 3, 4, 5, 8, 16]) } else { *cx.rng.pick(&[0usize, 1, 4, 5, 8, 16, 32]) };
        let n = cx.rng.below(60);
        let dom = 1 + cx.rng.below(2 * k.max(4) + 4);
        let mut ranks = gen_ranks(&mut cx.rng, n, dom);
        if cx.rng.chance(1, 6) { for r in ranks.iter_mut() { *r = (*r * 8.0).floor() / 8.0; } } // coarse ranks: many ties, incl. 0.0
        if cx.rng.chance(1, 3) {
            // values through the real `add_input` / `build_from_group`
            let values: Vec<u64> = (0..n).map(|_| cx.rng.below(dom) as u64 * 7919 + 13).collect();
            let tree = random_tree(&mut cx.rng, n, 4, true);
            one_kmv_in(cx, k, raw, &tree, KIn::Values(&values));
        } else {
            let tree = random_tree(&mut cx.rng, n, 4, false);
            one_kmv(cx, k, raw, &tree, &ranks);
        }
    }
    /* (3b) KMV at realistic sketch sizes, d around k: exact below k, (k−1)/r_k from k on — deterministic oracles */
    {
        let thorough = cx.tier != Tier::Quick;
        let plan: Vec<(usize, Vec<i64>)> = if thorough {
            vec![(1000, vec![-300, -2, -1, 0, 1, 2, 500]), (1024, vec![-1, 0, 1, 100]), (1025, vec![-1, 0]), (5000, vec![-1000, -1, 0, 1, 2500])]
        } else {
            vec![(1000, vec![-2, -1, 0, 1, 500]), (1025, vec![-1]), (5000, vec![-1, 0])]
        };
        let mut cnt = 0;
        for (k, offs) in plan {
            for off in offs {
                let d = (k as i64 + off) as usize;
                let base = cx.rng.next_u64() >> 8;
                let distinct: Vec<u64> = (0..d as u64).map(|i| base + i * 0x9E37_79B1).collect();
                let mut values = distinct.clone();
                for _ in 0..d / 2 { values.push(distinct[cx.rng.below(d)]); }
                for i in (1..values.len()).rev() { let j = cx.rng.below(i + 1); values.swap(i, j); }
                let n = values.len();
                let a = n / 3 + cx.rng.below(n / 3);
                let b = cx.rng.below(n - a);
                // direct: element-wise and build_from_group leaves, two association orders
                let tree = if cnt % 2 == 0 { m(m(Tree::B(a), Tree::L(b)), Tree::B(n - a - b)) } else { m(Tree::L(a), m(Tree::B(b), Tree::L(n - a - b))) };
                one_kmv_in(cx, k, false, &tree, KIn::Values(&values));
                // pipelines: global, global lifted, per key (2 keys; key 1 gets every value), per key via group_by_key + lifted
                let mode = if cnt % 3 == 0 { Mode::Seq } else { Mode::Par(*cx.rng.pick(&[2usize, 5, 16])) };
                match cnt % 4 {
                    0 => pipe_kmv_global(cx, k, &values, mode, false),
                    1 => pipe_kmv_global(cx, k, &values, mode, true),
                    w => {
                        let rows: Vec<(u32, u64)> = values.iter().enumerate().flat_map(|(j, v)| if j % 4 == 0 { vec![(1u32, *v), (2u32, *v)] } else { vec![(1u32, *v)] }).collect();
                        pipe_kmv_keyed(cx, k, &rows, mode, w == 3);
                    }
                }
                cnt += 1;
            }
        }
        cx.exhaustive_blocks.push(format!("KMV at sketch sizes k in {{1000, 1024/1025, 5000}} with d = k + small offsets (and far below / above): real add_input + build_from_group accumulators in 3-leaf trees, and global / global-lifted / per-key / group_by_key-lifted pipelines ({cnt} inputs; systematic, not exhaustive)"));
    }

    marks.push(("random".into(), t0.elapsed().as_secs_f64()));
    /* (4) real pipelines, both modes, several partition counts */
    let rounds = cx.budget(400, 2000);
    for _ in 0..rounds {
        let n = match cx.rng.below(6) { 0 => cx.rng.below(3), 1..=3 => cx.rng.below(30), _ => 50 + cx.rng.below(400) };
        let vals = gen_values(&mut cx.rng, n);
        let delta = if cx.rng.chance(1, 6) { gen_delta(&mut cx.rng) } else { *cx.rng.pick(&[5.0, 20.0, 100.0, 100.0]) };
        let qs = if cx.rng.chance(1, 2) { grid(20) } else { vec![0.0, 0.25, 0.5, 0.75, 1.0] };
        let parts = *cx.rng.pick(&[1usize, 2, 3, 5, 8, 16, 64]);
        let mode = if cx.rng.chance(1, 3) { Mode::Seq } else { Mode::Par(parts) };
        match cx.rng.below(4) {
            0 => pipe_td_global(cx, delta, &vals, &qs, mode, false, false),
            1 => { let med = cx.rng.chance(1, 2); pipe_td_global(cx, delta, &vals, &qs, mode, true, med) }
            2 => pipe_td_global(cx, delta, &vals, &qs, mode, false, true),
            _ => {
                let kmax = if cx.rng.chance(1, 4) { 12 } else { 4 };
                let keys = 1 + cx.rng.below(kmax) as u32;
                let rows: Vec<(u32, f64)> = vals.iter().map(|v| ((cx.rng.next_u64() % keys as u64) as u32, *v)).collect();
                let via_gbk = cx.rng.chance(1, 3);
                let median = cx.rng.chance(1, 3);
                pipe_td_keyed(cx, delta, &rows, &qs, mode, via_gbk, median);
            }
        }
        // KMV pipelines
        let k = *cx.rng.pick(&[1usize, 4, 8, 16, 64]);
        let dn = 1 + cx.rng.below(3 * k.max(4));
        let m = cx.rng.below(200);
        let values: Vec<u64> = (0..m).map(|_| cx.rng.below(dn) as u64 * 1_000_003 + 17).collect();
        if cx.rng.chance(1, 2) {
            let lifted = cx.rng.chance(1, 2);
            pipe_kmv_global(cx, k, &values, mode, lifted);
            // the same multiset, shuffled, other partitioning: same estimate (oracle inside compares with the reference)
            let mut sh = values.clone();
            for i in (1..sh.len()).rev() { let j = cx.rng.below(i + 1); sh.swap(i, j); }
            let p2 = *cx.rng.pick(&[1usize, 2, 7, 32]);
            pipe_kmv_global(cx, k, &sh, Mode::Par(p2), !lifted);
        } else {
            let keys = 1 + cx.rng.below(3) as u32;
            let rows: Vec<(u32, u64)> = values.iter().map(|v| ((cx.rng.next_u64() % keys as u64) as u32, *v)).collect();
            let via_gbk = cx.rng.chance(1, 2);
            pipe_kmv_keyed(cx, k, &rows, mode, via_gbk);
        }
    }

    marks.push(("pipelines".into(), t0.elapsed().as_secs_f64()));
    /* (5) statistical accuracy: empirical only */
    if cx.tier != Tier::Search { empirical(cx); }
    marks.push(("empirical".into(), t0.elapsed().as_secs_f64()));
    // `hinj` (the hash is injective on the inputs) was ASSUMED for the cases counted here; bounded
    let skipped = cx.stats.get(COLLISION_KEY).copied().unwrap_or(0);
    cx.notes.push(format!("KMV: cases whose exactness in distinct VALUES was not judged because two distinct values share a rank (assumption hinj of kmv_exact_below_k): {skipped} (bound {COLLISION_BOUND})"));
    if skipped > COLLISION_BOUND {
        let i = cx.case("KMV 4 new est L0 -".into(), ft(0.0), false);
        cx.oracle_fail(i, "kmv-hash-rank-collisions-above-bound", format!("{skipped} generated inputs contain two distinct values with the same rank (bound {COLLISION_BOUND}); the rank function no longer separates values"));
    }
    cx.notes.push(format!("harness phases, cumulative seconds: {marks:?}"));
}
