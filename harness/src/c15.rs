//! C15 — not implemented yet.
use crate::ctx::Ctx;

pub fn run(cx: &mut Ctx) {
    cx.notes.push("C15: harness not implemented".to_string());
}
