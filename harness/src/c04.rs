//! C04 — group_by_key is an exact partition of its input by key.
//!
//! Programs ending in (or containing) `gbk`, after arbitrary prefixes, inside join sides; both modes and
//! all partition counts. Oracle (independent of the model): output keys are unique, the groups flatten to
//! the input of the group_by_key as a multiset, and the whole result equals the plain-vector reference.
//!
//! C04's OWN signatures (`gbk-*`, and the comparison with the reference in this file) compare the values of a group as a
//! MULTISET ("exactly the input values carrying that key — each one once"): the reference answer and the real answer
//! are both put into the `deep` canonical form before they are compared (`XOpts::ref_canon = Some("deep")`). The ORDER
//! inside a group is judged only by `par-differs-from-seq` (C01's statement: both modes return the same sequence) and
//! by the correspondence with the insertion-ordered model (`canon=top` in the request).

use crate::ctx::Ctx;
use crate::pipe::*;

/// keys unique + groups flatten to `input` (as multisets) on real output rows of a `group_by_key`
fn judge_groups(cx: &mut Ctx, idx: usize, rows: &[V], input: &[V], what: &str) {
    let mut keys: Vec<V> = rows.iter().map(|r| match r { V::P(k, _) => (**k).clone(), o => o.clone() }).collect();
    let n = keys.len();
    keys.sort();
    keys.dedup();
    if keys.len() != n { cx.oracle_fail(idx, "gbk-duplicate-key-in-output", what.to_string()); }
    let mut flat: Vec<V> = vec![];
    for r in rows {
        if let V::P(k, vs) = r { if let V::L(vs) = &**vs { for v in vs { flat.push(V::pair((**k).clone(), v.clone())); } } }
    }
    let norm = |r: &V| match r { V::P(..) => r.clone(), o => V::pair(o.clone(), o.clone()) };
    let inp: Vec<V> = input.iter().map(norm).collect();
    if canon_rows(&flat, "deep") != canon_rows(&inp, "deep") { cx.oracle_fail(idx, "gbk-groups-do-not-flatten-to-input", what.to_string()); }
    if rows.iter().any(|r| matches!(r, V::P(_, vs) if matches!(&**vs, V::L(l) if l.is_empty()))) { cx.oracle_fail(idx, "gbk-empty-group-in-output", what.to_string()); }
    cx.count("gbk-oracle:checked");
}

/// large inputs, judged by the oracles only (like `pipe::check_prog_oracle_only`, but the reference comparison is
/// multiset-valued inside groups; the order inside a group is judged by par == seq, as a sequence)
fn oracle_only_multiset(cx: &mut Ctx, prog: &Prog, desc: &str, modes: &[Mode]) {
    let want = ref_answer(&reference(prog), "deep");
    let mut seq: Option<String> = None;
    for m in modes {
        let out = run_real(prog, *m);
        let idx = cx.case(format!("ORACLE-ONLY {desc} mode={} steps={}", m.enc(), steps_enc(&prog.steps).replace(' ', "_")), "-".into(), true);
        cx.count("oracle-only:large-input");
        let short = |s: &str| if s.len() > 300 { format!("{}…({} bytes)", &s[..300], s.len()) } else { s.to_string() };
        let got = outcome_answer(&out, "deep");
        if got != want { cx.oracle_fail(idx, "large-input-differs-from-reference", format!("mode={} real={} reference={} (groups compared as multisets)", m.enc(), short(&got), short(&want))); }
        let exact = outcome_answer(&out, prog.canon());
        if *m == Mode::Seq { seq = Some(exact); } else if let Some(sa) = &seq { if *sa != exact { cx.oracle_fail(idx, "par-differs-from-seq", format!("large input, mode {}: the sequences inside the groups differ", m.enc())); } }
    }
}

/// `group_by_key` over a streamed file source: correspondence + par == seq through `pipe::check_prog_file`, the
/// reference comparison here (multiset-valued inside groups)
fn check_gbk_file(cx: &mut Ctx, prog: &Prog, per: usize, modes: &[Mode]) {
    check_prog_file(cx, prog, per, modes, &CheckOpts { par_vs_seq: true, vs_reference: false });
    let want = ref_answer(&reference(prog), "deep");
    for m in modes {
        let out = run_real_file(prog, per, *m);
        if matches!(out, Outcome::Hang) { continue; }
        let got = outcome_answer(&out, "deep");
        if got != want {
            let idx = cx.reqs.len().saturating_sub(1);
            cx.oracle_fail(idx, "differs-from-reference", format!("file source per={per} mode={} real={got} reference={want} (groups compared as multisets) prog={}", m.enc(), prog.request(&m.enc())));
        }
    }
}

/// the keys-unique + flatten oracle at EVERY `gbk` position of `prog`: the program is split at that step, the prefix's
/// REAL `collect_seq` output is the input, and `from_vec(input).group_by_key()` is run in every mode on the real engine
/// (registered as its own correspondence cases)
fn gbk_oracle_every_position(cx: &mut Ctx, prog: &Prog, modes: &[Mode]) {
    for (i, s) in prog.steps.iter().enumerate() {
        if !matches!(s, Step::Gbk) { continue; }
        let prefix = Prog { shape: prog.shape, src: prog.src.clone(), steps: prog.steps[..i].to_vec() };
        if !hazard_free(&prefix) || ends_in_hazard(&prefix.steps) { continue; }
        let input = match run_real(&prefix, Mode::Seq) { Outcome::Rows(r) => r, _ => continue };
        // rows that went through a hash map come back in an arbitrary order: sort them, so that the request line is a
        // function of the seed (the oracle is multiset-valued, so the order of the input does not matter to it)
        let input = if prefix.has_barrier() { match canon_rows(&input, "top") { V::L(r) => r, _ => input } } else { input };
        // only KV-shaped prefixes reach a gbk; rows are `P k v`
        let split = Prog { shape: Shape::KV, src: input.clone(), steps: vec![Step::Gbk] };
        cx.count(&format!("gbk-oracle:position:{}", if i + 1 == prog.steps.len() { "last" } else { "inner" }));
        for m in modes {
            let out = run_real(&split, *m);
            let ans = outcome_answer(&out, split.canon());
            let idx = cx.case(split.request(&m.enc()), ans, input.len() >= 2);
            match out {
                Outcome::Rows(rows) => judge_groups(cx, idx, &rows, &input, &format!("mode={} gbk at step {i} of {}", m.enc(), prog.request(&m.enc()))),
                Outcome::Hang => cx.oracle_fail(idx, "run-does-not-terminate", format!("mode {}", m.enc())),
                other => cx.oracle_fail(idx, "gbk-fails-on-real-prefix-output", format!("mode={} outcome={other:?} gbk at step {i} of {}", m.enc(), prog.request(&m.enc()))),
            }
        }
    }
}

/// checks on the REAL output of a program whose last step is `gbk`: unique keys, exact partition
#[allow(dead_code)]
fn gbk_oracle(cx: &mut Ctx, prog: &Prog, modes: &[Mode]) {
    // input of the gbk = reference result of the prefix
    let prefix = Prog { shape: prog.shape, src: prog.src.clone(), steps: prog.steps[..prog.steps.len() - 1].to_vec() };
    let input = match reference(&prefix) { RefOut::Rows(r) => r, _ => return };
    for m in modes {
        if let Outcome::Rows(rows) = run_real(prog, *m) {
            let idx = cx.reqs.len().saturating_sub(1);
            let mut keys: Vec<V> = rows.iter().map(|r| match r { V::P(k, _) => (**k).clone(), o => o.clone() }).collect();
            let n = keys.len();
            keys.sort();
            keys.dedup();
            if keys.len() != n {
                cx.oracle_fail(idx, "gbk-duplicate-key-in-output", format!("mode={} prog={}", m.enc(), prog.request(&m.enc())));
            }
            let mut flat: Vec<V> = vec![];
            for r in &rows {
                if let V::P(k, vs) = r { if let V::L(vs) = &**vs { for v in vs { flat.push(V::pair((**k).clone(), v.clone())); } } }
            }
            // values may contain lists that came out of a hash set upstream: compare canonical forms
            let a = canon_rows(&flat, "deep");
            let b = canon_rows(&input, "deep");
            if a != b {
                cx.oracle_fail(idx, "gbk-groups-do-not-flatten-to-input", format!("mode={} prog={}", m.enc(), prog.request(&m.enc())));
            }
            cx.count("gbk-oracle:checked");
        }
    }
}

pub fn run(cx: &mut Ctx) {
    let o = CheckOpts { par_vs_seq: true, vs_reference: true };
    // C04's comparison with the reference is multiset-valued inside groups (see the header)
    let xo = crate::pipe_x::XOpts { ref_canon: Some("deep"), ..crate::pipe_x::XOpts::of(&o) };
    let xm = |modes: &[Mode]| -> Vec<crate::pipe_x::XMode> { modes.iter().map(|m| crate::pipe_x::XMode::of(*m)).collect() };
    // exhaustive: all keyed inputs of <= 5 (quick 4) rows over 3 keys x partitions 1..6
    let maxlen = size_for(cx, 4, 5);
    let mut inputs: Vec<Vec<V>> = vec![vec![]];
    let mut frontier: Vec<Vec<V>> = vec![vec![]];
    for _ in 0..maxlen {
        let mut next = vec![];
        for s in &frontier {
            for k in 0..3i64 {
                let mut t = s.clone();
                t.push(V::pair(V::I(k), V::I(t.len() as i64)));
                next.push(t);
            }
        }
        inputs.extend(next.iter().cloned());
        frontier = next;
    }
    let modes: Vec<Mode> = std::iter::once(Mode::Seq).chain((1..=6).map(Mode::Par)).collect();
    for src in &inputs {
        let p = Prog { shape: Shape::KV, src: src.clone(), steps: vec![Step::Gbk] };
        let outs = crate::pipe_x::check_prog_x(cx, &p, &xm(&modes), &xo);
        let base = cx.reqs.len() - outs.len();
        for (j, out) in outs.iter().enumerate() { if let Outcome::Rows(rows) = out { judge_groups(cx, base + j, rows, src, "exhaustive block"); } }
        // the same key sequence with DUPLICATE values (value = position / 2: equal values within and across keys)
        let dup: Vec<V> = src.iter().enumerate().map(|(i, r)| match r { V::P(k, _) => V::pair((**k).clone(), V::I(i as i64 / 2)), o => o.clone() }).collect();
        if dup.len() >= 2 {
            let p = Prog { shape: Shape::KV, src: dup.clone(), steps: vec![Step::Gbk] };
            let outs = crate::pipe_x::check_prog_x(cx, &p, &xm(&modes), &xo);
            let base = cx.reqs.len() - outs.len();
            for (j, out) in outs.iter().enumerate() { if let Outcome::Rows(rows) = out { judge_groups(cx, base + j, rows, &dup, "exhaustive block, duplicate values"); } }
        }
    }
    cx.exhaustive_blocks.push(format!("group_by_key on all keyed inputs of length <= {maxlen} over 3 keys, with pairwise distinct values and with duplicate values (position / 2), x seq + par 1..6 ({} key sequences); keys-unique / flatten / no-empty-group judged on every real output", inputs.len()));

    // round 5 — a LEGAL `Hash` far coarser than `Eq` (`pipe::COARSE_HASH`: three bits of `to_int()`): 24 distinct keys
    // share 8 hashes. "One pair per distinct key … none taken from another key" must not depend on hashes separating keys.
    {
        crate::pipe::COARSE_HASH.store(true, std::sync::atomic::Ordering::SeqCst);
        for _ in 0..cx.budget(60, 600) {
            let m = cx.rng.below(70);
            let src: Vec<V> = (0..m).map(|i| V::pair(V::I(cx.rng.below(24) as i64), V::I(i as i64))).collect();
            let p = Prog { shape: Shape::KV, src: src.clone(), steps: vec![Step::Gbk] };
            let parts = 2 + cx.rng.below(6);
            cx.count("gbk:coarse-hash");
            let outs = crate::pipe_x::check_prog_x(cx, &p, &xm(&[Mode::Seq, Mode::Par(parts)]), &xo);
            let base = cx.reqs.len() - outs.len();
            for (j, out) in outs.iter().enumerate() { if let Outcome::Rows(rows) = out { judge_groups(cx, base + j, rows, &src, "coarse hash"); } }
        }
        crate::pipe::COARSE_HASH.store(false, std::sync::atomic::Ordering::SeqCst);
        cx.notes.push("coarse-hash block: group_by_key with a key type whose Hash is legal but collides for most distinct keys (24 keys, 8 hash values)".into());
    }

    // group_by_key inside the LEFT and inside the RIGHT join side (exhaustive small scope), wide plans (65..256
    // partitions, also inside join sides), one 12000-row x 5000-key case
    {
        use crate::pipe_injoin::SideBarrier as B;
        use crate::pipe_wide::WideKind as W;
        crate::pipe_injoin::injoin_block(cx, &[B::Gbk, B::GbkLifted, B::DistinctPerKey], 4, &xo);
        crate::pipe_wide::wide_block(cx, &[W::Gbk, W::Lifted, W::DistinctPerKey, W::JoinGbkSides], cx.budget(12, 60), &xo);
        oracle_only_multiset(cx, &crate::pipe_wide::many_keys_prog(vec![Step::Gbk]), "rows=12000 keys=5000", &[Mode::Seq, Mode::Par(2), Mode::Par(3), Mode::Par(200)]);
        oracle_only_multiset(cx, &crate::pipe_wide::many_keys_prog(vec![Step::Gbk, Step::Glen]), "rows=12000 keys=5000", &[Mode::Seq, Mode::Par(2), Mode::Par(65)]);
    }

    // large partitions (the planner's target is 64k rows per partition): one partition well above that,
    // sequentially, with coarse partition counts, and inside a join side; oracle only
    let sizes: &[usize] = if cx.tier == crate::ctx::Tier::Quick { &[70_001] } else { &[70_001, 140_003] };
    for &n in sizes {
        let src: Vec<V> = (0..n as i64).map(|i| V::pair(V::I((i * 7919) % 11), V::I(i))).collect();
        let p = Prog { shape: Shape::KV, src: src.clone(), steps: vec![Step::Gbk] };
        oracle_only_multiset(cx, &p, &format!("rows={n} keys=11"), &[Mode::Seq, Mode::Par(1), Mode::Par(2), Mode::Par(64)]);
        let q = Prog { shape: Shape::KV, src: src.clone(), steps: vec![Step::Gbk, Step::Glen] };
        oracle_only_multiset(cx, &q, &format!("rows={n} keys=11"), &[Mode::Seq, Mode::Par(2)]);
        let j = Prog { shape: Shape::KV, src: vec![V::pair(V::I(3), V::I(0))], steps: vec![Step::Join(JoinKind::Inner, Box::new(q.clone()))] };
        oracle_only_multiset(cx, &j, &format!("join side rows={n} keys=11"), &[Mode::Seq, Mode::Par(2)]);
    }

    // group_by_key over a streamed file source (one part per shard, zero shards for an empty file)
    for n in [0usize, 1, 5, 12] {
        let src: Vec<V> = (0..n as i64).map(|i| V::pair(V::I(i % 3), V::I(i))).collect();
        for per in [0usize, 1, 2, 5, 100] {
            let p = Prog { shape: Shape::KV, src: src.clone(), steps: vec![Step::Gbk] };
            check_gbk_file(cx, &p, per, &[Mode::Seq, Mode::Par(1), Mode::Par(4)]);
        }
    }

    // random: prefix (reorder-inert, so the known planner finding cannot interfere) ; gbk ; optional suffix
    let rounds = cx.budget(300, 6000);
    let mut done = 0;
    while done < rounds {
        let opts = GenOpts { max_steps: 5, max_rows: cx.budget(40, 200), barriers: done % 3 == 0, joins: done % 5 == 0, globals: false, nonlocal_batches: false };
        let mut p = gen_prog_to(&mut cx.rng, &opts, Shape::KV, 0);
        if !reorder_inert(&p) { continue; }
        if matches!(reference(&p), RefOut::NestedJoin) { continue; }
        p.steps.push(Step::Gbk);
        let choices = partition_choices(p.src.len());
        let modes = vec![Mode::Seq, Mode::Par(*cx.rng.pick(&choices)), Mode::Par(*cx.rng.pick(&choices))];
        crate::pipe_x::check_prog_x(cx, &p, &xm(&modes), &xo);
        // keys unique + flatten at EVERY gbk position (the final one included), on the prefix's real output
        if hazard_free(&p) { gbk_oracle_every_position(cx, &p, &modes[..2]); }
        // and with a suffix / inside a join side
        if done % 4 == 0 {
            let mut q = p.clone();
            q.steps.push(match cx.rng.below(3) { 0 => Step::Ungroup, 1 => Step::Glen, _ => Step::CombineValuesLifted(Comb::Count) });
            crate::pipe_x::check_prog_x(cx, &q, &xm(&modes), &xo);
            let left = Prog { shape: Shape::KV, src: gen_rows(&mut cx.rng, Shape::KV, 6), steps: vec![Step::Join(JoinKind::Left, Box::new(q))] };
            if !matches!(reference(&left), RefOut::NestedJoin) { crate::pipe_x::check_prog_x(cx, &left, &xm(&modes), &xo); }
        }
        done += 1;
    }
}
