//! C04 — group_by_key is an exact partition of its input by key.
//!
//! Programs ending in (or containing) `gbk`, after arbitrary prefixes, inside join sides; both modes and
//! all partition counts. Oracle (independent of the model): output keys are unique, the groups flatten to
//! the input of the group_by_key as a multiset, and the whole result equals the plain-vector reference.

use crate::ctx::Ctx;
use crate::pipe::*;

/// checks on the REAL output of a program whose last step is `gbk`: unique keys, exact partition
fn gbk_oracle(cx: &mut Ctx, prog: &Prog, modes: &[Mode]) {
    // input of the gbk = reference result of the prefix
    let prefix = Prog { shape: prog.shape, src: prog.src.clone(), steps: prog.steps[..prog.steps.len() - 1].to_vec() };
    let input = match reference(&prefix) { RefOut::Rows(r) => r, _ => return };
    for m in modes {
        if let Outcome::Rows(rows) = run_real(prog, *m) {
            let idx = cx.reqs.len().saturating_sub(1);
            let mut keys: Vec<V> = rows.iter().map(|r| match r { V::P(k, _) => (**k).clone(), o => o.clone() }).collect();
            let n = keys.len();
            keys.sort();
            keys.dedup();
            if keys.len() != n {
                cx.oracle_fail(idx, "gbk-duplicate-key-in-output", format!("mode={} prog={}", m.enc(), prog.request(&m.enc())));
            }
            let mut flat: Vec<V> = vec![];
            for r in &rows {
                if let V::P(k, vs) = r { if let V::L(vs) = &**vs { for v in vs { flat.push(V::pair((**k).clone(), v.clone())); } } }
            }
            // values may contain lists that came out of a hash set upstream: compare canonical forms
            let a = canon_rows(&flat, "deep");
            let b = canon_rows(&input, "deep");
            if a != b {
                cx.oracle_fail(idx, "gbk-groups-do-not-flatten-to-input", format!("mode={} prog={}", m.enc(), prog.request(&m.enc())));
            }
            cx.count("gbk-oracle:checked");
        }
    }
}

pub fn run(cx: &mut Ctx) {
    let o = CheckOpts { par_vs_seq: true, vs_reference: true };
    // exhaustive: all keyed inputs of <= 5 (quick 4) rows over 3 keys x partitions 1..6
    let maxlen = size_for(cx, 4, 5);
    let mut inputs: Vec<Vec<V>> = vec![vec![]];
    let mut frontier: Vec<Vec<V>> = vec![vec![]];
    for _ in 0..maxlen {
        let mut next = vec![];
        for s in &frontier {
            for k in 0..3i64 {
                let mut t = s.clone();
                t.push(V::pair(V::I(k), V::I(t.len() as i64)));
                next.push(t);
            }
        }
        inputs.extend(next.iter().cloned());
        frontier = next;
    }
    let modes: Vec<Mode> = std::iter::once(Mode::Seq).chain((1..=6).map(Mode::Par)).collect();
    for src in &inputs {
        let p = Prog { shape: Shape::KV, src: src.clone(), steps: vec![Step::Gbk] };
        check_prog(cx, &p, &modes, &o);
    }
    cx.exhaustive_blocks.push(format!("group_by_key on all keyed inputs of length <= {maxlen} over 3 keys x seq + par 1..6 ({} inputs)", inputs.len()));

    // large partitions (the planner's target is 64k rows per partition): one partition well above that,
    // sequentially, with coarse partition counts, and inside a join side; oracle only
    let sizes: &[usize] = if cx.tier == crate::ctx::Tier::Quick { &[70_001] } else { &[70_001, 140_003] };
    for &n in sizes {
        let src: Vec<V> = (0..n as i64).map(|i| V::pair(V::I((i * 7919) % 11), V::I(i))).collect();
        let p = Prog { shape: Shape::KV, src: src.clone(), steps: vec![Step::Gbk] };
        check_prog_oracle_only(cx, &p, &format!("rows={n} keys=11"), &[Mode::Seq, Mode::Par(1), Mode::Par(2), Mode::Par(64)]);
        let q = Prog { shape: Shape::KV, src: src.clone(), steps: vec![Step::Gbk, Step::Glen] };
        check_prog_oracle_only(cx, &q, &format!("rows={n} keys=11"), &[Mode::Seq, Mode::Par(2)]);
        let j = Prog { shape: Shape::KV, src: vec![V::pair(V::I(3), V::I(0))], steps: vec![Step::Join(JoinKind::Inner, Box::new(q.clone()))] };
        check_prog_oracle_only(cx, &j, &format!("join side rows={n} keys=11"), &[Mode::Seq, Mode::Par(2)]);
    }

    // group_by_key over a streamed file source (one part per shard, zero shards for an empty file)
    for n in [0usize, 1, 5, 12] {
        let src: Vec<V> = (0..n as i64).map(|i| V::pair(V::I(i % 3), V::I(i))).collect();
        for per in [0usize, 1, 2, 5, 100] {
            let p = Prog { shape: Shape::KV, src: src.clone(), steps: vec![Step::Gbk] };
            check_prog_file(cx, &p, per, &[Mode::Seq, Mode::Par(1), Mode::Par(4)], &o);
        }
    }

    // random: prefix (reorder-inert, so the known planner finding cannot interfere) ; gbk ; optional suffix
    let rounds = cx.budget(300, 6000);
    let mut done = 0;
    while done < rounds {
        let opts = GenOpts { max_steps: 5, max_rows: cx.budget(40, 200), barriers: done % 3 == 0, joins: done % 5 == 0, globals: false, nonlocal_batches: false };
        let mut p = gen_prog_to(&mut cx.rng, &opts, Shape::KV, 0);
        if !reorder_inert(&p) { continue; }
        if matches!(reference(&p), RefOut::NestedJoin) { continue; }
        p.steps.push(Step::Gbk);
        let choices = partition_choices(p.src.len());
        let modes = vec![Mode::Seq, Mode::Par(*cx.rng.pick(&choices)), Mode::Par(*cx.rng.pick(&choices))];
        check_prog(cx, &p, &modes, &o);
        gbk_oracle(cx, &p, &modes);
        // and with a suffix / inside a join side
        if done % 4 == 0 {
            let mut q = p.clone();
            q.steps.push(match cx.rng.below(3) { 0 => Step::Ungroup, 1 => Step::Glen, _ => Step::CombineValuesLifted(Comb::Count) });
            check_prog(cx, &q, &modes, &o);
            let left = Prog { shape: Shape::KV, src: gen_rows(&mut cx.rng, Shape::KV, 6), steps: vec![Step::Join(JoinKind::Left, Box::new(q))] };
            if !matches!(reference(&left), RefOut::NestedJoin) { check_prog(cx, &left, &modes, &o); }
        }
        done += 1;
    }
}
