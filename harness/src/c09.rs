//! C09 — file I/O round-trips; sharded, streamed and parallel paths equal the plain ones.
//!
//! Requests (answers are produced by the REAL code on real files in a temp dir):
//!   SHARDS <jsonl|csv|csvh> <total> <per>        T<total> R<ranges> P<split sizes> S<seq len> Q<par len> V<vec len>
//!   SHARDS parquet <g1,g2,..|-> <per>            (row-group sizes of a fixture written by the harness's own ArrowWriter)
//!   SHARDS parquetw <n> <per>                    (file written by the crate's write_parquet_vec)
//!   PARWRITE <jsonl|csv|csvh> <n> <shards|none> auto=<a> via=<fn|pc> hw=<k>
//!                                                OK B<idx:start-end,..> W<H|id,..> | PANIC | ERR
//!   JSONLRD <hex file bytes> <per>               T.. R.. SEQ <OK ids|ERR> PAR <OK a|b|PANIC> VEC <OK ids|ERR>
//!   GLOB <path:count,..>                         F<file order> N<records> I<file idx per record>
//!   (c09_env.rs) PQBAD, PARFS, CSVRD, WRJSONL, RDHELPER, MKDIR and the ORACLE-ONLY environment cases
//!
//! Oracles (independent of the Lean model): read-back == written (bit-exact floats), in order;
//! every streamed view (split concat, collect_seq, collect_par with several partition counts)
//! == the whole read; the parallel-written file is byte-identical to the sequentially written
//! one and reads back == written; the real shard ranges tile `[0,total)`; glob read == the
//! concatenation of the per-file reads in component-wise sorted path order.
//!
//! Run-quality rule (no false alarms): a failure of the harness's OWN fixture I/O (temp dir full / read-only /
//! vanished) is never an oracle failure: it is counted (`env:*`), noted in the evidence, and the case is skipped.
//! A failure of a REAL writer is an oracle failure only if a probe write into the same directory still works.

use crate::c09_env as envc;
use crate::ctx::{Ctx, guarded, hex};
use ironbeam::io::csv::{CsvVecOps, build_csv_shards, verif_split_ranges};
use ironbeam::io::glob::{expand_glob, expand_glob_required};
use ironbeam::io::jsonl::{JsonlVecOps, build_jsonl_shards, write_jsonl_vec};
use ironbeam::io::parquet::{ParquetVecOps, build_parquet_shards, read_parquet_row_group_range};
use ironbeam::{
    Partition, Pipeline, VecOps, from_vec, read_csv, read_csv_streaming, read_csv_vec, read_jsonl,
    read_jsonl_streaming, read_jsonl_vec, read_parquet_streaming, read_parquet_vec, write_csv_par,
    write_csv_vec, write_jsonl_par, write_parquet_vec,
};
use serde::de::DeserializeOwned;
use serde::{Deserialize, Serialize};
use std::path::{Path, PathBuf};
use std::sync::{Arc, Mutex};

// ---------------------------------------------------------------- record types

/// A record shape the generic cases run on. Four shapes rotate through every block: the numeric-first record of
/// the earlier rounds, a string-first/string-last one, one with `Option`s and `u64` extremes, a single string column.
pub trait RecT: Clone + std::fmt::Debug + Serialize + DeserializeOwned + Send + Sync + 'static {
    const TAG: &'static str;
    /// `csv`: the record will (also) be written as CSV — `Some("")` is not generated then (CSV has no null that
    /// differs from the empty string; outside the property's quantifier, counted as `gen:csv-option-some-empty-avoided`)
    fn make(cx: &mut Ctx, id: u64, plain: bool, csv: bool) -> Self;
    fn id(&self) -> u64;
    fn set_id(&mut self, id: u64);
    /// bit-exact equality (`-0.0 != 0.0`)
    fn eq_bits(&self, o: &Self) -> bool;
    fn header() -> Vec<&'static str>;
    /// the id of a raw CSV row (all cells as strings)
    fn id_of_cells(cells: &[String]) -> Option<u64>;
}

#[derive(Clone, Debug, PartialEq, Serialize, Deserialize)]
pub struct Rec {
    pub id: u64,
    pub s: String,
    pub i: i64,
    pub f: f64,
}
impl RecT for Rec {
    const TAG: &'static str = "num-first";
    fn make(cx: &mut Ctx, id: u64, plain: bool, _csv: bool) -> Self {
        Rec { id, s: if plain { format!("r{id}") } else { gen_string(cx) }, i: gen_i64(cx), f: gen_f64(cx) }
    }
    fn id(&self) -> u64 { self.id }
    fn set_id(&mut self, id: u64) { self.id = id; }
    fn eq_bits(&self, y: &Self) -> bool { self.id == y.id && self.s == y.s && self.i == y.i && self.f.to_bits() == y.f.to_bits() }
    fn header() -> Vec<&'static str> { vec!["id", "s", "i", "f"] }
    fn id_of_cells(c: &[String]) -> Option<u64> { c.first()?.parse().ok() }
}

/// string first AND last column, a bool in between
#[derive(Clone, Debug, PartialEq, Serialize, Deserialize)]
pub struct RecS {
    pub s: String,
    pub id: u64,
    pub b: bool,
    pub t: String,
}
impl RecT for RecS {
    const TAG: &'static str = "str-first";
    fn make(cx: &mut Ctx, id: u64, plain: bool, _csv: bool) -> Self {
        RecS { s: if plain { format!("r{id}") } else { gen_string(cx) }, id, b: cx.rng.chance(1, 2), t: if plain { String::new() } else { gen_string(cx) } }
    }
    fn id(&self) -> u64 { self.id }
    fn set_id(&mut self, id: u64) { self.id = id; }
    fn eq_bits(&self, y: &Self) -> bool { self == y }
    fn header() -> Vec<&'static str> { vec!["s", "id", "b", "t"] }
    fn id_of_cells(c: &[String]) -> Option<u64> { c.get(1)?.parse().ok() }
}

/// nullable columns and the full `u64` range
#[derive(Clone, Debug, PartialEq, Serialize, Deserialize)]
pub struct RecO {
    pub id: u64,
    pub o: Option<String>,
    pub u: u64,
    pub n: Option<i64>,
}
impl RecT for RecO {
    const TAG: &'static str = "options";
    fn make(cx: &mut Ctx, id: u64, plain: bool, csv: bool) -> Self {
        let o = match cx.rng.below(3) {
            0 => None,
            _ => {
                let s = if plain { format!("o{id}") } else { gen_string(cx) };
                if csv && s.is_empty() {
                    cx.count("gen:csv-option-some-empty-avoided");
                    None
                } else {
                    Some(s)
                }
            }
        };
        let u = match cx.rng.below(6) {
            0 => u64::MAX,
            1 => i64::MAX as u64 + 1,
            2 => 0,
            3 => (1u64 << 53) + 1,
            _ => cx.rng.next_u64() >> cx.rng.below(64),
        };
        RecO { id, o, u, n: if cx.rng.chance(1, 3) { None } else { Some(gen_i64(cx)) } }
    }
    fn id(&self) -> u64 { self.id }
    fn set_id(&mut self, id: u64) { self.id = id; }
    fn eq_bits(&self, y: &Self) -> bool { self == y }
    fn header() -> Vec<&'static str> { vec!["id", "o", "u", "n"] }
    fn id_of_cells(c: &[String]) -> Option<u64> { c.first()?.parse().ok() }
}

/// one string column only: `<payload>~<id>`
#[derive(Clone, Debug, PartialEq, Serialize, Deserialize)]
pub struct RecOnly {
    pub s: String,
}
impl RecT for RecOnly {
    const TAG: &'static str = "str-only";
    fn make(cx: &mut Ctx, id: u64, plain: bool, _csv: bool) -> Self {
        RecOnly { s: format!("{}~{id}", if plain { "r".to_string() } else { gen_string(cx) }) }
    }
    fn id(&self) -> u64 { self.s.rsplit('~').next().and_then(|x| x.parse().ok()).unwrap_or(u64::MAX) }
    fn set_id(&mut self, id: u64) {
        let k = self.s.rfind('~').unwrap_or(0);
        self.s = format!("{}~{id}", &self.s[..k]);
    }
    fn eq_bits(&self, y: &Self) -> bool { self == y }
    fn header() -> Vec<&'static str> { vec!["s"] }
    fn id_of_cells(c: &[String]) -> Option<u64> { c.first()?.rsplit('~').next()?.parse().ok() }
}

pub fn same<R: RecT>(a: &[R], b: &[R]) -> bool {
    a.len() == b.len() && a.iter().zip(b).all(|(x, y)| x.eq_bits(y))
}

#[derive(Clone, Copy, PartialEq, Eq, Debug)]
pub enum Fmt {
    Jsonl,
    Csv,
    CsvH,
    Parquet,
}
impl Fmt {
    pub fn name(self) -> &'static str {
        match self {
            Fmt::Jsonl => "jsonl",
            Fmt::Csv => "csv",
            Fmt::CsvH => "csvh",
            Fmt::Parquet => "parquet",
        }
    }
    pub fn ext(self) -> &'static str {
        match self {
            Fmt::Jsonl => "jsonl",
            Fmt::Csv | Fmt::CsvH => "csv",
            Fmt::Parquet => "parquet",
        }
    }
    pub fn hdr(self) -> bool {
        self == Fmt::CsvH
    }
    pub fn is_csv(self) -> bool {
        matches!(self, Fmt::Csv | Fmt::CsvH)
    }
}

// ---------------------------------------------------------------- record generator

const PIECES: &[&str] = &[
    "", "a", "word", " ", "  ", "\t", ",", ";", "|", "\"", "\"\"", "'", "\\", "\\n", "\n", "\r", "\r\n", "\n\n",
    "é", "ß", "日本語", "😀", "\u{2028}", "\u{a0}", "\u{85}", "\u{feff}", "null", "true", "123", "-1.5", "1e5", "{", "}", "[",
    "]", ":", "#", "id", "s,i", "a,b", "x\"y", ", ", " ,", "\u{0}", "\u{1}", "\u{7f}", "#c", "s", "~",
];

pub fn gen_string(cx: &mut Ctx) -> String {
    let k = match cx.rng.below(10) {
        0 => 0,
        1..=4 => 1,
        5..=7 => 2,
        _ => 3 + cx.rng.below(4),
    };
    let mut s = String::new();
    for _ in 0..k {
        s.push_str(*cx.rng.pick(PIECES));
    }
    // rarely a long value: lines beyond one 8 KiB buffer
    if cx.rng.chance(1, 400) {
        let unit = if s.is_empty() { "long,\"x\" ".to_string() } else { s.clone() };
        while s.len() < 9000 {
            s.push_str(&unit);
        }
    }
    match cx.rng.below(8) {
        0 => format!(" {s}"),
        1 => format!("{s} "),
        2 => format!("  {s}\t"),
        _ => s,
    }
}

pub fn gen_i64(cx: &mut Ctx) -> i64 {
    match cx.rng.below(8) {
        0 => i64::MIN,
        1 => i64::MAX,
        2 => 0,
        3 => -1,
        4 => i64::MIN + 1,
        5 => (1i64 << 53) + 1,
        _ => cx.rng.next_u64() as i64 >> cx.rng.below(64),
    }
}

/// finite floats of every kind: dyadic rationals, integers, powers of two over the whole exponent range,
/// 17-significant-digit values, subnormals, extremes and signed zero. (Until the `fix:` that enables
/// serde_json's `float_roundtrip`, values such as `4226558646762882.0` or `2^-43` came back 1 ULP off from a
/// JSONL file; they are corpus cases now.)
pub fn gen_f64(cx: &mut Ctx) -> f64 {
    match cx.rng.below(14) {
        0 => 0.0,
        1 => -0.0,
        2 => 1.0,
        3 => (cx.rng.range(-1_000_000, 1_000_000) as f64) / f64::from(1u32 << cx.rng.below(11)),
        4 => 2.0f64.powi(cx.rng.range(-1074, 1023) as i32) * if cx.rng.chance(1, 2) { -1.0 } else { 1.0 },
        5 => cx.rng.range(-999_999_999_999_999, 999_999_999_999_999) as f64,
        6 => -0.5,
        7 => (cx.rng.range(-4096, 4096) as f64) * 0.25,
        8 => *cx.rng.pick(&[4226558646762882.0, 1.1368683772161603e-13 /* 2^-43 */, 0.30000000000000004, 5e-324, f64::MAX, f64::MIN, f64::MIN_POSITIVE, 1.7976931348623155e308, 9007199254740993.0]),
        9 | 10 | 11 => {
            // arbitrary finite bit pattern
            loop {
                let x = f64::from_bits(cx.rng.next_u64());
                if x.is_finite() { break x; }
            }
        }
        12 => (cx.rng.next_u64() >> 11) as f64 / (1u64 << 53) as f64,
        _ => (cx.rng.range(-999_999_999_999_999, 999_999_999_999_999) as f64) * 1e-7,
    }
}

pub fn gen_recs<R: RecT>(cx: &mut Ctx, n: usize, csv: bool) -> Vec<R> {
    // record classes: plain / adversarial strings
    let plain = cx.rng.chance(1, 4);
    (0..n).map(|k| R::make(cx, k as u64, plain, csv)).collect()
}

// ---------------------------------------------------------------- formatting

pub fn join<T: ToString>(xs: impl IntoIterator<Item = T>, sep: &str) -> String {
    let v: Vec<String> = xs.into_iter().map(|x| x.to_string()).collect();
    if v.is_empty() { "-".into() } else { v.join(sep) }
}
pub fn fmt_ranges<A: ToString + Copy, B: ToString + Copy>(rs: &[(A, B)]) -> String {
    join(rs.iter().map(|(a, b)| format!("{}-{}", a.to_string(), b.to_string())), ",")
}
pub fn opt_shards(s: Option<usize>) -> String {
    s.map_or("none".into(), |x| x.to_string())
}

pub fn tiles(rs: &[(u64, u64)], total: u64) -> bool {
    let mut at = 0u64;
    for &(s, e) in rs {
        if s != at || e <= s {
            return false;
        }
        at = e;
    }
    at == total
}

fn parts_to_vecs<R: RecT>(parts: Vec<Partition>) -> Option<Vec<Vec<R>>> {
    parts.into_iter().map(|p| p.downcast::<Vec<R>>().ok().map(|b| *b)).collect()
}

// ---------------------------------------------------------------- fixtures / environment

pub struct Env {
    /// keeps the directory alive; removed on drop
    pub dir: tempfile::TempDir,
    pub k: u64,
    pub auto_jsonl: usize,
    pub auto_csv: usize,
    pub log: Arc<Mutex<Vec<(&'static str, usize, usize, usize)>>>,
    /// the file system folds case / normalises Unicode: colliding fixture names are not generated
    pub folds_names: bool,
    env_noted: bool,
}
impl Env {
    pub fn root(&self) -> &Path {
        self.dir.path()
    }
    pub fn fresh(&mut self, ext: &str) -> PathBuf {
        self.k += 1;
        self.dir.path().join(format!("f{}.{ext}", self.k))
    }
    pub fn take_log(&self, site: &str) -> Vec<(usize, usize, usize)> {
        let mut g = self.log.lock().unwrap_or_else(std::sync::PoisonError::into_inner);
        let mut v: Vec<(usize, usize, usize)> = g.iter().filter(|x| x.0 == site).map(|x| (x.1, x.2, x.3)).collect();
        g.clear();
        v.sort();
        v
    }
    /// Is the temp dir still usable by PLAIN std I/O? (confirms that a failing real writer is the writer's fault)
    pub fn healthy(&mut self) -> bool {
        self.k += 1;
        let p = self.dir.path().join(format!("probe{}.tmp", self.k));
        let ok = std::fs::write(&p, b"probe").is_ok() && std::fs::read(&p).map(|b| b == b"probe").unwrap_or(false);
        let _ = std::fs::remove_file(&p);
        ok
    }
    /// result of the harness's OWN fixture I/O: an error is an environment problem, never an oracle failure
    pub fn own<T, E: std::fmt::Display>(&mut self, cx: &mut Ctx, what: &str, r: Result<T, E>) -> Option<T> {
        match r {
            Ok(v) => Some(v),
            Err(e) => {
                cx.count("env:fixture-io-error");
                if !self.env_noted {
                    self.env_noted = true;
                    cx.notes.push(format!("environment: the harness's own fixture I/O failed ({what}: {e}); such cases are skipped and counted under env:fixture-io-error, they are not oracle failures"));
                }
                None
            }
        }
    }
    /// a REAL writer failed while preparing a case: oracle failure only if the directory is still healthy
    pub fn real_writer_failed(&mut self, cx: &mut Ctx, req: String, detail: String) {
        if self.healthy() {
            let i = cx.case(req, "WRITE-ERR".into(), false);
            cx.oracle_fail(i, "seq-writer-failed", detail);
        } else {
            let _ = self.own::<(), _>(cx, "real writer and the probe write both failed", Err(detail));
        }
    }
    pub fn wipe_files(&self) {
        if let Ok(d) = std::fs::read_dir(self.dir.path()) {
            for e in d.filter_map(Result::ok) {
                if e.path().is_file() {
                    let _ = std::fs::remove_file(e.path());
                }
            }
        }
    }
}

fn has_glob_meta(p: &Path) -> bool {
    p.to_str().is_none_or(|s| s.contains(['*', '?', '[']))
}

/// A private directory whose path is valid UTF-8 and free of glob metacharacters (the path helpers treat any
/// path containing `* ? [` as a pattern): `$TMPDIR` first, else `work/` below the current directory (relative).
fn make_env(cx: &mut Ctx) -> Option<Env> {
    let bases = [std::env::temp_dir(), PathBuf::from("work")];
    for base in bases {
        if has_glob_meta(&base) {
            cx.notes.push(format!("environment: {} contains a glob metacharacter or is not UTF-8; not used as temp dir", base.display()));
            continue;
        }
        let _ = std::fs::create_dir_all(&base);
        let Ok(dir) = tempfile::Builder::new().prefix("c09-").tempdir_in(&base) else { continue };
        if has_glob_meta(dir.path()) {
            continue;
        }
        let log: Arc<Mutex<Vec<(&'static str, usize, usize, usize)>>> = Arc::new(Mutex::new(vec![]));
        let mut env = Env { dir, k: 0, auto_jsonl: 0, auto_csv: 0, log, folds_names: false, env_noted: false };
        if !env.healthy() || std::fs::create_dir_all(env.root().join("probe-dir/sub")).is_err() {
            continue;
        }
        let _ = std::fs::remove_dir_all(env.root().join("probe-dir"));
        // case folding / Unicode normalisation probe
        let (a, b) = (env.root().join("probe-a"), env.root().join("probe-A"));
        let (c, d) = (env.root().join("probe-\u{e9}"), env.root().join("probe-e\u{301}"));
        let _ = std::fs::write(&a, b"1");
        let _ = std::fs::write(&c, b"1");
        env.folds_names = b.exists() || d.exists();
        let _ = std::fs::remove_file(&a);
        let _ = std::fs::remove_file(&c);
        if env.folds_names {
            cx.notes.push("environment: the temp file system folds case or normalises Unicode; fixture names that would collide (A/a, B/b, é) are not generated".into());
        }
        return Some(env);
    }
    None
}

pub fn write_seq<R: RecT>(fmt: Fmt, path: &Path, data: &Vec<R>) -> anyhow::Result<usize> {
    match fmt {
        Fmt::Jsonl => write_jsonl_vec(path, data),
        Fmt::Csv | Fmt::CsvH => write_csv_vec(path, fmt.hdr(), data),
        Fmt::Parquet => write_parquet_vec(path, data),
    }
}
pub fn write_seq_pc<R: RecT>(fmt: Fmt, path: &Path, data: &Vec<R>) -> anyhow::Result<usize> {
    let p = Pipeline::default();
    let pc = from_vec(&p, data.clone());
    match fmt {
        Fmt::Jsonl => pc.write_jsonl(path),
        Fmt::Csv | Fmt::CsvH => pc.write_csv(path, fmt.hdr()),
        Fmt::Parquet => pc.write_parquet(path),
    }
}
pub fn write_par<R: RecT>(fmt: Fmt, path: &Path, data: &Vec<R>, shards: Option<usize>, via_pc: bool) -> anyhow::Result<usize> {
    if via_pc {
        let p = Pipeline::default();
        let pc = from_vec(&p, data.clone());
        match fmt {
            Fmt::Jsonl => pc.write_jsonl_par(path, shards),
            _ => pc.write_csv_par(path, shards, fmt.hdr()),
        }
    } else {
        match fmt {
            Fmt::Jsonl => write_jsonl_par(path, data, shards),
            _ => write_csv_par(path, data, shards, fmt.hdr()),
        }
    }
}
pub fn read_whole<R: RecT>(fmt: Fmt, path: &Path) -> anyhow::Result<Vec<R>> {
    match fmt {
        Fmt::Jsonl => read_jsonl_vec(path),
        Fmt::Csv | Fmt::CsvH => read_csv_vec(path, fmt.hdr()),
        Fmt::Parquet => read_parquet_vec(path),
    }
}

/// parquet fixture with the given row-group sizes (one `flush()` per group), written by the harness's own ArrowWriter
pub fn write_parquet_groups<R: Serialize + DeserializeOwned + Clone>(path: &Path, data: &[R], sizes: &[usize]) -> anyhow::Result<()> {
    use arrow::datatypes::FieldRef;
    use parquet::arrow::arrow_writer::ArrowWriter;
    use serde_arrow::schema::{SchemaLike, TracingOptions};
    let fields = Vec::<FieldRef>::from_type::<R>(TracingOptions::default())?;
    let empty: Vec<R> = vec![];
    let schema = serde_arrow::to_record_batch(&fields, &empty)?.schema();
    let mut w = ArrowWriter::try_new(std::fs::File::create(path)?, schema, None)?;
    let mut at = 0usize;
    for &sz in sizes {
        let chunk: Vec<R> = data[at..at + sz].to_vec();
        at += sz;
        let batch = serde_arrow::to_record_batch(&fields, &chunk)?;
        w.write(&batch)?;
        w.flush()?;
    }
    w.close()?;
    Ok(())
}

/// `csv-first-field-bom`: the ONLY difference between what was read and what was written is that the first field
/// of the FIRST record of a header-less CSV file lost a leading U+FEFF (csv-core strips a UTF-8 BOM at the start
/// of the input). Everything else about the two vectors must be identical.
fn only_leading_bom_lost<R: RecT>(fmt: Fmt, got: &[R], want: &[R]) -> bool {
    if fmt != Fmt::Csv || got.len() != want.len() || got.is_empty() || !same(&got[1..], &want[1..]) {
        return false;
    }
    let (Ok(g), Ok(w)) = (serde_json::to_value(&got[0]), serde_json::to_value(&want[0])) else { return false };
    let (Some(g), Some(w)) = (g.as_object(), w.as_object()) else { return false };
    let first = R::header()[0];
    g.iter().all(|(k, v)| {
        let wv = &w[k];
        if k == first {
            match (v.as_str(), wv.as_str()) {
                (Some(a), Some(b)) => b.strip_prefix('\u{feff}') == Some(a),
                _ => false,
            }
        } else {
            v == wv
        }
    })
}

/// signature for "read back differs from written"
pub fn diff_sig<R: RecT>(fmt: Fmt, got: &[R], want: &[R], plain: &'static str) -> &'static str {
    if only_leading_bom_lost(fmt, got, want) { "csv-headerless-first-field-leading-bom-stripped" } else { plain }
}

// ---------------------------------------------------------------- SHARDS: streamed == whole

/// Streams `path` (already written, holding `data`) with shard size `per`; emits one SHARDS case.
/// `groups`: row-group sizes of a Parquet file (`by_crate`: written by `write_parquet_vec`).
pub fn stream_case<R: RecT>(cx: &mut Ctx, fmt: Fmt, path: &Path, data: &Vec<R>, per: usize, groups: Option<&[usize]>, by_crate: bool) {
    stream_case_m(cx, fmt, path, data, per, groups, by_crate, true);
}

/// `model = false`: oracle only (large files: the theorems cover every size, the model is not asked to evaluate them)
#[allow(clippy::too_many_arguments)]
pub fn stream_case_m<R: RecT>(cx: &mut Ctx, fmt: Fmt, path: &Path, data: &Vec<R>, per: usize, groups: Option<&[usize]>, by_crate: bool, model: bool) {
    let mut fails: Vec<(&'static str, String)> = vec![];
    // whole read
    let whole = guarded(|| read_whole::<R>(fmt, path));
    let v_str = match &whole {
        Ok(Ok(v)) => {
            if !same(v, data) {
                fails.push((diff_sig(fmt, v, data, "roundtrip-differs"), format!("read_{}_vec returned {} records, first difference at {:?}", fmt.name(), v.len(), first_diff(v, data))));
            }
            ids_or_len(v)
        }
        Ok(Err(e)) => {
            fails.push(("roundtrip-read-error", format!("{e:#}")));
            "ERR".into()
        }
        Err(m) => {
            fails.push(("roundtrip-read-panics", m.clone()));
            "PANIC".into()
        }
    };
    // the single-file branch of the path helpers (`read_jsonl` / `read_csv`) must be the whole read
    if fmt != Fmt::Parquet {
        let p = Pipeline::default();
        let r = guarded(|| match fmt {
            Fmt::Jsonl => read_jsonl::<R>(&p, path).and_then(|pc| pc.collect_seq()),
            _ => read_csv::<R>(&p, path, fmt.hdr()).and_then(|pc| pc.collect_seq()),
        });
        match (&r, &whole) {
            (Ok(Ok(h)), Ok(Ok(v))) if same(h, v) => {}
            (Ok(Err(_)), Ok(Err(_))) => {}
            _ => fails.push(("helper-literal-read-differs-from-vec-read", format!("read_{}(path) = {:?} records", fmt.ext(), r.as_ref().map(|x| x.as_ref().map(Vec::len).map_err(|e| format!("{e:#}")))))),
        }
    }
    // shard metadata + VecOps::split / clone_any, directly
    type Meta = (u64, String, bool, Option<Vec<Partition>>, Option<Partition>);
    let meta: Result<anyhow::Result<Meta>, String> = guarded(|| -> anyhow::Result<Meta> {
        // each VecOps call separately guarded: a panic in one must not hide the other's answer
        Ok(match fmt {
            Fmt::Jsonl => {
                let s = build_jsonl_shards(path, per)?;
                let ops = JsonlVecOps::<R>::new();
                (s.total_lines, fmt_ranges(&s.ranges), tiles(&s.ranges, s.total_lines), guarded(|| ops.split(&s, 7)).ok().flatten(), guarded(|| ops.clone_any(&s)).ok().flatten())
            }
            Fmt::Csv | Fmt::CsvH => {
                let s = build_csv_shards(path, fmt.hdr(), per)?;
                let ops = CsvVecOps::<R>::new();
                (s.total_rows, fmt_ranges(&s.ranges), tiles(&s.ranges, s.total_rows), guarded(|| ops.split(&s, 7)).ok().flatten(), guarded(|| ops.clone_any(&s)).ok().flatten())
            }
            Fmt::Parquet => {
                let s = build_parquet_shards(path, per)?;
                let ops = ParquetVecOps::<R>::new();
                let ng = groups.map_or(0, <[usize]>::len) as u64;
                let gr: Vec<(u64, u64)> = s.group_ranges.iter().map(|&(a, b)| (a as u64, b as u64)).collect();
                (s.total_rows, fmt_ranges(&s.group_ranges), tiles(&gr, ng), guarded(|| ops.split(&s, 7)).ok().flatten(), guarded(|| ops.clone_any(&s)).ok().flatten())
            }
        })
    });
    let (total, ranges_str, ranges_tile, split, cloned): Meta = match meta {
        Ok(Ok(m)) => m,
        Ok(Err(e)) => {
            fails.push(("streamed-read-error", format!("build shards: {e:#}")));
            (0, "ERR".into(), true, None, None)
        }
        Err(m) => {
            fails.push(("streamed-read-panics", format!("build shards: {m}")));
            (0, "PANIC".into(), true, None, None)
        }
    };
    if !ranges_tile {
        fails.push(("shards-do-not-tile", format!("ranges {ranges_str} do not tile the file")));
    }
    let p_str = match split.and_then(parts_to_vecs::<R>) {
        Some(parts) => {
            let flat: Vec<R> = parts.iter().flatten().cloned().collect();
            if !same(&flat, data) {
                fails.push((diff_sig(fmt, &flat, data, "streamed-differs-from-whole"), format!("VecOps::split concat has {} records, first difference at {:?}", flat.len(), first_diff(&flat, data))));
            }
            join(parts.iter().map(Vec::len), ",")
        }
        None => "NONE".into(),
    };
    if let Some(c) = cloned.and_then(|p| p.downcast::<Vec<R>>().ok()) {
        if !same(&c, data) {
            fails.push((diff_sig(fmt, &c, data, "streamed-differs-from-whole"), format!("VecOps::clone_any has {} records", c.len())));
        }
    } else {
        fails.push(("streamed-differs-from-whole", "VecOps::clone_any returned None".into()));
    }
    // through the pipeline: collect_seq and collect_par with several partition counts
    // every other case puts an identity `map` after the source, so that the zero-partition /
    // many-partition outputs of the file sources also flow through a stateless stage
    let with_map = per % 2 == 1;
    let stream = |p: &Pipeline| {
        let pc = match fmt {
            Fmt::Jsonl => read_jsonl_streaming::<R>(p, path, per),
            Fmt::Csv | Fmt::CsvH => read_csv_streaming::<R>(p, path, fmt.hdr(), per),
            Fmt::Parquet => read_parquet_streaming::<R>(p, path, per),
        };
        pc.map(|pc| if with_map { pc.map(|r: &R| r.clone()) } else { pc })
    };
    let show = |v: &Vec<R>| ids_or_len(v);
    let p = Pipeline::default();
    let s_str = match guarded(|| stream(&p).and_then(|pc| pc.collect_seq())) {
        Ok(Ok(v)) => {
            if !same(&v, data) {
                fails.push((diff_sig(fmt, &v, data, "streamed-differs-from-whole"), format!("collect_seq has {} records, first difference at {:?}", v.len(), first_diff(&v, data))));
            }
            show(&v)
        }
        Ok(Err(e)) => {
            fails.push(("streamed-read-error", format!("collect_seq: {e:#}")));
            "ERR".into()
        }
        Err(m) => {
            fails.push(("streamed-read-panics", format!("collect_seq: {m}")));
            "PANIC".into()
        }
    };
    let n = data.len();
    let mut pcs: Vec<Option<usize>> = vec![None, Some(1), Some(2), Some(3), Some(n), Some(n + 1), Some(64)];
    if n > 0 {
        pcs.push(Some(n - 1));
    }
    let pick = cx.rng.below(pcs.len());
    let mut q_str = String::new();
    for (j, pc_n) in pcs.iter().enumerate() {
        // quick tier (and every large file): two partition counts per case (None + one drawn); others: all of them
        if (cx.tier == crate::ctx::Tier::Quick || n > 5000) && j != 0 && j != pick {
            continue;
        }
        let p = Pipeline::default();
        let r = guarded(|| stream(&p).and_then(|pc| pc.collect_par(None, *pc_n)));
        let s = match r {
            Ok(Ok(v)) => {
                if !same(&v, data) {
                    fails.push((diff_sig(fmt, &v, data, "streamed-differs-from-whole"), format!("collect_par(partitions={pc_n:?}) has {} records, first difference at {:?}", v.len(), first_diff(&v, data))));
                }
                show(&v)
            }
            Ok(Err(e)) => {
                fails.push(("streamed-read-error", format!("collect_par: {e:#}")));
                "ERR".into()
            }
            Err(m) => {
                fails.push(("streamed-read-panics", format!("collect_par: {m}")));
                "PANIC".into()
            }
        };
        if q_str.is_empty() {
            q_str = s;
        } else if q_str != s {
            q_str = format!("{q_str}/{s}");
        }
    }
    let req = match (fmt, groups) {
        (Fmt::Parquet, Some(_)) if by_crate => format!("SHARDS parquetw {} {per}", data.len()),
        (Fmt::Parquet, Some(g)) => format!("SHARDS parquet {} {per}", join(g.iter(), ",")),
        _ => format!("SHARDS {} {} {per}", fmt.name(), data.len()),
    };
    let nshards = ranges_str.matches('-').count();
    let idx = if model {
        cx.case(req, format!("T{total} R{ranges_str} P{p_str} S{s_str} Q{q_str} V{v_str}"), n >= 2 && ranges_str != "-")
    } else {
        cx.case(format!("ORACLE-ONLY big-stream {} n={n} per={per} shards={nshards} groups={}", fmt.name(), groups.map_or("-".to_string(), |g| join(g.iter(), ","))), "-".into(), true)
    };
    cx.count(&format!("stream:{}", fmt.name()));
    cx.count(&format!("stream:rec={}", R::TAG));
    cx.count(&format!("stream:shards={}", if ranges_str == "-" { "0".into() } else if nshards >= 8 { "8+".into() } else { nshards.to_string() }));
    cx.count(&format!("stream:per-vs-n:{}", if per == 0 { "0" } else if per < n { "<n" } else if per == n { "=n" } else { ">n" }));
    // one signature per case is enough for attribution; keep them all for the detail
    for (sig, d) in fails {
        cx.oracle_fail(idx, sig, d);
    }
}

pub fn first_diff<R: RecT>(a: &[R], b: &[R]) -> Option<(usize, Option<R>, Option<R>)> {
    (0..a.len().max(b.len()))
        .find(|&k| match (a.get(k), b.get(k)) {
            (Some(x), Some(y)) => !x.eq_bits(y),
            _ => true,
        })
        .map(|k| (k, a.get(k).cloned(), b.get(k).cloned()))
}
/// length if the ids are 0..len in order, else `X`
pub fn ids_or_len<R: RecT>(v: &[R]) -> String {
    if v.iter().enumerate().all(|(k, r)| r.id() == k as u64) { v.len().to_string() } else { "X".into() }
}

/// writes `data` (sequential writer: free function or PCollection method) and streams it
fn roundtrip_stream<R: RecT>(cx: &mut Ctx, env: &mut Env, fmt: Fmt, data: &Vec<R>, per: usize) {
    // codec: the sequential writers / all readers pick the codec from the extension (C10 owns the
    // codec logic itself and the parallel writers' handling of compressed extensions)
    let codec = if fmt != Fmt::Parquet && cx.rng.chance(1, 3) { *cx.rng.pick(&["gz", "zst", "bz2", "xz"]) } else { "" };
    let path = if codec.is_empty() { env.fresh(fmt.ext()) } else { env.fresh(&format!("{}.{codec}", fmt.ext())) };
    cx.count(&format!("stream:codec={}", if codec.is_empty() { "none" } else { codec }));
    let via_pc = cx.rng.chance(1, 3);
    let w = guarded(|| if via_pc { write_seq_pc(fmt, &path, data) } else { write_seq(fmt, &path, data) });
    cx.count(if via_pc { "seqwrite:pcollection" } else { "seqwrite:vec" });
    match w {
        Ok(Ok(k)) if k == data.len() => {}
        other => {
            env.real_writer_failed(cx, format!("SHARDS {} {} {per}", fmt.name(), data.len()), format!("{:?}", other.map(|r| r.map_err(|e| format!("{e:#}")))));
            return;
        }
    }
    let groups: Vec<usize> = if data.is_empty() { vec![] } else { vec![data.len()] };
    stream_case(cx, fmt, &path, data, per, if fmt == Fmt::Parquet { Some(&groups) } else { None }, true);
    let _ = std::fs::remove_file(&path);
}

pub fn real_group_sizes<R: RecT>(path: &Path) -> Option<Vec<usize>> {
    guarded(|| {
        let meta = build_parquet_shards(path, 1).ok()?;
        meta.group_ranges.iter().map(|&(a, b)| read_parquet_row_group_range::<R>(&meta, a, b).ok().map(|v| v.len())).collect::<Option<Vec<usize>>>()
    })
    .ok()
    .flatten()
}

fn parquet_groups_case<R: RecT>(cx: &mut Ctx, env: &mut Env, data: &Vec<R>, sizes: &[usize], per: usize) {
    let path = env.fresh("parquet");
    if env.own(cx, "parquet fixture", write_parquet_groups(&path, data, sizes)).is_none() {
        return;
    }
    // the fixture's real group structure (third-party writer) is what the request carries
    // (read with the real code; if that itself misbehaves, fall back to the requested sizes so that the
    // disagreement is attributed to the case below)
    let real_sizes: Vec<usize> = real_group_sizes::<R>(&path).unwrap_or_else(|| sizes.to_vec());
    if real_sizes != sizes {
        cx.count("parquet:fixture-groups-differ-from-requested");
    }
    stream_case(cx, Fmt::Parquet, &path, data, per, Some(&real_sizes), false);
    let _ = std::fs::remove_file(&path);
}

// ---------------------------------------------------------------- PARWRITE

pub fn raw_cells<R: RecT>(path: &Path, fmt: Fmt) -> String {
    match fmt {
        Fmt::Jsonl => match read_jsonl_vec::<R>(path) {
            Ok(v) => join(v.iter().map(|r| r.id()), ","),
            Err(_) => "UNREADABLE".into(),
        },
        _ => match read_csv_vec::<Vec<String>>(path, false) {
            Ok(rows) => {
                let hdr: Vec<String> = R::header().iter().map(|s| s.to_string()).collect();
                join(rows.iter().map(|r| if *r == hdr { "H".to_string() } else { R::id_of_cells(r).map_or("?".to_string(), |x| x.to_string()) }), ",")
            }
            Err(_) => "UNREADABLE".into(),
        },
    }
}

fn parwrite_case<R: RecT>(cx: &mut Ctx, env: &mut Env, fmt: Fmt, data: &Vec<R>, shards: Option<usize>, via_pc: bool) {
    let n = data.len();
    let par = env.fresh(fmt.ext());
    let seq = env.fresh(fmt.ext());
    env.take_log("");
    let r = guarded(|| write_par(fmt, &par, data, shards, via_pc));
    let site = if fmt == Fmt::Jsonl { "write_jsonl_par" } else { "write_csv_par" };
    let bounds = env.take_log(site);
    // `None`: the default is re-read from num_cpus on every call; if this call did not use the count measured at
    // start (affinity / cgroup change mid-run), re-measure instead of blaming the writer
    if shards.is_none() && n > 0 && !via_pc && r.as_ref().is_ok_and(Result::is_ok) {
        let auto = if fmt == Fmt::Jsonl { env.auto_jsonl } else { env.auto_csv };
        if bounds.len() != auto.clamp(1, n) {
            measure_auto(cx, env);
            cx.count("env:auto-shard-count-remeasured");
        }
    }
    let auto = if fmt == Fmt::Jsonl { env.auto_jsonl } else { env.auto_csv };
    let req = format!("PARWRITE {} {n} {} auto={auto} via={} hw={}", fmt.name(), opt_shards(shards), if via_pc { "pc" } else { "fn" }, env.auto_jsonl);
    let mut fails: Vec<(&'static str, String)> = vec![];
    let ans = match r {
        Err(m) => {
            fails.push(("par-writer-panics", m));
            "PANIC".to_string()
        }
        Ok(Err(e)) => {
            if !env.healthy() {
                let _ = env.own::<(), _>(cx, "parallel writer and the probe write both failed", Err(format!("{e:#}")));
                return;
            }
            fails.push(("par-writer-errors", format!("{e:#}")));
            "ERR".to_string()
        }
        Ok(Ok(k)) => {
            if k != n {
                fails.push(("par-writer-count", format!("returned {k}, wrote {n}")));
            }
            match guarded(|| write_seq(fmt, &seq, data)) {
                Ok(Ok(_)) => {}
                other => {
                    env.real_writer_failed(cx, req, format!("{:?}", other.map(|r| r.map_err(|e| format!("{e:#}")))));
                    env.wipe_files();
                    return;
                }
            }
            let (Some(a), Some(b)) = (env.own(cx, "read parallel-written file", std::fs::read(&par)), env.own(cx, "read sequentially written file", std::fs::read(&seq))) else {
                env.wipe_files();
                return;
            };
            if a != b {
                fails.push(("par-file-differs-from-seq-file", format!("{} vs {} bytes", a.len(), b.len())));
            }
            match guarded(|| read_whole::<R>(fmt, &par)) {
                Ok(Ok(v)) if same(&v, data) => {}
                Ok(Ok(v)) => fails.push((diff_sig(fmt, &v, data, "par-file-reads-back-differently"), format!("{} records, first difference at {:?}", v.len(), first_diff(&v, data)))),
                Ok(Err(e)) => fails.push(("par-file-reads-back-differently", format!("{e:#}"))),
                Err(m) => fails.push(("par-file-reads-back-differently", format!("panic: {m}"))),
            }
            // no part files may be left behind
            if fmt == Fmt::Jsonl {
                let left = std::fs::read_dir(env.root()).map(|d| d.filter_map(Result::ok).filter(|e| e.file_name().to_string_lossy().contains(".part")).count()).unwrap_or(0);
                if left > 0 {
                    fails.push(("par-writer-leaves-part-files", format!("{left} part files")));
                }
            }
            format!("OK B{} W{}", join(bounds.iter().map(|(i, s, e)| format!("{i}:{s}-{e}")), ","), raw_cells::<R>(&par, fmt))
        }
    };
    let idx = cx.case(req, ans, n >= 2 && shards.is_none_or(|s| s >= 2));
    cx.count(&format!("parwrite:{}:{}", fmt.name(), if via_pc { "pc" } else { "fn" }));
    cx.count(&format!("parwrite:rec={}", R::TAG));
    cx.count(&format!("parwrite:shards-vs-n:{}", match shards { None => "none", Some(0) => "0", Some(s) if s < n => "<n", Some(s) if s == n => "=n", _ => ">n" }));
    if let Some(s) = shards {
        if s >= 1 && n % s.min(n.max(1)) != 0 {
            cx.count("parwrite:non-dividing");
        }
    }
    for (sig, d) in fails {
        cx.oracle_fail(idx, sig, d);
    }
    // clean up (also stale part files after a panic)
    env.wipe_files();
}

/// parallel writers under a compression extension: the file must read back (whole and streamed) exactly like
/// the sequentially written one. Oracle only (the codec layer is modelled in C10).
fn parwrite_codec_case<R: RecT>(cx: &mut Ctx, env: &mut Env, fmt: Fmt, data: &Vec<R>, shards: Option<usize>, codec: &str, via_pc: bool) {
    let par = env.fresh(&format!("{}.{codec}", fmt.ext()));
    let seq = env.fresh(&format!("{}.{codec}", fmt.ext()));
    let r = guarded(|| write_par(fmt, &par, data, shards, via_pc));
    if matches!(&r, Ok(Err(_))) && !env.healthy() {
        let _ = env.own::<(), _>(cx, "parallel writer (codec) and the probe write both failed", Err("write error"));
        return;
    }
    let idx = cx.case(format!("ORACLE-ONLY parwrite-codec {} n={} shards={} codec={codec} via={}", fmt.name(), data.len(), opt_shards(shards), if via_pc { "pc" } else { "fn" }), "-".into(), data.len() >= 2);
    cx.count(&format!("parwrite-codec:{}:{codec}", fmt.name()));
    match r {
        Err(m) => cx.oracle_fail(idx, "par-writer-panics", m),
        Ok(Err(e)) => cx.oracle_fail(idx, "par-writer-errors", format!("{e:#}")),
        Ok(Ok(_)) => {
            let ws = guarded(|| write_seq(fmt, &seq, data));
            if !matches!(ws, Ok(Ok(_))) {
                if env.healthy() {
                    cx.oracle_fail(idx, "seq-writer-failed", format!("{:?}", ws.map(|r| r.map_err(|e| format!("{e:#}")))));
                } else {
                    let _ = env.own::<(), _>(cx, "sequential writer (codec) and the probe write both failed", Err("write error"));
                }
                env.wipe_files();
                return;
            }
            let a = guarded(|| read_whole::<R>(fmt, &par));
            let b = guarded(|| read_whole::<R>(fmt, &seq));
            match (a, b) {
                (Ok(Ok(x)), Ok(Ok(y))) if same(&x, &y) && same(&x, data) => {}
                (Ok(Ok(x)), Ok(Ok(y))) => cx.oracle_fail(idx, if same(&x, &y) { diff_sig(fmt, &x, data, "par-compressed-file-reads-back-differently") } else { "par-compressed-file-reads-back-differently" }, format!("parallel-written file: {} records, sequentially written: {}, expected {}", x.len(), y.len(), data.len())),
                (x, _) => cx.oracle_fail(idx, "par-compressed-file-reads-back-differently", format!("parallel-written file unreadable: {:?}", x.map(|r| r.map(|v| v.len()).map_err(|e| format!("{e:#}"))))),
            }
        }
    }
    env.wipe_files();
}

// ---------------------------------------------------------------- JSONLRD (byte level, blank lines, malformed)

fn jsonlrd_case(cx: &mut Ctx, env: &mut Env, bytes: &[u8], per: usize) {
    let path = env.fresh("jsonl");
    if env.own(cx, "write JSONL bytes", std::fs::write(&path, bytes)).is_none() {
        return;
    }
    let req = format!("JSONLRD {} {per}", if bytes.is_empty() { "-".into() } else { hex(bytes) });
    let Ok(Ok(shards)) = guarded(|| build_jsonl_shards(&path, per)) else {
        if env.healthy() && path.exists() {
            let idx = cx.case(req, "BUILD-FAILED".into(), false);
            cx.oracle_fail(idx, "streamed-read-panics", "build_jsonl_shards failed on a readable file".into());
        }
        return;
    };
    let ops = JsonlVecOps::<i64>::new();
    let p = Pipeline::default();
    let seq = guarded(|| read_jsonl_streaming::<i64>(&p, &path, per).and_then(|pc| pc.collect_seq()));
    let p2 = Pipeline::default();
    let parts_n = 1 + cx.rng.below(5);
    let par = guarded(|| read_jsonl_streaming::<i64>(&p2, &path, per).and_then(|pc| pc.collect_par(None, Some(parts_n))));
    let vec = read_jsonl_vec::<i64>(&path);
    let split: Option<Vec<Vec<i64>>> = guarded(|| ops.split(&shards, 3)).ok().flatten().and_then(|ps| ps.into_iter().map(|p| p.downcast::<Vec<i64>>().ok().map(|b| *b)).collect());
    let seq_s = match &seq {
        Ok(Ok(v)) => format!("OK {}", join(v.iter(), ",")),
        Ok(Err(_)) => "ERR".into(),
        Err(_) => "PANIC".into(),
    };
    let par_s = match (&split, &par) {
        (Some(parts), Ok(Ok(_))) => format!("OK {}", join(parts.iter().map(|p| join(p.iter(), ",")), "|")),
        (None, Ok(Ok(v))) => format!("FALLBACK {}", join(v.iter(), ",")),
        (_, Ok(Err(_))) => "ERR".into(),
        (_, Err(_)) => "PANIC".into(),
    };
    let vec_s = match &vec {
        Ok(v) => format!("OK {}", join(v.iter(), ",")),
        Err(_) => "ERR".into(),
    };
    let idx = cx.case(req, format!("T{} R{} SEQ {seq_s} PAR {par_s} VEC {vec_s}", shards.total_lines, fmt_ranges(&shards.ranges)), shards.ranges.len() >= 2);
    cx.count(if vec.is_ok() { "jsonlrd:wellformed" } else { "jsonlrd:malformed" });
    if !tiles(&shards.ranges, shards.total_lines) {
        cx.oracle_fail(idx, "shards-do-not-tile", format!("{:?} total {}", shards.ranges, shards.total_lines));
    }
    if let Ok(whole) = &vec {
        // streamed == whole, whenever the whole read succeeds
        let ok_seq = matches!(&seq, Ok(Ok(v)) if v == whole);
        let ok_par = matches!(&par, Ok(Ok(v)) if v == whole);
        let ok_split = split.as_ref().is_some_and(|ps| &ps.concat() == whole);
        if !(ok_seq && ok_par && ok_split) {
            cx.oracle_fail(idx, "streamed-differs-from-whole", format!("whole={whole:?} seq_ok={ok_seq} par_ok={ok_par} split_ok={ok_split}"));
        }
    }
    else if matches!(&seq, Ok(Ok(_))) || matches!(&par, Ok(Ok(_))) {
        // the whole read fails: the streamed views must not "succeed" with something else
        cx.oracle_fail(idx, "streamed-differs-from-whole", format!("read_jsonl_vec fails but streamed read returns seq={seq_s} par={par_s}"));
    }
    let _ = std::fs::remove_file(&path);
}

fn gen_jsonl_bytes(cx: &mut Ctx, malformed: bool) -> Vec<u8> {
    const BLANKS: &[&str] = &["", " ", "\t", "  \t ", "\r", "\u{a0}", "\u{2028}", "\u{c}", "\u{85}", "\u{3000} "];
    const BAD: &[&str] = &["x", "{", "1 2", "01", "1.0", "1e2", "9223372036854775808", "-9223372036854775809", "\"1\"", "[1]", "null", "+1", "\u{a0}1", "1\u{c}"];
    const INTS: &[&str] = &["0", "1", "-1", "42", "9223372036854775807", "-9223372036854775808", "1000000"];
    let n = cx.rng.below(9);
    let mut out = String::new();
    for k in 0..n {
        let line: String = match cx.rng.below(10) {
            0..=1 => cx.rng.pick(BLANKS).to_string(),
            2 if malformed => cx.rng.pick(BAD).to_string(),
            3 => format!("{}{}{}", cx.rng.pick(&[" ", "\t", ""]), cx.rng.pick(INTS), cx.rng.pick(&[" ", "\t", "", "  "])),
            4 => cx.rng.pick(INTS).to_string(),
            _ => cx.rng.range(-50, 50).to_string(),
        };
        out.push_str(&line);
        let last = k + 1 == n;
        match cx.rng.below(8) {
            0 => out.push_str("\r\n"),
            1 if last => {} // unterminated last line
            2 if last => out.push('\r'), // unterminated, trailing CR is NOT stripped
            _ => out.push('\n'),
        }
    }
    out.into_bytes()
}

// ---------------------------------------------------------------- GLOB

fn comp_cmp(a: &str, b: &str) -> std::cmp::Ordering {
    let ca: Vec<&[u8]> = a.split('/').map(str::as_bytes).collect();
    let cb: Vec<&[u8]> = b.split('/').map(str::as_bytes).collect();
    ca.cmp(&cb)
}

fn glob_case<R: RecT>(cx: &mut Ctx, env: &mut Env, fmt: Fmt, names: &[(String, usize)], deep: bool) {
    env.k += 1;
    let root = env.root().join(format!("g{}", env.k));
    if env.own(cx, "create glob fixture dir", std::fs::create_dir_all(&root)).is_none() {
        return;
    }
    let ext = fmt.ext();
    let mut files: Vec<(String, Vec<R>)> = vec![];
    let mut next_id = 0u64;
    for (name, cnt) in names {
        let mut recs = gen_recs::<R>(cx, *cnt, fmt.is_csv());
        for r in &mut recs {
            r.set_id(next_id);
            next_id += 1;
        }
        let path = root.join(name);
        if let Some(parent) = path.parent() {
            if env.own(cx, "create glob fixture sub-directory", std::fs::create_dir_all(parent)).is_none() {
                let _ = std::fs::remove_dir_all(&root);
                return;
            }
        }
        match guarded(|| write_seq(fmt, &path, &recs)) {
            Ok(Ok(_)) => {}
            other => {
                env.real_writer_failed(cx, format!("GLOB fixture {name}"), format!("{:?}", other.map(|r| r.map_err(|e| format!("{e:#}")))));
                let _ = std::fs::remove_dir_all(&root);
                return;
            }
        }
        files.push((name.clone(), recs));
    }
    // decoys: other extension, and a directory whose name matches the pattern
    let _ = std::fs::write(root.join("decoy.txt"), b"not data");
    let _ = std::fs::create_dir_all(root.join(format!("dir.{ext}")));
    let matched: Vec<usize> = (0..files.len()).filter(|&k| files[k].0.ends_with(&format!(".{ext}")) && (deep || !files[k].0.contains('/'))).collect();
    let pattern = if deep { format!("{}/**/*.{ext}", root.display()) } else { format!("{}/*.{ext}", root.display()) };
    // expected order: component-wise comparison of the relative paths, computed here
    let mut want_order = matched.clone();
    want_order.sort_by(|&a, &b| comp_cmp(&files[a].0, &files[b].0));
    let want: Vec<R> = want_order.iter().flat_map(|&k| files[k].1.clone()).collect();
    let p = Pipeline::default();
    let got = guarded(|| match fmt {
        Fmt::Jsonl => read_jsonl::<R>(&p, &pattern).and_then(|pc| pc.collect_seq()),
        Fmt::Csv | Fmt::CsvH => read_csv::<R>(&p, &pattern, fmt.hdr()).and_then(|pc| pc.collect_seq()),
        Fmt::Parquet => read_parquet_streaming::<R>(&p, &pattern, 1).and_then(|pc| pc.collect_par(None, Some(3))),
    });
    let listed = expand_glob(&pattern).unwrap_or_default();
    // `expand_glob_required`: the same list, or an error exactly when nothing matches
    let required = guarded(|| expand_glob_required(&pattern));
    let req_ok = match &required {
        Ok(Ok(v)) => !listed.is_empty() && *v == listed,
        Ok(Err(_)) => listed.is_empty(),
        Err(_) => false,
    };
    let order: Vec<String> = listed
        .iter()
        .map(|pb| {
            let rel = pb.strip_prefix(&root).map(|x| x.to_string_lossy().to_string()).unwrap_or_default();
            files.iter().position(|f| f.0 == rel).map_or("?".to_string(), |k| matched.iter().position(|&m| m == k).map_or("?".to_string(), |j| j.to_string()))
        })
        .collect();
    let spec = join(matched.iter().map(|&k| format!("{}:{}", files[k].0, files[k].1.len())), ",");
    let req = format!("GLOB {spec}");
    let (ans, fail) = match &got {
        Ok(Ok(v)) => {
            let ids = join(v.iter().map(|r| owner_of(&files, &matched, r.id())), ",");
            (format!("F{} N{} I{ids}", join(order.iter(), ","), v.len()), if same(v, &want) { None } else { Some(format!("glob read returned {} records, expected {} (first difference at {:?})", v.len(), want.len(), first_diff(v, &want))) })
        }
        Ok(Err(e)) => {
            if matched.is_empty() { ("ERR-NOFILES".to_string(), None) } else { ("ERR".to_string(), Some(format!("{e:#}"))) }
        }
        Err(m) => ("PANIC".to_string(), Some(m.clone())),
    };
    if matched.is_empty() {
        // documented: a glob without matches is an error (modelled by `readHelper`, request RDHELPER)
        cx.count("glob:no-match");
        if matches!(&got, Ok(Ok(_))) || !req_ok {
            let idx = cx.case(format!("ORACLE-ONLY glob-no-match {}", fmt.name()), "-".into(), false);
            cx.oracle_fail(idx, "glob-without-match-is-not-an-error", format!("{ans}; expand_glob_required consistent: {req_ok}"));
        }
        let _ = std::fs::remove_dir_all(&root);
        return;
    }
    let idx = cx.case(req, ans, matched.len() >= 2);
    cx.count(&format!("glob:{}:{}", fmt.name(), if deep { "deep" } else { "flat" }));
    cx.count(&format!("glob:rec={}", R::TAG));
    if let Some(d) = fail {
        // the BOM finding can only sit in the first record of a header-less file: attribute narrowly
        let sig = match &got {
            Ok(Ok(v)) if fmt == Fmt::Csv && bom_only_per_file(&files, &want_order, v) => "csv-headerless-first-field-leading-bom-stripped",
            _ => "glob-read-differs",
        };
        cx.oracle_fail(idx, sig, d);
    }
    if !req_ok {
        cx.oracle_fail(idx, "expand-glob-required-differs-from-expand-glob", format!("{:?}", required.map(|r| r.map(|v| v.len()).map_err(|e| format!("{e:#}")))));
    }
    let _ = std::fs::remove_dir_all(&root);
}

/// glob read of header-less CSV files: every per-file segment is either identical or differs only by the stripped BOM
fn bom_only_per_file<R: RecT>(files: &[(String, Vec<R>)], order: &[usize], got: &[R]) -> bool {
    let mut at = 0usize;
    let mut any = false;
    for &k in order {
        let want = &files[k].1;
        if at + want.len() > got.len() {
            return false;
        }
        let seg = &got[at..at + want.len()];
        at += want.len();
        if same(seg, want) {
            continue;
        }
        if !only_leading_bom_lost(Fmt::Csv, seg, want) {
            return false;
        }
        any = true;
    }
    any && at == got.len()
}

/// index (within `matched`) of the file that owns record `id` (ids are assigned consecutively over ALL files)
fn owner_of<R: RecT>(files: &[(String, Vec<R>)], matched: &[usize], id: u64) -> String {
    let mut start = 0u64;
    for (k, f) in files.iter().enumerate() {
        let end = start + f.1.len() as u64;
        if id >= start && id < end {
            return matched.iter().position(|&m| m == k).map_or("?".into(), |j| j.to_string());
        }
        start = end;
    }
    "?".into()
}

fn gen_names(cx: &mut Ctx, env: &Env, ext: &str, deep: bool) -> Vec<(String, usize)> {
    const STEMS: &[&str] = &["a", "b", "a-b", "a.b", "a_b", "A", "B", "part-0", "part-1", "part-10", "part-2", "z", "0", "10", "9", "data", "day=01", "day=1", "é", "a+b"];
    const DIRS: &[&str] = &["a", "a-b", "sub", "year=2024", "b", "A"];
    let fold = env.folds_names;
    let okname = |s: &str| !fold || (s.is_ascii() && s.to_lowercase() == s);
    let n = 1 + cx.rng.below(6);
    let mut out: Vec<(String, usize)> = vec![];
    for _ in 0..n {
        let stem = cx.rng.pick(STEMS);
        let e = if cx.rng.chance(1, 6) { "txt" } else { ext };
        let name = if deep && cx.rng.chance(1, 2) {
            if cx.rng.chance(1, 3) { format!("{}/{}/{stem}.{e}", cx.rng.pick(DIRS), cx.rng.pick(DIRS)) } else { format!("{}/{stem}.{e}", cx.rng.pick(DIRS)) }
        } else {
            format!("{stem}.{e}")
        };
        let cnt = cx.rng.below(4);
        if !okname(&name) {
            continue;
        }
        // a path may not be both a file and a directory prefix of another; keep names distinct
        if out.iter().any(|(o, _)| *o == name || o.starts_with(&format!("{name}/")) || name.starts_with(&format!("{o}/"))) {
            continue;
        }
        out.push((name, cnt));
    }
    out
}

fn splitr_case(cx: &mut Ctx, len: usize, parts: usize) {
    let r = verif_split_ranges(len, parts);
    let idx = cx.case(format!("SPLITR {len} {parts}"), join(r.iter().map(|(i, s, e)| format!("{i}:{s}-{e}")), ","), len >= 2 && parts >= 2);
    let rs: Vec<(u64, u64)> = r.iter().map(|&(_, s, e)| (s as u64, e as u64)).collect();
    if !tiles(&rs, len as u64) || r.iter().enumerate().any(|(k, x)| x.0 != k) {
        cx.oracle_fail(idx, "shards-do-not-tile", format!("split_ranges({len},{parts}) = {r:?}"));
    }
    cx.count("splitr");
}

// ---------------------------------------------------------------- driver

pub fn per_candidates(n: usize) -> Vec<usize> {
    let mut v = vec![0, 1, 2, 3, n, n + 1, 2 * n + 5, usize::MAX];
    if n > 0 {
        v.push(n - 1);
    }
    v
}

/// measure the `None` shard defaults of the two parallel writers on this machine from the real code
fn measure_auto(cx: &mut Ctx, env: &mut Env) {
    let big: Vec<Rec> = gen_recs::<Rec>(&mut Ctx::new("C09", 0, cx.tier), 4096, true);
    let p = env.fresh("jsonl");
    env.take_log("");
    // on the pinned code this call itself can panic (4096 rows, 16 shards does not, but be safe)
    let _ = guarded(|| write_jsonl_par(&p, &big, None));
    env.auto_jsonl = env.take_log("write_jsonl_par").len();
    let _ = std::fs::remove_file(&p);
    for i in 0..64 {
        // part files of a call that panicked half-way (pinned code only)
        let _ = std::fs::remove_file(p.with_extension(format!("jsonl.part{i}")));
    }
    let p = env.fresh("csv");
    let _ = guarded(|| write_csv_par(&p, &big, None, false));
    env.auto_csv = env.take_log("write_csv_par").len();
    let _ = std::fs::remove_file(&p);
}

/// runs `$body` with `$R` bound to one of the four record shapes, chosen by `$k % 4`
macro_rules! with_rec {
    ($k:expr, $R:ident, $body:block) => {
        match $k % 4 {
            0 => { type $R = Rec; $body }
            1 => { type $R = RecS; $body }
            2 => { type $R = RecO; $body }
            _ => { type $R = RecOnly; $body }
        }
    };
}

pub fn run(cx: &mut Ctx) {
    // make later `build_global` calls inside ironbeam no-ops (PCollection::write_csv_par passes its
    // `shards` argument as the rayon THREAD count to collect_par)
    rayon::ThreadPoolBuilder::new().build_global().ok();
    let Some(mut env) = make_env(cx) else {
        cx.count("env:no-usable-temp-dir");
        cx.notes.push("environment: no usable temp directory ($TMPDIR and ./work both unusable); no file case was run — this is an environment problem, not a verdict on the code".into());
        // the pure cases still run
        for len in 0..=24 {
            for parts in 0..=26 {
                splitr_case(cx, len, parts);
            }
        }
        return;
    };
    {
        let l = Arc::clone(&env.log);
        ironbeam::verif_hooks::set_shard_callback(Some(Arc::new(move |site, i, s, e| l.lock().unwrap_or_else(std::sync::PoisonError::into_inner).push((site, i, s, e)))));
    }
    measure_auto(cx, &mut env);
    cx.notes.push(format!("auto shard counts measured from the real writers on 4096 rows: jsonl={} csv={}", env.auto_jsonl, env.auto_csv));
    cx.notes.push("the shard-boundary callback and its log are process-global: C09 runs single-threaded, one property per process".into());

    // (1) corpus: design witnesses (DESIGN §8 #4) and minimised past failures
    for (j, (n, s)) in [(5usize, Some(4usize)), (17, Some(16)), (100, Some(16)), (100, None), (7, Some(5)), (3, Some(2))].into_iter().enumerate() {
        with_rec!(j, R, {
            let data = gen_recs::<R>(cx, n, true);
            parwrite_case(cx, &mut env, Fmt::Jsonl, &data, s, false);
            parwrite_case(cx, &mut env, Fmt::Jsonl, &data, s, true);
            parwrite_case(cx, &mut env, Fmt::CsvH, &data, s, false);
        });
    }
    // parallel writers under every compression extension (small n x shard counts), oracle only
    for codec in ["gz", "zst", "bz2", "xz"] {
        for (n, s) in [(0usize, Some(2usize)), (1, Some(1)), (7, Some(3)), (7, Some(1)), (9, None), (5, Some(9))] {
            let data = gen_recs::<Rec>(cx, n, true);
            parwrite_codec_case(cx, &mut env, Fmt::Jsonl, &data, s, codec, false);
            parwrite_codec_case(cx, &mut env, Fmt::CsvH, &data, s, codec, false);
            parwrite_codec_case(cx, &mut env, Fmt::Jsonl, &data, s, codec, true);
        }
    }
    for gf in [Fmt::Jsonl, Fmt::CsvH, Fmt::Parquet] {
        // component-wise path order differs from string order here ('-' < '.' < '/')
        let e = gf.ext();
        let names: Vec<(String, usize)> = vec![(format!("a/x.{e}"), 2), (format!("a-b/x.{e}"), 1), (format!("a.{e}"), 3), (format!("a-b.{e}"), 1), (format!("a/a-b/y.{e}"), 1), (format!("a/a.{e}"), 2)];
        glob_case::<Rec>(cx, &mut env, gf, &names, true);
        glob_case::<RecS>(cx, &mut env, gf, &names, false);
    }
    jsonlrd_case(cx, &mut env, b"1\n\n 2\r\nx\n3", 2);
    jsonlrd_case(cx, &mut env, b"1\n\n\n2\n3\n", 2);
    jsonlrd_case(cx, &mut env, b"", 3);
    jsonlrd_case(cx, &mut env, b"\n\n", 1);
    envc::corpus(cx, &mut env);

    // (2) exhaustive small scope
    // exhaustive scopes do not grow in the search tier (only the random block does)
    let thorough = cx.tier == crate::ctx::Tier::Thorough;
    let top = if thorough { 26 } else { 20 };
    for n in 0..top {
        with_rec!(n, R, {
            let data = gen_recs::<R>(cx, n, true);
            for s in (0..=top + 1).map(Some).chain([None]) {
                parwrite_case(cx, &mut env, Fmt::Jsonl, &data, s, false);
                parwrite_case(cx, &mut env, if (n + s.unwrap_or(0)) % 2 == 0 { Fmt::CsvH } else { Fmt::Csv }, &data, s, false);
            }
        });
    }
    for len in 0..=top + 4 {
        for parts in 0..=top + 6 {
            splitr_case(cx, len, parts);
        }
    }
    cx.exhaustive_blocks.push(format!("SPLITR: split_ranges(len, parts) for all len in 0..={} x parts in 0..={}", top + 4, top + 6));
    cx.exhaustive_blocks.push(format!("PARWRITE: all (rows, shards) in 0..{top} x (0..={} + None) for write_jsonl_par and write_csv_par (header flag alternating, record shape = rows mod 4)", top + 1));
    for n in 0..top {
        for (fi, fmt) in [Fmt::Jsonl, Fmt::Csv, Fmt::CsvH].into_iter().enumerate() {
            with_rec!(n + fi, R, {
                let data = gen_recs::<R>(cx, n, fmt.is_csv());
                let path = env.fresh(fmt.ext());
                match guarded(|| write_seq(fmt, &path, &data)) {
                    Ok(Ok(_)) => {
                        for per in 0..=top + 1 {
                            stream_case(cx, fmt, &path, &data, per, None, true);
                        }
                    }
                    other => env.real_writer_failed(cx, format!("SHARDS {} {n} 0", fmt.name()), format!("{:?}", other.map(|r| r.map_err(|e| format!("{e:#}"))))),
                }
                let _ = std::fs::remove_file(&path);
            });
        }
    }
    cx.exhaustive_blocks.push(format!("SHARDS: all (rows, shard size) in 0..{top} x 0..={} for jsonl, csv, csv+header streaming sources (split, clone_any, collect_seq, collect_par; record shape rotating)", top + 1));
    // parquet: all compositions of up to 5 rows into row groups x groups_per_shard 0..=4
    let maxrows = if thorough { 7 } else { 5 };
    let mut comps: Vec<Vec<usize>> = vec![vec![]];
    for total in 1..=maxrows {
        // compositions of `total`
        for mask in 0..(1u32 << (total - 1)) {
            let mut sizes = vec![];
            let mut cur = 1;
            for b in 0..total - 1 {
                if mask & (1 << b) != 0 { sizes.push(cur); cur = 1; } else { cur += 1; }
            }
            sizes.push(cur);
            comps.push(sizes);
        }
    }
    for (ci, sizes) in comps.iter().enumerate() {
        let total: usize = sizes.iter().sum();
        with_rec!(ci, R, {
            let data = gen_recs::<R>(cx, total, false);
            for per in 0..=sizes.len() + 1 {
                parquet_groups_case(cx, &mut env, &data, sizes, per);
            }
        });
    }
    cx.exhaustive_blocks.push(format!("SHARDS parquet: all row-group compositions of 0..={maxrows} rows x groups_per_shard 0..=groups+1 ({} files, record shape rotating)", comps.len()));
    envc::exhaustive(cx, &mut env);

    // (3) random block
    let rounds = cx.budget(500, 6000);
    for round in 0..rounds {
        let n = match cx.rng.below(10) {
            0 => 0,
            1 => 1,
            2..=6 => 2 + cx.rng.below(12),
            7..=8 => 14 + cx.rng.below(40),
            _ => 60 + cx.rng.below(200),
        };
        let shape = cx.rng.below(4);
        let fmt = *cx.rng.pick(&[Fmt::Jsonl, Fmt::Jsonl, Fmt::Csv, Fmt::CsvH, Fmt::Parquet]);
        let wf = *cx.rng.pick(&[Fmt::Jsonl, Fmt::Csv, Fmt::CsvH]);
        with_rec!(shape, R, {
            let data = gen_recs::<R>(cx, n, true);
            let per = *cx.rng.pick(&per_candidates(n));
            roundtrip_stream(cx, &mut env, fmt, &data, per);
            // parallel writers
            let via_pc = cx.rng.chance(1, 3);
            let mut cands = vec![None, Some(0), Some(1), Some(2), Some(3), Some(n), Some(n + 1), Some(2 * n + 3), Some(usize::MAX)];
            if n > 0 { cands.push(Some(n - 1)); }
            let s = *cx.rng.pick(&cands);
            parwrite_case(cx, &mut env, wf, &data, s, via_pc);
            if cx.rng.chance(1, 4) {
                let codec = *cx.rng.pick(&["gz", "zst", "bz2", "xz"]);
                parwrite_codec_case(cx, &mut env, wf, &data, s, codec, via_pc);
            }
            // multi-row-group parquet
            if cx.rng.chance(1, 3) && n > 0 {
                let mut sizes = vec![];
                let mut left = n;
                while left > 0 {
                    let g = 1 + cx.rng.below(left.min(1 + n / 2));
                    sizes.push(g);
                    left -= g;
                }
                let per = *cx.rng.pick(&per_candidates(sizes.len()));
                parquet_groups_case(cx, &mut env, &data, &sizes, per);
            }
            // the directory around the writers, hostile files, path helpers
            envc::random_round::<R>(cx, &mut env, round, &data);
        });
        // byte-level JSONL with blank lines / CRLF; separate malformed stream
        let malformed = cx.rng.chance(1, 4);
        let bytes = gen_jsonl_bytes(cx, malformed);
        let per = *cx.rng.pick(&[0usize, 1, 2, 3, 4, 100]);
        jsonlrd_case(cx, &mut env, &bytes, per);
        let (l, q) = (cx.rng.below(3000), *cx.rng.pick(&[0usize, 1, 2, 7, 64, 2999, 3000, 3001, usize::MAX]));
        splitr_case(cx, l, q);
        // glob over several files
        if cx.rng.chance(1, 2) {
            let gf = *cx.rng.pick(&[Fmt::Jsonl, Fmt::Csv, Fmt::CsvH, Fmt::Parquet]);
            let deep = cx.rng.chance(1, 2);
            let names = gen_names(cx, &env, gf.ext(), deep);
            with_rec!(shape + 1, R, { glob_case::<R>(cx, &mut env, gf, &names, deep); });
        }
    }
    // (4) sizes where the third-party batch logic lives (> 1024 rows in a shard, > 65 536 rows in a file)
    envc::big(cx, &mut env);
    ironbeam::verif_hooks::set_shard_callback(None);
}
