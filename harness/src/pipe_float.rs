//! Round 3 (PIPE3b) — float aggregates for C01's clause "aggregates that accumulate floating-point sums agree up
//! to rounding": a PIPE program, a map to `f64`, then `Sum<f64>` / `AverageF64` through `combine_globally`,
//! `combine_globally_lifted`, `combine_values` or `group_by_key().combine_values_lifted`. Request kind
//! `PIPEFL agg= entry= fo= tof= mode=… canon=… src <rows> ; steps` (`lean/IbModel/Driver/PipeFloat.lean`,
//! model over Lean `Float` in row order). Oracles (real vs real, and real vs the plain-vector reference): the same
//! keys, every value within 1e-9 relative. Only NON-NEGATIVE terms are generated, so no cancellation can make a
//! correct run miss the tolerance.

use super::*;
use ironbeam::combiners::AverageF64;

#[derive(Clone, Copy, Debug, PartialEq)]
pub enum ToF { Tenth, Recip, Third }
#[derive(Clone, Copy, Debug, PartialEq)]
pub enum FAgg { Sum, Avg }
#[derive(Clone, Copy, Debug, PartialEq)]
pub enum FEntry { Global(Option<usize>), GlobalLifted(Option<usize>), Values, ValuesLifted }

impl ToF {
    /// exactly representable inputs, one or two IEEE operations (mirrors `Model/ProgramFloat.lean::ToF.eval`)
    pub fn eval(&self, x: &V) -> f64 {
        let n = x.to_int().unsigned_abs() % 100_000;
        match self {
            ToF::Tenth => (n + 1) as f64 / 10.0,
            ToF::Recip => 1.0 / (n + 1) as f64,
            ToF::Third => (n % 1000) as f64 / 3.0 + 0.75,
        }
    }
    pub fn enc(&self) -> &'static str { match self { ToF::Tenth => "tenth", ToF::Recip => "recip", ToF::Third => "third" } }
}
impl FAgg {
    pub fn enc(&self) -> &'static str { match self { FAgg::Sum => "sum", FAgg::Avg => "avg" } }
    pub fn fold(&self, xs: &[f64]) -> f64 {
        let s = xs.iter().fold(0.0f64, |a, x| a + x);
        match self { FAgg::Sum => s, FAgg::Avg => if xs.is_empty() { 0.0 } else { s / xs.len() as f64 } }
    }
}
impl FEntry {
    pub fn enc(&self) -> (&'static str, String) {
        let fo = |f: &Option<usize>| f.map_or("none".to_string(), |n| n.to_string());
        match self { FEntry::Global(f) => ("global", fo(f)), FEntry::GlobalLifted(f) => ("global_lifted", fo(f)), FEntry::Values => ("values", "none".into()), FEntry::ValuesLifted => ("values_lifted", "none".into()) }
    }
    pub fn per_key(&self) -> bool { matches!(self, FEntry::Values | FEntry::ValuesLifted) }
}

/// global: one value; per key: (encoded key, value) sorted by the encoded key
#[derive(Clone, Debug, PartialEq)]
pub enum FOut { One(f64), Keyed(Vec<(String, f64)>), Err(String), Panic(String), Hang }

fn run_float(prog: &Prog, tof: ToF, agg: FAgg, entry: FEntry, mode: Mode) -> anyhow::Result<FOut> {
    let p = Pipeline::default();
    let c = build(&p, prog);
    let one = |v: Vec<f64>| -> anyhow::Result<FOut> { if v.len() == 1 { Ok(FOut::One(v[0])) } else { anyhow::bail!("global combine returned {} rows", v.len()) } };
    let keyed = |v: Vec<(V, f64)>| -> FOut { let mut kv: Vec<(String, f64)> = v.into_iter().map(|(k, x)| (k.enc(), x)).collect(); kv.sort_by(|a, b| a.0.cmp(&b.0)); FOut::Keyed(kv) };
    macro_rules! coll { ($x:expr) => { match mode { Mode::Seq => $x.collect_seq()?, Mode::Par(n) => $x.collect_par(None, Some(n))? } } }
    match entry {
        FEntry::Global(fo) | FEntry::GlobalLifted(fo) => {
            let f = as_t(c).map(move |v: &V| tof.eval(v));
            let lifted = matches!(entry, FEntry::GlobalLifted(_));
            match (agg, lifted) {
                (FAgg::Sum, false) => one(coll!(f.combine_globally(Sum::<f64>::new(), fo))),
                (FAgg::Sum, true) => one(coll!(f.combine_globally_lifted(Sum::<f64>::new(), fo))),
                (FAgg::Avg, false) => one(coll!(f.combine_globally(AverageF64, fo))),
                (FAgg::Avg, true) => one(coll!(f.combine_globally_lifted(AverageF64, fo))),
            }
        }
        FEntry::Values | FEntry::ValuesLifted => {
            let f = as_kv(c).map_values(move |v: &V| tof.eval(v));
            Ok(keyed(match (agg, entry == FEntry::ValuesLifted) {
                (FAgg::Sum, false) => coll!(f.combine_values(Sum::<f64>::new())),
                (FAgg::Sum, true) => coll!(f.group_by_key().combine_values_lifted(Sum::<f64>::new())),
                (FAgg::Avg, false) => coll!(f.combine_values(AverageF64)),
                (FAgg::Avg, true) => coll!(f.group_by_key().combine_values_lifted(AverageF64)),
            }))
        }
    }
}

pub fn run_real_float(prog: &Prog, tof: ToF, agg: FAgg, entry: FEntry, mode: Mode) -> FOut {
    let prog = prog.clone();
    let threads = PAR_THREADS.load(std::sync::atomic::Ordering::SeqCst);
    let run = move || { if threads == 0 || mode == Mode::Seq { run_float(&prog, tof, agg, entry, mode) } else { pool_for(threads).install(|| run_float(&prog, tof, agg, entry, mode)) } };
    for secs in [20u64, 60, 120] {
        let g = run.clone();
        match with_watchdog(secs, move || g()) {
            None => continue,
            Some(Err(msg)) => return FOut::Panic(msg),
            Some(Ok(Err(e))) => return FOut::Err(format!("{e}")),
            Some(Ok(Ok(o))) => return o,
        }
    }
    FOut::Hang
}

fn ftok(x: f64) -> String { format!("F{x:?}") }
pub fn fout_answer(o: &FOut) -> String {
    match o {
        FOut::One(x) => format!("OK {}", ftok(*x)),
        FOut::Keyed(kv) => format!("OK n={}{}", kv.len(), kv.iter().map(|(k, x)| format!(" K {k} {}", ftok(*x))).collect::<String>()),
        FOut::Err(e) => outcome_answer(&Outcome::Err(e.clone()), "seq"),
        FOut::Panic(m) => outcome_answer(&Outcome::Panic(m.clone()), "seq"),
        FOut::Hang => "HANG".into(),
    }
}

fn close(a: f64, b: f64) -> bool { a == b || (a - b).abs() <= 1e-9 * a.abs().max(b.abs()) }
/// same keys, every value within 1e-9 relative
pub fn fout_close(a: &FOut, b: &FOut) -> bool {
    match (a, b) {
        (FOut::One(x), FOut::One(y)) => close(*x, *y),
        (FOut::Keyed(x), FOut::Keyed(y)) => x.len() == y.len() && x.iter().zip(y).all(|(p, q)| p.0 == q.0 && close(p.1, q.1)),
        (x, y) => x == y,
    }
}

/// the aggregate on the plain-vector reference rows, summed in row order
pub fn reference_float(rows: &[V], tof: ToF, agg: FAgg, entry: FEntry) -> FOut {
    if entry.per_key() {
        let mut m: BTreeMap<String, Vec<f64>> = BTreeMap::new();
        for r in rows { m.entry(key_of(r).enc()).or_default().push(tof.eval(&val_of(r))); }
        FOut::Keyed(m.into_iter().map(|(k, xs)| (k, agg.fold(&xs))).collect())
    } else {
        FOut::One(agg.fold(&rows.iter().map(|x| tof.eval(x)).collect::<Vec<_>>()))
    }
}

/// `prog` must end in shape T (global entries) or KV (per-key entries), be hazard-free and reorder-inert
pub fn check_float(cx: &mut Ctx, prog: &Prog, tof: ToF, agg: FAgg, entry: FEntry, modes: &[Mode]) {
    let rows = match reference(prog) { RefOut::Rows(r) => r, _ => return };
    let want = reference_float(&rows, tof, agg, entry);
    let (ename, fo) = entry.enc();
    cx.count(&format!("float:{}:{ename}", agg.enc()));
    cx.count(&format!("float:terms:{}", match rows.len() { 0 => "0", 1 => "1", 2..=9 => "2-9", 10..=99 => "10-99", _ => "100+" }));
    let mut seq: Option<FOut> = None;
    for m in modes {
        let out = run_real_float(prog, tof, agg, entry, *m);
        let ans = fout_answer(&out);
        let req = prog.request(&m.enc());
        let idx = cx.case(format!("PIPEFL agg={} entry={ename} fo={fo} tof={} {}", agg.enc(), tof.enc(), req.strip_prefix("PIPE ").unwrap_or(&req)), ans.clone(), rows.len() >= 2);
        if matches!(out, FOut::Hang) { cx.oracle_fail(idx, "run-does-not-terminate", format!("float aggregate, mode {}", m.enc())); continue; }
        if *m == Mode::Seq { seq = Some(out.clone()); }
        else if let Some(s) = &seq {
            if !fout_close(s, &out) { cx.oracle_fail(idx, "float-aggregate-par-differs-from-seq-beyond-rounding", format!("seq={} par={ans}", fout_answer(s))); }
            else if *s != out { cx.count("float:par-differs-from-seq-within-rounding"); } else { cx.count("float:par-bit-identical-to-seq"); }
        }
        if !fout_close(&want, &out) { cx.oracle_fail(idx, "float-aggregate-differs-from-reference-beyond-rounding", format!("mode={} real={ans} reference={}", m.enc(), fout_answer(&want))); }
    }
}
