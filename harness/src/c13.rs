//! C13 — tumbling windows partition event time; window grouping loses nothing.
//!
//! Requests
//!   `TUMBLE <ts> <size> <off>`                      answer: `W <start> <end>` | `PANIC`
//!   `TUMBLE-WRAP <ts> <size> <off>`                 the CURRENT src/window.rs compiled with release arithmetic
//!                                                   (crate `relwin`: wrapping, no debug assertions)   ↔ Lean `tumbleWrapping`
//!   `TUMBLE-LEGACY <ts> <size> <off>`               the PRE-FIX `tumble` (vendored text harness/chkwin/legacy_window.rs),
//!                                                   overflow-checking (crate `chkwin`)                ↔ Lean `Legacy.tumble`
//!   `TUMBLE-LEGACY-WRAP <ts> <size> <off>`          the pre-fix text with release arithmetic          ↔ Lean `Legacy.tumbleWrapping`
//!   `WNEW <start> <end>` / `WNEW-REL <start> <end>` `Window::new` of the linked crate (debug assertions on) / of the release
//!                                                   copy; answer `W <start> <end>` | `PANIC`           ↔ Lean `Window.new?` / `Window.newRelease`
//!   `WGROUP <op> <size> <off> <mode> <src> <rows>`  answer: `OK <rows>` | `PANIC` | `ERR collect` (collect returned Err)
//!       op   : kbw  (unkeyed key_by_window)         rows in : `ts:val,…`            out: `start-end:val,…` (input order)
//!              gbw  (group_by_window)               rows in : `ts:val,…`            out: `start-end:v.v.v,…`
//!              kkbw (keyed key_by_window)           rows in : `key:ts:val,…`        out: `key@start-end:val,…` (input order)
//!              gbkw (group_by_key_and_window)       rows in : `key:ts:val,…`        out: `key@start-end:v.v,…`
//!              gbwv (group_by_window(..).map_values(clone).filter_values(true): something FOLLOWS the window op)  out: as gbw
//!              gbwl (group_by_window(..).combine_values_lifted(Sum): the planner lifts the GroupByKey)             out: `start-end:sum,…`
//!              gbws (group_by_window(..) collected with collect_seq_sorted / collect_par_sorted_by_key: `Window: Ord` decides
//!                    the row order)                                                  out: as gbw but rows in the order PRODUCED
//!              gbwj (group_by_window(..) inner-joined with a second group_by_window of the same events: the GroupByKey nodes run
//!                    inside the CoGroup sub-plans, `run_subplan_seq` / `run_subplan_par`) out: `start-end:l.l|r.r,…`
//!              grouped answers: rows sorted by key (except gbws), group CONTENTS sorted — the order inside a group is not part of the
//!              property (it is observed separately and reported as a note, see `group-order:*` counters)
//!       mode : `seq` | `par:<threads>:<partitions>` (`Some(partitions)`, 0 included) | `par:<threads>:none` (`partitions = None`:
//!              the runner resolves it to a machine-dependent count; the answer is proved independent of it) |
//!              `ckseq` | `ckpar:<threads>:<partitions>` = the same run through `Runner { checkpoint_config: Some(enabled) }`
//!              (the checkpointing executors have their own GroupByKey execution sites)
//!       src  : how the timestamped collection is built: `d` from_vec of Timestamped, `t` from_vec of (ts,val) + to_timestamped(),
//!              `a` from_vec of (ts,val) + attach_timestamps(|r| r.0) + map (drop the carried row);
//!              keyed ops: `d` from_vec of (key, Timestamped), `k` from_vec of (key,ts,val) rows +
//!              attach_timestamps(|r| r.1).key_by(|ev| ev.value.0).map_values(drop the carried row)   (helpers/keyed.rs::key_by)
//!       empty row list = `-`
//!   `WPLAN <op> <src>`                              answer: node kinds of the chain the REAL runner receives for that pipeline (hook on_plan),
//!                                                   e.g. `Source,Stateless1,GroupByKey`                 ↔ Lean `planKinds` (planner model on the builders' chain)
//!   `WCMP <s1> <e1> <s2> <e2>`                      answer: `<a==b T|F> <cmp LT|EQ|GT> <a==b → same hash T|F> <partial_cmp LT|EQ|GT|NONE>`
//! The real side runs the REAL `Window::tumble` / REAL pipelines in this overflow-checking build under catch_unwind
//! (panic ↔ model `none`).
//! Oracles (independent of the model, i128 reference arithmetic):
//!   TUMBLE: start ≤ ts < end, end − start = size, (start − off) ≡ 0 mod size; and the call must not panic
//!           when a window with those properties is representable in u64 (size ≥ 1).
//!   WGROUP: every row keeps its value and gets a window with the four properties; groups have distinct
//!           keys, every group holds exactly the multiset of input values whose ts lies in the group's window
//!           (and whose key is the group's key), counts add up to the input length; par result == seq result
//!           (as sets of groups with multiset contents); the derived ops must show exactly the reference grouping.
//!   TUMBLE-WRAP: where a representable window exists the release build must return exactly it.
//!   TUMBLE-LEGACY*: no oracle (the defective pinned code; these lines only validate the `Legacy.*` Lean models).
//! Nothing here depends on wall-clock time, on statistics or on the machine: no verdict can change with load or seed luck.
//! A missing / non-compiling source copy never fails the build and never passes silently: `source_copy_status` writes a
//! `VALIDATION INCOMPLETE` note and `validation:*=NOT-VALIDATED` counters into the evidence.

use crate::ctx::{Ctx, guarded};
use ironbeam::checkpoint::{CheckpointConfig, CheckpointPolicy};
use ironbeam::{ExecMode, PCollection, Pipeline, RFBound, Runner, Sum, Timestamped, Window, from_vec};
use std::collections::BTreeMap;

type Row = (u64, i64); // (ts, value)
type KRow = (i64, u64, i64); // (key, ts, value)

// ---------------------------------------------------------------- reference (oracle side, i128)

/// the unique window `[s, s+size)` with `s ≤ ts < s+size`, `s ≡ off (mod size)`, if representable in u64
fn ref_window(ts: u64, size: u64, off: u64) -> Option<(u64, u64)> {
    if size == 0 {
        return None;
    }
    let (t, z, o) = (ts as i128, size as i128, off as i128);
    let s = t - (t - o).rem_euclid(z);
    let e = s + z;
    if s >= 0 && e <= u64::MAX as i128 { Some((s as u64, e as u64)) } else { None }
}

/// the four clauses of the property on one real window
fn window_ok(w: (u64, u64), ts: u64, size: u64, off: u64) -> Result<(), &'static str> {
    let (s, e) = w;
    if !(s <= ts) { return Err("start>ts"); }
    if !(ts < e) { return Err("ts>=end"); }
    if e < s || e - s != size { return Err("length!=size"); }
    if size == 0 || (s as i128 - off as i128).rem_euclid(size as i128) != 0 { return Err("start-not-aligned"); }
    Ok(())
}

// ---------------------------------------------------------------- TUMBLE

fn one_tumble(cx: &mut Ctx, ts: u64, size: u64, off: u64, tag: &str) {
    let r = guarded(|| Window::tumble(ts, size, off));
    let ans = match &r { Ok(w) => format!("W {} {}", w.start, w.end), Err(_) => "PANIC".to_string() };
    let nt = size >= 1 && r.is_ok();
    let i = cx.case(format!("TUMBLE {ts} {size} {off}"), ans, nt);
    cx.count(&format!("tumble:{tag}:{}", if r.is_ok() { "window" } else { "panic" }));
    if size >= 1 {
        cx.count(if off == 0 { "tumble:off=0" } else if off < size { "tumble:off<size" } else { "tumble:off>=size" });
        if ts < off { cx.count("tumble:ts<off"); }
    } else {
        cx.count("tumble:size=0");
    }
    match r {
        Ok(w) => {
            if let Err(why) = window_ok((w.start, w.end), ts, size, off) {
                cx.oracle_fail(i, &format!("tumble-window-wrong:{why}"),
                    format!("tumble({ts},{size},{off}) = [{},{}) violates {why}; reference {:?}", w.start, w.end, ref_window(ts, size, off)));
            }
        }
        Err(msg) => {
            if let Some((s, e)) = ref_window(ts, size, off) {
                let sig = if ts < off { "tumble-panics-ts-below-offset" } else { "tumble-panics-though-window-representable" };
                cx.oracle_fail(i, sig, format!("tumble({ts},{size},{off}) panicked ({msg}) although [{s},{e}) is the window"));
            }
        }
    }
}

// ---------------------------------------------------------------- the same source under other arithmetic profiles

fn wstr<W>(r: &Result<W, String>, f: impl Fn(&W) -> (u64, u64)) -> String {
    match r { Ok(w) => { let (s, e) = f(w); format!("W {s} {e}") } Err(_) => "PANIC".to_string() }
}

fn current_copy_ok() -> bool { relwin::CURRENT_AVAILABLE && chkwin::CURRENT_AVAILABLE }
fn legacy_copy_ok() -> bool { relwin::LEGACY_AVAILABLE && chkwin::LEGACY_AVAILABLE }

/// LOUD accounting of what the textual source copies allow this run to validate (evidence: `notes` +
/// `input_distribution["validation:…"]`). Never an exit code: a missing copy is a gap of the check, not a defect of the crate.
fn source_copy_status(cx: &mut Ctx) {
    let state = |ok: bool| if ok { "validated" } else { "NOT-VALIDATED" };
    cx.count(&format!("validation:TUMBLE-WRAP+WNEW-REL(tumbleWrapping_eq,tumbleWrapping_total,tumbleWrapping_garbage_on_none_domain,groupByWindow_release,groupByWindow_release_garbage,window_new_iff[release])={}", state(current_copy_ok())));
    cx.count(&format!("validation:TUMBLE-LEGACY*(legacy_tumble_sound,legacy_tumble_not_total,legacy_tumble_total_partial,fix_conservative)={}", state(legacy_copy_ok())));
    if !current_copy_ok() {
        let why = if relwin::CURRENT_REASON.is_empty() { chkwin::CURRENT_REASON } else { relwin::CURRENT_REASON };
        cx.notes.push(format!("VALIDATION INCOMPLETE: the stand-alone copy of the current src/window.rs is unavailable ({why}); no TUMBLE-WRAP / WNEW-REL case was run, so the Lean definitions `tumbleWrapping` / `Window.newRelease` and the theorems tumbleWrapping_eq, tumbleWrapping_total, tumbleWrapping_garbage_on_none_domain, groupByWindow_release, groupByWindow_release_garbage and the release clause of window_new_iff are proved but NOT VALIDATED against the code in this run"));
    }
    if !legacy_copy_ok() {
        let why = if relwin::LEGACY_REASON.is_empty() { chkwin::LEGACY_REASON } else { relwin::LEGACY_REASON };
        cx.notes.push(format!("VALIDATION INCOMPLETE: the vendored pre-fix text harness/chkwin/legacy_window.rs is unavailable ({why}); no TUMBLE-LEGACY / TUMBLE-LEGACY-WRAP case was run, so `Legacy.tumble` / `Legacy.tumbleWrapping` and the theorems legacy_tumble_sound, legacy_tumble_not_total, legacy_tumble_total_partial, fix_conservative are proved but NOT VALIDATED against the pre-fix code in this run"));
    } else {
        cx.notes.push(format!("pre-fix `tumble` text: {}", relwin::LEGACY_ORIGIN));
    }
}

/// `TUMBLE-WRAP` (current text, release arithmetic) and `TUMBLE-LEGACY`, `TUMBLE-LEGACY-WRAP` (vendored pre-fix text)
fn one_tumble_variants(cx: &mut Ctx, ts: u64, size: u64, off: u64) {
    if current_copy_ok() {
        // integrity of the textual copy: compiled with the same (checking) profile it must behave like the linked crate
        let linked = wstr(&guarded(|| Window::tumble(ts, size, off)), |w| (w.start, w.end));
        let copy = wstr(&guarded(|| chkwin::current::Window::tumble(ts, size, off)), |w| (w.start, w.end));
        // release arithmetic, current source
        let r = guarded(|| relwin::current::Window::tumble(ts, size, off));
        let ans = wstr(&r, |w| (w.start, w.end));
        let i = cx.case(format!("TUMBLE-WRAP {ts} {size} {off}"), ans.clone(), size >= 1);
        if linked != copy {
            cx.oracle_fail(i, "window-source-copy-differs-from-linked-crate", format!("tumble({ts},{size},{off}): linked {linked}, copy of src/window.rs {copy}"));
        }
        match (ref_window(ts, size, off), &r) {
            (Some((s, e)), Ok(w)) => {
                cx.count("wrap:representable");
                if (w.start, w.end) != (s, e) {
                    cx.oracle_fail(i, "tumble-release-window-wrong", format!("release build: tumble({ts},{size},{off}) = [{},{}) but the window is [{s},{e})", w.start, w.end));
                }
            }
            (Some((s, e)), Err(m)) => {
                cx.count("wrap:representable");
                cx.oracle_fail(i, "tumble-release-panics-though-window-representable", format!("release build: tumble({ts},{size},{off}) panicked ({m}) although [{s},{e}) is the window"));
            }
            (None, Ok(_)) => cx.count("wrap:none-domain:garbage-window"),
            (None, Err(_)) => cx.count("wrap:none-domain:panic"),
        }
    } else {
        cx.count("window-source-copy:unavailable");
    }
    if legacy_copy_ok() {
        let r = guarded(|| chkwin::legacy::Window::tumble(ts, size, off));
        cx.case(format!("TUMBLE-LEGACY {ts} {size} {off}"), wstr(&r, |w| (w.start, w.end)), size >= 1 && r.is_ok());
        cx.count(if r.is_ok() { "legacy:window" } else if ref_window(ts, size, off).is_some() { "legacy:panic-though-representable" } else { "legacy:panic" });
        let r = guarded(|| relwin::legacy::Window::tumble(ts, size, off));
        let a = wstr(&r, |w| (w.start, w.end));
        cx.case(format!("TUMBLE-LEGACY-WRAP {ts} {size} {off}"), a.clone(), size >= 1);
        if let (Some((s, e)), Ok(w)) = (ref_window(ts, size, off), &r) {
            if (w.start, w.end) != (s, e) { cx.count("legacy-wrap:garbage-though-representable"); }
        }
    } else {
        cx.count("legacy-source:unavailable");
    }
}

// ---------------------------------------------------------------- WNEW (`Window::new`, the other public constructor)

fn one_wnew(cx: &mut Ctx, s: u64, e: u64) {
    let r = guarded(|| Window::new(s, e));
    let i = cx.case(format!("WNEW {s} {e}"), wstr(&r, |w| (w.start, w.end)), true);
    cx.count(if r.is_ok() { "wnew:window" } else { "wnew:panic" });
    match &r {
        Ok(w) => if (w.start, w.end) != (s, e) { cx.oracle_fail(i, "window-new-changes-fields", format!("Window::new({s},{e}) = [{},{})", w.start, w.end)); },
        Err(m) => if e >= s { cx.oracle_fail(i, "window-new-panics-on-valid-interval", format!("Window::new({s},{e}) panicked ({m})")); },
    }
    if current_copy_ok() {
        let r = guarded(|| relwin::current::Window::new(s, e));
        cx.case(format!("WNEW-REL {s} {e}"), wstr(&r, |w| (w.start, w.end)), true);
    }
}

// ---------------------------------------------------------------- WPLAN (the chain the runner executes for a windowing pipeline)

/// node kinds of the chain `Runner::run_collect` receives (hook `verif_hooks::on_plan`) for `from_vec → src helpers → op`
/// on a two-event input, against the planner MODEL applied to the builders' chain (Lean `planKinds`). This is what ties
/// the plan shape of `groupByWindow_engine` / `groupByKeyAndWindow_engine` to the real builders + planner.
fn one_wplan(cx: &mut Ctx, op: &str, src: &str) {
    let observed: std::sync::Arc<std::sync::Mutex<Vec<Vec<String>>>> = Default::default();
    let o2 = observed.clone();
    ironbeam::verif_hooks::set_plan_callback(Some(std::sync::Arc::new(move |k: &[String]| o2.lock().unwrap().push(k.to_vec()))));
    let rows: Vec<Row> = vec![(7, 70), (27, 71)];
    let krows: Vec<KRow> = vec![(1, 7, 70), (2, 27, 71)];
    let usrc = match src { "t" => Src::T, "a" => Src::A, _ => Src::D };
    let ksrc = if src == "k" { KSrc::K } else { KSrc::D };
    let r = guarded(|| -> Result<(), String> {
        let p = Pipeline::default();
        match op {
            "kbw" => { collect_mode(&p, build_ts(&p, &rows, usrc).key_by_window(10, 25), Mode::Seq)?; }
            "gbw" | "gbws" => { collect_mode(&p, build_ts(&p, &rows, usrc).group_by_window(10, 25), Mode::Seq)?; }
            "gbwv" => { collect_mode(&p, build_ts(&p, &rows, usrc).group_by_window(10, 25).map_values(|vs: &Vec<i64>| vs.clone()).filter_values(|_vs: &Vec<i64>| true), Mode::Seq)?; }
            "gbwl" => { collect_mode(&p, build_ts(&p, &rows, usrc).group_by_window(10, 25).combine_values_lifted(Sum::<i64>::new()), Mode::Seq)?; }
            "kkbw" => { collect_mode(&p, build_kts(&p, &krows, ksrc).key_by_window(10, 25), Mode::Seq)?; }
            _ => { collect_mode(&p, build_kts(&p, &krows, ksrc).group_by_key_and_window(10, 25), Mode::Seq)?; }
        }
        Ok(())
    });
    ironbeam::verif_hooks::set_plan_callback(None);
    let ran: Vec<String> = observed.lock().unwrap().first().cloned().unwrap_or_default();
    let ans = match r { Ok(Ok(())) => ran.join(","), Ok(Err(_)) => "ERR collect".into(), Err(_) => "PANIC".into() };
    cx.case(format!("WPLAN {op} {src}"), ans, true);
    cx.count("wplan");
}

// ---------------------------------------------------------------- WCMP (Eq / Ord / Hash of Window)

fn one_wcmp(cx: &mut Ctx, a: (u64, u64), b: (u64, u64)) {
    use std::hash::{Hash, Hasher};
    let r = guarded(|| {
        let (wa, wb) = (Window { start: a.0, end: a.1 }, Window { start: b.0, end: b.1 });
        let h = |w: &Window| { let mut s = std::collections::hash_map::DefaultHasher::new(); w.hash(&mut s); s.finish() };
        (wa == wb, wa.cmp(&wb), wa.partial_cmp(&wb), h(&wa) == h(&wb), wb.cmp(&wa))
    });
    let (eq, c, pc, heq, rc) = match r { Ok(x) => x, Err(_) => { cx.case(format!("WCMP {} {} {} {}", a.0, a.1, b.0, b.1), "PANIC".into(), false); return; } };
    let cs = match c { std::cmp::Ordering::Less => "LT", std::cmp::Ordering::Equal => "EQ", std::cmp::Ordering::Greater => "GT" };
    let t = |x: bool| if x { "T" } else { "F" };
    let pcs = match pc { Some(std::cmp::Ordering::Less) => "LT", Some(std::cmp::Ordering::Equal) => "EQ", Some(std::cmp::Ordering::Greater) => "GT", None => "NONE" };
    let i = cx.case(format!("WCMP {} {} {} {}", a.0, a.1, b.0, b.1), format!("{} {} {} {pcs}", t(eq), cs, t(!eq || heq)), a != b);
    cx.count(&format!("wcmp:{cs}"));
    if eq != (a == b) { cx.oracle_fail(i, "window-eq-not-fieldwise", format!("{a:?} == {b:?} is {eq}")); }
    if c != a.cmp(&b) || pc != Some(c) || rc != c.reverse() { cx.oracle_fail(i, "window-ord-not-lexicographic", format!("{a:?} cmp {b:?} = {c:?}, partial {pc:?}, reverse {rc:?}")); }
    if eq && !heq { cx.oracle_fail(i, "window-hash-inconsistent-with-eq", format!("{a:?} == {b:?} but hashes differ")); }
}


// ---------------------------------------------------------------- WGROUP

#[derive(Clone, Copy, PartialEq, Eq, Debug)]
enum Mode { Seq, Par(usize, Option<usize>), CkSeq, CkPar(usize, usize) }
impl Mode {
    fn enc(&self) -> String {
        match self {
            Mode::Seq => "seq".into(),
            Mode::Par(t, Some(p)) => format!("par:{t}:{p}"),
            Mode::Par(t, None) => format!("par:{t}:none"),
            Mode::CkSeq => "ckseq".into(),
            Mode::CkPar(t, p) => format!("ckpar:{t}:{p}"),
        }
    }
    fn is_ck(&self) -> bool { matches!(self, Mode::CkSeq | Mode::CkPar(..)) }
    fn threads(&self) -> Option<usize> { match self { Mode::Par(t, _) | Mode::CkPar(t, _) => Some(*t), _ => None } }
}

/// what `Runner::run_collect` turns `partitions = None` into for a `from_vec` source of these rows
/// (`partitions.or(plan.suggested_partitions).unwrap_or(runner.default_partitions)`), read from the real planner.
/// Statistics only (machine dependent: 2 x cores): it is NOT part of any request or answer.
fn effective_default_partitions(rows: &[Row]) -> Option<usize> {
    let rows = rows.to_vec();
    guarded(move || {
        let p = Pipeline::default();
        let c = from_vec(&p, rows).to_timestamped().group_by_window(1, 0);
        let plan = ironbeam::planner::build_plan(&p, c.node_id()).ok()?;
        Some(plan.suggested_partitions.unwrap_or(Runner::default().default_partitions))
    }).ok().flatten()
}

/// outcome of a real pipeline run: value, `Err` returned by collect, or panic
enum Out<T> { Ok(T), Err(String), Panic(String) }
impl<T> Out<T> {
    fn from(r: Result<Result<T, String>, String>) -> Self {
        match r { Ok(Ok(v)) => Out::Ok(v), Ok(Err(e)) => Out::Err(e), Err(p) => Out::Panic(p) }
    }
    fn is_ok(&self) -> bool { matches!(self, Out::Ok(_)) }
    fn tag(&self) -> &'static str { match self { Out::Ok(_) => "ok", Out::Err(_) => "err", Out::Panic(_) => "panic" } }
}

fn enc_rows(rows: &[Row]) -> String {
    if rows.is_empty() { "-".into() } else { rows.iter().map(|(t, v)| format!("{t}:{v}")).collect::<Vec<_>>().join(",") }
}
fn enc_krows(rows: &[KRow]) -> String {
    if rows.is_empty() { "-".into() } else { rows.iter().map(|(k, t, v)| format!("{k}:{t}:{v}")).collect::<Vec<_>>().join(",") }
}
fn join_or_dash(v: Vec<String>) -> String { if v.is_empty() { "-".into() } else { v.join(",") } }
fn dots(vs: &[i64]) -> String { vs.iter().map(|x| x.to_string()).collect::<Vec<_>>().join(".") }

/// dedicated rayon pools by size; `None` = the pool could not be built (thread spawn refused under extreme load):
/// the run then uses rayon's global pool — same results, only the worker count differs (counted, never a verdict)
struct Pools { pools: BTreeMap<usize, Option<rayon::ThreadPool>>, fallbacks: u64 }
impl Pools {
    fn new() -> Self { Pools { pools: BTreeMap::new(), fallbacks: 0 } }
    fn get(&mut self, t: usize) -> Option<&rayon::ThreadPool> {
        let e = self.pools.entry(t).or_insert_with(|| {
            (0..3).find_map(|k| { if k > 0 { std::thread::sleep(std::time::Duration::from_millis(200)); } rayon::ThreadPoolBuilder::new().num_threads(t).build().ok() })
        });
        if e.is_none() { self.fallbacks += 1; }
        e.as_ref()
    }
}

/// run `f` sequentially or inside a pool of exactly `threads` workers (rayon's global pool can be
/// sized only once per process, so `collect_par`'s own `threads` argument is honoured only the first time)
fn in_mode<T: Send>(pools: &mut Pools, mode: Mode, f: impl FnOnce() -> T + Send) -> Result<T, String> {
    match mode.threads().and_then(|t| pools.get(t)) {
        None => guarded(f),
        Some(pool) => guarded(|| pool.install(f)),
    }
}

/// marker of a checkpointed run that could not even start for reasons of the ENVIRONMENT (no scratch directory)
const NO_SCRATCH: &str = "c13: no scratch directory for the checkpointed run";

fn scratch_dir() -> Option<tempfile::TempDir> {
    let shm = std::path::Path::new("/dev/shm");
    if shm.is_dir() { if let Ok(t) = tempfile::tempdir_in(shm) { return Some(t); } }
    tempfile::tempdir().ok()
}

/// the terminal `collect` of a run, by mode; `sorted` = the crate's own sorted collectors (`Window: Ord` at work)
fn collect_mode<T: RFBound>(p: &Pipeline, c: PCollection<T>, mode: Mode) -> Result<Vec<T>, String> {
    match mode {
        Mode::Seq => c.collect_seq(),
        Mode::Par(t, n) => c.collect_par(Some(t), n),
        Mode::CkSeq | Mode::CkPar(..) => {
            let Some(dir) = scratch_dir() else { return Err(NO_SCRATCH.to_string()); };
            let runner = Runner {
                mode: match mode { Mode::CkPar(t, n) => ExecMode::Parallel { threads: Some(t), partitions: Some(n) }, _ => ExecMode::Sequential },
                checkpoint_config: Some(CheckpointConfig { enabled: true, directory: dir.path().to_path_buf(), policy: CheckpointPolicy::AfterEveryBarrier, auto_recover: false, max_checkpoints: Some(2) }),
                ..Default::default()
            };
            runner.run_collect::<T>(p, c.node_id())
        }
    }.map_err(|e| format!("{e:#}"))
}

type W2 = (u64, u64);
type WRow = (W2, i64);
type WGroup = (W2, Vec<i64>);
type KWRow = ((i64, W2), i64);
type KWGroup = ((i64, W2), Vec<i64>);
fn w2(w: &Window) -> W2 { (w.start, w.end) }

/// how the `PCollection<Timestamped<i64>>` is built (helpers/timestamped.rs)
#[derive(Clone, Copy, PartialEq, Eq, Debug)]
enum Src { D, T, A }
impl Src { fn enc(&self) -> &'static str { match self { Src::D => "d", Src::T => "t", Src::A => "a" } } }
/// how the keyed `PCollection<(i64, Timestamped<i64>)>` is built: `D`irect, or `K` = attach_timestamps + key_by (helpers/keyed.rs)
#[derive(Clone, Copy, PartialEq, Eq, Debug)]
enum KSrc { D, K }
impl KSrc { fn enc(&self) -> &'static str { match self { KSrc::D => "d", KSrc::K => "k" } } }

fn build_ts(p: &Pipeline, rows: &[Row], src: Src) -> PCollection<Timestamped<i64>> {
    match src {
        Src::D => from_vec(p, rows.iter().map(|(t, v)| Timestamped::new(*t, *v)).collect::<Vec<_>>()),
        Src::T => from_vec(p, rows.to_vec()).to_timestamped(),
        Src::A => from_vec(p, rows.to_vec()).attach_timestamps(|r: &Row| r.0).map(|ev: &Timestamped<Row>| Timestamped::new(ev.ts, ev.value.1)),
    }
}
fn build_kts(p: &Pipeline, rows: &[KRow], src: KSrc) -> PCollection<(i64, Timestamped<i64>)> {
    match src {
        KSrc::D => from_vec(p, rows.iter().map(|(k, t, v)| (*k, Timestamped::new(*t, *v))).collect::<Vec<_>>()),
        KSrc::K => from_vec(p, rows.to_vec()).attach_timestamps(|r: &KRow| r.1).key_by(|ev: &Timestamped<KRow>| ev.value.0)
            .map_values(|ev: &Timestamped<KRow>| Timestamped::new(ev.ts, ev.value.2)),
    }
}

#[derive(Clone, Copy, PartialEq, Eq, Debug)]
enum UOp { Gbw, Gbwv, Gbws, Gbwj }
impl UOp { fn enc(&self) -> &'static str { match self { UOp::Gbw => "gbw", UOp::Gbwv => "gbwv", UOp::Gbws => "gbws", UOp::Gbwj => "gbwj" } } }

fn real_kbw(pools: &mut Pools, rows: &[Row], size: u64, off: u64, mode: Mode, src: Src) -> Out<Vec<WRow>> {
    Out::from(in_mode(pools, mode, move || -> Result<Vec<WRow>, String> {
        let p = Pipeline::default();
        Ok(collect_mode(&p, build_ts(&p, rows, src).key_by_window(size, off), mode)?.iter().map(|(w, v)| (w2(w), *v)).collect())
    }))
}
/// gbw / gbwv / gbws: a list of groups (for gbwj see `real_gbwj`)
fn real_groups(pools: &mut Pools, op: UOp, rows: &[Row], size: u64, off: u64, mode: Mode, src: Src) -> Out<Vec<WGroup>> {
    Out::from(in_mode(pools, mode, move || -> Result<Vec<WGroup>, String> {
        let p = Pipeline::default();
        let g = build_ts(&p, rows, src).group_by_window(size, off);
        let out = match op {
            UOp::Gbw => collect_mode(&p, g, mode)?,
            UOp::Gbwv => collect_mode(&p, g.map_values(|vs: &Vec<i64>| vs.clone()).filter_values(|_vs: &Vec<i64>| true), mode)?,
            UOp::Gbws => match mode {
                Mode::Par(t, n) => g.collect_par_sorted_by_key(Some(t), n).map_err(|e| format!("{e:#}"))?,
                _ => g.collect_seq_sorted().map_err(|e| format!("{e:#}"))?,
            },
            UOp::Gbwj => unreachable!(),
        };
        Ok(out.iter().map(|(w, vs)| (w2(w), vs.clone())).collect())
    }))
}
fn real_gbwl(pools: &mut Pools, rows: &[Row], size: u64, off: u64, mode: Mode, src: Src) -> Out<Vec<WRow>> {
    Out::from(in_mode(pools, mode, move || -> Result<Vec<WRow>, String> {
        let p = Pipeline::default();
        let c = build_ts(&p, rows, src).group_by_window(size, off).combine_values_lifted(Sum::<i64>::new());
        Ok(collect_mode(&p, c, mode)?.iter().map(|(w, s)| (w2(w), *s)).collect())
    }))
}
fn real_gbwj(pools: &mut Pools, rows: &[Row], size: u64, off: u64, mode: Mode, src: Src) -> Out<Vec<(W2, (Vec<i64>, Vec<i64>))>> {
    Out::from(in_mode(pools, mode, move || -> Result<Vec<(W2, (Vec<i64>, Vec<i64>))>, String> {
        let p = Pipeline::default();
        let l = build_ts(&p, rows, src).group_by_window(size, off);
        let r = build_ts(&p, rows, src).group_by_window(size, off);
        Ok(collect_mode(&p, l.join_inner(&r), mode)?.iter().map(|(w, (a, b))| (w2(w), (a.clone(), b.clone()))).collect())
    }))
}
fn real_kkbw(pools: &mut Pools, rows: &[KRow], size: u64, off: u64, mode: Mode, src: KSrc) -> Out<Vec<KWRow>> {
    Out::from(in_mode(pools, mode, move || -> Result<Vec<KWRow>, String> {
        let p = Pipeline::default();
        Ok(collect_mode(&p, build_kts(&p, rows, src).key_by_window(size, off), mode)?.iter().map(|((k, w), v)| ((*k, w2(w)), *v)).collect())
    }))
}
/// round 5: value steps AROUND the keyed windowing step, as written: `map_values(v*2)` on the timestamped value before
/// it, `filter_values(v % 4 == 0)` and `map_values(v+1)` after it. The windowing step is a plain `map` (not movable):
/// a windowing operator that claimed the value-only capability flags would be sorted among them by cost hint.
fn real_kkbwv(pools: &mut Pools, rows: &[KRow], size: u64, off: u64, mode: Mode, src: KSrc) -> Out<Vec<KWRow>> {
    Out::from(in_mode(pools, mode, move || -> Result<Vec<KWRow>, String> {
        let p = Pipeline::default();
        let c = build_kts(&p, rows, src)
            .map_values(|e: &Timestamped<i64>| Timestamped::new(e.ts, e.value.wrapping_mul(2)))
            .key_by_window(size, off)
            .filter_values(|v: &i64| v % 4 == 0)
            .map_values(|v: &i64| v.wrapping_add(1));
        Ok(collect_mode(&p, c, mode)?.iter().map(|((k, w), v)| ((*k, w2(w)), *v)).collect())
    }))
}
fn real_gbkw(pools: &mut Pools, rows: &[KRow], size: u64, off: u64, mode: Mode, src: KSrc) -> Out<Vec<KWGroup>> {
    Out::from(in_mode(pools, mode, move || -> Result<Vec<KWGroup>, String> {
        let p = Pipeline::default();
        Ok(collect_mode(&p, build_kts(&p, rows, src).group_by_key_and_window(size, off), mode)?.iter().map(|((k, w), vs)| ((*k, w2(w)), vs.clone())).collect())
    }))
}

fn all_representable(ts: impl Iterator<Item = u64>, size: u64, off: u64) -> bool {
    let mut it = ts;
    it.all(|t| ref_window(t, size, off).is_some())
}

fn sorted(mut v: Vec<i64>) -> Vec<i64> { v.sort(); v }

/// the reference grouping (i128 arithmetic): window -> sorted values; `None` when some event has no representable window
fn ref_groups(rows: &[Row], size: u64, off: u64) -> Option<Vec<WGroup>> {
    let mut m: BTreeMap<W2, Vec<i64>> = BTreeMap::new();
    for (t, v) in rows { m.entry(ref_window(*t, size, off)?).or_default().push(*v); }
    Some(m.into_iter().map(|(w, vs)| (w, sorted(vs))).collect())
}

/// answer string of a run that did not return rows
fn fail_ans<T>(o: &Out<T>) -> String { match o { Out::Err(_) => "ERR collect".into(), _ => "PANIC".into() } }

/// a run failed (`Err` or panic): that is a violation when every event has a representable window
fn fail_oracle<T>(cx: &mut Ctx, i: usize, op: &str, o: &Out<T>, repr: bool, size: u64) {
    match o {
        Out::Ok(_) => {}
        Out::Err(m) => {
            // (an Err on the excluded domain is not judged by the oracle; the model answers PANIC there, so the
            // correspondence reports it as a disagreement)
            if repr && size >= 1 { cx.oracle_fail(i, &format!("{op}-errs-though-windows-representable"), m.clone()); }
        }
        Out::Panic(m) => if repr && size >= 1 {
            cx.oracle_fail(i, &format!("{op}-panics-though-windows-representable"), m.clone());
        },
    }
}

/// group contents come out in input order? (NOT part of the property, NOT part of any answer: a run-quality observation
/// that tells whether the Lean model's stronger "in input order" clause still describes the code)
fn note_group_order(cx: &mut Ctx, in_order: bool) {
    cx.count(if in_order { "group-order:input-order" } else { "group-order:other-order" });
}

fn groups_ans(g: &[WGroup]) -> String {
    format!("OK {}", join_or_dash(g.iter().map(|((s, e), vs)| format!("{s}-{e}:{}", dots(vs))).collect()))
}
/// groups sorted by window, contents sorted
fn canon_groups(out: &[WGroup]) -> Vec<WGroup> {
    let mut c: Vec<WGroup> = out.iter().map(|(w, vs)| (*w, sorted(vs.clone()))).collect();
    c.sort();
    c
}

/// canonical answers of one input in one mode, for the seq-vs-par oracle
#[derive(Default, Clone, PartialEq, Eq)]
struct Canon { gbw: String, extras: Vec<(String, String)> }

/// unkeyed: key_by_window + group_by_window (+ the derived ops when `extras`) in `mode`
fn one_unkeyed(cx: &mut Ctx, pools: &mut Pools, rows: &[Row], size: u64, off: u64, mode: Mode, src: Src, extras: bool, seq_ref: Option<&Canon>) -> Canon {
    let repr = all_representable(rows.iter().map(|r| r.0), size, off);
    let req = |op: &str| format!("WGROUP {op} {size} {off} {} {} {}", mode.enc(), src.enc(), enc_rows(rows));
    let nt = |ok: bool| rows.len() >= 2 && ok;
    let mut canon = Canon::default();
    // ---- key_by_window
    let r = real_kbw(pools, rows, size, off, mode, src);
    if ck_environment_failure(cx, mode, &r) { return canon; }
    let ans = match &r {
        Out::Ok(out) => format!("OK {}", join_or_dash(out.iter().map(|((s, e), v)| format!("{s}-{e}:{v}")).collect())),
        o => fail_ans(o),
    };
    let i = cx.case(req("kbw"), ans, nt(r.is_ok()));
    cx.count(&format!("wgroup:kbw:{}", r.tag()));
    fail_oracle(cx, i, "kbw", &r, repr, size);
    if let Out::Ok(out) = &r {
        if out.len() != rows.len() {
            cx.oracle_fail(i, "kbw-row-count", format!("{} rows in, {} out", rows.len(), out.len()));
        } else {
            for (j, ((w, v), (t, v0))) in out.iter().zip(rows.iter()).enumerate() {
                if v != v0 {
                    cx.oracle_fail(i, "kbw-value-changed", format!("row {j}: value {v0} became {v}"));
                    break;
                }
                if let Err(why) = window_ok(*w, *t, size, off) {
                    cx.oracle_fail(i, &format!("kbw-window-wrong:{why}"), format!("row {j}: ts {t} got [{},{})", w.0, w.1));
                    break;
                }
            }
        }
    }
    // ---- group_by_window
    let r = real_groups(pools, UOp::Gbw, rows, size, off, mode, src);
    if ck_environment_failure(cx, mode, &r) { return canon; }
    cx.count(&format!("wgroup:src={}", src.enc()));
    let ans = match &r { Out::Ok(out) => groups_ans(&canon_groups(out)), o => fail_ans(o) };
    canon.gbw = ans.clone();
    let i = cx.case(req("gbw"), ans, nt(r.is_ok()));
    cx.count(&format!("wgroup:gbw:{}", r.tag()));
    fail_oracle(cx, i, "gbw", &r, repr, size);
    if let Out::Ok(out) = &r {
        let mut seen = std::collections::BTreeSet::new();
        let mut total = 0usize;
        let mut complete = true; // false = an earlier clause already failed and the walk stopped
        let mut in_order = true;
        for (w, vs) in out {
            total += vs.len();
            complete = false;
            if !seen.insert(*w) {
                cx.oracle_fail(i, "gbw-duplicate-group", format!("window [{},{}) appears twice", w.0, w.1));
                break;
            }
            if vs.is_empty() {
                cx.oracle_fail(i, "gbw-empty-group", format!("window [{},{}) has no element", w.0, w.1));
                break;
            }
            if w.1 < w.0 || w.1 - w.0 != size || size == 0 || (w.0 as i128 - off as i128).rem_euclid(size as i128) != 0 {
                cx.oracle_fail(i, "gbw-window-wrong", format!("group window [{},{}) is not offset+k*size long size", w.0, w.1));
                break;
            }
            let want_in_order: Vec<i64> = rows.iter().filter(|(t, _)| w.0 <= *t && *t < w.1).map(|x| x.1).collect();
            if *vs != want_in_order { in_order = false; }
            let want = sorted(want_in_order);
            if sorted(vs.clone()) != want {
                cx.oracle_fail(i, "gbw-group-content", format!("window [{},{}): got {:?}, elements with ts inside: {:?}", w.0, w.1, sorted(vs.clone()), want));
                break;
            }
            complete = true;
        }
        if complete && total != rows.len() {
            cx.oracle_fail(i, "gbw-lost-or-duplicated", format!("{} elements in, {} in groups", rows.len(), total));
        }
        if complete && !out.is_empty() { note_group_order(cx, in_order); }
    }
    if let Some(s) = seq_ref {
        if s.gbw != canon.gbw { cx.oracle_fail(i, "gbw-par-differs-from-seq", format!("seq: {}  {}: {}", s.gbw, mode.enc(), canon.gbw)); }
    }
    if !extras || mode.is_ck() { return canon; }
    // ---- derived ops: the grouping observed through a following op / the lifted combiner / the sorted collectors / a join
    let want = if size >= 1 { ref_groups(rows, size, off) } else { None };
    for op in [UOp::Gbwv, UOp::Gbws] {
        let r = real_groups(pools, op, rows, size, off, mode, src);
        let ans = match &r {
            Out::Ok(out) if op == UOp::Gbws => groups_ans(&out.iter().map(|(w, vs)| (*w, sorted(vs.clone()))).collect::<Vec<_>>()), // rows as PRODUCED
            Out::Ok(out) => groups_ans(&canon_groups(out)),
            o => fail_ans(o),
        };
        let i = cx.case(req(op.enc()), ans.clone(), nt(r.is_ok()));
        cx.count(&format!("wgroup:{}:{}", op.enc(), r.tag()));
        fail_oracle(cx, i, op.enc(), &r, repr, size);
        if let (Out::Ok(out), Some(want)) = (&r, &want) {
            if canon_groups(out) != *want {
                cx.oracle_fail(i, &format!("{}-groups-wrong", op.enc()), format!("got {}, reference grouping {}", groups_ans(&canon_groups(out)), groups_ans(want)));
            } else if op == UOp::Gbws && !out.windows(2).all(|p| p[0].0 < p[1].0) {
                cx.oracle_fail(i, "gbws-not-sorted-by-window", format!("sorted collector returned {}", groups_ans(out)));
            }
        }
        canon.extras.push((op.enc().to_string(), match &r { Out::Ok(out) => groups_ans(&canon_groups(out)), o => fail_ans(o) }));
    }
    {
        let r = real_gbwl(pools, rows, size, off, mode, src);
        let ans = match &r {
            Out::Ok(out) => { let mut o = out.clone(); o.sort(); format!("OK {}", join_or_dash(o.iter().map(|((s, e), v)| format!("{s}-{e}:{v}")).collect())) }
            o => fail_ans(o),
        };
        let i = cx.case(req("gbwl"), ans.clone(), nt(r.is_ok()));
        cx.count(&format!("wgroup:gbwl:{}", r.tag()));
        fail_oracle(cx, i, "gbwl", &r, repr, size);
        if let (Out::Ok(out), Some(want)) = (&r, &want) {
            let mut o = out.clone(); o.sort();
            let w: Vec<WRow> = want.iter().map(|(w, vs)| (*w, vs.iter().sum())).collect();
            if o != w { cx.oracle_fail(i, "gbwl-sums-wrong", format!("got {o:?}, per-window sums of the reference grouping {w:?}")); }
        }
        canon.extras.push(("gbwl".into(), ans));
    }
    {
        let r = real_gbwj(pools, rows, size, off, mode, src);
        let ans = match &r {
            Out::Ok(out) => {
                let mut o: Vec<(W2, (Vec<i64>, Vec<i64>))> = out.iter().map(|(w, (a, b))| (*w, (sorted(a.clone()), sorted(b.clone())))).collect();
                o.sort();
                format!("OK {}", join_or_dash(o.iter().map(|((s, e), (a, b))| format!("{s}-{e}:{}|{}", dots(a), dots(b))).collect()))
            }
            o => fail_ans(o),
        };
        let i = cx.case(req("gbwj"), ans.clone(), nt(r.is_ok()));
        cx.count(&format!("wgroup:gbwj:{}", r.tag()));
        fail_oracle(cx, i, "gbwj", &r, repr, size);
        if let (Out::Ok(_), Some(want)) = (&r, &want) {
            let w = format!("OK {}", join_or_dash(want.iter().map(|((s, e), vs)| format!("{s}-{e}:{}|{}", dots(vs), dots(vs))).collect()));
            if ans != w { cx.oracle_fail(i, "gbwj-join-wrong", format!("got {ans}, reference grouping joined with itself {w}")); }
        }
        canon.extras.push(("gbwj".into(), ans));
    }
    if let Some(s) = seq_ref {
        for ((op, a), (_, b)) in canon.extras.iter().zip(s.extras.iter()) {
            if a != b { cx.oracle_fail(cx.reqs.len() - 1, &format!("{op}-par-differs-from-seq"), format!("seq: {b}  {}: {a}", mode.enc())); }
        }
    }
    canon
}

fn kgroups_ans(g: &[KWGroup]) -> String {
    format!("OK {}", join_or_dash(g.iter().map(|((k, (s, e)), vs)| format!("{k}@{s}-{e}:{}", dots(vs))).collect()))
}

fn one_keyed(cx: &mut Ctx, pools: &mut Pools, rows: &[KRow], size: u64, off: u64, mode: Mode, src: KSrc, seq_ref: Option<&str>) -> String {
    let repr = all_representable(rows.iter().map(|r| r.1), size, off);
    // ---- keyed key_by_window
    let r = real_kkbw(pools, rows, size, off, mode, src);
    if ck_environment_failure(cx, mode, &r) { return seq_ref.unwrap_or("").to_string(); }
    let ans = match &r {
        Out::Ok(out) => format!("OK {}", join_or_dash(out.iter().map(|((k, (s, e)), v)| format!("{k}@{s}-{e}:{v}")).collect())),
        o => fail_ans(o),
    };
    let i = cx.case(format!("WGROUP kkbw {size} {off} {} {} {}", mode.enc(), src.enc(), enc_krows(rows)), ans, rows.len() >= 2 && r.is_ok());
    cx.count(&format!("wgroup:kkbw:{}", r.tag()));
    cx.count(&format!("wgroup:ksrc={}", src.enc()));
    fail_oracle(cx, i, "kkbw", &r, repr, size);
    if let Out::Ok(out) = &r {
        if out.len() != rows.len() {
            cx.oracle_fail(i, "kkbw-row-count", format!("{} rows in, {} out", rows.len(), out.len()));
        } else {
            for (j, (((k, w), v), (k0, t, v0))) in out.iter().zip(rows.iter()).enumerate() {
                if v != v0 || k != k0 {
                    cx.oracle_fail(i, "kkbw-key-or-value-changed", format!("row {j}: ({k0},{v0}) became ({k},{v})"));
                    break;
                }
                if let Err(why) = window_ok(*w, *t, size, off) {
                    cx.oracle_fail(i, &format!("kkbw-window-wrong:{why}"), format!("row {j}: ts {t} got [{},{})", w.0, w.1));
                    break;
                }
            }
        }
    }
    // ---- value steps around the keyed windowing step (as written)
    {
        let r = real_kkbwv(pools, rows, size, off, mode, src);
        if !ck_environment_failure(cx, mode, &r) {
            let ans = match &r {
                Out::Ok(out) => format!("OK {}", join_or_dash(out.iter().map(|((k, (s, e)), v)| format!("{k}@{s}-{e}:{v}")).collect())),
                o => fail_ans(o),
            };
            let i = cx.case(format!("WGROUP kkbwv {size} {off} {} {} {}", mode.enc(), src.enc(), enc_krows(rows)), ans, rows.len() >= 2 && r.is_ok());
            cx.count(&format!("wgroup:kkbwv:{}", r.tag()));
            fail_oracle(cx, i, "kkbwv", &r, repr, size);
            if let Out::Ok(out) = &r {
                // independent of the model: the rows that survive, in input order, with their own windows
                let want: Vec<(i64, i64)> = rows.iter().filter(|r| r.2.wrapping_mul(2) % 4 == 0).map(|r| (r.0, r.2.wrapping_mul(2).wrapping_add(1))).collect();
                let got: Vec<(i64, i64)> = out.iter().map(|((k, _), v)| (*k, *v)).collect();
                // "steps as written" is C02/C03's statement, not C13's: judged only when this runs for C03's census
                // (C13 itself judges the windows and the panics; the exact rows are tied through the model answer)
                if got != want {
                    if cx.prop == "C03" { cx.oracle_fail(i, "kkbwv-value-steps-not-as-written", format!("want {want:?}, got {got:?}")); }
                    else { cx.count("wgroup:kkbwv:rows-differ-from-steps-as-written(not judged under C13)"); }
                }
                let ts: Vec<u64> = rows.iter().filter(|r| r.2.wrapping_mul(2) % 4 == 0).map(|r| r.1).collect();
                if ts.len() == out.len() {
                    for (j, (((_, w), _), t)) in out.iter().zip(ts.iter()).enumerate() {
                        if let Err(why) = window_ok(*w, *t, size, off) { cx.oracle_fail(i, &format!("kkbwv-window-wrong:{why}"), format!("row {j}: ts {t} got [{},{})", w.0, w.1)); break; }
                    }
                }
            }
        }
    }
    // ---- group_by_key_and_window
    let r = real_gbkw(pools, rows, size, off, mode, src);
    if ck_environment_failure(cx, mode, &r) { return seq_ref.unwrap_or("").to_string(); }
    let canon = match &r {
        Out::Ok(out) => {
            let mut c: Vec<KWGroup> = out.iter().map(|(kw, vs)| (*kw, sorted(vs.clone()))).collect();
            c.sort();
            kgroups_ans(&c)
        }
        o => fail_ans(o),
    };
    let i = cx.case(format!("WGROUP gbkw {size} {off} {} {} {}", mode.enc(), src.enc(), enc_krows(rows)), canon.clone(), rows.len() >= 2 && r.is_ok());
    cx.count(&format!("wgroup:gbkw:{}", r.tag()));
    fail_oracle(cx, i, "gbkw", &r, repr, size);
    if let Out::Ok(out) = &r {
        let mut seen = std::collections::BTreeSet::new();
        let mut total = 0usize;
        let mut complete = true;
        let mut in_order = true;
        for ((k, w), vs) in out {
            total += vs.len();
            complete = false;
            if !seen.insert((*k, *w)) {
                cx.oracle_fail(i, "gbkw-duplicate-group", format!("key {k} window [{},{}) appears twice", w.0, w.1));
                break;
            }
            if vs.is_empty() {
                cx.oracle_fail(i, "gbkw-empty-group", format!("key {k} window [{},{}) has no element", w.0, w.1));
                break;
            }
            if w.1 < w.0 || w.1 - w.0 != size || size == 0 || (w.0 as i128 - off as i128).rem_euclid(size as i128) != 0 {
                cx.oracle_fail(i, "gbkw-window-wrong", format!("group window [{},{}) is not offset+k*size long size", w.0, w.1));
                break;
            }
            let want_in_order: Vec<i64> = rows.iter().filter(|(k0, t, _)| k0 == k && w.0 <= *t && *t < w.1).map(|x| x.2).collect();
            if *vs != want_in_order { in_order = false; }
            let want = sorted(want_in_order);
            if sorted(vs.clone()) != want {
                cx.oracle_fail(i, "gbkw-group-content", format!("key {k} window [{},{}): got {:?}, elements of that key with ts inside: {:?}", w.0, w.1, sorted(vs.clone()), want));
                break;
            }
            complete = true;
        }
        if complete && total != rows.len() {
            cx.oracle_fail(i, "gbkw-lost-or-duplicated", format!("{} elements in, {} in groups", rows.len(), total));
        }
        if complete && !out.is_empty() { note_group_order(cx, in_order); }
    }
    if let Some(s) = seq_ref {
        if s != canon { cx.oracle_fail(i, "gbkw-par-differs-from-seq", format!("seq: {s}  {}: {canon}", mode.enc())); }
    }
    canon
}

/// a checkpointed run that returned `Err` because of the checkpoint STORE (no scratch directory, directory not writable,
/// disk full): an environment condition and the subject of C11 / C12 — never a C13 verdict. Such a run is skipped
/// (no case, no oracle) and counted; everything else (`Ok` rows, a panic, any other `Err`) is judged as usual.
fn ck_environment_failure<T>(cx: &mut Ctx, mode: Mode, o: &Out<T>) -> bool {
    if let (true, Out::Err(m)) = (mode.is_ck(), o) {
        if m == NO_SCRATCH || m.to_lowercase().contains("checkpoint") {
            if !cx.stats.contains_key("wgroup:checkpointed-run-skipped(checkpoint-store-error)") {
                cx.notes.push(format!("at least one checkpointed run (modes ckseq / ckpar) was skipped because the checkpoint store failed ({m}): an environment condition, not a verdict"));
            }
            cx.count("wgroup:checkpointed-run-skipped(checkpoint-store-error)");
            return true;
        }
    }
    false
}

/// one input through seq and several modes, unkeyed and keyed; `extras` = also the derived ops and a checkpointed run
fn wgroup_all_modes(cx: &mut Ctx, pools: &mut Pools, krows: &[KRow], size: u64, off: u64, pars: &[(usize, Option<usize>)], extras: bool) {
    let rows: Vec<Row> = krows.iter().map(|(_, t, v)| (*t, *v)).collect();
    // the way the collections are built is part of the case (drawn from the one PRNG)
    let src = *cx.rng.pick(&[Src::D, Src::D, Src::T, Src::A]);
    let ksrc = *cx.rng.pick(&[KSrc::D, KSrc::D, KSrc::K]);
    let eff = if pars.iter().any(|(_, p)| p.is_none()) { effective_default_partitions(&rows) } else { None };
    let s_un = one_unkeyed(cx, pools, &rows, size, off, Mode::Seq, src, extras, None);
    let s_k = one_keyed(cx, pools, krows, size, off, Mode::Seq, ksrc, None);
    let mut modes: Vec<Mode> = pars.iter().map(|(t, p)| Mode::Par(*t, *p)).collect();
    if extras {
        cx.count("wgroup:with-derived-ops");
        modes.push(Mode::CkSeq);
        if let Some((t, p)) = pars.first() { modes.push(Mode::CkPar(*t, p.unwrap_or(3))); }
    }
    for m in modes {
        one_unkeyed(cx, pools, &rows, size, off, m, src, extras, Some(&s_un));
        one_keyed(cx, pools, krows, size, off, m, ksrc, Some(&s_k));
        match m {
            Mode::Par(t, p) => {
                cx.count(&format!("wgroup:partitions={}", match p {
                    None => match eff { Some(e) => format!("None(eff={e})"), None => "None(eff=unknown)".to_string() },
                    Some(0) => "Some(0)".to_string(),
                    Some(p) if p > krows.len() => ">len".to_string(),
                    Some(p) if p == krows.len() => "=len".to_string(),
                    Some(p) if p >= 65 => "65+".to_string(),
                    Some(p) if p >= 9 => "9-64".to_string(),
                    Some(p) => p.to_string(),
                }));
                cx.count(&format!("wgroup:threads={t}"));
                // rows of the largest partition `split` makes (ceil(len / n) after the clamp): the GBK local stage sees that many
                let n = p.or(eff).unwrap_or(1).max(1).min(krows.len().max(1));
                let chunk = krows.len().div_ceil(n);
                cx.count(&format!("wgroup:largest-partition={}", match chunk { 0..=1 => "0-1", 2..=8 => "2-8", 9..=63 => "9-63", _ => "64+" }));
            }
            Mode::CkSeq => cx.count("wgroup:mode=ckseq"),
            Mode::CkPar(..) => cx.count("wgroup:mode=ckpar"),
            Mode::Seq => {}
        }
    }
    cx.count(&format!("wgroup:len={}", match krows.len() { 0 => "0", 1 => "1", 2..=4 => "2-4", 5..=16 => "5-16", 17..=63 => "17-63", 64..=127 => "64-127", _ => "128+" }));
    cx.count(if size == 0 { "wgroup:size=0" } else if size >= 1 << 40 { "wgroup:size>=2^40" } else { "wgroup:size<2^40" });
    if size >= 1 {
        if let Some(g) = ref_groups(&rows, size, off) {
            let big = g.iter().map(|x| x.1.len()).max().unwrap_or(0);
            cx.count(&format!("wgroup:largest-group={}", match big { 0 => "0", 1 => "1", 2..=8 => "2-8", 9..=63 => "9-63", 64..=127 => "64-127", _ => "128+" }));
            cx.count(&format!("wgroup:windows={}", match g.len() { 0 => "0", 1 => "1", 2..=8 => "2-8", 9..=49 => "9-49", _ => "50+" }));
        }
    }
}

/// round 5, for C03's census ("no helper builder inserts a movable operator"): the keyed windowing step with value steps
/// around it, on two fixed inputs, sequentially and with three partitions — gives C03 a concrete failing input
/// (`WGROUP kkbwv`) when a windowing operator starts claiming the planner's reorder contract.
pub fn windowing_neighbourhood_cases(cx: &mut Ctx) {
    let mut pools = Pools::new();
    for (krows, size, off) in [
        (vec![(1i64, 7u64, 70i64), (1, 27, 71), (2, 12, 72), (1, 8, 73)], 10u64, 25u64),
        (vec![(0, 100, 2), (1, 105, 4), (0, 131, 5), (1, 149, 6), (0, 150, 8)], 50, 0),
    ] {
        for mode in [Mode::Seq, Mode::Par(2, Some(3))] {
            for src in [KSrc::D, KSrc::K] { one_keyed(cx, &mut pools, &krows, size, off, mode, src, None); }
        }
    }
}

fn all_seqs<T: Clone>(alpha: &[T], max_len: usize) -> Vec<Vec<T>> {
    let mut out: Vec<Vec<T>> = vec![vec![]];
    let mut frontier: Vec<Vec<T>> = vec![vec![]];
    for _ in 0..max_len {
        let mut next = vec![];
        for s in &frontier {
            for x in alpha {
                let mut t = s.clone();
                t.push(x.clone());
                next.push(t);
            }
        }
        out.extend(next.iter().cloned());
        frontier = next;
    }
    out
}

pub fn run(cx: &mut Ctx) {
    let mut pools = Pools::new();
    const MAX: u64 = u64::MAX;
    source_copy_status(cx);

    // ---------------- (1) corpus: design witnesses / minimised past failures
    for &(ts, size, off) in &[
        (7u64, 10u64, 25u64), // DESIGN §8 #10: panicked at the pinned commit; [5,15) is the window
        (3, 10, 5),           // no representable window ([-5,5)): stays a panic
        (27, 10, 0), (27, 10, 5), (0, 1, 0), (0, 10, 10), (9, 10, 10), (10, 10, 10), (0, 7, 14),
        (MAX, 1, 0),          // end would be 2^64
        (MAX - 1, 1, 0), (MAX - 10, 10, 5), (MAX - 10, 10, 6), (MAX, MAX, 0), (MAX - 1, MAX, 0), (MAX - 1, MAX, MAX - 1),
        (5, 0, 0), (5, 0, 3), // size 0
        (100, 10, MAX), (MAX - 3, 10, MAX),
        ((1 << 40) + 5, 1 << 33, 3), ((1 << 63) + 12345, 1 << 62, 0), // power-of-two sizes beyond 2^32 (audit D, M3)
    ] {
        one_tumble(cx, ts, size, off, "corpus");
    }
    for &(ts, size, off) in &[
        (7u64, 10u64, 25u64), // checked legacy panics, release legacy returns [2^64-1, 9), current returns [5,15) in both builds
        (3, 10, 5), (27, 10, 5), (0, 10, 10), (9, 10, 10), (MAX, 1, 0), (MAX - 1, 1, 0), (MAX - 10, 10, 6), (MAX - 1, MAX, MAX - 1),
        (5, 0, 0), (5, 0, 3), (100, 10, MAX), (MAX - 3, 10, MAX), (1 << 63, 3, 1 << 62), ((1 << 40) + 5, 1 << 33, 3),
    ] {
        one_tumble_variants(cx, ts, size, off);
    }
    for &(s, e) in &[(0u64, 0u64), (0, 1), (1, 0), (5, 15), (15, 5), (MAX, MAX), (MAX, 0), (0, MAX), (MAX - 1, MAX), (MAX, MAX - 1)] {
        one_wnew(cx, s, e);
    }
    for op in ["kbw", "gbw", "gbwv", "gbwl", "gbws"] { for src in ["d", "t", "a"] { one_wplan(cx, op, src); } }
    for op in ["kkbw", "gbkw"] { for src in ["d", "k"] { one_wplan(cx, op, src); } }
    wgroup_all_modes(cx, &mut pools, &[(1, 7, 70), (1, 27, 71), (2, 12, 72), (1, 8, 73)], 10, 25, &[(2, Some(2)), (2, Some(4)), (2, None), (2, Some(0))], true);
    wgroup_all_modes(cx, &mut pools, &[(1, 1_000, 1), (1, 9_000, 2), (2, 11_000, 3)], 10_000, 0, &[(2, Some(2)), (1, None)], true);
    wgroup_all_modes(cx, &mut pools, &[(1, 3, 1), (1, 30, 2)], 10, 5, &[(2, Some(2)), (2, Some(0))], true); // first row has no window → PANIC
    // 64-bit magnitudes: huge window size, events on both sides of a boundary / below the phase / at the top
    wgroup_all_modes(cx, &mut pools, &[(1, 1 << 63, 1), (2, (1 << 63) - 1, 2), (1, 5, 3), (1, (1 << 63) + 7, 1)], 1 << 63, 0, &[(2, Some(3)), (2, None)], true);
    wgroup_all_modes(cx, &mut pools, &[(1, 1 << 62, 1), (1, 99, 2)], 1 << 62, 100, &[(2, Some(2))], false); // 99 < off % size → PANIC
    wgroup_all_modes(cx, &mut pools, &[(1, MAX - 1, 1), (1, 3, 2)], MAX / 2, 3, &[(2, Some(2))], false);     // end beyond 2^64 → PANIC
    // size = 0 (outside the property's quantifier, documented as user-reachable in tumbling.rs): every event panics
    // (`debug_assert!(size_ms > 0)` / `% 0`), an EMPTY input runs no closure and returns no rows — in every mode
    wgroup_all_modes(cx, &mut pools, &[], 0, 0, &[(2, Some(2)), (2, None), (2, Some(0))], true);
    wgroup_all_modes(cx, &mut pools, &[(1, 5, 1), (2, 6, 2)], 0, 3, &[(2, Some(2)), (2, None)], true);
    wgroup_all_modes(cx, &mut pools, &[], 10, 3, &[(2, Some(2)), (2, None), (2, Some(0))], true);
    // shape witnesses (audit D, M1/M2): 200 rows of ONE key in ONE window (a group of 200, a partition of 200 / 100 / 2 / 1 rows,
    // up to 200 partitions); 150 rows over 150 windows of size 1 with 128 partitions; 130 rows, 3 keys, 65 partitions
    let one_group: Vec<KRow> = (0..200).map(|j| (1i64, 1_000 + (j as u64 * 7) % 10, j as i64)).collect();
    wgroup_all_modes(cx, &mut pools, &one_group, 10, 0, &[(4, Some(1)), (4, Some(2)), (4, Some(100)), (8, Some(200)), (4, None)], true);
    let many_windows: Vec<KRow> = (0..150).map(|j| ((j % 2) as i64, 5_000 + ((j as u64 * 37) % 150), (j % 5) as i64)).collect();
    wgroup_all_modes(cx, &mut pools, &many_windows, 1, 0, &[(4, Some(128)), (8, Some(75)), (2, Some(3))], true);
    let three_keys: Vec<KRow> = (0..130).map(|j| ((j % 3) as i64, 40 + ((j as u64 * 11) % 60), (j % 4) as i64 - 1)).collect();
    wgroup_all_modes(cx, &mut pools, &three_keys, 20, 7, &[(4, Some(65)), (4, Some(64)), (2, Some(2))], true);

    // ---------------- (2) small-scope exhaustive
    let (tmax, smax) = (cx.budget(40, 64) as u64, cx.budget(12, 16) as u64);
    let mut n = 0u64;
    for size in 1..=smax {
        for off in 0..=tmax {
            for ts in 0..=tmax {
                one_tumble(cx, ts, size, off, "exh");
                n += 1;
            }
        }
    }
    cx.exhaustive_blocks.push(format!("TUMBLE: all ts, off in 0..={tmax}, size in 1..={smax} ({n} triples)"));
    let (tmax, smax) = (cx.budget(20, 32) as u64, cx.budget(7, 10) as u64);
    let mut n = 0u64;
    for size in 0..=smax {
        for off in 0..=tmax {
            for ts in 0..=tmax {
                one_tumble_variants(cx, ts, size, off);
                n += 1;
            }
        }
    }
    cx.exhaustive_blocks.push(format!("TUMBLE-WRAP / TUMBLE-LEGACY / TUMBLE-LEGACY-WRAP: all ts, off in 0..={tmax}, size in 0..={smax} ({n} triples)"));
    // every power-of-two size 2^k, k = 0..=63, and its neighbours 2^k ± 1, with timestamps around multiples of the size
    // (a mask / shift "fast path" for power-of-two sizes is wrong exactly here)
    let mut n = 0u64;
    for k in 0..64u32 {
        let p = 1u64 << k;
        for size in [p.wrapping_sub(1), p, p.wrapping_add(1)] {
            if size == 0 { continue; }
            let fit = MAX / size; // whole windows below 2^64
            for mult in [0u64, 1, 2, 3, fit / 2, fit.saturating_sub(1)] {
                let b = mult.saturating_mul(size);
                for off in [0u64, 1, size - 1, size, p / 2 + 1] {
                    for d in [0i64, 1, -1] {
                        let ts = if d >= 0 { b.saturating_add(off % size).saturating_add(d as u64) } else { b.saturating_add(off % size).saturating_sub(1) };
                        one_tumble(cx, ts, size, off, "pow2");
                        if k % 4 == 1 { one_tumble_variants(cx, ts, size, off); }
                        n += 1;
                    }
                }
            }
        }
    }
    cx.exhaustive_blocks.push(format!("TUMBLE: every size 2^k-1, 2^k, 2^k+1 (k = 0..=63) x window index in {{0,1,2,3,mid,last}} x off in {{0,1,size-1,size,2^(k-1)+1}} x ts on the boundary, +1, -1 ({n} triples)"));
    // Window Eq/Ord/Hash: all pairs of windows over 4 field values
    let vals = [0u64, 1, 10, MAX];
    let mut n = 0u64;
    for &s1 in &vals { for &e1 in &vals { for &s2 in &vals { for &e2 in &vals {
        one_wcmp(cx, (s1, e1), (s2, e2));
        n += 1;
    } } } }
    cx.exhaustive_blocks.push(format!("WCMP: all pairs of windows with start,end in {{0,1,10,2^64-1}} ({n} pairs)"));
    // boundaries near 2^64: all (ts, size, off) with ts in MAX-2s-2..=MAX, size 1..=6, off in {0..=s+1, MAX-s-1..=MAX}
    let mut n = 0u64;
    for size in 0..=6u64 {
        let mut offs: Vec<u64> = (0..=size + 1).collect();
        offs.extend(MAX - size - 1..=MAX);
        for &off in &offs {
            for ts in MAX - 2 * size - 2..=MAX {
                one_tumble(cx, ts, size, off, "exh-top");
                one_tumble_variants(cx, ts, size, off);
                n += 1;
            }
        }
    }
    cx.exhaustive_blocks.push(format!("TUMBLE + the three build variants: all ts in 2^64-2*size-3..2^64, size in 0..=6, off in 0..=size+1 and 2^64-size-2..2^64 ({n} triples)"));
    // WGROUP: all keyed row sequences of length <= L over keys {0,1} × ts {3,7,12,17} (value = position tag),
    // size 5/10, off in {0, 2, 7, 25}, seq + partitions 1..=L+1
    let l = cx.budget(3, 4);
    let alpha: Vec<(i64, u64)> = vec![(0, 3), (0, 7), (1, 7), (0, 12), (1, 17)];
    let seqs = all_seqs(&alpha, l);
    let mut pars: Vec<(usize, Option<usize>)> = (0..=l + 1).map(|p| (2usize, Some(p))).collect();
    pars.push((2, None));
    let mut n = 0u64;
    for s in &seqs {
        let krows: Vec<KRow> = s.iter().enumerate().map(|(j, (k, t))| (*k, *t, (j as i64) % 2)).collect();
        for &(size, off) in &[(5u64, 0u64), (5, 2), (10, 7), (5, 25)] {
            wgroup_all_modes(cx, &mut pools, &krows, size, off, &pars, false);
            n += 1;
        }
    }
    cx.exhaustive_blocks.push(format!("WGROUP: all keyed event sequences of length <= {l} over 5 (key,ts) symbols x (size,off) in {{(5,0),(5,2),(10,7),(5,25)}} x seq + partitions Some(0)..=Some({}) and None ({n} inputs, 4 ops each)", l + 1));
    // the derived ops / checkpointed runs on every sequence of length <= 2 (one partition count each)
    let mut n = 0u64;
    for s in all_seqs(&alpha, 2) {
        let krows: Vec<KRow> = s.iter().enumerate().map(|(j, (k, t))| (*k, *t, (j as i64) % 2)).collect();
        for &(size, off) in &[(5u64, 2u64), (10, 7)] {
            wgroup_all_modes(cx, &mut pools, &krows, size, off, &[(2, Some(2))], true);
            n += 1;
        }
    }
    cx.exhaustive_blocks.push(format!("WGROUP derived ops (gbwv, gbws, gbwl, gbwj) and checkpointed runs (ckseq, ckpar): all sequences of length <= 2 x (size,off) in {{(5,2),(10,7)}} x seq, par:2:2 ({n} inputs)"));

    // ---------------- (3) random
    let rounds = cx.budget(60_000, 1_500_000);
    for _ in 0..rounds {
        let (ts, size, off, tag) = gen_tumble(cx);
        one_tumble(cx, ts, size, off, tag);
    }
    let rounds = cx.budget(12_000, 250_000);
    for _ in 0..rounds {
        let (ts, size, off, _) = gen_tumble(cx);
        one_tumble_variants(cx, ts, size, off);
    }
    let rounds = cx.budget(2000, 40_000);
    for _ in 0..rounds {
        let a = (cx.rng.next_u64() >> cx.rng.below(64), cx.rng.next_u64() >> cx.rng.below(64));
        let b = match cx.rng.below(4) { 0 => a, 1 => (a.0, cx.rng.next_u64() >> cx.rng.below(64)), 2 => (cx.rng.next_u64() >> cx.rng.below(64), a.1), _ => (a.1, a.0) };
        one_wcmp(cx, a, b);
        if cx.rng.chance(1, 4) { one_wnew(cx, a.0, a.1); }
    }
    let rounds = cx.budget(1200, 20_000);
    for _ in 0..rounds {
        let (krows, size, off) = gen_events(cx, false);
        let len = krows.len();
        let mut cand = vec![Some(1usize), Some(2), Some(3), Some(len.saturating_sub(1).max(1)), Some(len.max(1)), Some(len + 1), Some(7), Some(64), Some(0), None];
        let np = cx.budget(2, 3);
        let mut pars = vec![];
        for _ in 0..np {
            let j = cx.rng.below(cand.len());
            let p = cand.remove(j);
            let t = *cx.rng.pick(&[1usize, 2, 4, 8]);
            pars.push((t, p));
        }
        let extras = cx.rng.chance(1, 6);
        wgroup_all_modes(cx, &mut pools, &krows, size, off, &pars, extras);
    }
    // large event sets: 64..400 rows, partitions that give BOTH partitions of >= 64 rows and > 64 partitions
    let rounds = cx.budget(60, 1_500);
    for _ in 0..rounds {
        let (krows, size, off) = gen_events(cx, true);
        let len = krows.len();
        let mut cand = vec![Some(1usize), Some(2), Some(3), Some(len / 2), Some(64), Some(65), Some(128), Some(200), Some(len), None];
        let mut pars = vec![];
        for _ in 0..2 {
            let j = cx.rng.below(cand.len());
            let p = cand.remove(j);
            let t = *cx.rng.pick(&[2usize, 4, 8]);
            pars.push((t, p));
        }
        let extras = cx.rng.chance(1, 4);
        wgroup_all_modes(cx, &mut pools, &krows, size, off, &pars, extras);
    }
    if pools.fallbacks > 0 {
        cx.count_n("wgroup:dedicated-pool-unavailable(global-pool-used)", pools.fallbacks);
        cx.notes.push(format!("{} parallel runs used rayon's global pool because a dedicated pool could not be built (thread spawn refused); results are judged as usual", pools.fallbacks));
    }
    let other = cx.stats.get("group-order:other-order").copied().unwrap_or(0);
    let inord = cx.stats.get("group-order:input-order").copied().unwrap_or(0);
    if other > 0 {
        cx.notes.push(format!("group contents were NOT in input order in {other} of {} grouped runs: allowed by the property (the answers compare group contents as multisets), but the Lean model's stronger clause `groupOf w gs = (filter …).map value` (list equality, input order) no longer describes the code", other + inord));
    } else {
        cx.notes.push(format!("group contents were in input order in all {inord} grouped runs (observation only; the order inside a group is neither in the property nor in the compared answers)"));
    }
}

fn gen_tumble(cx: &mut Ctx) -> (u64, u64, u64, &'static str) {
    const MAX: u64 = u64::MAX;
    let small = |cx: &mut Ctx| -> u64 {
        match cx.rng.below(4) { 0 => 1 + cx.rng.below(16) as u64, 1 => 1 + cx.rng.below(100_000) as u64, 2 => 1 + (cx.rng.next_u64() >> 32), _ => 1 + cx.rng.next_u64() % 1000 }
    };
    match cx.rng.below(11) {
        0 => (cx.rng.next_u64(), cx.rng.next_u64(), cx.rng.next_u64(), "rand64"),
        10 => { // exact powers of two (and ± 1) of every magnitude, random timestamps / phases of every magnitude
            let p = 1u64 << cx.rng.below(64);
            let size = match cx.rng.below(4) { 0 => p.wrapping_sub(1).max(1), 1 => p.wrapping_add(1).max(1), _ => p };
            let off = match cx.rng.below(3) { 0 => 0, 1 => cx.rng.next_u64() % size, _ => cx.rng.next_u64() >> cx.rng.below(64) };
            (cx.rng.next_u64() >> cx.rng.below(64), size, off, "pow2-rand")
        }
        1 => { // realistic: epoch millis, second/minute windows, small offsets
            let size = *cx.rng.pick(&[1_000u64, 10_000, 60_000, 3_600_000, 86_400_000]);
            let ts = 1_600_000_000_000 + cx.rng.next_u64() % 200_000_000_000;
            let off = match cx.rng.below(3) { 0 => 0, 1 => cx.rng.next_u64() % size, _ => cx.rng.next_u64() % (4 * size) };
            (ts, size, off, "epoch")
        }
        2 => { // ts on a window boundary ±1, sizes and phases of every magnitude; ~10 % on the LOWEST boundary (k = 0):
               // ts = off % size − 1 has no window (start would be negative), ts = off % size is the first instant that has one
            let size = match cx.rng.below(3) { 0 => small(cx), 1 => (cx.rng.next_u64() >> cx.rng.below(63)).max(2), _ => (cx.rng.next_u64() >> cx.rng.below(8)).max(2) };
            let off = match cx.rng.below(3) { 0 => cx.rng.next_u64() % size, 1 => cx.rng.next_u64(), _ => cx.rng.next_u64() % size.saturating_mul(3) };
            let kmax = ((MAX - off % size) / size).min(1_000_000);
            let k = if cx.rng.chance(1, 10) { 0 } else if cx.rng.chance(1, 10) { kmax } else { cx.rng.next_u64() % (kmax + 1) };
            let b = off % size + k * size; // ≤ MAX by the choice of kmax
            let ts = match cx.rng.below(3) { 0 => b.wrapping_sub(1), 1 => b, _ => b.wrapping_add(1) };
            if k == 0 {
                cx.count("tumble:boundary:k=0");
                if off % size >= 1 << 32 {
                    cx.count(if ts == b { "tumble:boundary:k=0:64bit:ts=phase" } else if ts == b.wrapping_sub(1) { "tumble:boundary:k=0:64bit:ts=phase-1" } else { "tumble:boundary:k=0:64bit:ts=phase+1" });
                }
            }
            (ts, size, off, "boundary")
        }
        3 => { // ts below the offset
            let size = small(cx);
            let off = cx.rng.next_u64() % (MAX / 2) + 1;
            let ts = cx.rng.next_u64() % off;
            (ts, size, off, "ts<off")
        }
        4 => { // ts below the offset, small numbers
            let size = 1 + cx.rng.below(20) as u64;
            let off = cx.rng.below(100) as u64;
            let ts = cx.rng.below(100) as u64;
            (ts, size, off, "small")
        }
        5 => { // ts near 2^64 - size
            let size = small(cx);
            let d = cx.rng.next_u64() % (2 * size + 3);
            let ts = (MAX - size).wrapping_add(d).wrapping_sub(size / 2);
            let off = match cx.rng.below(3) { 0 => 0, 1 => cx.rng.next_u64() % size, _ => cx.rng.next_u64() };
            (ts, size, off, "near-max")
        }
        6 => { // huge sizes
            let size = MAX - cx.rng.next_u64() % 1000;
            (cx.rng.next_u64(), size, cx.rng.next_u64() % 2000, "huge-size")
        }
        7 => { // offset ≥ size, multiple of size and not
            let size = small(cx);
            let off = size.wrapping_mul(1 + cx.rng.next_u64() % 50).wrapping_add(if cx.rng.chance(1, 2) { 0 } else { cx.rng.next_u64() % size });
            (cx.rng.next_u64() >> cx.rng.below(50), size, off, "off>=size")
        }
        8 => { // size 0 / 1
            let size = cx.rng.below(2) as u64;
            (cx.rng.next_u64() >> cx.rng.below(64), size, cx.rng.next_u64() >> cx.rng.below(64), "size01")
        }
        _ => { // mixed magnitudes
            let a = cx.rng.next_u64() >> cx.rng.below(64);
            let b = (cx.rng.next_u64() >> cx.rng.below(64)).max(1);
            let c = cx.rng.next_u64() >> cx.rng.below(64);
            (a, b, c, "mixed")
        }
    }
}

/// `large`: 64..=400 rows, 1..=3 keys, `size = 1` or a span of 50..200 windows (many groups) or very few windows (big groups)
fn gen_events(cx: &mut Ctx, large: bool) -> (Vec<KRow>, u64, u64) {
    const MAX: u64 = u64::MAX;
    let len = if large { 64 + cx.rng.below(337) } else { match cx.rng.below(8) { 0 => 0, 1 => 1, 2 => 2, 3 | 4 => 3 + cx.rng.below(8), _ => 8 + cx.rng.below(40) } };
    // 1 in 8: a huge window size (2^40 .. 2^63): few windows fit below 2^64, the phase is a 64-bit number
    let huge = cx.rng.chance(1, if large { 16 } else { 8 });
    let size: u64 = if huge { ((1u64 << 63) >> cx.rng.below(24)) + cx.rng.next_u64() % (1 << 40) }
        else { match cx.rng.below(5) { 0 => 1, 1 => 1 + cx.rng.below(12) as u64, 2 => 10, 3 => 1_000 * (1 + cx.rng.below(60) as u64), _ => 1 + cx.rng.next_u64() % 1_000_000 } };
    let off: u64 = match cx.rng.below(5) { 0 => 0, 1 => cx.rng.next_u64() % size, 2 => size.saturating_mul(1 + cx.rng.below(4) as u64).saturating_add(cx.rng.next_u64() % size), 3 => cx.rng.next_u64() % size.saturating_mul(20), _ => size };
    // base so that most event sets are fully representable; a minority has an event below off % size
    // or close to 2^64 (those runs must panic, in every mode)
    let fit = (MAX - off % size) / size; // number of whole windows between the phase and 2^64 - 1 (≥ 1 for huge sizes ≤ 2^63)
    let (base, span) = match if large { 4 + cx.rng.below(8) } else { cx.rng.below(12) } {
        0 => (0u64, size.saturating_mul(3)),                       // may include ts < off % size
        1 => (MAX.saturating_sub(size.saturating_mul(4)), size.saturating_mul(4)), // may include unrepresentable ends
        2 => (off.saturating_sub(size.saturating_mul(2)), size.saturating_mul(5)), // around the offset, ts < off
        3 => (off % size, size.saturating_mul(6)),
        _ => {
            let k = cx.rng.next_u64() % fit.clamp(1, 1_000_000);
            let w = (if large { match cx.rng.below(4) { 0 => 1, 1 => 2 + cx.rng.below(3) as u64, 2 => 9 + cx.rng.below(41) as u64, _ => 50 + cx.rng.below(151) as u64 } } else { 1 + cx.rng.below(6) as u64 }).min((fit - k).max(1));
            (off % size + size * k, size.saturating_mul(w).min(MAX - (off % size + size * k)).saturating_sub(1))
        }
    };
    let nkeys = 1 + cx.rng.below(if large { 3 } else { 4 }) as i64;
    let skew = cx.rng.chance(1, 3);
    let mut rows = Vec::with_capacity(len);
    for j in 0..len {
        let ts = match cx.rng.below(6) {
            0 => base.saturating_add((cx.rng.next_u64() % (span / size + 1)).saturating_mul(size)), // on a boundary
            1 => base.saturating_add((cx.rng.next_u64() % (span / size + 1)).saturating_mul(size)).saturating_sub(1),
            _ => base.saturating_add(match span.checked_add(1) { Some(m) => cx.rng.next_u64() % m, None => cx.rng.next_u64() }),
        };
        let key = if skew && cx.rng.chance(3, 4) { 0 } else { cx.rng.range(0, nkeys - 1) };
        // values: few distinct (duplicates matter for "none lost or duplicated"), sometimes unique tags
        let val = if cx.rng.chance(1, 2) { cx.rng.range(-2, 2) } else { j as i64 };
        rows.push((key, ts, val));
    }
    (rows, size, off)
}
