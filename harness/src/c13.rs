//! C13 — tumbling windows partition event time; window grouping loses nothing.
//!
//! Requests
//!   `TUMBLE <ts> <size> <off>`                      answer: `W <start> <end>` | `PANIC`
//!   `TUMBLE-WRAP <ts> <size> <off>`                 the CURRENT src/window.rs compiled with release arithmetic
//!                                                   (crate `relwin`: wrapping, no debug assertions)   ↔ Lean `tumbleWrapping`
//!   `TUMBLE-LEGACY <ts> <size> <off>`               the PRE-FIX src/window.rs (from git history), overflow-checking
//!                                                   (crate `chkwin`)                                  ↔ Lean `Legacy.tumble`
//!   `TUMBLE-LEGACY-WRAP <ts> <size> <off>`          the pre-fix source with release arithmetic        ↔ Lean `Legacy.tumbleWrapping`
//!   `WGROUP <op> <size> <off> <mode> <src> <rows>`  answer: `OK <rows>` | `PANIC` | `ERR collect` (collect returned Err)
//!       op   : kbw  (unkeyed key_by_window)         rows in : `ts:val,…`            out: `start-end:val,…` (input order)
//!              gbw  (group_by_window)               rows in : `ts:val,…`            out: `start-end:v.v.v,…` (groups sorted by window;
//!                                                                                        group CONTENTS in the order the code produced)
//!              kkbw (keyed key_by_window)           rows in : `key:ts:val,…`        out: `key@start-end:val,…` (input order)
//!              gbkw (group_by_key_and_window)       rows in : `key:ts:val,…`        out: `key@start-end:v.v,…` (groups sorted, contents as produced)
//!       mode : `seq` | `par:<threads>:<partitions>` (`Some(partitions)`, 0 included) |
//!              `par:<threads>:none:<eff>` (`partitions = None`; `<eff>` = what `Runner::run_collect` resolves it to on
//!              this machine: the planner's suggestion, read from the real `build_plan`)
//!       src  : how the timestamped collection is built (helpers/timestamped.rs): `d` from_vec of Timestamped,
//!              `t` from_vec of (ts,val) + to_timestamped(), `a` from_vec of (ts,val) + attach_timestamps(|r| r.0)
//!              (keyed ops: always `d`)
//!       empty row list = `-`
//!   `WCMP <s1> <e1> <s2> <e2>`                      answer: `<a==b T|F> <cmp LT|EQ|GT> <a==b → same hash T|F> <partial_cmp LT|EQ|GT|NONE>`
//! The real side runs the REAL `Window::tumble` / REAL pipelines (from_vec → helpers → collect_seq /
//! collect_par) in this overflow-checking build under catch_unwind (panic ↔ model `none`).
//! Oracles (independent of the model, i128 reference arithmetic):
//!   TUMBLE: start ≤ ts < end, end − start = size, (start − off) ≡ 0 mod size; and the call must not panic
//!           when a window with those properties is representable in u64 (size ≥ 1).
//!   WGROUP: every row keeps its value and gets a window with the four properties; groups have distinct
//!           keys, every group holds exactly the multiset of input values whose ts lies in the group's window
//!           (and whose key is the group's key), counts add up to the input length; par result == seq result
//!           (as sets of groups with multiset contents — the order inside a group is not part of the property; it
//!           IS part of the model correspondence, which validates the "in input order" clause of the Lean theorems).
//!   TUMBLE-WRAP: where a representable window exists the release build must return exactly it.
//!   TUMBLE-LEGACY*: no oracle (the defective pinned code; these lines only validate the `Legacy.*` Lean models).

use crate::ctx::{Ctx, guarded};
use ironbeam::{Pipeline, Runner, Timestamped, Window, from_vec};
use std::collections::BTreeMap;

type Row = (u64, i64); // (ts, value)
type KRow = (i64, u64, i64); // (key, ts, value)

// ---------------------------------------------------------------- reference (oracle side, i128)

/// the unique window `[s, s+size)` with `s ≤ ts < s+size`, `s ≡ off (mod size)`, if representable in u64
fn ref_window(ts: u64, size: u64, off: u64) -> Option<(u64, u64)> {
    if size == 0 {
        return None;
    }
    let (t, z, o) = (ts as i128, size as i128, off as i128);
    let s = t - (t - o).rem_euclid(z);
    let e = s + z;
    if s >= 0 && e <= u64::MAX as i128 { Some((s as u64, e as u64)) } else { None }
}

/// the four clauses of the property on one real window
fn window_ok(w: (u64, u64), ts: u64, size: u64, off: u64) -> Result<(), &'static str> {
    let (s, e) = w;
    if !(s <= ts) { return Err("start>ts"); }
    if !(ts < e) { return Err("ts>=end"); }
    if e < s || e - s != size { return Err("length!=size"); }
    if size == 0 || (s as i128 - off as i128).rem_euclid(size as i128) != 0 { return Err("start-not-aligned"); }
    Ok(())
}

// ---------------------------------------------------------------- TUMBLE

fn one_tumble(cx: &mut Ctx, ts: u64, size: u64, off: u64, tag: &str) {
    let r = guarded(|| Window::tumble(ts, size, off));
    let ans = match &r { Ok(w) => format!("W {} {}", w.start, w.end), Err(_) => "PANIC".to_string() };
    let nt = size >= 1 && r.is_ok();
    let i = cx.case(format!("TUMBLE {ts} {size} {off}"), ans, nt);
    cx.count(&format!("tumble:{tag}:{}", if r.is_ok() { "window" } else { "panic" }));
    if size >= 1 {
        cx.count(if off == 0 { "tumble:off=0" } else if off < size { "tumble:off<size" } else { "tumble:off>=size" });
        if ts < off { cx.count("tumble:ts<off"); }
    } else {
        cx.count("tumble:size=0");
    }
    match r {
        Ok(w) => {
            if let Err(why) = window_ok((w.start, w.end), ts, size, off) {
                cx.oracle_fail(i, &format!("tumble-window-wrong:{why}"),
                    format!("tumble({ts},{size},{off}) = [{},{}) violates {why}; reference {:?}", w.start, w.end, ref_window(ts, size, off)));
            }
        }
        Err(msg) => {
            if let Some((s, e)) = ref_window(ts, size, off) {
                let sig = if ts < off { "tumble-panics-ts-below-offset" } else { "tumble-panics-though-window-representable" };
                cx.oracle_fail(i, sig, format!("tumble({ts},{size},{off}) panicked ({msg}) although [{s},{e}) is the window"));
            }
        }
    }
}

// ---------------------------------------------------------------- the same source under other arithmetic profiles

fn wstr<W>(r: &Result<W, String>, f: impl Fn(&W) -> (u64, u64)) -> String {
    match r { Ok(w) => { let (s, e) = f(w); format!("W {s} {e}") } Err(_) => "PANIC".to_string() }
}

/// `TUMBLE-WRAP` (+ `TUMBLE-LEGACY`, `TUMBLE-LEGACY-WRAP` when the pre-fix source is available)
fn one_tumble_variants(cx: &mut Ctx, ts: u64, size: u64, off: u64) {
    if !(relwin::CURRENT_AVAILABLE && chkwin::CURRENT_AVAILABLE) {
        cx.count("window-source-copy:unavailable(not standalone)");
        return;
    }
    // integrity of the textual copy: compiled with the same (checking) profile it must behave like the linked crate
    let linked = wstr(&guarded(|| Window::tumble(ts, size, off)), |w| (w.start, w.end));
    let copy = wstr(&guarded(|| chkwin::current::Window::tumble(ts, size, off)), |w| (w.start, w.end));
    // release arithmetic, current source
    let r = guarded(|| relwin::current::Window::tumble(ts, size, off));
    let ans = wstr(&r, |w| (w.start, w.end));
    let i = cx.case(format!("TUMBLE-WRAP {ts} {size} {off}"), ans.clone(), size >= 1);
    if linked != copy {
        cx.oracle_fail(i, "window-source-copy-differs-from-linked-crate", format!("tumble({ts},{size},{off}): linked {linked}, copy of src/window.rs {copy}"));
    }
    match (ref_window(ts, size, off), &r) {
        (Some((s, e)), Ok(w)) => {
            cx.count("wrap:representable");
            if (w.start, w.end) != (s, e) {
                cx.oracle_fail(i, "tumble-release-window-wrong", format!("release build: tumble({ts},{size},{off}) = [{},{}) but the window is [{s},{e})", w.start, w.end));
            }
        }
        (Some((s, e)), Err(m)) => {
            cx.count("wrap:representable");
            cx.oracle_fail(i, "tumble-release-panics-though-window-representable", format!("release build: tumble({ts},{size},{off}) panicked ({m}) although [{s},{e}) is the window"));
        }
        (None, Ok(_)) => cx.count("wrap:none-domain:garbage-window"),
        (None, Err(_)) => cx.count("wrap:none-domain:panic"),
    }
    if relwin::LEGACY_AVAILABLE && chkwin::LEGACY_AVAILABLE {
        let r = guarded(|| chkwin::legacy::Window::tumble(ts, size, off));
        cx.case(format!("TUMBLE-LEGACY {ts} {size} {off}"), wstr(&r, |w| (w.start, w.end)), size >= 1 && r.is_ok());
        cx.count(if r.is_ok() { "legacy:window" } else if ref_window(ts, size, off).is_some() { "legacy:panic-though-representable" } else { "legacy:panic" });
        let r = guarded(|| relwin::legacy::Window::tumble(ts, size, off));
        let a = wstr(&r, |w| (w.start, w.end));
        cx.case(format!("TUMBLE-LEGACY-WRAP {ts} {size} {off}"), a.clone(), size >= 1);
        if let (Some((s, e)), Ok(w)) = (ref_window(ts, size, off), &r) {
            if (w.start, w.end) != (s, e) { cx.count("legacy-wrap:garbage-though-representable"); }
        }
    } else {
        cx.count("legacy-source:unavailable");
    }
}

// ---------------------------------------------------------------- WCMP (Eq / Ord / Hash of Window)

fn one_wcmp(cx: &mut Ctx, a: (u64, u64), b: (u64, u64)) {
    use std::hash::{Hash, Hasher};
    let r = guarded(|| {
        let (wa, wb) = (Window { start: a.0, end: a.1 }, Window { start: b.0, end: b.1 });
        let h = |w: &Window| { let mut s = std::collections::hash_map::DefaultHasher::new(); w.hash(&mut s); s.finish() };
        (wa == wb, wa.cmp(&wb), wa.partial_cmp(&wb), h(&wa) == h(&wb), wb.cmp(&wa))
    });
    let (eq, c, pc, heq, rc) = match r { Ok(x) => x, Err(_) => { cx.case(format!("WCMP {} {} {} {}", a.0, a.1, b.0, b.1), "PANIC".into(), false); return; } };
    let cs = match c { std::cmp::Ordering::Less => "LT", std::cmp::Ordering::Equal => "EQ", std::cmp::Ordering::Greater => "GT" };
    let t = |x: bool| if x { "T" } else { "F" };
    let pcs = match pc { Some(std::cmp::Ordering::Less) => "LT", Some(std::cmp::Ordering::Equal) => "EQ", Some(std::cmp::Ordering::Greater) => "GT", None => "NONE" };
    let i = cx.case(format!("WCMP {} {} {} {}", a.0, a.1, b.0, b.1), format!("{} {} {} {pcs}", t(eq), cs, t(!eq || heq)), a != b);
    cx.count(&format!("wcmp:{cs}"));
    if eq != (a == b) { cx.oracle_fail(i, "window-eq-not-fieldwise", format!("{a:?} == {b:?} is {eq}")); }
    if c != a.cmp(&b) || pc != Some(c) || rc != c.reverse() { cx.oracle_fail(i, "window-ord-not-lexicographic", format!("{a:?} cmp {b:?} = {c:?}, partial {pc:?}, reverse {rc:?}")); }
    if eq && !heq { cx.oracle_fail(i, "window-hash-inconsistent-with-eq", format!("{a:?} == {b:?} but hashes differ")); }
}

// ---------------------------------------------------------------- WGROUP

#[derive(Clone, Copy, PartialEq, Eq, Debug)]
enum Mode { Seq, Par(usize, Option<usize>) }
impl Mode {
    /// `eff` = the partition count `run_collect` resolves `None` to for this input
    fn enc(&self, eff: usize) -> String {
        match self { Mode::Seq => "seq".into(), Mode::Par(t, Some(p)) => format!("par:{t}:{p}"), Mode::Par(t, None) => format!("par:{t}:none:{eff}") }
    }
}

/// what `Runner::run_collect` turns `partitions = None` into for a `from_vec` source of these rows:
/// `partitions.or(plan.suggested_partitions).unwrap_or(runner.default_partitions)`, read from the real planner
fn effective_default_partitions(rows: &[Row]) -> usize {
    let p = Pipeline::default();
    let _c = from_vec(&p, rows.to_vec()).to_timestamped().group_by_window(1, 0);
    let (nodes, edges) = p.snapshot();
    let terminal = nodes.keys().copied().find(|id| !edges.iter().any(|(from, _)| from == id)).expect("terminal node");
    let plan = ironbeam::planner::build_plan(&p, terminal).expect("plan");
    plan.suggested_partitions.unwrap_or(Runner::default().default_partitions)
}

/// outcome of a real pipeline run: value, `Err` returned by collect, or panic
enum Out<T> { Ok(T), Err(String), Panic(String) }
impl<T> Out<T> {
    fn from(r: Result<Result<T, String>, String>) -> Self {
        match r { Ok(Ok(v)) => Out::Ok(v), Ok(Err(e)) => Out::Err(e), Err(p) => Out::Panic(p) }
    }
    fn is_ok(&self) -> bool { matches!(self, Out::Ok(_)) }
    fn tag(&self) -> &'static str { match self { Out::Ok(_) => "ok", Out::Err(_) => "err", Out::Panic(_) => "panic" } }
}

fn enc_rows(rows: &[Row]) -> String {
    if rows.is_empty() { "-".into() } else { rows.iter().map(|(t, v)| format!("{t}:{v}")).collect::<Vec<_>>().join(",") }
}
fn enc_krows(rows: &[KRow]) -> String {
    if rows.is_empty() { "-".into() } else { rows.iter().map(|(k, t, v)| format!("{k}:{t}:{v}")).collect::<Vec<_>>().join(",") }
}
fn join_or_dash(v: Vec<String>) -> String { if v.is_empty() { "-".into() } else { v.join(",") } }
fn dots(vs: &[i64]) -> String { vs.iter().map(|x| x.to_string()).collect::<Vec<_>>().join(".") }

struct Pools { pools: BTreeMap<usize, rayon::ThreadPool> }
impl Pools {
    fn new() -> Self { Pools { pools: BTreeMap::new() } }
    fn get(&mut self, t: usize) -> &rayon::ThreadPool {
        self.pools.entry(t).or_insert_with(|| rayon::ThreadPoolBuilder::new().num_threads(t).build().expect("pool"))
    }
}

/// run `f` sequentially or inside a pool of exactly `threads` workers (rayon's global pool can be
/// sized only once per process, so `collect_par`'s own `threads` argument is honoured only the first time)
fn in_mode<T: Send>(pools: &mut Pools, mode: Mode, f: impl FnOnce() -> T + Send) -> Result<T, String> {
    match mode {
        Mode::Seq => guarded(f),
        Mode::Par(t, _) => { let pool = pools.get(t); guarded(|| pool.install(f)) }
    }
}

type WRow = ((u64, u64), i64);
type WGroup = ((u64, u64), Vec<i64>);
type KWRow = ((i64, (u64, u64)), i64);
type KWGroup = ((i64, (u64, u64)), Vec<i64>);

/// how the `PCollection<Timestamped<_>>` is built: `d`irect `from_vec`, `t` = `(ts, v)` rows through
/// `to_timestamped()`, `a` = `(ts, v)` rows through `attach_timestamps(|r| r.0)` (value stays the whole row)
#[derive(Clone, Copy, PartialEq, Eq, Debug)]
enum Src { D, T, A }
impl Src { fn enc(&self) -> &'static str { match self { Src::D => "d", Src::T => "t", Src::A => "a" } } }

macro_rules! collect_mode {
    ($c:expr, $mode:expr) => {
        match $mode { Mode::Seq => $c.collect_seq(), Mode::Par(t, n) => $c.collect_par(Some(t), n) }.map_err(|e| format!("{e:#}"))?
    };
}

fn real_kbw(pools: &mut Pools, rows: &[Row], size: u64, off: u64, mode: Mode, src: Src) -> Out<Vec<WRow>> {
    let rows = rows.to_vec();
    Out::from(in_mode(pools, mode, move || -> Result<Vec<WRow>, String> {
        let p = Pipeline::default();
        Ok(match src {
            Src::D => {
                let data: Vec<Timestamped<i64>> = rows.iter().map(|(t, v)| Timestamped::new(*t, *v)).collect();
                collect_mode!(from_vec(&p, data).key_by_window(size, off), mode).into_iter().map(|(w, v)| ((w.start, w.end), v)).collect()
            }
            Src::T => collect_mode!(from_vec(&p, rows).to_timestamped().key_by_window(size, off), mode)
                .into_iter().map(|(w, v)| ((w.start, w.end), v)).collect(),
            Src::A => collect_mode!(from_vec(&p, rows).attach_timestamps(|r: &Row| r.0).key_by_window(size, off), mode)
                .into_iter().map(|(w, v)| ((w.start, w.end), v.1)).collect(),
        })
    }))
}
fn real_gbw(pools: &mut Pools, rows: &[Row], size: u64, off: u64, mode: Mode, src: Src) -> Out<Vec<WGroup>> {
    let rows = rows.to_vec();
    Out::from(in_mode(pools, mode, move || -> Result<Vec<WGroup>, String> {
        let p = Pipeline::default();
        Ok(match src {
            Src::D => {
                let data: Vec<Timestamped<i64>> = rows.iter().map(|(t, v)| Timestamped::new(*t, *v)).collect();
                collect_mode!(from_vec(&p, data).group_by_window(size, off), mode).into_iter().map(|(w, vs)| ((w.start, w.end), vs)).collect()
            }
            Src::T => collect_mode!(from_vec(&p, rows).to_timestamped().group_by_window(size, off), mode)
                .into_iter().map(|(w, vs)| ((w.start, w.end), vs)).collect(),
            Src::A => collect_mode!(from_vec(&p, rows).attach_timestamps(|r: &Row| r.0).group_by_window(size, off), mode)
                .into_iter().map(|(w, vs)| ((w.start, w.end), vs.into_iter().map(|r| r.1).collect())).collect(),
        })
    }))
}
fn real_kkbw(pools: &mut Pools, rows: &[KRow], size: u64, off: u64, mode: Mode) -> Out<Vec<KWRow>> {
    let data: Vec<(i64, Timestamped<i64>)> = rows.iter().map(|(k, t, v)| (*k, Timestamped::new(*t, *v))).collect();
    Out::from(in_mode(pools, mode, move || -> Result<Vec<KWRow>, String> {
        let p = Pipeline::default();
        Ok(collect_mode!(from_vec(&p, data).key_by_window(size, off), mode).into_iter().map(|((k, w), v)| ((k, (w.start, w.end)), v)).collect())
    }))
}
fn real_gbkw(pools: &mut Pools, rows: &[KRow], size: u64, off: u64, mode: Mode) -> Out<Vec<KWGroup>> {
    let data: Vec<(i64, Timestamped<i64>)> = rows.iter().map(|(k, t, v)| (*k, Timestamped::new(*t, *v))).collect();
    Out::from(in_mode(pools, mode, move || -> Result<Vec<KWGroup>, String> {
        let p = Pipeline::default();
        Ok(collect_mode!(from_vec(&p, data).group_by_key_and_window(size, off), mode).into_iter().map(|((k, w), vs)| ((k, (w.start, w.end)), vs)).collect())
    }))
}

fn all_representable(ts: impl Iterator<Item = u64>, size: u64, off: u64) -> bool {
    let mut it = ts;
    it.all(|t| ref_window(t, size, off).is_some())
}

fn sorted(mut v: Vec<i64>) -> Vec<i64> { v.sort(); v }

/// answer string of a run that did not return rows
fn fail_ans<T>(o: &Out<T>) -> String { match o { Out::Err(_) => "ERR collect".into(), _ => "PANIC".into() } }

/// a run failed (`Err` or panic): that is a violation when every event has a representable window
fn fail_oracle<T>(cx: &mut Ctx, i: usize, op: &str, o: &Out<T>, repr: bool, size: u64) {
    match o {
        Out::Ok(_) => {}
        Out::Err(m) => {
            // (an Err on the excluded domain is not judged by the oracle; the model answers PANIC there, so the
            // correspondence reports it as a disagreement)
            if repr && size >= 1 { cx.oracle_fail(i, &format!("{op}-errs-though-windows-representable"), m.clone()); }
        }
        Out::Panic(m) => if repr && size >= 1 {
            cx.oracle_fail(i, &format!("{op}-panics-though-windows-representable"), m.clone());
        },
    }
}

/// unkeyed: key_by_window + group_by_window in `mode`; returns the order-insensitive canonical grouped
/// answer (used only by the seq-vs-par oracle)
fn one_unkeyed(cx: &mut Ctx, pools: &mut Pools, rows: &[Row], size: u64, off: u64, mode: Mode, eff: usize, src: Src, seq_ref: Option<&str>) -> String {
    let repr = all_representable(rows.iter().map(|r| r.0), size, off);
    // ---- key_by_window
    let r = real_kbw(pools, rows, size, off, mode, src);
    let ans = match &r {
        Out::Ok(out) => format!("OK {}", join_or_dash(out.iter().map(|((s, e), v)| format!("{s}-{e}:{v}")).collect())),
        o => fail_ans(o),
    };
    let i = cx.case(format!("WGROUP kbw {size} {off} {} {} {}", mode.enc(eff), src.enc(), enc_rows(rows)), ans, rows.len() >= 2 && r.is_ok());
    cx.count(&format!("wgroup:kbw:{}", r.tag()));
    fail_oracle(cx, i, "kbw", &r, repr, size);
    if let Out::Ok(out) = &r {
        if out.len() != rows.len() {
            cx.oracle_fail(i, "kbw-row-count", format!("{} rows in, {} out", rows.len(), out.len()));
        } else {
            for (j, ((w, v), (t, v0))) in out.iter().zip(rows.iter()).enumerate() {
                if v != v0 {
                    cx.oracle_fail(i, "kbw-value-changed", format!("row {j}: value {v0} became {v}"));
                    break;
                }
                if let Err(why) = window_ok(*w, *t, size, off) {
                    cx.oracle_fail(i, &format!("kbw-window-wrong:{why}"), format!("row {j}: ts {t} got [{},{})", w.0, w.1));
                    break;
                }
            }
        }
    }
    // ---- group_by_window
    let r = real_gbw(pools, rows, size, off, mode, src);
    cx.count(&format!("wgroup:src={}", src.enc()));
    // correspondence answer: groups sorted by window, contents exactly as produced; canonical: contents sorted too
    let (ans, canon) = match &r {
        Out::Ok(out) => {
            let mut g: Vec<WGroup> = out.clone();
            g.sort_by_key(|x| x.0);
            let a = format!("OK {}", join_or_dash(g.iter().map(|((s, e), vs)| format!("{s}-{e}:{}", dots(vs))).collect()));
            let mut c: Vec<WGroup> = out.iter().map(|(w, vs)| (*w, sorted(vs.clone()))).collect();
            c.sort();
            (a, format!("OK {}", join_or_dash(c.iter().map(|((s, e), vs)| format!("{s}-{e}:{}", dots(vs))).collect())))
        }
        o => (fail_ans(o), fail_ans(o)),
    };
    let i = cx.case(format!("WGROUP gbw {size} {off} {} {} {}", mode.enc(eff), src.enc(), enc_rows(rows)), ans, rows.len() >= 2 && r.is_ok());
    cx.count(&format!("wgroup:gbw:{}", r.tag()));
    fail_oracle(cx, i, "gbw", &r, repr, size);
    if let Out::Ok(out) = &r {
        let mut seen = std::collections::BTreeSet::new();
        let mut total = 0usize;
        let mut complete = true; // false = an earlier clause already failed and the walk stopped
        for (w, vs) in out {
            total += vs.len();
            complete = false;
            if !seen.insert(*w) {
                cx.oracle_fail(i, "gbw-duplicate-group", format!("window [{},{}) appears twice", w.0, w.1));
                break;
            }
            if vs.is_empty() {
                cx.oracle_fail(i, "gbw-empty-group", format!("window [{},{}) has no element", w.0, w.1));
                break;
            }
            if w.1 < w.0 || w.1 - w.0 != size || size == 0 || (w.0 as i128 - off as i128).rem_euclid(size as i128) != 0 {
                cx.oracle_fail(i, "gbw-window-wrong", format!("group window [{},{}) is not offset+k*size long size", w.0, w.1));
                break;
            }
            let want = sorted(rows.iter().filter(|(t, _)| w.0 <= *t && *t < w.1).map(|x| x.1).collect());
            if sorted(vs.clone()) != want {
                cx.oracle_fail(i, "gbw-group-content", format!("window [{},{}): got {:?}, elements with ts inside: {:?}", w.0, w.1, sorted(vs.clone()), want));
                break;
            }
            complete = true;
        }
        if complete && total != rows.len() {
            cx.oracle_fail(i, "gbw-lost-or-duplicated", format!("{} elements in, {} in groups", rows.len(), total));
        }
    }
    if let Some(s) = seq_ref {
        if s != canon {
            cx.oracle_fail(i, "gbw-par-differs-from-seq", format!("seq: {s}  par: {canon}"));
        }
    }
    canon
}

fn one_keyed(cx: &mut Ctx, pools: &mut Pools, rows: &[KRow], size: u64, off: u64, mode: Mode, eff: usize, seq_ref: Option<&str>) -> String {
    let repr = all_representable(rows.iter().map(|r| r.1), size, off);
    // ---- keyed key_by_window
    let r = real_kkbw(pools, rows, size, off, mode);
    let ans = match &r {
        Out::Ok(out) => format!("OK {}", join_or_dash(out.iter().map(|((k, (s, e)), v)| format!("{k}@{s}-{e}:{v}")).collect())),
        o => fail_ans(o),
    };
    let i = cx.case(format!("WGROUP kkbw {size} {off} {} d {}", mode.enc(eff), enc_krows(rows)), ans, rows.len() >= 2 && r.is_ok());
    cx.count(&format!("wgroup:kkbw:{}", r.tag()));
    fail_oracle(cx, i, "kkbw", &r, repr, size);
    if let Out::Ok(out) = &r {
        if out.len() != rows.len() {
            cx.oracle_fail(i, "kkbw-row-count", format!("{} rows in, {} out", rows.len(), out.len()));
        } else {
            for (j, (((k, w), v), (k0, t, v0))) in out.iter().zip(rows.iter()).enumerate() {
                if v != v0 || k != k0 {
                    cx.oracle_fail(i, "kkbw-key-or-value-changed", format!("row {j}: ({k0},{v0}) became ({k},{v})"));
                    break;
                }
                if let Err(why) = window_ok(*w, *t, size, off) {
                    cx.oracle_fail(i, &format!("kkbw-window-wrong:{why}"), format!("row {j}: ts {t} got [{},{})", w.0, w.1));
                    break;
                }
            }
        }
    }
    // ---- group_by_key_and_window
    let r = real_gbkw(pools, rows, size, off, mode);
    let (ans, canon) = match &r {
        Out::Ok(out) => {
            let mut g: Vec<KWGroup> = out.clone();
            g.sort_by_key(|x| x.0);
            let a = format!("OK {}", join_or_dash(g.iter().map(|((k, (s, e)), vs)| format!("{k}@{s}-{e}:{}", dots(vs))).collect()));
            let mut c: Vec<KWGroup> = out.iter().map(|(kw, vs)| (*kw, sorted(vs.clone()))).collect();
            c.sort();
            (a, format!("OK {}", join_or_dash(c.iter().map(|((k, (s, e)), vs)| format!("{k}@{s}-{e}:{}", dots(vs))).collect())))
        }
        o => (fail_ans(o), fail_ans(o)),
    };
    let i = cx.case(format!("WGROUP gbkw {size} {off} {} d {}", mode.enc(eff), enc_krows(rows)), ans, rows.len() >= 2 && r.is_ok());
    cx.count(&format!("wgroup:gbkw:{}", r.tag()));
    fail_oracle(cx, i, "gbkw", &r, repr, size);
    if let Out::Ok(out) = &r {
        let mut seen = std::collections::BTreeSet::new();
        let mut total = 0usize;
        let mut complete = true;
        for ((k, w), vs) in out {
            total += vs.len();
            complete = false;
            if !seen.insert((*k, *w)) {
                cx.oracle_fail(i, "gbkw-duplicate-group", format!("key {k} window [{},{}) appears twice", w.0, w.1));
                break;
            }
            if vs.is_empty() {
                cx.oracle_fail(i, "gbkw-empty-group", format!("key {k} window [{},{}) has no element", w.0, w.1));
                break;
            }
            if w.1 < w.0 || w.1 - w.0 != size || size == 0 || (w.0 as i128 - off as i128).rem_euclid(size as i128) != 0 {
                cx.oracle_fail(i, "gbkw-window-wrong", format!("group window [{},{}) is not offset+k*size long size", w.0, w.1));
                break;
            }
            let want = sorted(rows.iter().filter(|(k0, t, _)| k0 == k && w.0 <= *t && *t < w.1).map(|x| x.2).collect());
            if sorted(vs.clone()) != want {
                cx.oracle_fail(i, "gbkw-group-content", format!("key {k} window [{},{}): got {:?}, elements of that key with ts inside: {:?}", w.0, w.1, sorted(vs.clone()), want));
                break;
            }
            complete = true;
        }
        if complete && total != rows.len() {
            cx.oracle_fail(i, "gbkw-lost-or-duplicated", format!("{} elements in, {} in groups", rows.len(), total));
        }
    }
    if let Some(s) = seq_ref {
        if s != canon { cx.oracle_fail(i, "gbkw-par-differs-from-seq", format!("seq: {s}  par: {canon}")); }
    }
    canon
}

/// one input through seq and several (threads, partitions) pairs, unkeyed and keyed
fn wgroup_all_modes(cx: &mut Ctx, pools: &mut Pools, krows: &[KRow], size: u64, off: u64, pars: &[(usize, Option<usize>)]) {
    let rows: Vec<Row> = krows.iter().map(|(_, t, v)| (*t, *v)).collect();
    // the way the timestamped collection is built is part of the case (drawn from the one PRNG)
    let src = *cx.rng.pick(&[Src::D, Src::D, Src::T, Src::A]);
    let eff = if pars.iter().any(|(_, p)| p.is_none()) { effective_default_partitions(&rows) } else { 0 };
    let s_un = one_unkeyed(cx, pools, &rows, size, off, Mode::Seq, eff, src, None);
    let s_k = one_keyed(cx, pools, krows, size, off, Mode::Seq, eff, None);
    for (t, p) in pars {
        one_unkeyed(cx, pools, &rows, size, off, Mode::Par(*t, *p), eff, src, Some(&s_un));
        one_keyed(cx, pools, krows, size, off, Mode::Par(*t, *p), eff, Some(&s_k));
        cx.count(&format!("wgroup:partitions={}", match p {
            None => format!("None(eff={eff})"),
            Some(0) => "Some(0)".to_string(),
            Some(p) if *p > krows.len() => ">len".to_string(),
            Some(p) if *p == krows.len() => "=len".to_string(),
            Some(p) if *p >= 9 => "9+".to_string(),
            Some(p) => p.to_string(),
        }));
        cx.count(&format!("wgroup:threads={t}"));
    }
    cx.count(&format!("wgroup:len={}", match krows.len() { 0 => "0", 1 => "1", 2..=4 => "2-4", 5..=16 => "5-16", _ => ">16" }));
    cx.count(if size >= 1 << 40 { "wgroup:size>=2^40" } else { "wgroup:size<2^40" });
}

fn all_seqs<T: Clone>(alpha: &[T], max_len: usize) -> Vec<Vec<T>> {
    let mut out: Vec<Vec<T>> = vec![vec![]];
    let mut frontier: Vec<Vec<T>> = vec![vec![]];
    for _ in 0..max_len {
        let mut next = vec![];
        for s in &frontier {
            for x in alpha {
                let mut t = s.clone();
                t.push(x.clone());
                next.push(t);
            }
        }
        out.extend(next.iter().cloned());
        frontier = next;
    }
    out
}

pub fn run(cx: &mut Ctx) {
    let mut pools = Pools::new();
    const MAX: u64 = u64::MAX;

    // ---------------- (1) corpus: design witnesses / minimised past failures
    for &(ts, size, off) in &[
        (7u64, 10u64, 25u64), // DESIGN §8 #10: panicked at the pinned commit; [5,15) is the window
        (3, 10, 5),           // no representable window ([-5,5)): stays a panic
        (27, 10, 0), (27, 10, 5), (0, 1, 0), (0, 10, 10), (9, 10, 10), (10, 10, 10), (0, 7, 14),
        (MAX, 1, 0),          // end would be 2^64
        (MAX - 1, 1, 0), (MAX - 10, 10, 5), (MAX - 10, 10, 6), (MAX, MAX, 0), (MAX - 1, MAX, 0), (MAX - 1, MAX, MAX - 1),
        (5, 0, 0), (5, 0, 3), // size 0
        (100, 10, MAX), (MAX - 3, 10, MAX),
    ] {
        one_tumble(cx, ts, size, off, "corpus");
    }
    for &(ts, size, off) in &[
        (7u64, 10u64, 25u64), // checked legacy panics, release legacy returns [2^64-1, 9), current returns [5,15) in both builds
        (3, 10, 5), (27, 10, 5), (0, 10, 10), (9, 10, 10), (MAX, 1, 0), (MAX - 1, 1, 0), (MAX - 10, 10, 6), (MAX - 1, MAX, MAX - 1),
        (5, 0, 0), (5, 0, 3), (100, 10, MAX), (MAX - 3, 10, MAX), (1 << 63, 3, 1 << 62),
    ] {
        one_tumble_variants(cx, ts, size, off);
    }
    wgroup_all_modes(cx, &mut pools, &[(1, 7, 70), (1, 27, 71), (2, 12, 72), (1, 8, 73)], 10, 25, &[(2, Some(2)), (2, Some(4)), (2, None), (2, Some(0))]);
    wgroup_all_modes(cx, &mut pools, &[(1, 1_000, 1), (1, 9_000, 2), (2, 11_000, 3)], 10_000, 0, &[(2, Some(2)), (1, None)]);
    wgroup_all_modes(cx, &mut pools, &[(1, 3, 1), (1, 30, 2)], 10, 5, &[(2, Some(2)), (2, Some(0))]); // first row has no window → PANIC
    // 64-bit magnitudes: huge window size, events on both sides of a boundary / below the phase / at the top
    wgroup_all_modes(cx, &mut pools, &[(1, 1 << 63, 1), (2, (1 << 63) - 1, 2), (1, 5, 3), (1, (1 << 63) + 7, 1)], 1 << 63, 0, &[(2, Some(3)), (2, None)]);
    wgroup_all_modes(cx, &mut pools, &[(1, 1 << 62, 1), (1, 99, 2)], 1 << 62, 100, &[(2, Some(2))]); // 99 < off % size → PANIC
    wgroup_all_modes(cx, &mut pools, &[(1, MAX - 1, 1), (1, 3, 2)], MAX / 2, 3, &[(2, Some(2))]);     // end beyond 2^64 → PANIC

    // ---------------- (2) small-scope exhaustive
    let (tmax, smax) = (cx.budget(40, 64) as u64, cx.budget(12, 16) as u64);
    let mut n = 0u64;
    for size in 1..=smax {
        for off in 0..=tmax {
            for ts in 0..=tmax {
                one_tumble(cx, ts, size, off, "exh");
                n += 1;
            }
        }
    }
    cx.exhaustive_blocks.push(format!("TUMBLE: all ts, off in 0..={tmax}, size in 1..={smax} ({n} triples)"));
    let (tmax, smax) = (cx.budget(20, 32) as u64, cx.budget(7, 10) as u64);
    let mut n = 0u64;
    for size in 0..=smax {
        for off in 0..=tmax {
            for ts in 0..=tmax {
                one_tumble_variants(cx, ts, size, off);
                n += 1;
            }
        }
    }
    cx.exhaustive_blocks.push(format!("TUMBLE-WRAP / TUMBLE-LEGACY / TUMBLE-LEGACY-WRAP: all ts, off in 0..={tmax}, size in 0..={smax} ({n} triples)"));
    // Window Eq/Ord/Hash: all pairs of windows over 4 field values
    let vals = [0u64, 1, 10, MAX];
    let mut n = 0u64;
    for &s1 in &vals { for &e1 in &vals { for &s2 in &vals { for &e2 in &vals {
        one_wcmp(cx, (s1, e1), (s2, e2));
        n += 1;
    } } } }
    cx.exhaustive_blocks.push(format!("WCMP: all pairs of windows with start,end in {{0,1,10,2^64-1}} ({n} pairs)"));
    // boundaries near 2^64: all (ts, size, off) with ts in MAX-2s-2..=MAX, size 1..=6, off in {0..=s+1, MAX-s-1..=MAX}
    let mut n = 0u64;
    for size in 0..=6u64 {
        let mut offs: Vec<u64> = (0..=size + 1).collect();
        offs.extend(MAX - size - 1..=MAX);
        for &off in &offs {
            for ts in MAX - 2 * size - 2..=MAX {
                one_tumble(cx, ts, size, off, "exh-top");
                one_tumble_variants(cx, ts, size, off);
                n += 1;
            }
        }
    }
    cx.exhaustive_blocks.push(format!("TUMBLE + the three build variants: all ts in 2^64-2*size-3..2^64, size in 0..=6, off in 0..=size+1 and 2^64-size-2..2^64 ({n} triples)"));
    // WGROUP: all keyed row sequences of length <= L over keys {0,1} × ts {3,7,12,17} (value = position tag),
    // size 5/10, off in {0, 2, 7, 25}, seq + partitions 1..=L+1
    let l = cx.budget(3, 4);
    let alpha: Vec<(i64, u64)> = vec![(0, 3), (0, 7), (1, 7), (0, 12), (1, 17)];
    let seqs = all_seqs(&alpha, l);
    let mut pars: Vec<(usize, Option<usize>)> = (0..=l + 1).map(|p| (2usize, Some(p))).collect();
    pars.push((2, None));
    let mut n = 0u64;
    for s in &seqs {
        let krows: Vec<KRow> = s.iter().enumerate().map(|(j, (k, t))| (*k, *t, (j as i64) % 2)).collect();
        for &(size, off) in &[(5u64, 0u64), (5, 2), (10, 7), (5, 25)] {
            wgroup_all_modes(cx, &mut pools, &krows, size, off, &pars);
            n += 1;
        }
    }
    cx.exhaustive_blocks.push(format!("WGROUP: all keyed event sequences of length <= {l} over 5 (key,ts) symbols x (size,off) in {{(5,0),(5,2),(10,7),(5,25)}} x seq + partitions Some(0)..=Some({}) and None ({n} inputs, 4 ops each)", l + 1));

    // ---------------- (3) random
    let rounds = cx.budget(60_000, 1_500_000);
    for _ in 0..rounds {
        let (ts, size, off, tag) = gen_tumble(cx);
        one_tumble(cx, ts, size, off, tag);
    }
    let rounds = cx.budget(12_000, 250_000);
    for _ in 0..rounds {
        let (ts, size, off, _) = gen_tumble(cx);
        one_tumble_variants(cx, ts, size, off);
    }
    let rounds = cx.budget(2000, 40_000);
    for _ in 0..rounds {
        let a = (cx.rng.next_u64() >> cx.rng.below(64), cx.rng.next_u64() >> cx.rng.below(64));
        let b = match cx.rng.below(4) { 0 => a, 1 => (a.0, cx.rng.next_u64() >> cx.rng.below(64)), 2 => (cx.rng.next_u64() >> cx.rng.below(64), a.1), _ => (a.1, a.0) };
        one_wcmp(cx, a, b);
    }
    let rounds = cx.budget(1200, 20_000);
    for _ in 0..rounds {
        let (krows, size, off) = gen_events(cx);
        let len = krows.len();
        let mut cand = vec![Some(1usize), Some(2), Some(3), Some(len.saturating_sub(1).max(1)), Some(len.max(1)), Some(len + 1), Some(7), Some(64), Some(0), None];
        let np = cx.budget(2, 3);
        let mut pars = vec![];
        for _ in 0..np {
            let j = cx.rng.below(cand.len());
            let p = cand.remove(j);
            let t = *cx.rng.pick(&[1usize, 2, 4, 8]);
            pars.push((t, p));
        }
        wgroup_all_modes(cx, &mut pools, &krows, size, off, &pars);
    }
}

fn gen_tumble(cx: &mut Ctx) -> (u64, u64, u64, &'static str) {
    const MAX: u64 = u64::MAX;
    let small = |cx: &mut Ctx| -> u64 {
        match cx.rng.below(4) { 0 => 1 + cx.rng.below(16) as u64, 1 => 1 + cx.rng.below(100_000) as u64, 2 => 1 + (cx.rng.next_u64() >> 32), _ => 1 + cx.rng.next_u64() % 1000 }
    };
    match cx.rng.below(10) {
        0 => (cx.rng.next_u64(), cx.rng.next_u64(), cx.rng.next_u64(), "rand64"),
        1 => { // realistic: epoch millis, second/minute windows, small offsets
            let size = *cx.rng.pick(&[1_000u64, 10_000, 60_000, 3_600_000, 86_400_000]);
            let ts = 1_600_000_000_000 + cx.rng.next_u64() % 200_000_000_000;
            let off = match cx.rng.below(3) { 0 => 0, 1 => cx.rng.next_u64() % size, _ => cx.rng.next_u64() % (4 * size) };
            (ts, size, off, "epoch")
        }
        2 => { // ts on a window boundary ±1, sizes and phases of every magnitude; ~10 % on the LOWEST boundary (k = 0):
               // ts = off % size − 1 has no window (start would be negative), ts = off % size is the first instant that has one
            let size = match cx.rng.below(3) { 0 => small(cx), 1 => (cx.rng.next_u64() >> cx.rng.below(63)).max(2), _ => (cx.rng.next_u64() >> cx.rng.below(8)).max(2) };
            let off = match cx.rng.below(3) { 0 => cx.rng.next_u64() % size, 1 => cx.rng.next_u64(), _ => cx.rng.next_u64() % size.saturating_mul(3) };
            let kmax = ((MAX - off % size) / size).min(1_000_000);
            let k = if cx.rng.chance(1, 10) { 0 } else if cx.rng.chance(1, 10) { kmax } else { cx.rng.next_u64() % (kmax + 1) };
            let b = off % size + k * size; // ≤ MAX by the choice of kmax
            let ts = match cx.rng.below(3) { 0 => b.wrapping_sub(1), 1 => b, _ => b.wrapping_add(1) };
            if k == 0 {
                cx.count("tumble:boundary:k=0");
                if off % size >= 1 << 32 {
                    cx.count(if ts == b { "tumble:boundary:k=0:64bit:ts=phase" } else if ts == b.wrapping_sub(1) { "tumble:boundary:k=0:64bit:ts=phase-1" } else { "tumble:boundary:k=0:64bit:ts=phase+1" });
                }
            }
            (ts, size, off, "boundary")
        }
        3 => { // ts below the offset
            let size = small(cx);
            let off = cx.rng.next_u64() % (MAX / 2) + 1;
            let ts = cx.rng.next_u64() % off;
            (ts, size, off, "ts<off")
        }
        4 => { // ts below the offset, small numbers
            let size = 1 + cx.rng.below(20) as u64;
            let off = cx.rng.below(100) as u64;
            let ts = cx.rng.below(100) as u64;
            (ts, size, off, "small")
        }
        5 => { // ts near 2^64 - size
            let size = small(cx);
            let d = cx.rng.next_u64() % (2 * size + 3);
            let ts = (MAX - size).wrapping_add(d).wrapping_sub(size / 2);
            let off = match cx.rng.below(3) { 0 => 0, 1 => cx.rng.next_u64() % size, _ => cx.rng.next_u64() };
            (ts, size, off, "near-max")
        }
        6 => { // huge sizes
            let size = MAX - cx.rng.next_u64() % 1000;
            (cx.rng.next_u64(), size, cx.rng.next_u64() % 2000, "huge-size")
        }
        7 => { // offset ≥ size, multiple of size and not
            let size = small(cx);
            let off = size.wrapping_mul(1 + cx.rng.next_u64() % 50).wrapping_add(if cx.rng.chance(1, 2) { 0 } else { cx.rng.next_u64() % size });
            (cx.rng.next_u64() >> cx.rng.below(50), size, off, "off>=size")
        }
        8 => { // size 0 / 1
            let size = cx.rng.below(2) as u64;
            (cx.rng.next_u64() >> cx.rng.below(64), size, cx.rng.next_u64() >> cx.rng.below(64), "size01")
        }
        _ => { // mixed magnitudes
            let a = cx.rng.next_u64() >> cx.rng.below(64);
            let b = (cx.rng.next_u64() >> cx.rng.below(64)).max(1);
            let c = cx.rng.next_u64() >> cx.rng.below(64);
            (a, b, c, "mixed")
        }
    }
}

fn gen_events(cx: &mut Ctx) -> (Vec<KRow>, u64, u64) {
    const MAX: u64 = u64::MAX;
    let len = match cx.rng.below(8) { 0 => 0, 1 => 1, 2 => 2, 3 | 4 => 3 + cx.rng.below(8), _ => 8 + cx.rng.below(40) };
    // 1 in 8: a huge window size (2^40 .. 2^63): few windows fit below 2^64, the phase is a 64-bit number
    let huge = cx.rng.chance(1, 8);
    let size: u64 = if huge { ((1u64 << 63) >> cx.rng.below(24)) + cx.rng.next_u64() % (1 << 40) }
        else { match cx.rng.below(5) { 0 => 1, 1 => 1 + cx.rng.below(12) as u64, 2 => 10, 3 => 1_000 * (1 + cx.rng.below(60) as u64), _ => 1 + cx.rng.next_u64() % 1_000_000 } };
    let off: u64 = match cx.rng.below(5) { 0 => 0, 1 => cx.rng.next_u64() % size, 2 => size.saturating_mul(1 + cx.rng.below(4) as u64).saturating_add(cx.rng.next_u64() % size), 3 => cx.rng.next_u64() % size.saturating_mul(20), _ => size };
    // base so that most event sets are fully representable; a minority has an event below off % size
    // or close to 2^64 (those runs must panic, in every mode)
    let fit = (MAX - off % size) / size; // number of whole windows between the phase and 2^64 - 1 (≥ 1 for huge sizes ≤ 2^63)
    let (base, span) = match cx.rng.below(12) {
        0 => (0u64, size.saturating_mul(3)),                       // may include ts < off % size
        1 => (MAX.saturating_sub(size.saturating_mul(4)), size.saturating_mul(4)), // may include unrepresentable ends
        2 => (off.saturating_sub(size.saturating_mul(2)), size.saturating_mul(5)), // around the offset, ts < off
        3 => (off % size, size.saturating_mul(6)),
        _ => {
            let k = cx.rng.next_u64() % fit.clamp(1, 1_000_000);
            let w = (1 + cx.rng.below(6) as u64).min((fit - k).max(1));
            (off % size + size * k, size.saturating_mul(w).min(MAX - (off % size + size * k)).saturating_sub(1))
        }
    };
    let nkeys = 1 + cx.rng.below(4) as i64;
    let skew = cx.rng.chance(1, 3);
    let mut rows = Vec::with_capacity(len);
    for j in 0..len {
        let ts = match cx.rng.below(6) {
            0 => base.saturating_add((cx.rng.next_u64() % (span / size + 1)).saturating_mul(size)), // on a boundary
            1 => base.saturating_add((cx.rng.next_u64() % (span / size + 1)).saturating_mul(size)).saturating_sub(1),
            _ => base.saturating_add(match span.checked_add(1) { Some(m) => cx.rng.next_u64() % m, None => cx.rng.next_u64() }),
        };
        let key = if skew && cx.rng.chance(3, 4) { 0 } else { cx.rng.range(0, nkeys - 1) };
        // values: few distinct (duplicates matter for "none lost or duplicated"), sometimes unique tags
        let val = if cx.rng.chance(1, 2) { cx.rng.range(-2, 2) } else { j as i64 };
        rows.push((key, ts, val));
    }
    (rows, size, off)
}
