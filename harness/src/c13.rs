//! C13 — tumbling windows partition event time; window grouping loses nothing.
//!
//! Requests
//!   `TUMBLE <ts> <size> <off>`                      answer: `W <start> <end>` | `PANIC`
//!   `WGROUP <op> <size> <off> <mode> <src> <rows>`  answer: `OK <rows>` | `PANIC`
//!       op   : kbw  (unkeyed key_by_window)         rows in : `ts:val,…`            out: `start-end:val,…` (input order)
//!              gbw  (group_by_window)               rows in : `ts:val,…`            out: `start-end:v.v.v,…` (groups and contents sorted)
//!              kkbw (keyed key_by_window)           rows in : `key:ts:val,…`        out: `key@start-end:val,…` (input order)
//!              gbkw (group_by_key_and_window)       rows in : `key:ts:val,…`        out: `key@start-end:v.v,…` (sorted)
//!       mode : `seq` | `par:<threads>:<partitions>`
//!       src  : how the timestamped collection is built (helpers/timestamped.rs): `d` from_vec of Timestamped,
//!              `t` from_vec of (ts,val) + to_timestamped(), `a` from_vec of (ts,val) + attach_timestamps(|r| r.0)
//!              (keyed ops: always `d`)
//!       empty row list = `-`
//!   `WCMP <s1> <e1> <s2> <e2>`                      answer: `<a==b T|F> <cmp LT|EQ|GT> <a==b → same hash T|F>`
//! The real side runs the REAL `Window::tumble` / REAL pipelines (from_vec → helpers → collect_seq /
//! collect_par) in this overflow-checking build under catch_unwind (panic ↔ model `none`).
//! Oracles (independent of the model, i128 reference arithmetic):
//!   TUMBLE: start ≤ ts < end, end − start = size, (start − off) ≡ 0 mod size; and the call must not panic
//!           when a window with those properties is representable in u64 (size ≥ 1).
//!   WGROUP: every row keeps its value and gets a window with the four properties; groups have distinct
//!           keys, every group holds exactly the multiset of input values whose ts lies in the group's window
//!           (and whose key is the group's key), counts add up to the input length; par result == seq result.

use crate::ctx::{Ctx, guarded};
use ironbeam::{Pipeline, Timestamped, Window, from_vec};
use std::collections::BTreeMap;

type Row = (u64, i64); // (ts, value)
type KRow = (i64, u64, i64); // (key, ts, value)

// ---------------------------------------------------------------- reference (oracle side, i128)

/// the unique window `[s, s+size)` with `s ≤ ts < s+size`, `s ≡ off (mod size)`, if representable in u64
fn ref_window(ts: u64, size: u64, off: u64) -> Option<(u64, u64)> {
    if size == 0 {
        return None;
    }
    let (t, z, o) = (ts as i128, size as i128, off as i128);
    let s = t - (t - o).rem_euclid(z);
    let e = s + z;
    if s >= 0 && e <= u64::MAX as i128 { Some((s as u64, e as u64)) } else { None }
}

/// the four clauses of the property on one real window
fn window_ok(w: (u64, u64), ts: u64, size: u64, off: u64) -> Result<(), &'static str> {
    let (s, e) = w;
    if !(s <= ts) { return Err("start>ts"); }
    if !(ts < e) { return Err("ts>=end"); }
    if e < s || e - s != size { return Err("length!=size"); }
    if size == 0 || (s as i128 - off as i128).rem_euclid(size as i128) != 0 { return Err("start-not-aligned"); }
    Ok(())
}

// ---------------------------------------------------------------- TUMBLE

fn one_tumble(cx: &mut Ctx, ts: u64, size: u64, off: u64, tag: &str) {
    let r = guarded(|| Window::tumble(ts, size, off));
    let ans = match &r { Ok(w) => format!("W {} {}", w.start, w.end), Err(_) => "PANIC".to_string() };
    let nt = size >= 1 && r.is_ok();
    let i = cx.case(format!("TUMBLE {ts} {size} {off}"), ans, nt);
    cx.count(&format!("tumble:{tag}:{}", if r.is_ok() { "window" } else { "panic" }));
    if size >= 1 {
        cx.count(if off == 0 { "tumble:off=0" } else if off < size { "tumble:off<size" } else { "tumble:off>=size" });
        if ts < off { cx.count("tumble:ts<off"); }
    } else {
        cx.count("tumble:size=0");
    }
    match r {
        Ok(w) => {
            if let Err(why) = window_ok((w.start, w.end), ts, size, off) {
                cx.oracle_fail(i, &format!("tumble-window-wrong:{why}"),
                    format!("tumble({ts},{size},{off}) = [{},{}) violates {why}; reference {:?}", w.start, w.end, ref_window(ts, size, off)));
            }
        }
        Err(msg) => {
            if let Some((s, e)) = ref_window(ts, size, off) {
                let sig = if ts < off { "tumble-panics-ts-below-offset" } else { "tumble-panics-though-window-representable" };
                cx.oracle_fail(i, sig, format!("tumble({ts},{size},{off}) panicked ({msg}) although [{s},{e}) is the window"));
            }
        }
    }
}

// ---------------------------------------------------------------- WCMP (Eq / Ord / Hash of Window)

fn one_wcmp(cx: &mut Ctx, a: (u64, u64), b: (u64, u64)) {
    use std::hash::{Hash, Hasher};
    let r = guarded(|| {
        let (wa, wb) = (Window { start: a.0, end: a.1 }, Window { start: b.0, end: b.1 });
        let h = |w: &Window| { let mut s = std::collections::hash_map::DefaultHasher::new(); w.hash(&mut s); s.finish() };
        (wa == wb, wa.cmp(&wb), wa.partial_cmp(&wb), h(&wa) == h(&wb), wb.cmp(&wa))
    });
    let (eq, c, pc, heq, rc) = match r { Ok(x) => x, Err(_) => { cx.case(format!("WCMP {} {} {} {}", a.0, a.1, b.0, b.1), "PANIC".into(), false); return; } };
    let cs = match c { std::cmp::Ordering::Less => "LT", std::cmp::Ordering::Equal => "EQ", std::cmp::Ordering::Greater => "GT" };
    let t = |x: bool| if x { "T" } else { "F" };
    let i = cx.case(format!("WCMP {} {} {} {}", a.0, a.1, b.0, b.1), format!("{} {} {}", t(eq), cs, t(!eq || heq)), a != b);
    cx.count(&format!("wcmp:{cs}"));
    if eq != (a == b) { cx.oracle_fail(i, "window-eq-not-fieldwise", format!("{a:?} == {b:?} is {eq}")); }
    if c != a.cmp(&b) || pc != Some(c) || rc != c.reverse() { cx.oracle_fail(i, "window-ord-not-lexicographic", format!("{a:?} cmp {b:?} = {c:?}, partial {pc:?}, reverse {rc:?}")); }
    if eq && !heq { cx.oracle_fail(i, "window-hash-inconsistent-with-eq", format!("{a:?} == {b:?} but hashes differ")); }
}

// ---------------------------------------------------------------- WGROUP

#[derive(Clone, Copy, PartialEq, Eq, Debug)]
enum Mode { Seq, Par(usize, usize) }
impl Mode {
    fn enc(&self) -> String { match self { Mode::Seq => "seq".into(), Mode::Par(t, p) => format!("par:{t}:{p}") } }
}

fn enc_rows(rows: &[Row]) -> String {
    if rows.is_empty() { "-".into() } else { rows.iter().map(|(t, v)| format!("{t}:{v}")).collect::<Vec<_>>().join(",") }
}
fn enc_krows(rows: &[KRow]) -> String {
    if rows.is_empty() { "-".into() } else { rows.iter().map(|(k, t, v)| format!("{k}:{t}:{v}")).collect::<Vec<_>>().join(",") }
}
fn join_or_dash(v: Vec<String>) -> String { if v.is_empty() { "-".into() } else { v.join(",") } }
fn dots(vs: &[i64]) -> String { vs.iter().map(|x| x.to_string()).collect::<Vec<_>>().join(".") }

struct Pools { pools: BTreeMap<usize, rayon::ThreadPool> }
impl Pools {
    fn new() -> Self { Pools { pools: BTreeMap::new() } }
    fn get(&mut self, t: usize) -> &rayon::ThreadPool {
        self.pools.entry(t).or_insert_with(|| rayon::ThreadPoolBuilder::new().num_threads(t).build().expect("pool"))
    }
}

/// run `f` sequentially or inside a pool of exactly `threads` workers (rayon's global pool can be
/// sized only once per process, so `collect_par`'s own `threads` argument is honoured only the first time)
fn in_mode<T: Send>(pools: &mut Pools, mode: Mode, f: impl FnOnce() -> T + Send) -> Result<T, String> {
    match mode {
        Mode::Seq => guarded(f),
        Mode::Par(t, _) => { let pool = pools.get(t); guarded(|| pool.install(f)) }
    }
}

type WRow = ((u64, u64), i64);
type WGroup = ((u64, u64), Vec<i64>);
type KWRow = ((i64, (u64, u64)), i64);
type KWGroup = ((i64, (u64, u64)), Vec<i64>);

/// how the `PCollection<Timestamped<_>>` is built: `d`irect `from_vec`, `t` = `(ts, v)` rows through
/// `to_timestamped()`, `a` = `(ts, v)` rows through `attach_timestamps(|r| r.0)` (value stays the whole row)
#[derive(Clone, Copy, PartialEq, Eq, Debug)]
enum Src { D, T, A }
impl Src { fn enc(&self) -> &'static str { match self { Src::D => "d", Src::T => "t", Src::A => "a" } } }

macro_rules! collect_mode {
    ($c:expr, $mode:expr) => {
        match $mode { Mode::Seq => $c.collect_seq(), Mode::Par(t, n) => $c.collect_par(Some(t), Some(n)) }.expect("collect")
    };
}

fn real_kbw(pools: &mut Pools, rows: &[Row], size: u64, off: u64, mode: Mode, src: Src) -> Result<Vec<WRow>, String> {
    let rows = rows.to_vec();
    in_mode(pools, mode, move || {
        let p = Pipeline::default();
        match src {
            Src::D => {
                let data: Vec<Timestamped<i64>> = rows.iter().map(|(t, v)| Timestamped::new(*t, *v)).collect();
                collect_mode!(from_vec(&p, data).key_by_window(size, off), mode).into_iter().map(|(w, v)| ((w.start, w.end), v)).collect()
            }
            Src::T => collect_mode!(from_vec(&p, rows).to_timestamped().key_by_window(size, off), mode)
                .into_iter().map(|(w, v)| ((w.start, w.end), v)).collect(),
            Src::A => collect_mode!(from_vec(&p, rows).attach_timestamps(|r: &Row| r.0).key_by_window(size, off), mode)
                .into_iter().map(|(w, v)| ((w.start, w.end), v.1)).collect(),
        }
    })
}
fn real_gbw(pools: &mut Pools, rows: &[Row], size: u64, off: u64, mode: Mode, src: Src) -> Result<Vec<WGroup>, String> {
    let rows = rows.to_vec();
    in_mode(pools, mode, move || {
        let p = Pipeline::default();
        match src {
            Src::D => {
                let data: Vec<Timestamped<i64>> = rows.iter().map(|(t, v)| Timestamped::new(*t, *v)).collect();
                collect_mode!(from_vec(&p, data).group_by_window(size, off), mode).into_iter().map(|(w, vs)| ((w.start, w.end), vs)).collect()
            }
            Src::T => collect_mode!(from_vec(&p, rows).to_timestamped().group_by_window(size, off), mode)
                .into_iter().map(|(w, vs)| ((w.start, w.end), vs)).collect(),
            Src::A => collect_mode!(from_vec(&p, rows).attach_timestamps(|r: &Row| r.0).group_by_window(size, off), mode)
                .into_iter().map(|(w, vs)| ((w.start, w.end), vs.into_iter().map(|r| r.1).collect())).collect(),
        }
    })
}
fn real_kkbw(pools: &mut Pools, rows: &[KRow], size: u64, off: u64, mode: Mode) -> Result<Vec<KWRow>, String> {
    let data: Vec<(i64, Timestamped<i64>)> = rows.iter().map(|(k, t, v)| (*k, Timestamped::new(*t, *v))).collect();
    in_mode(pools, mode, move || {
        let p = Pipeline::default();
        let c = from_vec(&p, data).key_by_window(size, off);
        let out = match mode { Mode::Seq => c.collect_seq(), Mode::Par(t, n) => c.collect_par(Some(t), Some(n)) };
        out.expect("collect").into_iter().map(|((k, w), v)| ((k, (w.start, w.end)), v)).collect()
    })
}
fn real_gbkw(pools: &mut Pools, rows: &[KRow], size: u64, off: u64, mode: Mode) -> Result<Vec<KWGroup>, String> {
    let data: Vec<(i64, Timestamped<i64>)> = rows.iter().map(|(k, t, v)| (*k, Timestamped::new(*t, *v))).collect();
    in_mode(pools, mode, move || {
        let p = Pipeline::default();
        let c = from_vec(&p, data).group_by_key_and_window(size, off);
        let out = match mode { Mode::Seq => c.collect_seq(), Mode::Par(t, n) => c.collect_par(Some(t), Some(n)) };
        out.expect("collect").into_iter().map(|((k, w), vs)| ((k, (w.start, w.end)), vs)).collect()
    })
}

fn all_representable(ts: impl Iterator<Item = u64>, size: u64, off: u64) -> bool {
    let mut it = ts;
    it.all(|t| ref_window(t, size, off).is_some())
}

fn sorted(mut v: Vec<i64>) -> Vec<i64> { v.sort(); v }

/// unkeyed: key_by_window + group_by_window in `mode`; returns the canonical grouped answer
fn one_unkeyed(cx: &mut Ctx, pools: &mut Pools, rows: &[Row], size: u64, off: u64, mode: Mode, src: Src, seq_ref: Option<&str>) -> String {
    let repr = all_representable(rows.iter().map(|r| r.0), size, off);
    // ---- key_by_window
    let r = real_kbw(pools, rows, size, off, mode, src);
    let ans = match &r {
        Ok(out) => format!("OK {}", join_or_dash(out.iter().map(|((s, e), v)| format!("{s}-{e}:{v}")).collect())),
        Err(_) => "PANIC".into(),
    };
    let i = cx.case(format!("WGROUP kbw {size} {off} {} {} {}", mode.enc(), src.enc(), enc_rows(rows)), ans, rows.len() >= 2 && r.is_ok());
    cx.count(if r.is_ok() { "wgroup:kbw:ok" } else { "wgroup:kbw:panic" });
    match &r {
        Ok(out) => {
            if out.len() != rows.len() {
                cx.oracle_fail(i, "kbw-row-count", format!("{} rows in, {} out", rows.len(), out.len()));
            } else {
                for (j, ((w, v), (t, v0))) in out.iter().zip(rows.iter()).enumerate() {
                    if v != v0 {
                        cx.oracle_fail(i, "kbw-value-changed", format!("row {j}: value {v0} became {v}"));
                        break;
                    }
                    if let Err(why) = window_ok(*w, *t, size, off) {
                        cx.oracle_fail(i, &format!("kbw-window-wrong:{why}"), format!("row {j}: ts {t} got [{},{})", w.0, w.1));
                        break;
                    }
                }
            }
        }
        Err(m) => if repr && size >= 1 {
            cx.oracle_fail(i, "kbw-panics-though-windows-representable", m.clone());
        },
    }
    // ---- group_by_window
    let r = real_gbw(pools, rows, size, off, mode, src);
    cx.count(&format!("wgroup:src={}", src.enc()));
    let ans = match &r {
        Ok(out) => {
            let mut g: Vec<WGroup> = out.iter().map(|(w, vs)| (*w, sorted(vs.clone()))).collect();
            g.sort();
            format!("OK {}", join_or_dash(g.iter().map(|((s, e), vs)| format!("{s}-{e}:{}", dots(vs))).collect()))
        }
        Err(_) => "PANIC".into(),
    };
    let i = cx.case(format!("WGROUP gbw {size} {off} {} {} {}", mode.enc(), src.enc(), enc_rows(rows)), ans.clone(), rows.len() >= 2 && r.is_ok());
    cx.count(if r.is_ok() { "wgroup:gbw:ok" } else { "wgroup:gbw:panic" });
    match &r {
        Ok(out) => {
            let mut seen = std::collections::BTreeSet::new();
            let mut total = 0usize;
            for (w, vs) in out {
                total += vs.len();
                if !seen.insert(*w) {
                    cx.oracle_fail(i, "gbw-duplicate-group", format!("window [{},{}) appears twice", w.0, w.1));
                    break;
                }
                if vs.is_empty() {
                    cx.oracle_fail(i, "gbw-empty-group", format!("window [{},{}) has no element", w.0, w.1));
                    break;
                }
                if w.1 < w.0 || w.1 - w.0 != size || size == 0 || (w.0 as i128 - off as i128).rem_euclid(size as i128) != 0 {
                    cx.oracle_fail(i, "gbw-window-wrong", format!("group window [{},{}) is not offset+k*size long size", w.0, w.1));
                    break;
                }
                let want = sorted(rows.iter().filter(|(t, _)| w.0 <= *t && *t < w.1).map(|x| x.1).collect());
                if sorted(vs.clone()) != want {
                    cx.oracle_fail(i, "gbw-group-content", format!("window [{},{}): got {:?}, elements with ts inside: {:?}", w.0, w.1, sorted(vs.clone()), want));
                    break;
                }
            }
            if total != rows.len() {
                cx.oracle_fail(i, "gbw-lost-or-duplicated", format!("{} elements in, {} in groups", rows.len(), total));
            }
            if let Some(s) = seq_ref {
                if s != ans {
                    cx.oracle_fail(i, "gbw-par-differs-from-seq", format!("seq: {s}  par: {ans}"));
                }
            }
        }
        Err(m) => {
            if repr && size >= 1 {
                cx.oracle_fail(i, "gbw-panics-though-windows-representable", m.clone());
            }
            if let Some(s) = seq_ref {
                if s != ans { cx.oracle_fail(i, "gbw-par-differs-from-seq", format!("seq: {s}  par: {ans}")); }
            }
        }
    }
    ans
}

fn one_keyed(cx: &mut Ctx, pools: &mut Pools, rows: &[KRow], size: u64, off: u64, mode: Mode, seq_ref: Option<&str>) -> String {
    let repr = all_representable(rows.iter().map(|r| r.1), size, off);
    // ---- keyed key_by_window
    let r = real_kkbw(pools, rows, size, off, mode);
    let ans = match &r {
        Ok(out) => format!("OK {}", join_or_dash(out.iter().map(|((k, (s, e)), v)| format!("{k}@{s}-{e}:{v}")).collect())),
        Err(_) => "PANIC".into(),
    };
    let i = cx.case(format!("WGROUP kkbw {size} {off} {} d {}", mode.enc(), enc_krows(rows)), ans, rows.len() >= 2 && r.is_ok());
    cx.count(if r.is_ok() { "wgroup:kkbw:ok" } else { "wgroup:kkbw:panic" });
    match &r {
        Ok(out) => {
            if out.len() != rows.len() {
                cx.oracle_fail(i, "kkbw-row-count", format!("{} rows in, {} out", rows.len(), out.len()));
            } else {
                for (j, (((k, w), v), (k0, t, v0))) in out.iter().zip(rows.iter()).enumerate() {
                    if v != v0 || k != k0 {
                        cx.oracle_fail(i, "kkbw-key-or-value-changed", format!("row {j}: ({k0},{v0}) became ({k},{v})"));
                        break;
                    }
                    if let Err(why) = window_ok(*w, *t, size, off) {
                        cx.oracle_fail(i, &format!("kkbw-window-wrong:{why}"), format!("row {j}: ts {t} got [{},{})", w.0, w.1));
                        break;
                    }
                }
            }
        }
        Err(m) => if repr && size >= 1 {
            cx.oracle_fail(i, "kkbw-panics-though-windows-representable", m.clone());
        },
    }
    // ---- group_by_key_and_window
    let r = real_gbkw(pools, rows, size, off, mode);
    let ans = match &r {
        Ok(out) => {
            let mut g: Vec<KWGroup> = out.iter().map(|(kw, vs)| (*kw, sorted(vs.clone()))).collect();
            g.sort();
            format!("OK {}", join_or_dash(g.iter().map(|((k, (s, e)), vs)| format!("{k}@{s}-{e}:{}", dots(vs))).collect()))
        }
        Err(_) => "PANIC".into(),
    };
    let i = cx.case(format!("WGROUP gbkw {size} {off} {} d {}", mode.enc(), enc_krows(rows)), ans.clone(), rows.len() >= 2 && r.is_ok());
    cx.count(if r.is_ok() { "wgroup:gbkw:ok" } else { "wgroup:gbkw:panic" });
    match &r {
        Ok(out) => {
            let mut seen = std::collections::BTreeSet::new();
            let mut total = 0usize;
            for ((k, w), vs) in out {
                total += vs.len();
                if !seen.insert((*k, *w)) {
                    cx.oracle_fail(i, "gbkw-duplicate-group", format!("key {k} window [{},{}) appears twice", w.0, w.1));
                    break;
                }
                if vs.is_empty() {
                    cx.oracle_fail(i, "gbkw-empty-group", format!("key {k} window [{},{}) has no element", w.0, w.1));
                    break;
                }
                if w.1 < w.0 || w.1 - w.0 != size || size == 0 || (w.0 as i128 - off as i128).rem_euclid(size as i128) != 0 {
                    cx.oracle_fail(i, "gbkw-window-wrong", format!("group window [{},{}) is not offset+k*size long size", w.0, w.1));
                    break;
                }
                let want = sorted(rows.iter().filter(|(k0, t, _)| k0 == k && w.0 <= *t && *t < w.1).map(|x| x.2).collect());
                if sorted(vs.clone()) != want {
                    cx.oracle_fail(i, "gbkw-group-content", format!("key {k} window [{},{}): got {:?}, elements of that key with ts inside: {:?}", w.0, w.1, sorted(vs.clone()), want));
                    break;
                }
            }
            if total != rows.len() {
                cx.oracle_fail(i, "gbkw-lost-or-duplicated", format!("{} elements in, {} in groups", rows.len(), total));
            }
            if let Some(s) = seq_ref {
                if s != ans { cx.oracle_fail(i, "gbkw-par-differs-from-seq", format!("seq: {s}  par: {ans}")); }
            }
        }
        Err(m) => {
            if repr && size >= 1 {
                cx.oracle_fail(i, "gbkw-panics-though-windows-representable", m.clone());
            }
            if let Some(s) = seq_ref {
                if s != ans { cx.oracle_fail(i, "gbkw-par-differs-from-seq", format!("seq: {s}  par: {ans}")); }
            }
        }
    }
    ans
}

/// one input through seq and several (threads, partitions) pairs, unkeyed and keyed
fn wgroup_all_modes(cx: &mut Ctx, pools: &mut Pools, krows: &[KRow], size: u64, off: u64, pars: &[(usize, usize)]) {
    let rows: Vec<Row> = krows.iter().map(|(_, t, v)| (*t, *v)).collect();
    // the way the timestamped collection is built is part of the case (drawn from the one PRNG)
    let src = *cx.rng.pick(&[Src::D, Src::D, Src::T, Src::A]);
    let s_un = one_unkeyed(cx, pools, &rows, size, off, Mode::Seq, src, None);
    let s_k = one_keyed(cx, pools, krows, size, off, Mode::Seq, None);
    for (t, p) in pars {
        one_unkeyed(cx, pools, &rows, size, off, Mode::Par(*t, *p), src, Some(&s_un));
        one_keyed(cx, pools, krows, size, off, Mode::Par(*t, *p), Some(&s_k));
        cx.count(&format!("wgroup:partitions={}", if *p > krows.len() { ">len".to_string() } else if *p == krows.len() { "=len".to_string() } else { if *p >= 9 { "9+".to_string() } else { p.to_string() } }));
        cx.count(&format!("wgroup:threads={t}"));
    }
    cx.count(&format!("wgroup:len={}", match krows.len() { 0 => "0", 1 => "1", 2..=4 => "2-4", 5..=16 => "5-16", _ => ">16" }));
}

fn all_seqs<T: Clone>(alpha: &[T], max_len: usize) -> Vec<Vec<T>> {
    let mut out: Vec<Vec<T>> = vec![vec![]];
    let mut frontier: Vec<Vec<T>> = vec![vec![]];
    for _ in 0..max_len {
        let mut next = vec![];
        for s in &frontier {
            for x in alpha {
                let mut t = s.clone();
                t.push(x.clone());
                next.push(t);
            }
        }
        out.extend(next.iter().cloned());
        frontier = next;
    }
    out
}

pub fn run(cx: &mut Ctx) {
    let mut pools = Pools::new();
    const MAX: u64 = u64::MAX;

    // ---------------- (1) corpus: design witnesses / minimised past failures
    for &(ts, size, off) in &[
        (7u64, 10u64, 25u64), // DESIGN §8 #10: panicked at the pinned commit; [5,15) is the window
        (3, 10, 5),           // no representable window ([-5,5)): stays a panic
        (27, 10, 0), (27, 10, 5), (0, 1, 0), (0, 10, 10), (9, 10, 10), (10, 10, 10), (0, 7, 14),
        (MAX, 1, 0),          // end would be 2^64
        (MAX - 1, 1, 0), (MAX - 10, 10, 5), (MAX - 10, 10, 6), (MAX, MAX, 0), (MAX - 1, MAX, 0), (MAX - 1, MAX, MAX - 1),
        (5, 0, 0), (5, 0, 3), // size 0
        (100, 10, MAX), (MAX - 3, 10, MAX),
    ] {
        one_tumble(cx, ts, size, off, "corpus");
    }
    wgroup_all_modes(cx, &mut pools, &[(1, 7, 70), (1, 27, 71), (2, 12, 72), (1, 8, 73)], 10, 25, &[(2, 2), (2, 4)]);
    wgroup_all_modes(cx, &mut pools, &[(1, 1_000, 1), (1, 9_000, 2), (2, 11_000, 3)], 10_000, 0, &[(2, 2)]);
    wgroup_all_modes(cx, &mut pools, &[(1, 3, 1), (1, 30, 2)], 10, 5, &[(2, 2)]); // first row has no window → PANIC

    // ---------------- (2) small-scope exhaustive
    let (tmax, smax) = (cx.budget(40, 64) as u64, cx.budget(12, 16) as u64);
    let mut n = 0u64;
    for size in 1..=smax {
        for off in 0..=tmax {
            for ts in 0..=tmax {
                one_tumble(cx, ts, size, off, "exh");
                n += 1;
            }
        }
    }
    cx.exhaustive_blocks.push(format!("TUMBLE: all ts, off in 0..={tmax}, size in 1..={smax} ({n} triples)"));
    // Window Eq/Ord/Hash: all pairs of windows over 4 field values
    let vals = [0u64, 1, 10, MAX];
    let mut n = 0u64;
    for &s1 in &vals { for &e1 in &vals { for &s2 in &vals { for &e2 in &vals {
        one_wcmp(cx, (s1, e1), (s2, e2));
        n += 1;
    } } } }
    cx.exhaustive_blocks.push(format!("WCMP: all pairs of windows with start,end in {{0,1,10,2^64-1}} ({n} pairs)"));
    // boundaries near 2^64: all (ts, size, off) with ts in MAX-2s-2..=MAX, size 1..=6, off in {0..=s+1, MAX-s-1..=MAX}
    let mut n = 0u64;
    for size in 0..=6u64 {
        let mut offs: Vec<u64> = (0..=size + 1).collect();
        offs.extend(MAX - size - 1..=MAX);
        for &off in &offs {
            for ts in MAX - 2 * size - 2..=MAX {
                one_tumble(cx, ts, size, off, "exh-top");
                n += 1;
            }
        }
    }
    cx.exhaustive_blocks.push(format!("TUMBLE: all ts in 2^64-2*size-3..2^64, size in 0..=6, off in 0..=size+1 and 2^64-size-2..2^64 ({n} triples)"));
    // WGROUP: all keyed row sequences of length <= L over keys {0,1} × ts {3,7,12,17} (value = position tag),
    // size 5/10, off in {0, 2, 7, 25}, seq + partitions 1..=L+1
    let l = cx.budget(3, 4);
    let alpha: Vec<(i64, u64)> = vec![(0, 3), (0, 7), (1, 7), (0, 12), (1, 17)];
    let seqs = all_seqs(&alpha, l);
    let pars: Vec<(usize, usize)> = (1..=l + 1).map(|p| (2usize, p)).collect();
    let mut n = 0u64;
    for s in &seqs {
        let krows: Vec<KRow> = s.iter().enumerate().map(|(j, (k, t))| (*k, *t, (j as i64) % 2)).collect();
        for &(size, off) in &[(5u64, 0u64), (5, 2), (10, 7), (5, 25)] {
            wgroup_all_modes(cx, &mut pools, &krows, size, off, &pars);
            n += 1;
        }
    }
    cx.exhaustive_blocks.push(format!("WGROUP: all keyed event sequences of length <= {l} over 5 (key,ts) symbols x (size,off) in {{(5,0),(5,2),(10,7),(5,25)}} x seq + partitions 1..={} ({n} inputs, 4 ops each)", l + 1));

    // ---------------- (3) random
    let rounds = cx.budget(60_000, 1_500_000);
    for _ in 0..rounds {
        let (ts, size, off, tag) = gen_tumble(cx);
        one_tumble(cx, ts, size, off, tag);
    }
    let rounds = cx.budget(2000, 40_000);
    for _ in 0..rounds {
        let a = (cx.rng.next_u64() >> cx.rng.below(64), cx.rng.next_u64() >> cx.rng.below(64));
        let b = match cx.rng.below(4) { 0 => a, 1 => (a.0, cx.rng.next_u64() >> cx.rng.below(64)), 2 => (cx.rng.next_u64() >> cx.rng.below(64), a.1), _ => (a.1, a.0) };
        one_wcmp(cx, a, b);
    }
    let rounds = cx.budget(1200, 20_000);
    for _ in 0..rounds {
        let (krows, size, off) = gen_events(cx);
        let len = krows.len();
        let mut cand = vec![1usize, 2, 3, len.saturating_sub(1).max(1), len.max(1), len + 1, 7, 64];
        let np = cx.budget(2, 3);
        let mut pars = vec![];
        for _ in 0..np {
            let j = cx.rng.below(cand.len());
            let p = cand.remove(j);
            let t = *cx.rng.pick(&[1usize, 2, 4, 8]);
            pars.push((t, p));
        }
        wgroup_all_modes(cx, &mut pools, &krows, size, off, &pars);
    }
}

fn gen_tumble(cx: &mut Ctx) -> (u64, u64, u64, &'static str) {
    const MAX: u64 = u64::MAX;
    let small = |cx: &mut Ctx| -> u64 {
        match cx.rng.below(4) { 0 => 1 + cx.rng.below(16) as u64, 1 => 1 + cx.rng.below(100_000) as u64, 2 => 1 + (cx.rng.next_u64() >> 32), _ => 1 + cx.rng.next_u64() % 1000 }
    };
    match cx.rng.below(10) {
        0 => (cx.rng.next_u64(), cx.rng.next_u64(), cx.rng.next_u64(), "rand64"),
        1 => { // realistic: epoch millis, second/minute windows, small offsets
            let size = *cx.rng.pick(&[1_000u64, 10_000, 60_000, 3_600_000, 86_400_000]);
            let ts = 1_600_000_000_000 + cx.rng.next_u64() % 200_000_000_000;
            let off = match cx.rng.below(3) { 0 => 0, 1 => cx.rng.next_u64() % size, _ => cx.rng.next_u64() % (4 * size) };
            (ts, size, off, "epoch")
        }
        2 => { // ts on a window boundary ±1
            let size = small(cx);
            let off = cx.rng.next_u64() % (3 * size);
            let k = cx.rng.next_u64() % 1_000_000;
            let b = (off % size).wrapping_add(k.wrapping_mul(size));
            let ts = match cx.rng.below(3) { 0 => b.wrapping_sub(1), 1 => b, _ => b.wrapping_add(1) };
            (ts, size, off, "boundary")
        }
        3 => { // ts below the offset
            let size = small(cx);
            let off = cx.rng.next_u64() % (MAX / 2) + 1;
            let ts = cx.rng.next_u64() % off;
            (ts, size, off, "ts<off")
        }
        4 => { // ts below the offset, small numbers
            let size = 1 + cx.rng.below(20) as u64;
            let off = cx.rng.below(100) as u64;
            let ts = cx.rng.below(100) as u64;
            (ts, size, off, "small")
        }
        5 => { // ts near 2^64 - size
            let size = small(cx);
            let d = cx.rng.next_u64() % (2 * size + 3);
            let ts = (MAX - size).wrapping_add(d).wrapping_sub(size / 2);
            let off = match cx.rng.below(3) { 0 => 0, 1 => cx.rng.next_u64() % size, _ => cx.rng.next_u64() };
            (ts, size, off, "near-max")
        }
        6 => { // huge sizes
            let size = MAX - cx.rng.next_u64() % 1000;
            (cx.rng.next_u64(), size, cx.rng.next_u64() % 2000, "huge-size")
        }
        7 => { // offset ≥ size, multiple of size and not
            let size = small(cx);
            let off = size.wrapping_mul(1 + cx.rng.next_u64() % 50).wrapping_add(if cx.rng.chance(1, 2) { 0 } else { cx.rng.next_u64() % size });
            (cx.rng.next_u64() >> cx.rng.below(50), size, off, "off>=size")
        }
        8 => { // size 0 / 1
            let size = cx.rng.below(2) as u64;
            (cx.rng.next_u64() >> cx.rng.below(64), size, cx.rng.next_u64() >> cx.rng.below(64), "size01")
        }
        _ => { // mixed magnitudes
            let a = cx.rng.next_u64() >> cx.rng.below(64);
            let b = (cx.rng.next_u64() >> cx.rng.below(64)).max(1);
            let c = cx.rng.next_u64() >> cx.rng.below(64);
            (a, b, c, "mixed")
        }
    }
}

fn gen_events(cx: &mut Ctx) -> (Vec<KRow>, u64, u64) {
    const MAX: u64 = u64::MAX;
    let len = match cx.rng.below(8) { 0 => 0, 1 => 1, 2 => 2, 3 | 4 => 3 + cx.rng.below(8), _ => 8 + cx.rng.below(40) };
    let size: u64 = match cx.rng.below(5) { 0 => 1, 1 => 1 + cx.rng.below(12) as u64, 2 => 10, 3 => 1_000 * (1 + cx.rng.below(60) as u64), _ => 1 + cx.rng.next_u64() % 1_000_000 };
    let off: u64 = match cx.rng.below(5) { 0 => 0, 1 => cx.rng.next_u64() % size, 2 => size * (1 + cx.rng.below(4) as u64) + cx.rng.next_u64() % size, 3 => cx.rng.next_u64() % (20 * size), _ => size };
    // base so that most event sets are fully representable; a minority has an event below off % size
    // or close to 2^64 (those runs must panic, in every mode)
    let (base, span) = match cx.rng.below(12) {
        0 => (0u64, 3 * size),                       // may include ts < off % size
        1 => (MAX - 4 * size, 4 * size),             // may include unrepresentable ends
        2 => (off.saturating_sub(2 * size), 5 * size), // around the offset, ts < off
        3 => (off % size, 6 * size),
        _ => (off % size + size * (cx.rng.next_u64() % 1_000_000), size * (1 + cx.rng.below(6) as u64)),
    };
    let nkeys = 1 + cx.rng.below(4) as i64;
    let skew = cx.rng.chance(1, 3);
    let mut rows = Vec::with_capacity(len);
    for j in 0..len {
        let ts = match cx.rng.below(6) {
            0 => base.saturating_add((cx.rng.next_u64() % (span / size + 1)).saturating_mul(size)), // on a boundary
            1 => base.saturating_add((cx.rng.next_u64() % (span / size + 1)).saturating_mul(size)).saturating_sub(1),
            _ => base.saturating_add(cx.rng.next_u64() % (span + 1)),
        };
        let key = if skew && cx.rng.chance(3, 4) { 0 } else { cx.rng.range(0, nkeys - 1) };
        // values: few distinct (duplicates matter for "none lost or duplicated"), sometimes unique tags
        let val = if cx.rng.chance(1, 2) { cx.rng.range(-2, 2) } else { j as i64 };
        rows.push((key, ts, val));
    }
    (rows, size, off)
}
