// C13: `chkwin` runs the SAME build script as `relwin` (see ../relwin/build.rs for what it does and why).
// It is a file of its own inside this package so that cargo tracks and re-runs it like any package-local build script.
include!("../relwin/build.rs");
