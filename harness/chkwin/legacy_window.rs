// C13 — VENDORED pre-fix text of `Window::tumble` / `div_floor` (ironbeam `src/window.rs`).
//
// Origin: `src/window.rs` at commit dfa2e3374cfa6db307375ce4bb9124d56587c38e, the PARENT of
//         a2578065dcd100b4db8532cfd74bd22b5167294e ("fix: Window::tumble reduces the offset modulo the size
//         before subtracting"); sha256 of that whole file: 3ca36f334ee72ce3b54e5679d38393419ea72c74f83345201244f2f3ed80365e.
//         The block between the BEGIN/END markers is lines 50-112 of that file, byte for byte (`impl Window
//         { new, tumble }` and `div_floor`); the three declarations above it replace the file's header
//         (`use serde…`, the `TimestampMs` alias, the `Window` struct with its serde derives) so that the text
//         compiles with `std` only.
// Use:    `relwin/build.rs` copies this file into OUT_DIR; `relwin` compiles it with release arithmetic
//         (`TUMBLE-LEGACY-WRAP` <-> Lean `Legacy.tumbleWrapping`), `chkwin` with overflow checks and debug
//         assertions (`TUMBLE-LEGACY` <-> Lean `Legacy.tumble`). No `git` is needed at build time.
//         Never edit the block; if this file is missing or does not compile, `LEGACY_AVAILABLE` is false and
//         harness/src/c13.rs reports the `Legacy.*` theorems as NOT VALIDATED (note + counter), loudly.
pub type TimestampMs = u64;
#[derive(Copy, Clone, Debug, Eq, PartialEq)]
pub struct Window {
    pub start: TimestampMs,
    pub end: TimestampMs,
}
// ---- BEGIN verbatim dfa2e3374cfa:src/window.rs lines 50-112
impl Window {
    /// Construct a window `[start, end)`. Panics in debug builds if `end < start`.
    #[inline]
    #[must_use]
    pub fn new(start: TimestampMs, end: TimestampMs) -> Self {
        debug_assert!(end >= start);
        Self { start, end }
    }

    /// Compute the **tumbling** window for a timestamp.
    ///
    /// The returned window has length `size_ms` and is aligned so that all window starts
    /// are of the form `offset_ms + k * size_ms` for integer `k`.
    ///
    /// # Parameters
    /// - `ts`: the event-time timestamp (milliseconds since epoch)
    /// - `size_ms`: the window size in milliseconds (must be > 0)
    /// - `offset_ms`: the alignment offset in milliseconds
    ///
    /// # Returns
    /// The window `[win_start, win_start + size_ms)` that contains `ts`.
    ///
    /// # Example
    /// ```no_run
    /// use ironbeam::window::{Window, TimestampMs};
    /// let w = Window::tumble(27, 10, 0);
    /// assert_eq!(w.start, 20);
    /// assert_eq!(w.end, 30);
    ///
    /// let w2 = Window::tumble(27, 10, 5);
    /// assert_eq!(w2.start, 25);
    /// assert_eq!(w2.end, 35);
    /// ```
    #[inline]
    #[must_use]
    pub fn tumble(ts: TimestampMs, size_ms: u64, offset_ms: u64) -> Self {
        debug_assert!(size_ms > 0);
        // Position relative to the offset; windows start at offset + k*size.
        let rel = ts - offset_ms;
        // For u64, floor division equals integer division.
        let k = div_floor(rel, size_ms);
        let win_start = k * size_ms + offset_ms;
        Self {
            start: win_start,
            end: win_start + size_ms,
        }
    }
}

/// Floor division helper for `u64`.
///
/// For unsigned integers this is just integer division; this function exists
/// for readability and symmetry with potential signed variants.
#[inline]
const fn div_floor(a: u64, b: u64) -> u64 {
    let q = a / b;
    let r = a % b;
    if (r != 0) && ((r > 0) != (b > 0)) {
        q - 1
    } else {
        q
    }
}
// ---- END verbatim
