import IbModel.Util.Wire
import IbModel.Driver.Main
