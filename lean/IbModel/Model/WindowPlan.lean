import IbModel.Model.Window
import IbModel.Model.Planner
import IbModel.Model.Program
/-!
# The windowing helpers as PLANS of the shared engine model (C13 ↔ C01–C08)

`Val` encodings of windows / events, the two `key_by_window` closures as `Val → Val` closures, and the node chains
the builders insert for the windowing pipelines the C13 harness runs (`builderChain`).  `Proofs/WindowEngine.lean`
proves that `execSeq` / `execPar` on `optimise (mapGbkChain …)` compute `Window.groupPipeline`; the driver request
`WPLAN` compares `(optimise (builderChain op src)).map Node.kind` with the node kinds of the chain the REAL runner
receives for the same pipeline (hook `verif_hooks::on_plan`), so the plan shape the theorems are about is checked
against the real builders + planner on every run.
-/
namespace IB.Window
open IB

/-! ## instances: the two window closures as `Val` closures -/

def encW (w : Window) : Val := .pair (.int w.start) (.int w.stop)
/-- a `Timestamped<i64>` element -/
def encEv (ev : Timestamped Int) : Val := .pair (.int ev.ts) (.int ev.value)
/-- a `(i64, Timestamped<i64>)` row -/
def encKEv (kv : Int × Timestamped Int) : Val := .pair (.int kv.1) (encEv kv.2)
def encKW (kw : Int × Window) : Val := .pair (.int kw.1) (encW kw.2)

/-- closure of unkeyed `key_by_window` on `Val`s (`err` where the Rust closure panics) -/
def windowKeyVal (size off : Nat) : Val → Val
  | .pair (.int t) v =>
    match tumble t.toNat size off with
    | some w => .pair (encW w) v
    | none => .err
  | _ => .err

/-- closure of keyed `key_by_window` on `Val`s -/
def keyWindowKeyVal (size off : Nat) : Val → Val
  | .pair k (.pair (.int t) v) =>
    match tumble t.toNat size off with
    | some w => .pair (.pair k (encW w)) v
    | none => .err
  | _ => .err

/-- the chain the builders insert for `from_vec(xs).map(F).group_by_key()` — e.g. `key_by_window(..)` followed by
    `group_by_key()`: `Source`, `Stateless[MapOp]`, `GroupByKey` -/
def mapGbkChain (F : Val → Val) (src : List Val) : List (Node Part) :=
  [vecSource src, .stateless [mapOp F], gbkNode]

/-- nodes the source builders of the harness append to `from_vec` (each helper is one `Stateless[MapOp]`):
    unkeyed `d` none, `t` `to_timestamped`, `a` `attach_timestamps` + the projecting `map`;
    keyed `d` none, `k` `attach_timestamps` + `key_by` + `map_values` -/
def sourceSteps (keyed : Bool) (src : String) : Option (List (Node Part)) :=
  let attach : Node Part := .stateless [mapOp (fun r => .pair r.key r)]
  if !keyed then
    if src == "d" then some []
    else if src == "t" then some [.stateless [mapOp (fun r => r)]]
    else if src == "a" then some [attach, .stateless [mapOp (fun ev => .pair ev.key ev.value.value)]]
    else none
  else
    if src == "d" then some []
    else if src == "k" then
      some [attach, .stateless [keyByOp (fun ev => ev.value.key)],
            .stateless [mapValuesOp (fun ev => .pair ev.key ev.value.value.value)]]
    else none

/-- nodes the windowing op appends: `key_by_window` = one `map`; `group_by_window` = that + `GroupByKey`;
    `gbwv` + `map_values` + `filter_values`; `gbwl` + `combine_values_lifted(Sum)` -/
def opSteps (size off : Nat) (op : String) : Option (List (Node Part)) :=
  let w : Node Part := .stateless [mapOp (windowKeyVal size off)]
  let kw : Node Part := .stateless [mapOp (keyWindowKeyVal size off)]
  if op == "kbw" then some [w]
  else if op == "gbw" || op == "gbws" then some [w, gbkNode]
  else if op == "gbwv" then
    some [w, gbkNode, .stateless [mapValuesOp (fun vs => vs)], .stateless [filterValuesOp (fun _ => true)]]
  else if op == "gbwl" then some [w, gbkNode, combineValuesLiftedNode (Comb.toCombiner .sum)]
  else if op == "kkbw" then some [kw]
  else if op == "gbkw" then some [kw, gbkNode]
  else none

/-- the literal chain of `from_vec(rows) → source helpers → windowing op` -/
def builderChain (size off : Nat) (op src : String) (rows : List Val) : Option (List (Node Part)) :=
  let keyed := op == "kkbw" || op == "gbkw"
  match sourceSteps keyed src, opSteps size off op with
  | some a, some b => some (vecSource rows :: (a ++ b))
  | _, _ => none

/-- node kinds of the chain the runner executes for that pipeline: the planner model applied to the builders' chain -/
def planKinds (size off : Nat) (op src : String) : Option (List String) :=
  (builderChain size off op src []).map (fun c => (optimise c).map Node.kind)

end IB.Window
