import IbModel.Model.Sketches
/-!
# `Float` (IEEE-754 binary64) instance of the t-digest carrier

`+ - * /` and comparisons of Lean's `Float` are the hardware operations, i.e. the same as Rust's `f64`.
`f64::mul_add` is a *fused* multiply-add; core Lean has none, so it is computed here exactly:
decode the three doubles to dyadic rationals `m·2^e`, form `a·b + c` exactly over `Int`, and round once
(to nearest, ties to even, with gradual underflow and overflow to `±∞`).
Also: exact decimal printing of a double (so that the orchestrator parses back the very same double).
Nothing in this file is the subject of a theorem; it is exercised by every `TDIGEST` request.
-/
namespace IB.Sketches.F

/-- finite double ↦ `(m, e)` with value `m·2^e` (sign in `m`); `none` for NaN/±∞ -/
def decode (x : Float) : Option (Int × Int) :=
  let b := x.toBits
  let neg := (b >>> 63) != 0
  let ex := ((b >>> 52) &&& 0x7FF).toNat
  let fr := (b &&& 0xFFFFFFFFFFFFF).toNat
  if ex == 0x7FF then none
  else
    let (m, e) : Nat × Int := if ex == 0 then (fr, -1074) else (fr + 2 ^ 52, (ex : Int) - 1075)
    some (if neg then -(m : Int) else (m : Int), e)

/-- `|N|·2^e` rounded to the nearest double (ties to even) -/
def roundDyadicNat (M : Nat) (e : Int) : Float :=
  if M == 0 then 0.0 else
  let L : Int := (M.log2 : Int) + 1            -- bit length
  let qe : Int := max (L - 53 + e) (-1074)     -- exponent of one unit in the last place
  if qe ≤ e then
    let mant := M * 2 ^ (e - qe).toNat
    (UInt64.ofNat mant).toFloat.scaleB qe
  else
    let sh := (qe - e).toNat
    let quot := M >>> sh
    let rem := M - (quot <<< sh)
    let halfway := 1 <<< (sh - 1)
    let up := rem > halfway || (rem == halfway && quot % 2 == 1)
    let mant := if up then quot + 1 else quot
    (UInt64.ofNat mant).toFloat.scaleB qe

def roundDyadic (N : Int) (e : Int) : Float :=
  if N < 0 then -(roundDyadicNat N.natAbs e) else roundDyadicNat N.natAbs e

/-- `a.mul_add(b, c)`: one rounding -/
def fma (a b c : Float) : Float :=
  match decode a, decode b, decode c with
  | some (ma, ea), some (mb, eb), some (mc, ec) =>
    let ep := ea + eb
    let e0 := min ep ec
    let n := ma * mb * (2 : Int) ^ (ep - e0).toNat + mc * (2 : Int) ^ (ec - e0).toNat
    if n == 0 then a * b + c   -- exact zero: the sign rule of IEEE addition applies to the exact product
    else roundDyadic n e0
  | some _, some _, none => c                 -- finite·finite + (±∞ | NaN) = c
  | _, _, _ => a * b + c                       -- a non-finite factor: the product is already ±∞/NaN

/-- Rust's `f64::min`/`max`: a NaN operand is ignored -/
def fmin (a b : Float) : Float := if a.isNaN then b else if b.isNaN then a else if a < b then a else b
def fmax (a b : Float) : Float := if a.isNaN then b else if b.isNaN then a else if a < b then b else a

/-- exact decimal expansion of a double (`NaN`, `inf`, `-inf` as Rust prints them) -/
def toDecimal (x : Float) : String :=
  match decode x with
  | none => if x.isNaN then "NaN" else if x < 0.0 then "-inf" else "inf"
  | some (m, e) =>
    let neg := m < 0 || (m == 0 && (x.toBits >>> 63) != 0)
    let M := m.natAbs
    let body :=
      if M == 0 then "0.0"
      else if e ≥ 0 then toString (M * 2 ^ e.toNat) ++ ".0"
      else
        -- strip common factors of two, then M·2^(-k) = M·5^k / 10^k
        let rec strip (fuel : Nat) (M : Nat) (k : Nat) : Nat × Nat :=
          match fuel with
          | 0 => (M, k)
          | fuel + 1 => if k > 0 && M % 2 == 0 then strip fuel (M / 2) (k - 1) else (M, k)
        let (M, k) := strip 1100 M (-e).toNat
        if k == 0 then toString M ++ ".0"
        else
          let digits := toString (M * 5 ^ k)
          let digits := if digits.length ≤ k then String.ofList (List.replicate (k + 1 - digits.length) '0') ++ digits else digits
          let cs := digits.toList
          let ip := cs.take (cs.length - k)
          let fp := cs.drop (cs.length - k)
          String.ofList ip ++ "." ++ String.ofList fp
    if neg then "-" ++ body else body

end IB.Sketches.F

namespace IB.Sketches

instance : NumOps Float where
  zero := 0.0
  one := 1.0
  two := 2.0
  half := 0.5
  eps := Float.ofBits 0x3CB0000000000000   -- 2^-52
  ofNat n := (UInt64.ofNat n).toFloat
  mulAdd := F.fma
  fmin := F.fmin
  fmax := F.fmax
  abs := Float.abs
  isFinite := Float.isFinite

end IB.Sketches
