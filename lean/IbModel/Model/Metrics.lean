/-!
# Model of `src/metrics.rs` at lock granularity, and of the metric calls of `Runner::run_collect` (C16)

`MetricsCollector = Arc<Mutex<MetricsCollectorInner{metrics: HashMap<String, Box<dyn Metric>>, start_time, end_time}>>`;
clones share the inner state. Every public method takes the lock once or twice; **one lock acquisition =
one critical section = one atomic step of the model**. Between two sections of the same call a thread
holds only local values (for the pinned-commit `increment_counter`: the name and the already computed
new count).

* `HashMap` = insertion-ordered association list with unique keys (`insert` replaces in place).
* a `Box<dyn Metric>` is either a `CounterMetric` (what `downcast_ref::<CounterMetric>()` recognises) or
  anything else: a `GaugeMetric` (an `f64` bit pattern + description), a `HistogramMetric` (its recorded
  values + description) or a user metric (its `value()` as an abstract token + description); `value()` and
  `description()` of each kind are modelled (`MetricVal.value`, `MetricVal.description`, `histStats`).
* `Instant::now()` = the value of a monotone clock supplied by the caller (`Nat`); the schedule machine
  uses the step index.
* counts are `Nat` in the schedule machine; the `u64` addition `count + value` is modelled separately by
  `incAtomic64` (overflow: panic inside the critical section with overflow checks on — the call is lost,
  the stored state unchanged — wrap-around without). `Props/C16.lean` proves that under the hypothesis
  `initial + Σ increments < 2^64` no addition of any schedule overflows, so the two coincide; beyond that
  bound the sum law cannot hold for ANY `u64` counter and is out of the property's scope.
* every method takes the lock with `lock().unwrap_or_else(PoisonError::into_inner)` (second `fix:` commit):
  a panic inside a critical section (the overflow above, a user `Metric::value()` that panics during
  `snapshot()`/`to_json()`) does not disable the collector for later calls. At the pinned commit it did
  (`lock().unwrap()`): every later call, including `record_metrics_start` inside `run_collect`, panicked
  (harness case `MPOISON`). The model has no poisoned state, which matches the current code only.

* `toJson` is `to_json()` WITH values: one member per stored metric, then `Map::insert("execution_time_ms", …)`
  when both stamps are present — which REPLACES a user metric of that name (known finding
  `C16-json-exec-time-shadows-user-metric`; `jsonKeys` is its key list, `Props/C16.lean: toJson_keys`).
* user code that runs inside a critical section (`Metric::name()` in `register`, `value()`/`description()` in
  `snapshot`/`to_json`/`print`, `Drop` of a replaced metric) is NOT modelled beyond "it may panic and the
  collector survives" (`MPOISON`); `print` only writes to stdout (one lock acquisition, in `lockSites`).
* `save_to_file` = `to_json` + serde_json's pretty printer + a file write (`saveToFile`; one acquisition,
  through `to_json`).

`incAtomic` is the current `increment_counter` (after the `fix:` commit: read-modify-write under ONE lock);
`Legacy.incSplit` is the pinned-commit code (read under one lock, `drop(inner)`, then `set_counter` under a
second lock).
-/
namespace IB.Metrics

/-- what `json!(u64)` / `json!(usize)` / `json!(f64)` produce (`serde_json` maps a non-finite `f64` to `null`) -/
inductive JNum
  | uint (n : Nat)
  /-- a FINITE `f64`, by its IEEE-754 bit pattern -/
  | float (bits : Nat)
  | null
  deriving DecidableEq, Repr

/-- a JSON value as far as the collector's export tells values apart -/
inductive JVal
  | num (x : JNum)
  /-- an object whose members are numbers (the histogram's statistics), in source order -/
  | obj (fields : List (String × JNum))
  /-- whatever a user `Metric::value()` returned: an abstract token, passed through untouched -/
  | opaque (tok : String)
  deriving DecidableEq, Repr

/-- the built-in non-counter metrics and a user `impl Metric`; `f64`s are bit patterns (`Nat < 2^64`) -/
inductive OtherMetric
  /-- `GaugeMetric{value, description}` -/
  | gauge (bits : Nat) (desc : Option String)
  /-- `HistogramMetric{values, description}` (values in recording order) -/
  | hist (vals : List Nat) (desc : Option String)
  /-- a user metric: its `value()` (abstract token) and `description()` -/
  | user (value : String) (desc : Option String)
  deriving DecidableEq, Repr

/-- what the collector can tell apart about a stored metric: `downcast_ref::<CounterMetric>()` succeeds
    or it does not -/
inductive MetricVal
  | counter (n : Nat)
  | other (m : OtherMetric)
  deriving DecidableEq, Repr

/-- `MetricsCollectorInner` -/
structure Collector where
  metrics : List (String × MetricVal)
  start : Option Nat
  stop : Option Nat
  deriving DecidableEq, Repr

def Collector.empty : Collector := ⟨[], none, none⟩

/-- `HashMap::get` -/
def lookup (k : String) : List (String × MetricVal) → Option MetricVal
  | [] => none
  | (k', v) :: r => if k' = k then some v else lookup k r

/-- `HashMap::insert` (replace the value of an existing key, else add the key) -/
def insert (k : String) (v : MetricVal) : List (String × MetricVal) → List (String × MetricVal)
  | [] => [(k, v)]
  | (k', v') :: r => if k' = k then (k, v) :: r else (k', v') :: insert k v r

/-- the body of one critical section that does `inner.metrics.insert(name, metric)`:
    `register`, `set_counter`, and the write half of `increment_counter` -/
def insertSec (k : String) (m : MetricVal) (c : Collector) : Collector :=
  { c with metrics := insert k m c.metrics }

/-- `set_counter(name, value)`: one critical section -/
def setCounter (k : String) (v : Nat) (c : Collector) : Collector := insertSec k (.counter v) c

/-- `register(metric)`: one critical section -/
def register (k : String) (m : MetricVal) (c : Collector) : Collector := insertSec k m c

/-- `record_start()` / `record_end()`: one critical section each -/
def recordStart (now : Nat) (c : Collector) : Collector := { c with start := some now }
def recordEnd (now : Nat) (c : Collector) : Collector := { c with stop := some now }

/-- `elapsed()`: `Some(end.duration_since(start))` iff both stamps are present. `duration_since`
    saturates at zero, as does `Nat` subtraction. -/
def elapsed (c : Collector) : Option Nat :=
  match c.start, c.stop with
  | some s, some e => some (e - s)
  | _, _ => none

/-- `snapshot()`: name ↦ value of every stored metric -/
def snapshot (c : Collector) : List (String × MetricVal) := c.metrics

def execKey : String := "execution_time_ms"

/-- key set of the object returned by `to_json()`: every stored metric, plus `execution_time_ms`
    when both stamps are present (`Map::insert` replaces an equally named entry). -/
def jsonKeys (c : Collector) : List String :=
  let ks := c.metrics.map Prod.fst
  if c.start.isSome && c.stop.isSome then
    (if ks.contains execKey then ks else ks ++ [execKey])
  else ks

/-- one member of the object returned by `to_json()` -/
inductive JsonEntry
  /-- `{"value": metric.value() [, "description": …]}` of a stored metric -/
  | metric (v : MetricVal)
  /-- `{"value": end.duration_since(start).as_millis(), "description": "Total pipeline execution time in milliseconds"}` -/
  | execTime (d : Nat)
  deriving DecidableEq, Repr

/-- `serde_json::Map::get` -/
def getJ (k : String) : List (String × JsonEntry) → Option JsonEntry
  | [] => none
  | (k', v) :: r => if k' = k then some v else getJ k r

/-- `serde_json::Map::insert` (replaces the value of an equally named member) -/
def putJ (k : String) (v : JsonEntry) : List (String × JsonEntry) → List (String × JsonEntry)
  | [] => [(k, v)]
  | (k', v') :: r => if k' = k then (k, v) :: r else (k', v') :: putJ k v r

/-- `to_json()` with its VALUES: one member per stored metric, then — when both stamps are present —
    `metrics_json.insert("execution_time_ms", …)`, which REPLACES a stored metric of that name
    (src/metrics.rs:266-275: the user's metric `execution_time_ms` disappears from the export). -/
def toJson (c : Collector) : List (String × JsonEntry) :=
  let base := c.metrics.map (fun kv => (kv.1, JsonEntry.metric kv.2))
  match c.start, c.stop with
  | some s, some e => putJ execKey (.execTime (e - s)) base
  | _, _ => base

/-! ### the VALUES of the export: `Metric::value()` / `description()` of every built-in metric kind

`f64`s travel as bit patterns. Whether an `f64` is finite is arithmetic on the bit pattern (`f64Finite`);
the histogram's sort is `f64::total_cmp`, an integer comparison of bit patterns (`totalKey`), so `min`, `max`
and the percentiles are exact `Nat` arithmetic with theorems (sortedness, permutation, ordering of the
percentiles); `sum` and `mean` are computed on Lean's `Float` (IEEE-754 binary64, the same `+` and `/` as
Rust's `f64`), executable and compared with the real code case by case but opaque to proofs.
`Iterator::sum::<f64>()` is a left fold whose start value is the standard library's (0.0 or -0.0 depending
on the toolchain): it is the parameter `sum0`, read from the running code by the harness. -/

/-- exponent field all ones = ±inf / NaN -/
def f64Finite (bits : Nat) : Bool := (bits / 2 ^ 52) % 2048 != 2047

/-- `json!(x)` for `x : f64` -/
def jsonOfF64 (bits : Nat) : JNum := if f64Finite bits then .float bits else .null

def f64OfBits (bits : Nat) : Float := Float.ofBits bits.toUInt64
def bitsOfF64 (x : Float) : Nat := x.toBits.toNat

/-- `f64::total_cmp` as an unsigned key on the bit pattern (`total_cmp` compares the bits as `i64` after
    flipping the magnitude bits of negative numbers): sign bit set ↦ all bits flipped, else the sign bit set.
    So -NaN < -inf < … < -0.0 < +0.0 < … < +inf < +NaN, and two values compare `Equal` iff their bits are equal. -/
def totalKey (bits : Nat) : Nat := if bits ≥ 2 ^ 63 then 2 ^ 64 - 1 - bits else bits + 2 ^ 63

/-- one step of an insertion sort by `total_cmp` -/
def insTotal (x : Nat) : List Nat → List Nat
  | [] => [x]
  | y :: r => if totalKey x < totalKey y then x :: y :: r else y :: insTotal x r

/-- `sorted.sort_by(f64::total_cmp)` (the `fix:` commit; a total order, so every sort gives this list up
    to the position of bit-identical values) -/
def sortTotal (l : List Nat) : List Nat := l.foldl (fun acc x => insTotal x acc) []

/-- pinned-commit comparator `|a, b| a.partial_cmp(b).unwrap_or(Ordering::Equal)`, with `none` = NaN and the
    numbers simplified to integers: NaN compares `Equal` to everything, which is not transitive
    (`Props/C16.lean: legacy_hist_comparator_not_a_total_order`), and `slice::sort_by` may panic on such a
    comparator — with ~20+ recorded values and a NaN among them it did, inside `to_json`/`snapshot`/`print`. -/
def Legacy.cmpOrEqual : Option Int → Option Int → Ordering
  | some a, some b => compare a b
  | _, _ => .eq

/-- `HistogramStats` (floats as bit patterns) -/
structure HistStats where
  count : Nat
  sum : Nat
  mean : Nat
  min : Nat
  max : Nat
  p50 : Nat
  p95 : Nat
  p99 : Nat
  deriving DecidableEq, Repr

/-- the three percentile positions `count / 2`, `count * 95 / 100`, `count * 99 / 100` (`usize` arithmetic) -/
def pctIdx (count : Nat) : Nat × Nat × Nat := (count / 2, count * 95 / 100, count * 99 / 100)

/-- `HistogramMetric::stats()`; the empty histogram is `HistogramStats::default()` (all zero).
    `sum` is `Iterator::sum` (a left fold from `sum0`) over the SORTED values, `mean = sum / count as f64`. -/
def histStats (sum0 : Nat) (vals : List Nat) : HistStats :=
  if vals.isEmpty then ⟨0, 0, 0, 0, 0, 0, 0, 0⟩ else
  let sorted := sortTotal vals
  let count := sorted.length
  let sum := (sorted.map f64OfBits).foldl (· + ·) (f64OfBits sum0)
  let mean := sum / Float.ofNat count
  let ix := pctIdx count
  ⟨count, bitsOfF64 sum, bitsOfF64 mean, sorted.getD 0 0, sorted.getD (count - 1) 0, sorted.getD ix.1 0,
    sorted.getD ix.2.1 0, sorted.getD ix.2.2 0⟩

/-- `HistogramMetric::value()`: the `json!({...})` object, members in source order -/
def histValue (sum0 : Nat) (vals : List Nat) : JVal :=
  let s := histStats sum0 vals
  .obj [("count", .uint s.count), ("sum", jsonOfF64 s.sum), ("mean", jsonOfF64 s.mean),
        ("min", jsonOfF64 s.min), ("max", jsonOfF64 s.max), ("p50", jsonOfF64 s.p50),
        ("p95", jsonOfF64 s.p95), ("p99", jsonOfF64 s.p99)]

/-- `Metric::value()` -/
def MetricVal.value (sum0 : Nat) : MetricVal → JVal
  | .counter n => .num (.uint n)
  | .other (.gauge b _) => .num (jsonOfF64 b)
  | .other (.hist vs _) => histValue sum0 vs
  | .other (.user v _) => .opaque v

/-- `Metric::description()` (`CounterMetric` keeps the trait's default `None`) -/
def MetricVal.description : MetricVal → Option String
  | .counter _ => none
  | .other (.gauge _ d) => d
  | .other (.hist _ d) => d
  | .other (.user _ d) => d

def execDesc : String := "Total pipeline execution time in milliseconds"

/-- the `"value"` member of an exported entry -/
def JsonEntry.value (sum0 : Nat) : JsonEntry → JVal
  | .metric v => v.value sum0
  | .execTime d => .num (.uint d)

/-- the `"description"` member of an exported entry (absent when `None`) -/
def JsonEntry.description : JsonEntry → Option String
  | .metric v => v.description
  | .execTime _ => some execDesc

/-- `save_to_file(path)`: `to_json()`, `to_string_pretty`, written to the file. `ser` is serde_json's
    serialiser (external); its law — a parser reads back what was written — is a theorem hypothesis. -/
def saveToFile {σ : Type} (ser : List (String × JsonEntry) → σ) (c : Collector) : σ := ser (toJson c)

/-- `u64` -/
def u64Bound : Nat := 2 ^ 64

/-- `increment_counter` with the `u64` addition `counter.count + value` made explicit. `checks` = the
    crate is compiled with overflow checks (dev/test profile). On overflow the addition panics INSIDE the
    critical section (`none`: the call is lost, the stored state is unchanged, and — since the second
    `fix:` commit — the collector stays usable); without overflow checks it wraps. Whenever
    `n + v < 2^64` this is `incAtomic` (`incAtomic64_eq_incAtomic`). -/
def incAtomic64 (checks : Bool) (k : String) (v : Nat) (c : Collector) : Option Collector :=
  match lookup k c.metrics with
  | some (.counter n) =>
      if n + v < u64Bound then some (insertSec k (.counter (n + v)) c)
      else if checks then none
      else some (insertSec k (.counter ((n + v) % u64Bound)) c)
  | some (.other _) => some c
  | none => some (insertSec k (.counter v) c)

/-- current `increment_counter(name, value)` — ONE critical section: look the metric up; a counter is
    replaced by a counter with the sum; a metric of another type is left alone; a missing name is
    created with `value`. -/
def incAtomic (k : String) (v : Nat) (c : Collector) : Collector :=
  match lookup k c.metrics with
  | some (.counter n) => insertSec k (.counter (n + v)) c
  | some (.other _) => c
  | none => insertSec k (.counter v) c

/-- pinned-commit `increment_counter`, FIRST critical section: as above, except that for an existing
    counter nothing is written; the lock is dropped and the caller goes on to `set_counter(name, n + v)`
    (returned as the pending write). -/
def Legacy.incSplit (k : String) (v : Nat) (c : Collector) : Collector × Option (String × Nat) :=
  match lookup k c.metrics with
  | some (.counter n) => (c, some (k, n + v))
  | some (.other _) => (c, none)
  | none => (insertSec k (.counter v) c, none)

/-- guard acquisitions of the collector's mutex during ONE call of each public method (sorted by label;
    `increment_counter` in the three states it distinguishes; `register_all` of two metrics is a loop over
    `register`; `save_to_file` locks through `to_json`). Compared on every run with the acquisitions COUNTED
    inside src/metrics.rs by the `verif-hooks` wrapper while each method runs once (`LOCKSITES`). -/
def lockSites : List (String × Nat) :=
  [("elapsed", 1), ("increment_counter/absent", 1), ("increment_counter/counter", 1),
   ("increment_counter/other", 1), ("print", 1), ("record_end", 1), ("record_start", 1), ("register", 1),
   ("register_all/2", 2), ("save_to_file", 1), ("set_counter", 1), ("snapshot", 1), ("to_json", 1)]

/-- which `increment_counter` is linked -/
inductive Impl
  | atomic
  | legacySplit
  deriving DecidableEq, Repr

/-- the implementation in the CURRENT tree (changed together with the `fix:` commit) -/
def currentImpl : Impl := .atomic

/-- public calls on a shared collector -/
inductive Op
  | inc (k : String) (v : Nat)
  | set (k : String) (v : Nat)
  | register (k : String) (m : MetricVal)
  | recordStart
  | recordEnd
  | readElapsed
  | toJson
  | snapshot
  deriving DecidableEq, Repr

/-- sequential specification of one whole call performed at time `now` -/
def applyOp (now : Nat) : Op → Collector → Collector
  | .inc k v, c => incAtomic k v c
  | .set k v, c => setCounter k v c
  | .register k m, c => register k m c
  | .recordStart, c => recordStart now c
  | .recordEnd, c => recordEnd now c
  | .readElapsed, c => c
  | .toJson, c => c
  | .snapshot, c => c

/-- FIRST critical section of a call, and the write the caller still has to perform in a second
    critical section (only the legacy `increment_counter` has one). -/
def firstSection (impl : Impl) (now : Nat) (op : Op) (c : Collector) : Collector × Option (String × Nat) :=
  match impl, op with
  | .legacySplit, .inc k v => Legacy.incSplit k v c
  | _, op => (applyOp now op c, none)

/-- a whole call run without interference: all its sections back to back -/
def runCall (impl : Impl) (now : Nat) (op : Op) (c : Collector) : Collector :=
  match firstSection impl now op c with
  | (c', none) => c'
  | (c', some (k, n)) => setCounter k n c'

/-- a thread: the pending second section of the call in progress, the calls still to make, and
    (ghost) the number of critical sections taken by each call so far, newest first. -/
structure Thread where
  pending : Option (String × Nat)
  todo : List Op
  secs : List Nat
  deriving DecidableEq, Repr

def Thread.ofOps (ops : List Op) : Thread := ⟨none, ops, []⟩

def Thread.finished (t : Thread) : Bool := t.pending.isNone && t.todo.isEmpty

/-- one call as it appears in the history: when its first critical section ran, which thread made it -/
structure Call where
  time : Nat
  tid : Nat
  op : Op
  deriving DecidableEq, Repr

/-- the shared collector, the threads, the clock (= number of scheduler steps so far) and (ghost) the
    calls whose first critical section has run, NEWEST FIRST (`history` = oldest first). -/
structure Sys where
  c : Collector
  ths : List Thread
  clock : Nat
  trace : List Call
  deriving Repr

/-- the calls in the order in which their first critical section ran -/
def Sys.history (s : Sys) : List Call := s.trace.reverse

def Sys.init (c : Collector) (threads : List (List Op)) : Sys := ⟨c, threads.map Thread.ofOps, 0, []⟩

/-- let one thread run one critical section; `none` if it has nothing left to do -/
def stepThread (impl : Impl) (now : Nat) (c : Collector) (t : Thread) :
    Option (Collector × Thread × Option Op) :=
  match t.pending with
  | some (k, n) =>
      some (setCounter k n c,
            { t with pending := none, secs := match t.secs with | [] => [] | s :: r => (s + 1) :: r },
            none)
  | none =>
    match t.todo with
    | [] => none
    | op :: rest =>
      let r := firstSection impl now op c
      some (r.1, { pending := r.2, todo := rest, secs := 1 :: t.secs }, some op)

/-- one entry `i` of a schedule: thread `i` runs its next critical section (no-op when there is no such
    thread or it has finished); the clock ticks. -/
def step (impl : Impl) (s : Sys) (i : Nat) : Sys :=
  match s.ths[i]? with
  | none => { s with clock := s.clock + 1 }
  | some t =>
    match stepThread impl s.clock s.c t with
    | none => { s with clock := s.clock + 1 }
    | some (c', t', call) =>
      { c := c', ths := s.ths.set i t', clock := s.clock + 1,
        trace := match call with
          | some op => ⟨s.clock, i, op⟩ :: s.trace
          | none => s.trace }

/-- a schedule = the list of thread ids in the order in which critical sections run -/
def run (impl : Impl) (sched : List Nat) (s : Sys) : Sys := sched.foldl (step impl) s

/-- every thread has finished -/
def Sys.complete (s : Sys) : Bool := s.ths.all Thread.finished

/-- deterministic drain used by driver and harness when a schedule ends early: thread 0 to completion,
    then thread 1, … (each call has at most two sections). -/
def drainSchedule (s : Sys) : List Nat :=
  (List.range s.ths.length).flatMap (fun i =>
    match s.ths[i]? with
    | some t => List.replicate (2 * t.todo.length + 1) i
    | none => [])

/-- sequential execution: the time-stamped calls made one after the other, each one whole -/
def replay (c0 : Collector) (h : List Call) : Collector :=
  h.foldl (fun c p => applyOp p.time p.op c) c0

/-- names stored in the collector -/
def keysOf (c : Collector) : List String := c.metrics.map Prod.fst

/-- the calls not yet started, thread after thread -/
def todoAll (ths : List Thread) : List Op := (ths.map (·.todo)).flatten

/-- value of a counter (0 when the name is absent or not a counter) -/
def counterVal (k : String) (c : Collector) : Nat :=
  match lookup k c.metrics with
  | some (.counter n) => n
  | _ => 0

/-! ## The metric calls of `Runner::run_collect` (src/runner.rs) and `Pipeline` (src/pipeline.rs)

The pipeline holds `metrics : Option<MetricsCollector>`; `record_metrics_start/end` forward to the
collector if one is attached. `run_collect` = `p.record_metrics_start(); let plan = build_plan(p, t)?;
let result = exec(plan); p.record_metrics_end(); result`. `build_plan` and the engines read the node
graph only (the model gives them the graph `γ`, not the metrics slot). -/

structure Pipe (γ : Type) where
  graph : γ
  metrics : Option Collector

/-- `Pipeline::set_metrics` / `take_metrics` / `get_metrics` -/
def Pipe.setMetrics {γ} (p : Pipe γ) (c : Collector) : Pipe γ := { p with metrics := some c }
def Pipe.takeMetrics {γ} (p : Pipe γ) : Option Collector × Pipe γ := (p.metrics, { p with metrics := none })
def Pipe.getMetrics {γ} (p : Pipe γ) : Option Collector := p.metrics

def Pipe.recordMetricsStart {γ} (now : Nat) (p : Pipe γ) : Pipe γ :=
  { p with metrics := p.metrics.map (recordStart now) }
def Pipe.recordMetricsEnd {γ} (now : Nat) (p : Pipe γ) : Pipe γ :=
  { p with metrics := p.metrics.map (recordEnd now) }

/-- `Runner::run_collect`: `t0`, `t1` are the clock readings at the two stamps. A planning error returns
    through `?` BEFORE `record_metrics_end`; an execution error is returned after it. -/
def runCollect {γ χ ε ρ} (build : γ → Except ε χ) (exec : χ → Except ε ρ) (t0 t1 : Nat) (p : Pipe γ) :
    Except ε ρ × Pipe γ :=
  let p1 := p.recordMetricsStart t0
  match build p1.graph with
  | .error e => (.error e, p1)
  | .ok chain =>
    let r := exec chain
    (r, p1.recordMetricsEnd t1)

/-- the pipeline can be run again: `run_collect` twice in a row (clock readings `t0 ≤ t1 ≤ t2 ≤ t3`) -/
def runCollectTwice {γ χ ε ρ} (build : γ → Except ε χ) (exec : χ → Except ε ρ) (t0 t1 t2 t3 : Nat) (p : Pipe γ) :
    Except ε ρ × Except ε ρ × Pipe γ :=
  let r1 := runCollect build exec t0 t1 p
  let r2 := runCollect build exec t2 t3 r1.2
  (r1.1, r2.1, r2.2)

/-! ## the slot holds a CLONE of the user's handle (`Arc`): one shared cell, seen by both

`Pipe.metrics : Option Collector` above is a VALUE: good for "what does the attached collector look like
after the run", but it cannot say that the handle the USER kept sees the stamps, nor what happens when the
slot is emptied (`take_metrics`) or the user's handle is used WHILE the engine runs. `SharedPipe` models the
one `MetricsCollectorInner` both handles point to, and whether the slot is occupied. `record_metrics_start`
/ `_end` take the pipeline lock, look at the slot and — if occupied — call `record_start` / `record_end`
on the shared cell; the engine runs between them without holding either lock, so other threads (or the
pipeline's own closures) may call anything on the handle or `take_metrics` on the pipeline meanwhile. -/

structure SharedPipe (γ : Type) where
  graph : γ
  /-- `metrics: Option<MetricsCollector>` of the pipeline is `Some(clone of the user's handle)` -/
  attached : Bool
  /-- the one `MetricsCollectorInner` behind the user's handle and the slot's clone -/
  cell : Collector

/-- what another holder of the handle / of the pipeline does while the engine runs -/
inductive MidEvent
  /-- any call on the user's handle -/
  | userOp (op : Op)
  /-- `Pipeline::take_metrics()` -/
  | take
  deriving DecidableEq, Repr

def SharedPipe.stampStart {γ} (now : Nat) (p : SharedPipe γ) : SharedPipe γ :=
  if p.attached then { p with cell := recordStart now p.cell } else p
def SharedPipe.stampEnd {γ} (now : Nat) (p : SharedPipe γ) : SharedPipe γ :=
  if p.attached then { p with cell := recordEnd now p.cell } else p

def SharedPipe.mid {γ} (now : Nat) (p : SharedPipe γ) : MidEvent → SharedPipe γ
  | .userOp op => { p with cell := applyOp now op p.cell }
  | .take => { p with attached := false }

/-- `Runner::run_collect` on the shared cell; `mid` = what happens between the two stamps -/
def runCollectShared {γ χ ε ρ} (build : γ → Except ε χ) (exec : χ → Except ε ρ) (t0 t1 : Nat)
    (mid : List MidEvent) (p : SharedPipe γ) : Except ε ρ × SharedPipe γ :=
  let p1 := p.stampStart t0
  match build p1.graph with
  | .error e => (.error e, p1)
  | .ok chain =>
    let r := exec chain
    let p2 := mid.foldl (SharedPipe.mid t0) p1
    (r, p2.stampEnd t1)

/-- the value view of a shared pipeline -/
def SharedPipe.toPipe {γ} (p : SharedPipe γ) : Pipe γ := ⟨p.graph, if p.attached then some p.cell else none⟩

end IB.Metrics
