import IbModel.Model.Combiners
import IbModel.Model.Sketches
/-!
# The built-in combiners over other element types (C06, round 3)

* `minBy lt` / `maxBy lt`: `Min<T>` / `Max<T>` (src/combiners/basic.rs) for any `T: Ord`, with the code's tie
  rule PER ENTRY POINT: `add_input` and `merge` use a strict comparison and therefore keep the value that is
  already in the accumulator (the FIRST of equal extrema); `Min::build_from_group = iter().min()` keeps the
  first, `Max::build_from_group = iter().max()` keeps the LAST of equal maxima (`Iterator::max_by` returns the
  second argument on `Equal`). Invisible on `i64`, visible on an element type whose `Ord` ignores a field.
* `Tagged` = `(key, tag)` ordered by `key` only — the harness's `struct Tagged { key, tag }`.
* `OrdF64` (src/utils.rs): `cmp = f64::total_cmp`. An element is the bit pattern of the `f64`; `ordKey` is the
  integer `total_cmp` compares (sign-magnitude read as a signed number: `-NaN < -inf < … < -0 < +0 < … < +inf < +NaN`);
  `totalCmpBits` is the bit trick of the standard library, literally.
* floats for `Sum<f64>` / `AverageF64`: `floatOps` = Lean's `Float` (IEEE binary64, the hardware operations the
  Rust code uses: the correspondence check compares BIT PATTERNS), and `FClass` = {finite, +inf, -inf, NaN}
  with the IEEE addition table on classes (`classOps`), over which the classification theorems are stated.
* `kmvComb k`: `KMVApproxDistinctCount::new(k)` (src/combiners/distinct.rs; model in `Model/Sketches.lean`,
  theorems in C15) as a `Combiner`, so that the `COMB` request kind drives it, `build_from_group` included.
-/
namespace IB.Combiners
open IB

/-! ## Min / Max for any ordered element type -/

section MinMax
variable {α : Type} (lt : α → α → Bool)

/-- `Iterator::min` = `reduce(|x, y| match cmp(x, y) { Greater => y, _ => x })`: the first of equal minima -/
def iterMinBy : List α → Option α
  | [] => none
  | x :: xs => some (xs.foldl (fun m y => if lt y m then y else m) x)

/-- `Iterator::max` = `reduce(|x, y| match cmp(x, y) { Greater => x, _ => y })`: the LAST of equal maxima -/
def iterMaxBy : List α → Option α
  | [] => none
  | x :: xs => some (xs.foldl (fun m y => if lt y m then m else y) x)

/-- `Min<T>`: `if v < *cur { *cur = v }`, `if b < *a { *a = b }`, `values.iter().cloned().min()` -/
def minBy : Combiner α (Option α) (Option α) where
  create := none
  add acc v :=
    match acc with
    | some cur => if lt v cur then some v else some cur
    | none => some v
  merge acc other :=
    match other with
    | some b =>
      match acc with
      | some a => if lt b a then some b else some a
      | none => some b
    | none => acc
  finish acc := acc
  build xs := iterMinBy lt xs

/-- `Max<T>`: `if v > *cur { *cur = v }`, `if b > *a { *a = b }`, `values.iter().cloned().max()` -/
def maxBy : Combiner α (Option α) (Option α) where
  create := none
  add acc v :=
    match acc with
    | some cur => if lt cur v then some v else some cur
    | none => some v
  merge acc other :=
    match other with
    | some b =>
      match acc with
      | some a => if lt a b then some b else some a
      | none => some b
    | none => acc
  finish acc := acc
  build xs := iterMaxBy lt xs

/-- `Max` with the trait's DEFAULT `build_from_group` (`LiftableCombiner::build_from_group` in src/collection.rs:
    `create` then `add_input` of every value) — what a combiner that does not override it gets; the harness wraps
    the real `Max<T>` in a combiner without the override to run the trait's default -/
def maxByDefault : Combiner α (Option α) (Option α) :=
  { maxBy lt with build := Combiner.defaultBuild none (maxBy lt).add }

end MinMax

/-- a combiner with its output post-processed (used to state laws "up to the order's equivalence") -/
def _root_.IB.Combiner.mapFinish {V A O O' : Type} (c : Combiner V A O) (f : O → O') : Combiner V A O' where
  create := c.create
  add := c.add
  merge := c.merge
  finish a := f (c.finish a)
  build := c.build

/-! ## `Tagged`: an element type whose `Ord` ignores a field -/

/-- `(key, tag)`; `Ord`, `PartialOrd`, `PartialEq` look at `key` only -/
abbrev Tagged := Int × Nat

def ltKey (a b : Tagged) : Bool := decide (a.1 < b.1)
def leKey (a b : Tagged) : Bool := decide (a.1 ≤ b.1)

/-! ## `OrdF64` -/

def two63 : Nat := 9223372036854775808

/-- the signed integer `f64::total_cmp` compares: non-negative sign ↦ the bits; negative sign ↦ `-1 - magnitude` -/
def ordKey (b : UInt64) : Int :=
  if b.toNat < two63 then (b.toNat : Int) else -1 - ((b.toNat - two63 : Nat) : Int)

def ltF64 (a b : UInt64) : Bool := decide (ordKey a < ordKey b)
def leF64 (a b : UInt64) : Bool := decide (ordKey a ≤ ordKey b)

/-- `total_cmp`, literally: `left ^= (((left >> 63) as u64) >> 1) as i64` on `to_bits() as i64`, then `i64::cmp` -/
def totalCmpKeyBits (b : UInt64) : Int64 :=
  let l : Int64 := b.toInt64
  l ^^^ ((l >>> 63).toUInt64 >>> 1).toInt64

def cmpStr {β : Type} (lt : β → β → Bool) (a b : β) : String :=
  if lt a b then "LT" else if lt b a then "GT" else "EQ"

/-! ## float classes -/

inductive FClass where
  | fin | pinf | ninf | nan
deriving DecidableEq, Repr

/-- the IEEE-754 addition table on classes, for additions of finite values that do not overflow -/
def FClass.add : FClass → FClass → FClass
  | .nan, _ => .nan
  | _, .nan => .nan
  | .pinf, .ninf => .nan
  | .ninf, .pinf => .nan
  | .pinf, _ => .pinf
  | _, .pinf => .pinf
  | .ninf, _ => .ninf
  | _, .ninf => .ninf
  | .fin, .fin => .fin

/-- `x / (n as f64)` for `n > 0` keeps the class -/
def classOps : NumOps FClass := ⟨.fin, FClass.add, fun x _ => x, .fin⟩

/-- the class of the sum of values of these classes, in closed form: NaN iff a NaN or both infinities occur,
    else the infinity that occurs, else finite -/
def sumClass (cs : List FClass) : FClass :=
  if cs.contains .nan || (cs.contains .pinf && cs.contains .ninf) then .nan
  else if cs.contains .pinf then .pinf
  else if cs.contains .ninf then .ninf
  else .fin

def FClass.str : FClass → String
  | .fin => "fin" | .pinf => "+inf" | .ninf => "-inf" | .nan => "nan"

/-- the class of an `f64` bit pattern: exponent all ones and a non-zero mantissa = NaN, zero mantissa = ±inf -/
def clsBits (b : UInt64) : FClass :=
  let m := b.toNat % two63
  if m > 0x7FF0000000000000 then .nan
  else if m = 0x7FF0000000000000 then (if b.toNat < two63 then .pinf else .ninf)
  else .fin

def negZero : Float := Float.ofBits 0x8000000000000000

/-- `f64`: `0.0`, `+`, `x / (n as f64)`, and `-0.0` as the start of `Iterator::sum` -/
def floatOps : NumOps Float := ⟨0.0, (· + ·), fun x n => x / n.toFloat, negZero⟩

def sumF : Combiner Float Float Float := sumG floatOps
def averageF : Combiner Float (Float × Nat) Float := averageG floatOps

/-! ## KMV as a `Combiner` -/

section KMV
open IB.Sketches
variable {α : Type} [BEq α] [LT α] [DecidableLT α]

/-- `KMVApproxDistinctCount::new(k)`: `create`, `add_input` = `try_insert(rank)`, `merge` = `merge_from`,
    `finish`, and the real `build_from_group` (`create` then `try_insert` of every value's rank). The values
    of the model are the ranks. -/
def kmvComb (k : Nat) : Combiner α (KMV α) (KmvOut α) where
  create := KMV.create (kmvK k)
  add := KMV.tryInsert
  merge := KMV.mergeFrom
  finish := KMV.finish
  build xs := xs.foldl KMV.tryInsert (KMV.create (kmvK k))

end KMV

/-- a merge tree over other values -/
def MergeTree.map {V W : Type} (f : V → W) : MergeTree V → MergeTree W
  | .leaf xs => .leaf (xs.map f)
  | .built xs => .built (xs.map f)
  | .node l r => .node (l.map f) (r.map f)
  | .more t xs => .more (t.map f) (xs.map f)

end IB.Combiners
