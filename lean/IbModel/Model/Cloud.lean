import IbModel.Generated.Tables
/-!
# Model of the cloud operation helpers (C18)

Transliteration of `src/io/cloud/utils.rs` (`retry_with_backoff`, `with_timeout`, `batch_in_chunks`,
`paginate`) and of the composition wrappers of `src/helpers/cloud.rs` (`run_with_retry`,
`run_with_timeout_and_retry`, `OperationBuilder::execute`, `CloudIOExecutor::execute`,
`run_batch_operation`, `run_paginated_operation`, `run_cloud_io_batch`, `run_parallel`, `run_with_context`, …).

Conventions
* A Rust `FnMut() -> CloudResult<T>` is a **script**: the list of outcomes the closure produces on
  successive calls. The length of the script is the fuel of the loop; running off its end is reported
  as `none` ("the loop would call the operation again").
* `&mut` counters / recorded side effects (number of calls, delays slept, chunks handed to the
  processor, page numbers requested) are returned values.
* The set of transient (retryable) error kinds is **not** written here: it is
  `IB.Generated.transientKinds`, printed from the running code on every run.
* The wall clock is a `Nat` supplied by the caller (milliseconds): every call of the operation has a
  scripted duration, every back-off sleep lasts its delay. `sleeps` are the values of `delay_ms` at the
  sleep statement (`utils.rs:116-117`: the `on_sleep` hook argument and, on the next line, the argument of
  `Duration::from_millis` handed to `thread::sleep`). That the REAL wait between two attempts is that long
  (never shorter, and not longer beyond scheduling noise) is not a statement about this model; the harness
  measures it on the running code (`harness/src/c18.rs`, gap oracles).

`Legacy.*` is the code as it was at the pinned commit (before the `fix:` commit for chunk size 0).
-/
namespace IB.Cloud

/-! ## error kinds (`traits.rs::ErrorKind`, declaration order = `kind as u8`) -/

inductive Kind
  | authentication | authorization | notFound | alreadyExists | invalidInput
  | network | timeout | serviceUnavailable | rateLimited | internalError | other
  deriving DecidableEq, Repr

def Kind.all : List Kind :=
  [.authentication, .authorization, .notFound, .alreadyExists, .invalidInput,
   .network, .timeout, .serviceUnavailable, .rateLimited, .internalError, .other]

/-- `kind as u8` -/
def Kind.code : Kind → Nat
  | .authentication => 0 | .authorization => 1 | .notFound => 2 | .alreadyExists => 3
  | .invalidInput => 4 | .network => 5 | .timeout => 6 | .serviceUnavailable => 7
  | .rateLimited => 8 | .internalError => 9 | .other => 10

/-- `format!("{kind:?}")` -/
def Kind.name : Kind → String
  | .authentication => "Authentication" | .authorization => "Authorization"
  | .notFound => "NotFound" | .alreadyExists => "AlreadyExists" | .invalidInput => "InvalidInput"
  | .network => "Network" | .timeout => "Timeout" | .serviceUnavailable => "ServiceUnavailable"
  | .rateLimited => "RateLimited" | .internalError => "InternalError" | .other => "Other"

/-- The `matches!(err.kind, …)` test of `retry_with_backoff`, as the table the running code answered. -/
def isTransient (k : Kind) : Bool := IB.Generated.transientKinds.contains k.code

/-- A `CloudIOError`: its kind plus a tag standing for the rest of the value (message, source), so that
    "the caller receives the error of the last attempt" distinguishes two errors of the same kind. -/
structure Err where
  kind : Kind
  tag : Nat
  deriving DecidableEq, Repr

/-- The error `with_timeout` makes up (`ErrorKind::Timeout`, "Operation exceeded timeout of …"). -/
def timeoutTag : Nat := 999999
def timeoutErr : Err := ⟨.timeout, timeoutTag⟩

/-- `CloudResult<T>` -/
abbrev Res (α : Type) := Except Err α

/-! ## `retry_with_backoff` -/

structure RetryConfig where
  maxAttempts : Nat        -- u32
  initialDelay : Nat       -- u64, ms
  maxDelay : Nat           -- u64, ms
  multiplier : Float       -- f64

def u64Max : Nat := 2 ^ 64 - 1

/-- `config.backoff_multiplier >= 2.0` (an IEEE comparison: false for NaN) -/
def RetryConfig.doubles (c : RetryConfig) : Bool := decide (c.multiplier ≥ 2.0)

/-- The delay update:
    `let new_delay = if mult >= 2.0 { delay_ms.saturating_mul(2) } else { delay_ms };`
    `delay_ms = new_delay.min(config.max_delay_ms);` -/
def nextDelay (c : RetryConfig) (d : Nat) : Nat :=
  let nd := if c.doubles then min (d * 2) u64Max else d
  min nd c.maxDelay

structure RetryResult (α : Type) where
  /-- number of times the operation was called -/
  attempts : Nat
  /-- what `retry_with_backoff` returned; `none` = the script ran out (the loop would call again) -/
  outcome : Option (Res α)
  /-- the values of `delay_ms` at each `thread::sleep(Duration::from_millis(delay_ms))`, in order -/
  sleeps : List Nat

/-- The `loop { attempt += 1; match operation() … }` of `retry_with_backoff`. -/
def retryLoop {α : Type} (c : RetryConfig) : (attempt delay : Nat) → List (Res α) → RetryResult α
  | attempt, _, [] => ⟨attempt, none, []⟩
  | attempt, delay, o :: rest =>
    let attempt := attempt + 1
    match o with
    | .ok v => ⟨attempt, some (.ok v), []⟩
    | .error e =>
      let shouldRetry := isTransient e.kind
      if !shouldRetry || attempt ≥ c.maxAttempts then ⟨attempt, some (.error e), []⟩
      else
        let r := retryLoop c attempt (nextDelay c delay) rest
        ⟨r.attempts, r.outcome, delay :: r.sleeps⟩

def retry {α : Type} (c : RetryConfig) (script : List (Res α)) : RetryResult α :=
  retryLoop c 0 c.initialDelay script

/-! ## `with_timeout` (post-hoc elapsed check) -/

/-- `let result = operation()?; if start.elapsed() > timeout { Err(Timeout) } else { Ok(result) }` -/
def withTimeout {α : Type} (limit elapsed : Nat) (r : Res α) : Res α :=
  match r with
  | .error e => .error e
  | .ok v => if elapsed > limit then .error timeoutErr else .ok v

/-- Wall time spent inside `retry_with_backoff`: the scripted durations of the calls made plus the sleeps. -/
def elapsedOf {α : Type} (r : RetryResult α) (durs : List Nat) : Nat :=
  (durs.take r.attempts).sum + r.sleeps.sum

/-- `run_with_timeout_and_retry` = `with_timeout(timeout, || retry_with_backoff(cfg, op))` -/
def runWithTimeoutAndRetry {α : Type} (c : RetryConfig) (limit : Nat) (script : List (Res α))
    (durs : List Nat) : RetryResult α :=
  let r := retry c script
  ⟨r.attempts, r.outcome.map (withTimeout limit (elapsedOf r durs)), r.sleeps⟩

/-- A single un-retried call of the operation (`(None, None) => operation()`). -/
def callOnce {α : Type} (script : List (Res α)) : RetryResult α :=
  match script with
  | [] => ⟨0, none, []⟩
  | o :: _ => ⟨1, some o, []⟩

/-- `OperationBuilder::execute` / `CloudIOExecutor::execute` (the two are the same four-way match). -/
def execute {α : Type} (retryCfg : Option RetryConfig) (limit : Option Nat) (script : List (Res α))
    (durs : List Nat) : RetryResult α :=
  match retryCfg, limit with
  | some c, some t => runWithTimeoutAndRetry c t script durs
  | some c, none => retry c script
  | none, some t =>
    let r := callOnce script
    ⟨r.attempts, r.outcome.map (withTimeout t (elapsedOf r durs)), r.sleeps⟩
  | none, none => callOnce script

/-! ## `batch_in_chunks` -/

/-- `slice::chunks(n)` for `n ≥ 1` (fuel = the slice length suffices). -/
def chunksFuel {α : Type} (n : Nat) : Nat → List α → List (List α)
  | 0, _ => []
  | fuel + 1, l => if l.isEmpty then [] else l.take n :: chunksFuel n fuel (l.drop n)

def chunks {α : Type} (n : Nat) (l : List α) : List (List α) := chunksFuel n l.length l

/-- `for chunk in … { let r = process_chunk(chunk.to_vec())?; results.extend(r); }`.
    The processor is an `FnMut`: it sees the call index and the chunk. Returns the chunks handed to
    the processor and the overall result. -/
def batchLoop {α β : Type} (f : Nat → List α → Res (List β)) :
    Nat → List (List α) → List (List α) × Res (List β)
  | _, [] => ([], .ok [])
  | i, c :: cs =>
    match f i c with
    | .error e => ([c], .error e)
    | .ok r =>
      let rest := batchLoop f (i + 1) cs
      (c :: rest.1, match rest.2 with | .ok rs => .ok (r ++ rs) | .error e => .error e)

/-- current code: `items.chunks(chunk_size.max(1))` -/
def batchInChunks {α β : Type} (items : List α) (size : Nat) (f : Nat → List α → Res (List β)) :
    List (List α) × Res (List β) :=
  batchLoop f 0 (chunks (max size 1) items)

/-- pinned commit: `items.chunks(chunk_size)` — panics ("chunk size must be non-zero") for size 0,
    whatever the items; `none` = panic. -/
def Legacy.batchInChunks {α β : Type} (items : List α) (size : Nat) (f : Nat → List α → Res (List β)) :
    Option (List (List α) × Res (List β)) :=
  if size = 0 then none else some (batchLoop f 0 (chunks size items))

/-! ## `paginate` -/

structure PageConfig where
  pageSize : Nat             -- u32
  maxPages : Option Nat      -- Option<u32>

structure PageResult (α : Type) where
  /-- the `(page, page_size)` arguments `fetch_page` was called with, in order -/
  calls : List (Nat × Nat)
  /-- what `paginate` returned; `none` = the script ran out -/
  outcome : Option (Res (List α))

/-- `if let Some(max_pages) = config.max_pages && page >= max_pages` -/
def PageConfig.limitReached (c : PageConfig) (page : Nat) : Bool :=
  match c.maxPages with
  | some m => decide (page ≥ m)
  | none => false

/-- The `loop` of `paginate`; the script is what `fetch_page` answers on successive calls. -/
def pageLoop {α : Type} (c : PageConfig) : (page : Nat) → List (Res (List α × Bool)) → PageResult α
  | _, [] => ⟨[], none⟩
  | page, .error e :: _ => ⟨[(page, c.pageSize)], some (.error e)⟩
  | page, .ok (items, hasMore) :: rest =>
    if items.isEmpty then ⟨[(page, c.pageSize)], some (.ok [])⟩
    else
      let page' := page + 1
      if !hasMore then ⟨[(page, c.pageSize)], some (.ok items)⟩
      else if c.limitReached page' then ⟨[(page, c.pageSize)], some (.ok items)⟩
      else
        let r := pageLoop c page' rest
        ⟨(page, c.pageSize) :: r.calls,
          r.outcome.map (fun o => match o with | .ok xs => .ok (items ++ xs) | .error e => .error e)⟩

def paginate {α : Type} (c : PageConfig) (script : List (Res (List α × Bool))) : PageResult α :=
  pageLoop c 0 script

/-! ## `run_cloud_io_batch`: `items.iter().map(|it| retry_with_backoff(cfg, || op(it))).collect()` -/

structure IoBatchResult (ι β : Type) where
  /-- the item of every call of the operation, in order -/
  calls : List ι
  sleeps : List Nat
  /-- `none` = the script ran out -/
  outcome : Option (Res (List β))

/-- One global script (the operation is one `FnMut`); each item retries on what is left of it.
    `collect::<Result<Vec<_>,_>>()` stops at the first item whose retry returns `Err`. -/
def ioBatch {ι β : Type} (c : RetryConfig) : List ι → List (Res β) → IoBatchResult ι β
  | [], _ => ⟨[], [], some (.ok [])⟩
  | it :: its, script =>
    let r := retry c script
    let calls := List.replicate r.attempts it
    match r.outcome with
    | none => ⟨calls, r.sleeps, none⟩
    | some (.error e) => ⟨calls, r.sleeps, some (.error e)⟩
    | some (.ok v) =>
      let rest := ioBatch c its (script.drop r.attempts)
      ⟨calls ++ rest.calls, r.sleeps ++ rest.sleeps,
        rest.outcome.map (fun o => match o with | .ok vs => .ok (v :: vs) | .error e => .error e)⟩

/-! ## the public entry points of `src/helpers/cloud.rs`, ONE model definition per Rust item

Each wrapper is transliterated from its own body (line numbers of `src/helpers/cloud.rs`); the driver
answers a request for wrapper `w` with the definition of `w` below, never with a shared one, so the
correspondence run compares every real wrapper with its own model. That they all coincide with `retry` /
`execute` / `batchInChunks` / `paginate` is *proved* in `Props/C18.lean` (`wrapper_eq_retry`,
`builder_execute_eq`, …), not assumed by the driver. -/

/-- `run_with_retry(config, operation) { retry_with_backoff(config, operation) }` (`:165`) -/
def runWithRetry {α : Type} (c : RetryConfig) (script : List (Res α)) : RetryResult α :=
  retry c script

/-- `run_cloud_io_with_retry(config, operation) { retry_with_backoff(config, operation) }` (`:495`) -/
def runCloudIoWithRetry {α : Type} (c : RetryConfig) (script : List (Res α)) : RetryResult α :=
  retry c script

/-- `run_cloud_io_with_retry_and_timeout(rc, timeout, op) { run_with_timeout_and_retry(rc, timeout, op) }` (`:610`) -/
def runCloudIoWithRetryAndTimeout {α : Type} (c : RetryConfig) (limit : Nat) (script : List (Res α))
    (durs : List Nat) : RetryResult α :=
  runWithTimeoutAndRetry c limit script durs

/-- `(None, Some(timeout)) => { let op = || operation(); with_timeout(timeout, op) }` -/
def callOnceWithTimeout {α : Type} (limit : Nat) (script : List (Res α)) (durs : List Nat) : RetryResult α :=
  let r := callOnce script
  ⟨r.attempts, r.outcome.map (withTimeout limit (elapsedOf r durs)), r.sleeps⟩

/-- `struct OperationBuilder { retry_config: Option<RetryConfig>, timeout: Option<Duration> }` (`:359`) -/
structure OperationBuilder where
  retryConfig : Option RetryConfig
  timeout : Option Nat

def OperationBuilder.new : OperationBuilder := ⟨none, none⟩
def OperationBuilder.withRetry (b : OperationBuilder) (c : RetryConfig) : OperationBuilder :=
  { b with retryConfig := some c }
def OperationBuilder.withTimeout (b : OperationBuilder) (t : Nat) : OperationBuilder :=
  { b with timeout := some t }

/-- `OperationBuilder::execute` (`:390`), its own four-way `match (self.retry_config, self.timeout)` -/
def OperationBuilder.execute {α : Type} (b : OperationBuilder) (script : List (Res α)) (durs : List Nat) :
    RetryResult α :=
  match b.retryConfig, b.timeout with
  | some c, some t => runWithTimeoutAndRetry c t script durs
  | some c, none => retry c script
  | none, some t => callOnceWithTimeout t script durs
  | none, none => callOnce script

/-- `struct CloudIOExecutor { retry_config, timeout }` (`:643`) -/
structure CloudIOExecutor where
  retryConfig : Option RetryConfig
  timeout : Option Nat

def CloudIOExecutor.new : CloudIOExecutor := ⟨none, none⟩
def CloudIOExecutor.withRetry (b : CloudIOExecutor) (c : RetryConfig) : CloudIOExecutor :=
  { b with retryConfig := some c }
def CloudIOExecutor.withTimeout (b : CloudIOExecutor) (t : Nat) : CloudIOExecutor :=
  { b with timeout := some t }

/-- `CloudIOExecutor::execute` (`:674`), its own four-way match -/
def CloudIOExecutor.execute {α : Type} (b : CloudIOExecutor) (script : List (Res α)) (durs : List Nat) :
    RetryResult α :=
  match b.retryConfig, b.timeout with
  | some c, some t => runWithTimeoutAndRetry c t script durs
  | some c, none => retry c script
  | none, some t => callOnceWithTimeout t script durs
  | none, none => callOnce script

/-- The retry-only entry points (request token of the harness in brackets):
    `retry_with_backoff` [raw], `run_with_retry` [run], `run_cloud_io_with_retry` [cio],
    `OperationBuilder::new().with_retry(c).execute` [bld], `CloudIOExecutor::new().with_retry(c).execute` [exe]. -/
inductive RetryWrapper
  | raw | run | cio | bld | exe
  deriving DecidableEq, Repr

def RetryWrapper.all : List RetryWrapper := [.raw, .run, .cio, .bld, .exe]

/-- what the entry point `w`, configured with retry only, does on a script -/
def runWrapper {α : Type} (w : RetryWrapper) (c : RetryConfig) (script : List (Res α)) : RetryResult α :=
  match w with
  | .raw => retry c script
  | .run => runWithRetry c script
  | .cio => runCloudIoWithRetry c script
  | .bld => (OperationBuilder.new.withRetry c).execute script []
  | .exe => (CloudIOExecutor.new.withRetry c).execute script []

/-- `struct BatchConfig { chunk_size: usize, parallel: bool }` (`:283`) -/
structure BatchConfig where
  chunkSize : Nat
  parallel : Bool

/-- `run_batch_operation(items, config, processor) { batch_in_chunks(items, config.chunk_size, processor) }`
    (`:268`; `config.parallel` is not read — the harness generates both values of the flag and the driver
    passes the generated value here, so an implementation that starts reading it is compared with this
    definition on `parallel = true` as well) -/
def runBatchOperation {α β : Type} (items : List α) (cfg : BatchConfig) (f : Nat → List α → Res (List β)) :
    List (List α) × Res (List β) :=
  batchInChunks items cfg.chunkSize f

/-- `run_paginated_operation(config, fetch_page) { paginate(config, fetch_page) }` (`:325`) -/
def runPaginatedOperation {α : Type} (c : PageConfig) (script : List (Res (List α × Bool))) : PageResult α :=
  paginate c script

/-- `run_cloud_io_paginated(config, fetch_page) { paginate(config, fetch_page) }` (`:577`) -/
def runCloudIoPaginated {α : Type} (c : PageConfig) (script : List (Res (List α × Bool))) : PageResult α :=
  paginate c script

/-! ## `run_parallel` (`:196`)

`operations.into_iter().map(|op| op()).collect::<CloudResult<Vec<T>>>()`. Every operation is an `FnOnce`
(it can be called at most once), so the "script" is simply the outcome of operation `i` when it is called.
`collect` into a `Result` pulls the mapped iterator one element at a time and stops pulling at the first
`Err`: the code that exists is SEQUENTIAL (whatever the name and the doc comment say) and the values
obtained before the failure are dropped. -/

structure ParResult (α : Type) where
  /-- indices of the operations that were invoked, in invocation order -/
  calls : List Nat
  outcome : Res (List α)

def parLoop {α : Type} : (i : Nat) → List (Res α) → ParResult α
  | _, [] => ⟨[], .ok []⟩
  | i, .error e :: _ => ⟨[i], .error e⟩
  | i, .ok v :: rest =>
    let r := parLoop (i + 1) rest
    ⟨i :: r.calls, match r.outcome with | .ok vs => .ok (v :: vs) | .error e => .error e⟩

def runParallel {α : Type} (ops : List (Res α)) : ParResult α := parLoop 0 ops

/-! ## `OperationContext` / `run_with_context` (`:417`, `:454`)

`start_time: Instant` is not modelled (a time stamp; `elapsed()` is never compared). `retry_count: u32` is a
`Nat` (`increment_retry` is `+= 1`; 2³² increments are out of reach). `metadata: HashMap<String, String>` is an
association list with `insert` = replace-or-add; it is printed sorted by key. -/

structure OperationContext where
  operationName : String
  retryCount : Nat
  metadata : List (String × String)

def OperationContext.new (name : String) : OperationContext := ⟨name, 0, []⟩

/-- `self.metadata.insert(key, value)` -/
def OperationContext.addMetadata (c : OperationContext) (k v : String) : OperationContext :=
  { c with metadata := c.metadata.filter (fun p => p.1 != k) ++ [(k, v)] }

/-- `self.retry_count += 1` -/
def OperationContext.incrementRetry (c : OperationContext) : OperationContext :=
  { c with retryCount := c.retryCount + 1 }

/-- `let result = operation(&mut context)?; Ok((result, context))`. The operation (`FnMut(&mut OperationContext)
    -> CloudResult<T>`) is a function from the context it is handed to the context it leaves behind and its
    result; it is applied exactly once. -/
def runWithContext {α : Type} (ctx : OperationContext)
    (op : OperationContext → OperationContext × Res α) : Res (α × OperationContext) :=
  match op ctx with
  | (ctx', .ok v) => .ok (v, ctx')
  | (_, .error e) => .error e

end IB.Cloud
