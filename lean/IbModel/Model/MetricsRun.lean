import IbModel.Model.Metrics
import IbModel.Model.Program
/-!
# `Runner::run_collect` on the PROGRAM model (C16, "the collector never changes the result")

`Model/Metrics.lean` states `runCollect` over an abstract planner `build` and engine `exec`. Here they are
instantiated with the model of the real planner and engines (`Model/Planner.lean`, `Model/Engine.lean`,
`Model/Program.lean` — the definitions C01–C07 are about): the node graph of a pipeline is its source
vector and builder steps, `build_plan` = `optimise ∘ litChain`, `exec` = `execSeq` / `execPar`.
The driver's `MRUN`/`MPOISON`/`MSLEEP` handlers evaluate `runCollectProg`, so the expected result of a
run with a collector attached is COMPUTED by the model from the pipeline's description.
-/
namespace IB.Metrics
open IB

/-- what `build_plan` reads of a `Pipeline`: the node graph (here: source rows + builder calls) -/
structure Graph where
  src : List Val
  steps : List Step

inductive RunMode
  | seq
  | par (n : Nat)

inductive RunErr
  /-- `build_plan` failed (unknown terminal node) -/
  | plan
  /-- the engine's output partition is not a `Vec<T>` of the requested `T` -/
  | execType
  /-- the engine model's own error -/
  | engine (e : IB.Err)

def liftM {α} : IB.M α → Except RunErr α
  | .ok a => .ok a
  | .error e => .error (.engine e)

/-- `build_plan(p, terminal)`; `terminalOk = false` stands for a terminal id that is not in the graph -/
def planOf (terminalOk : Bool) (g : Graph) : Except RunErr (List (Node Part)) :=
  if terminalOk then .ok (optimise (litChain g.src g.steps)) else .error .plan

/-- `exec_seq::<T>` / `exec_par::<T>`; `typeOk = false` stands for a `T` that is not the element type -/
def execMode (m : RunMode) (typeOk : Bool) (chain : List (Node Part)) : Except RunErr Part :=
  if typeOk then
    match m with
    | .seq => liftM (execSeq chain)
    | .par n => liftM (execPar List.flatten chain n)
  else .error .execType

/-- `Runner{mode}.run_collect::<T>(p, terminal)` on a pipeline whose graph is `p.graph` -/
def runCollectProg (m : RunMode) (terminalOk typeOk : Bool) (t0 t1 : Nat) (p : Pipe Graph) :
    Except RunErr Part × Pipe Graph :=
  runCollect (planOf terminalOk) (execMode m typeOk) t0 t1 p

/-- the same program collected WITHOUT any metrics machinery (`runSeq` / `runPar` of C01–C07) -/
def runPlain (m : RunMode) (g : Graph) : IB.M Part :=
  match m with
  | .seq => runSeq g.src g.steps
  | .par n => runPar g.src g.steps n

end IB.Metrics
