/-!
# Engine model: `src/runner.rs` (`exec_seq`, `run_subplan_seq`, `exec_par`, `run_subplan_par`)
and the node IR of `src/node.rs`, over an abstract partition type `P` (the Rust engine is type-erased:
`Partition = Box<dyn Any>`; the model cannot know more than `runner.rs` knows).

Loops without an obvious measure take fuel; "`none` for every fuel" is the model's notion of non-termination.
`Legacy.*` = the code at the pinned commit where a `fix:` commit changed it since.
-/
namespace IB

structure DynOp (P : Type) where
  apply : P → P
  keyPreserving : Bool := false
  valueOnly : Bool := false
  reorderSafe : Bool := false
  cost : Nat := 10
  /-- identifies the op in structural comparisons with the real planner's output (no semantics) -/
  label : String := ""

inductive Node (P : Type) where
  | source (whole : P) (len : Nat) (split : Nat → List P)
  | stateless (ops : List (DynOp P))
  | gbk (loc : P → P) (merge : List P → P)
  | combineValues (localPairs : P → P) (localGroups : Option (P → P)) (merge : List P → P)
  | combineGlobal (loc : P → P) (merge : List P → P) (finish : P → P) (fanout : Option Nat)
  | coGroup (left right : List (Node P)) (coL coR : List P → P) (exec : P → P → P)
  | materialized (p : P)

inductive Err where
  | nestedCoGroup | noSource | unexpectedSource | emptyBuf | nonTermination
deriving DecidableEq, Repr

abbrev M := Except Err

variable {P : Type}

def need (cur : Option P) : M P :=
  match cur with
  | some b => pure b
  | none => throw .emptyBuf

def applyOps (ops : List (DynOp P)) (b : P) : P := ops.foldl (fun acc op => op.apply acc) b

/-- one node of `run_subplan_seq` -/
def stepSubSeq (cur : Option P) : Node P → M P
  | .source w _ _ => pure w
  | .stateless ops => do let b ← need cur; pure (applyOps ops b)
  | .gbk l m => do let b ← need cur; pure (m [l b])
  | .combineValues lp lg m => do let b ← need cur; pure (m [(lg.getD lp) b])
  | .materialized p => pure p
  | .coGroup .. => throw .nestedCoGroup
  | .combineGlobal l m f _ => do let b ← need cur; pure (f (m [l b]))

def runSubSeq (chain : List (Node P)) : M P := do
  let r ← chain.foldlM (fun cur n => do let b ← stepSubSeq cur n; pure (some b)) none
  need r

def stepSeq (cur : Option P) : Node P → M P
  | .coGroup l r _coL _coR ex => do
      let lp ← runSubSeq l
      let rp ← runSubSeq r
      pure (ex lp rp)   -- single partition each side: no coalesce
  | n => stepSubSeq cur n

def execSeq (chain : List (Node P)) : M P := do
  let r ← chain.foldlM (fun cur n => do let b ← stepSeq cur n; pure (some b)) none
  need r

/-! parallel engine -/

def chunksOf (f : Nat) : (fuel : Nat) → List P → List (List P)
  | 0, _ => []
  | fuel+1, xs => if xs.isEmpty then [] else xs.take f :: chunksOf f fuel (xs.drop f)

/-- the multi-round fan-in loop of `exec_par`; `none` = did not finish within fuel -/
def fanIn (merge : List P → P) (f : Nat) : (fuel : Nat) → List P → Option (List P)
  | 0, accs => if accs.length ≤ 1 then some accs else none
  | fuel+1, accs =>
      if accs.length ≤ 1 then some accs
      else fanIn merge f fuel ((chunksOf f accs.length accs).map merge)

/-- the reduction of the per-partition accumulators in `exec_par` / `run_subplan_par`;
    `clampTo` is the lower clamp applied to an explicit fan-out (`fanout.unwrap_or(MAX).max(clampTo)`) -/
def reduceGlobalWith (clampTo : Nat) (merge : List P → P) (fanout : Option Nat) (accs : List P) : M P :=
  let accs' : Option (List P) :=
    match fanout with
    | none => if accs.length ≤ 1 then some accs else some [merge accs]
    | some f => fanIn merge (max f clampTo) accs.length accs
  match accs' with
  | none => throw .nonTermination
  | some [] => pure (merge [])
  | some (a :: _) => pure a   -- `pop` of a ≤1-element vec

/-- current code: an explicit fan-out below 2 is clamped to 2 -/
def reduceGlobal (merge : List P → P) (fanout : Option Nat) (accs : List P) : M P :=
  reduceGlobalWith 2 merge fanout accs

/-- pinned commit: `.max(1)` — fan-out 0 or 1 never shrinks the list -/
def Legacy.reduceGlobal (merge : List P → P) (fanout : Option Nat) (accs : List P) : M P :=
  reduceGlobalWith 1 merge fanout accs

def clampParts (n len : Nat) : Nat := min (max n 1) (max len 1)

def stepSubPar (curr : List P) : Node P → M (List P)
  | .stateless ops => pure (curr.map (applyOps ops))
  | .gbk l m => pure [m (curr.map l)]
  | .combineValues lp lg m => pure [m (curr.map (lg.getD lp))]
  | .source .. => throw .unexpectedSource
  | .materialized _ => throw .unexpectedSource
  | .coGroup .. => throw .nestedCoGroup
  | .combineGlobal l m f fo => do
      let a ← reduceGlobal m fo (curr.map l)
      pure [f a]

def runSubPar (chain : List (Node P)) (n : Nat) : M (List P) :=
  match chain with
  | .source _ len split :: rest =>
      rest.foldlM stepSubPar (split (clampParts n len))
  | _ => throw .noSource

def coalesce (co : List P → P) (parts : List P) : P :=
  match parts with
  | [p] => p
  | ps => co ps

def stepPar (n : Nat) (curr : List P) : Node P → M (List P)
  | .coGroup l r coL coR ex => do
      let lp ← runSubPar l n
      let rp ← runSubPar r n
      pure [ex (coalesce coL lp) (coalesce coR rp)]
  | nd => stepSubPar curr nd

def execPar (concat : List P → P) (chain : List (Node P)) (n : Nat) : M P :=
  match chain with
  | .source _ len split :: rest => do
      let curr ← rest.foldlM (stepPar n) (split (clampParts n len))
      pure (coalesce concat curr)
  | _ => throw .noSource

end IB
