import IbModel.Model.Program
/-!
# The user-written closures of C03's SYNTHETIC chains (harness/src/c03.rs)

* `pairSum` — the user `CombineFn<Row, Row, Row>` behind the synthetic `CombineGlobal` nodes;
* `badSum`  — a user `LiftableCombiner` that BREAKS the trait's contract: `build_from_group` is not the fold of
  `add_input` (it adds 1000). The planner cannot see a combiner — it lifts whenever `local_groups.is_some()` — so for
  this combiner the GBK → lifted-combine window and the direct combine differ. A documented negative example
  (Props/C03 `lift_unsound_without_build_fold`), outside the property: the combiner is not a combiner;
* `cogExec` — the exec closure of the synthetic `CoGroup` nodes (an inner join of rows).
-/
namespace IB

/-- component-wise sum of two rows `(i64, i64)` -/
def pairAdd (a r : Val) : Val := .pair (.int (a.key.toInt + r.key.toInt)) (.int (a.value.toInt + r.value.toInt))

def pairSum : VCombiner :=
  { create := .pair (.int 0) (.int 0), add := pairAdd, merge := pairAdd, finish := id,
    build := fun xs => xs.foldl pairAdd (.pair (.int 0) (.int 0)) }

/-- `Sum` with `build_from_group(values) = values.sum() + 1000` -/
def badSum : VCombiner :=
  { Comb.sum.toCombiner with build := fun xs => .int ((xs.foldl (fun a v => a + v.toInt) 0) + 1000) }

/-- `(k, v) ⋈ (k, w) ↦ (k, 100·v + w)`, left-major nested loops -/
def cogExec (l r : Part) : Part :=
  l.flatMap (fun a => (r.filter (fun b => b.key.toInt == a.key.toInt)).map
    (fun b => .pair a.key (.int (a.value.toInt * 100 + b.value.toInt))))

end IB
