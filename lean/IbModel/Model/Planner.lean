import IbModel.Model.Engine
/-!
# Planner model: `src/planner.rs` — the four passes of `build_plan`, pass by pass

`fuse_stateless` → `reorder_value_only_runs` → `lift_gbk_then_combine` → `drop_mid_materialized`.
(The back-walk over the pipeline graph is in `Model/Pipeline.lean`; builder chains are linear.)
-/
namespace IB
variable {P : Type}

/-- merge maximal runs of adjacent `Stateless` blocks, concatenating their ops in order -/
def fuse : List (Node P) → List (Node P)
  | [] => []
  | .stateless a :: rest =>
    match fuse rest with
    | .stateless b :: r => .stateless (a ++ b) :: r
    | r => .stateless a :: r
  | n :: rest => n :: fuse rest

/-- the capability contract under which a block may be re-ordered -/
def movable (op : DynOp P) : Bool := op.valueOnly && op.keyPreserving && op.reorderSafe

/-- sort key of `sort_by_key`: `(cost != 1, cost)` -/
def sortKey (op : DynOp P) : Nat × Nat := (if op.cost != 1 then 1 else 0, op.cost)

def keyLe (a b : Nat × Nat) : Bool := a.1 < b.1 || (a.1 == b.1 && a.2 ≤ b.2)

/-- `Vec::sort_by_key` is stable; so is `List.mergeSort` -/
def reorderBlock (ops : List (DynOp P)) : List (DynOp P) :=
  if ops.all movable && ops.length > 1 then ops.mergeSort (fun a b => keyLe (sortKey a) (sortKey b))
  else ops

def reorder : List (Node P) → List (Node P)
  | [] => []
  | .stateless ops :: rest => .stateless (reorderBlock ops) :: reorder rest
  | n :: rest => n :: reorder rest

/-- GBK immediately followed by a CombineValues that has `local_groups`: drop the GBK, clear
    `local_groups` (the combine then consumes `(K, V)` pairs through `local_pairs`) -/
def liftGbk : List (Node P) → List (Node P)
  | .gbk _ _ :: .combineValues lp (some _) m :: rest => .combineValues lp none m :: liftGbk rest
  | n :: rest => n :: liftGbk rest
  | [] => []

/-- keep a `Materialized` only when it is the last node -/
def dropMid : List (Node P) → List (Node P)
  | [] => []
  | [n] => [n]
  | .materialized _ :: n :: rest => dropMid (n :: rest)
  | m :: n :: rest => m :: dropMid (n :: rest)

/-- `build_plan` minus the back-walk -/
def optimise (chain : List (Node P)) : List (Node P) := dropMid (liftGbk (reorder (fuse chain)))

/-- the plan without the value-only reorder pass (used to attribute the known reorder finding) -/
def optimiseNoReorder (chain : List (Node P)) : List (Node P) := dropMid (liftGbk (fuse chain))

/-- shape of a node, for structural comparison with the real planner's output -/
def Node.kind : Node P → String
  | .source .. => "Source"
  | .stateless ops => "Stateless" ++ toString ops.length
  | .gbk .. => "GroupByKey"
  | .combineValues _ lg _ => if lg.isSome then "CombineValues+lifted" else "CombineValues"
  | .combineGlobal .. => "CombineGlobal"
  | .coGroup .. => "CoGroup"
  | .materialized _ => "Materialized"

end IB
