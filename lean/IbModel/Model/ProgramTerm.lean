import IbModel.Model.Program
/-!
# Terminals other than `collect_seq` / `collect_par`, and sources other than `from_vec`

* `collect_fail_fast` (`src/helpers/try_process.rs`): `collect_seq()?`, then a loop over the `Result`s that
  pushes `Ok` values and returns `Err(anyhow!("element failed: {e}"))` at the FIRST `Err` in sequence order.
* `collect_seq_sorted`, `collect_par_sorted`, `collect_par_sorted_by_key` (`src/helpers/collect_sorted.rs`):
  the plain collect followed by `[T]::sort` (the element's `Ord`) resp. the STABLE `sort_by` on the key only.
* `from_iter` (= `from_vec` of the collected iterator) and `from_custom_source` with a user `VecOps`
  (`src/type_token.rs`): the engine reads `len(..).unwrap_or(0)`, `split(.., parts).unwrap_or_else(|| vec![clone_any])`
  in parallel mode (`runner.rs::exec_par`, `run_subplan_par`) and `clone_any` in sequential mode.

A `Result<V, String>` row travels as `pair (str "ok") v` / `pair (str "err") (str msg)` (`Program.lean::tryF`).
-/
namespace IB
open Val

/-! ## `collect_fail_fast` -/

/-- `anyhow!("element failed: {e}")` -/
def failMsg : Val → Val
  | .str s => .str ("element failed: " ++ s)
  | v => v

/-- the loop of `collect_fail_fast`: `ok` = the values pushed so far -/
def failFastLoop : List Val → List Val → Except Val (List Val)
  | ok, [] => .ok ok
  | ok, r :: rest => if isErrRow r then .error (failMsg r.value) else failFastLoop (ok ++ [r.value]) rest

/-- `collect_fail_fast` on the rows `collect_seq` returned -/
def failFast (rows : List Val) : Except Val (List Val) := failFastLoop [] rows

/-- one `Result` (the `List.mapM`-style reading of the same terminal) -/
def resultOf (r : Val) : Except Val Val := if isErrRow r then .error (failMsg r.value) else .ok r.value

/-! ## sorted terminals -/

/-- element types with an `Ord` the harness collects sorted: `V` and `(V, V)` -/
inductive RowShape | t | kv
deriving DecidableEq, Repr

/-- `Ord` of the element type: `V::cmp` (= `Val.le`); tuples compare lexicographically -/
def rowLe : RowShape → Val → Val → Bool
  | .t, a, b => Val.le a b
  | .kv, a, b => if a.key == b.key then Val.le a.value b.value else Val.le a.key b.key

/-- `v.sort()` (a stable merge sort; with a total antisymmetric order stability is invisible) -/
def sortRows (sh : RowShape) (rows : List Val) : List Val := rows.mergeSort (rowLe sh)

/-- only the keys are compared -/
def rowKeyLe (a b : Val) : Bool := Val.le a.key b.key

/-- `v.sort_by(|a, b| a.0.cmp(&b.0))`: STABLE, only keys are compared -/
def sortByKey (rows : List Val) : List Val := rows.mergeSort rowKeyLe

/-! ## user `VecOps` -/

/-- what the user's `VecOps::len` answers -/
inductive LenPol | exact | none | fixed (k : Nat)
deriving Repr

/-- what the user's `VecOps::split(data, n)` answers. The first five keep the `VecOps` contract
    ("the parts, concatenated, are what `clone_any` returns"); the last three violate it. -/
inductive SplitPol
  /-- `None`: the engine falls back to one part holding `clone_any` -/
  | none
  /-- ignores `n`: contiguous chunks of `max c 1` rows (more or fewer parts than requested; zero parts for no rows) -/
  | chunks (c : Nat)
  /-- `VecOpsImpl`'s own rule for `n + k` parts (MORE parts than requested) -/
  | plus (k : Nat)
  /-- `VecOpsImpl`'s own rule for `n - k` parts (FEWER parts than requested) -/
  | minus (k : Nat)
  /-- chunks of `max c 1` rows with an EMPTY part in front of, between and behind them -/
  | empties (c : Nat)
  /-- contract violation: the chunks of all rows but the last one -/
  | dropLast (c : Nat)
  /-- contract violation: the chunks in reverse order -/
  | revParts (c : Nat)
  /-- contract violation: the first chunk twice -/
  | dupFirst (c : Nat)
deriving Repr

def LenPol.len : LenPol → List Val → Option Nat
  | .exact, rows => some rows.length
  | .none, _ => Option.none
  | .fixed k, _ => some k

def SplitPol.split : SplitPol → List Val → Nat → Option (List Part)
  | .none, _, _ => Option.none
  | .chunks c, rows, _ => some (IB.chunks (max c 1) rows)
  | .plus k, rows, n => some (vecSplit rows (n + k))
  | .minus k, rows, n => some (vecSplit rows (n - k))
  | .empties c, rows, _ => some ([] :: (IB.chunks (max c 1) rows).flatMap (fun p => [p, []]))
  | .dropLast c, rows, _ => some (IB.chunks (max c 1) rows.dropLast)
  | .revParts c, rows, _ => some (IB.chunks (max c 1) rows).reverse
  | .dupFirst c, rows, _ =>
      some (match IB.chunks (max c 1) rows with
        | [] => []
        | p :: ps => p :: p :: ps)

/-- `from_custom_source(p, rows, ops)`: `clone_any` answers the rows; `exec_par` reads
    `len(..).unwrap_or(0)` and `split(.., parts).unwrap_or_else(|| vec![clone_any])` -/
def customSource (rows : List Val) (lp : LenPol) (sp : SplitPol) : Node Part :=
  .source rows ((lp.len rows).getD 0) (fun n => (sp.split rows n).getD [rows])

inductive SourceSpec | vec | iter | custom (lp : LenPol) (sp : SplitPol)
deriving Repr

/-- `from_iter` collects into a `Vec` and delegates to `from_vec` -/
def SourceSpec.node : SourceSpec → List Val → Node Part
  | .vec, rows => vecSource rows
  | .iter, rows => vecSource rows
  | .custom lp sp, rows => customSource rows lp sp

/-- a program over an arbitrary source node, planned, in both modes -/
def runSeqFrom (nd : Node Part) (steps : List Step) : M Part := execSeq (optimise (applySteps [nd] steps))
def runParFrom (nd : Node Part) (steps : List Step) (n : Nat) : M Part :=
  execPar List.flatten (optimise (applySteps [nd] steps)) n

/-! ## the terminal of a request -/

inductive Terminal | collect | failFast | sorted (sh : RowShape) | sortedByKey
deriving Repr

/-- what a terminal returns: rows, or the fail-fast error -/
def Terminal.finish : Terminal → List Val → Except Val (List Val)
  | .collect, rows => .ok rows
  | .failFast, rows => IB.failFast rows
  | .sorted sh, rows => .ok (sortRows sh rows)
  | .sortedByKey, rows => .ok (sortByKey rows)

end IB
