import IbModel.Model.Program
/-!
# Programs with joins whose right side is NOT a fresh collection (request kind `PIPEJ`)

`helpers/joins.rs`: `join_*` takes `chain_from(&self.pipeline, self.id)` and `chain_from(&right.pipeline, right.id)`
— two independent SNAPSHOTS of node chains — and stores them in the `CoGroup` node it inserts (after a dummy
1-element source) into the LEFT collection's pipeline. So the right collection may live on another `Pipeline`, may be
the left collection itself (self-join), may share a prefix with it, and other joins of the same collections may exist
in the same pipeline: none of this is visible in the two chains.

`XStep` adds those origins to the program language (harness: `Step::JoinX`, `harness/src/pipe_joinx.rs`):
* `joinOther k rsrc rsteps` — the right side is built on ANOTHER pipeline;
* `joinShared k ls rs`      — the collection built so far is BRANCHED: left = it followed by `ls`, right = it followed by
                              `rs` (`ls = rs = []`: a self-join);
* `joinSibling k rsrc rsteps ssrc ssteps` — a fresh right side; a SIBLING second join of the same left collection
                              (with `ssrc ; ssteps`) is built before and after it on the same pipeline.

`Props/C07.lean` (`joinx_eq_fresh`, `joinNode_sides_only`) proves that every such program computes exactly what the
program with FRESH right sides (`desugar`) computes, in both modes.
-/
namespace IB

inductive XStep where
  | plain (s : Step)
  | joinOther (k : JoinKind) (rsrc : List Val) (rsteps : List Step)
  | joinShared (k : JoinKind) (ls rs : List Step)
  | joinSibling (k : JoinKind) (rsrc : List Val) (rsteps : List Step) (ssrc : List Val) (ssteps : List Step)

/-- the lineage of the collection after one (extended) builder call on the collection whose lineage is `acc` -/
def XStep.apply (acc : List (Node Part)) : XStep → List (Node Part)
  | .plain s => Step.apply acc s
  | .joinOther k rsrc rsteps =>
      -- `chain_from(&right.pipeline, right.id)`: the walk happens on the OTHER pipeline's snapshot
      [dummySource, joinNode k acc (applySteps [vecSource rsrc] rsteps), st (mapOp id)]
  | .joinShared k ls rs =>
      -- both walks start at their own terminal and run back to the common source; each takes its own copy
      [dummySource, joinNode k (applySteps acc ls) (applySteps acc rs), st (mapOp id)]
  | .joinSibling k rsrc rsteps _ _ =>
      -- the sibling join's nodes are in the pipeline graph but not on the path from this terminal to its source
      [dummySource, joinNode k acc (applySteps [vecSource rsrc] rsteps), st (mapOp id)]

def applyXSteps (acc : List (Node Part)) : List XStep → List (Node Part)
  | [] => acc
  | s :: rest => applyXSteps (XStep.apply acc s) rest

def litChainX (src : List Val) (xs : List XStep) : List (Node Part) := applyXSteps [vecSource src] xs

def runSeqX (src : List Val) (xs : List XStep) : M Part := execSeq (optimise (litChainX src xs))
def runParX (src : List Val) (xs : List XStep) (n : Nat) : M Part :=
  execPar List.flatten (optimise (litChainX src xs)) n

/-- the same program with FRESH right sides: `done` = the plain steps applied so far (the lineage of the current
    collection is `litChain src done`), so a branched right side `done ++ rs` over a fresh copy of `src` has the
    same lineage as the shared one -/
def desugarFrom (src : List Val) : List Step → List XStep → List Step
  | _, [] => []
  | done, .plain s :: rest => s :: desugarFrom src (done ++ [s]) rest
  | done, .joinOther k rsrc rsteps :: rest =>
      .join k rsrc rsteps :: desugarFrom src (done ++ [.join k rsrc rsteps]) rest
  | done, .joinShared k ls rs :: rest =>
      ls ++ .join k src (done ++ rs) :: desugarFrom src (done ++ ls ++ [.join k src (done ++ rs)]) rest
  | done, .joinSibling k rsrc rsteps _ _ :: rest =>
      .join k rsrc rsteps :: desugarFrom src (done ++ [.join k rsrc rsteps]) rest

def desugar (src : List Val) (xs : List XStep) : List Step := desugarFrom src [] xs

end IB
