/-!
# Model of `src/io/cloud/readers.rs` (C19): glob expansion and cloud JSONL round trip

Transliteration of

* `glob_to_regex`                       → `tokenize`, `emit`, `globToRegex`
* `extract_prefix_before_wildcard`      → `literalPrefix`
* `Regex::new(..)` / `Regex::is_match`  → `parseRegex`, `reMatch` — a regex AST, parser and matcher for
  EXACTLY the fragment `glob_to_regex` can emit (optional leading `(?s)`, anchors, literals, `\c`
  escapes of punctuation metacharacters, `.`, `[^/]`, each optionally followed by one `*`), following the
  `regex` crate's semantics for that fragment; anything else parses to `none`
* `FakeObjectIO::{put_object,get_object,list_objects}` → `Store`, `put`, `get`, `listKeys`
* `expand_cloud_glob(_required)`, `read_cloud_jsonl_glob` → `expandGlob`, `expandGlobRequired`, `readGlob`
* `write_cloud_jsonl_vec` / `read_cloud_jsonl_vec` (+ `compression::auto_detect_reader`)
                                        → `writerCodec`, `extCodec`, `readerCodec`, `writeObj`, `readObj`

* `serde_json::to_writer` / `from_str` on a float-bearing record type (`f64`, `Option<f64>`, `Vec<f32>`)
                                        → `FRec.json`, `FRec.parse`, `floatExt` (a non-finite float is written `null`)

and, independent of all of the above, the documented glob syntax: `TokMatch`/`Matches` (declarative) and
`globMatch` (executable reference on raw pattern characters).

`Legacy.*` is the code at the pinned commit: the writer chose the codec with `Path::extension` of the
lower-cased key (so `dir/.gz` was written plain and then read through gzip), and the regex had no `(?s)`
flag (so `?` and `**` did not match a key character `\n`). The un-prefixed definitions follow the current
code (after the two `fix:` commits); in particular `writerCodec` is the `ends_with` chain of the current
`write_cloud_jsonl_vec`, branch by branch.

Strings are `List Char` (Unicode scalar values, as Rust `char`).
-/
namespace IB.CloudGlob

abbrev Str := List Char

/-! ## glob → regex source text -/

/-- one iteration of the `while let Some(ch) = chars.next()` loop consumes one of these -/
inductive Tok where
  | star          -- `*` not followed by `*`
  | dstar         -- `**`
  | q             -- `?`
  | lit (c : Char)
  deriving DecidableEq, Repr

/-- the scanning of `glob_to_regex`: `*` peeks one character ahead for a second `*`. -/
def tokenize : Str → List Tok
  | [] => []
  | c :: p =>
    if c = '*' then
      match p with
      | d :: p' => if d = '*' then .dstar :: tokenize p' else .star :: tokenize (d :: p')
      | [] => [.star]
    else if c = '?' then .q :: tokenize p
    else .lit c :: tokenize p

/-- the characters `glob_to_regex` prefixes with a backslash (the `'.'` arm and the
    `'+' | '(' | ')' | '|' | '[' | ']' | '{' | '}' | '^' | '$' | '\\'` arm), in ASCII order.
    Re-read from the running code on every run: `Generated.escapeSet`. -/
def escapeChars : List Char :=
  ['$', '(', ')', '+', '.', '[', '\\', ']', '^', '{', '|', '}']

/-- what one loop iteration pushes onto `regex` -/
def emit (esc : List Char) : Tok → Str
  | .star => ['[', '^', '/', ']', '*']
  | .dstar => ['.', '*']
  | .q => ['.']
  | .lit c => if esc.contains c then ['\\', c] else [c]

def emitAll (esc : List Char) (ts : List Tok) : Str := ts.flatMap (emit esc)

/-- `glob_to_regex` with the escape set as a parameter (so that the correctness theorem can be stated
    for every escape set that covers the metacharacters, in particular for the one probed from the code) -/
def globToRegexWith (esc : List Char) (head : Str) (pat : Str) : Str :=
  head ++ emitAll esc (tokenize pat) ++ ['$']

/-- current `glob_to_regex`: `String::from("(?s)^")`, the loop, `push('$')` -/
def globToRegex (pat : Str) : Str := globToRegexWith escapeChars ['(', '?', 's', ')', '^'] pat

/-- pinned-commit `glob_to_regex`: `String::from("^")` -/
def Legacy.globToRegex (pat : Str) : Str := globToRegexWith escapeChars ['^'] pat

/-- `extract_prefix_before_wildcard`: `pattern.find(['*','?'])`; no wildcard → the whole pattern;
    wildcard at position 0 → `None` (list everything); else the text before it. -/
def isWild (c : Char) : Bool := c == '*' || c == '?'

def literalPrefix (pat : Str) : Option Str :=
  let pre := pat.takeWhile (fun c => !isWild c)
  if pre.length = pat.length then some pat       -- `find` returned `None`
  else if pre = [] then none                     -- `pos == 0`
  else some pre

/-! ## the emitted regex fragment: AST, parser, matcher -/

inductive Atom where
  | chr (c : Char)      -- a literal (plain or `\c`)
  | dot                 -- `.`   : any scalar value except `\n` (any at all under `(?s)`)
  | notSlash            -- `[^/]`: any scalar value except `/`
  deriving DecidableEq, Repr

inductive Item where
  | one (a : Atom)
  | many (a : Atom)     -- `a*` (greedy; `is_match` only needs the language)
  deriving DecidableEq, Repr

structure Regex where
  dotAll : Bool
  anchorStart : Bool
  items : List Item
  anchorEnd : Bool
  deriving DecidableEq, Repr

/-- `regex_syntax::is_meta_character`: `\c` is the literal `c` exactly for these (we do not model the
    further "escapeable" punctuation, nor any class/assertion escape such as `\d`, `\b`, `\A`). -/
def escapable (c : Char) : Bool :=
  ['\\', '.', '+', '*', '?', '(', ')', '|', '[', ']', '{', '}', '^', '$', '#', '&', '-', '~'].contains c

/-- characters that are NOT a plain literal when they stand unescaped outside a class
    (`]` and `}` are accepted as literals by the crate; we are conservative and refuse them). -/
def isMeta (c : Char) : Bool :=
  ['\\', '.', '+', '*', '?', '(', ')', '|', '[', ']', '{', '}', '^', '$'].contains c

/-- one atom at the head of the text; `none` = outside the modelled fragment -/
def parseAtom : Str → Option (Atom × Str)
  | [] => none
  | c :: r =>
    if c = '\\' then
      match r with
      | d :: r' => if escapable d then some (.chr d, r') else none
      | [] => none
    else if c = '.' then some (.dot, r)
    else if c = '[' then
      match r with
      | '^' :: '/' :: ']' :: r' => some (.notSlash, r')
      | _ => none
    else if isMeta c then none
    else some (.chr c, r)

/-- items up to the end of the text; a `$` is accepted only as the very last character.
    `fuel` bounds the number of items (each consumes at least one character). -/
def parseItemsF : Nat → Str → Option (List Item × Bool)
  | 0, _ => none
  | n + 1, s =>
    if s = [] then some ([], false)
    else if s = ['$'] then some ([], true)
    else
      match parseAtom s with
      | none => none
      | some (a, r) =>
        match r with
        | '*' :: r' => (parseItemsF n r').map (fun x => (Item.many a :: x.1, x.2))
        | _ => (parseItemsF n r).map (fun x => (Item.one a :: x.1, x.2))

def parseItems (s : Str) : Option (List Item × Bool) := parseItemsF (s.length + 1) s

def stripStart (s : Str) : Bool × Str :=
  match s with
  | '^' :: r => (true, r)
  | _ => (false, s)

/-- `Regex::new` restricted to the fragment: `[(?s)] [^] item* [$]` -/
def parseRegex (s : Str) : Option Regex :=
  let (da, s1) : Bool × Str :=
    match s with
    | '(' :: '?' :: 's' :: ')' :: r => (true, r)
    | _ => (false, s)
  let (st, s2) := stripStart s1
  (parseItems s2).map (fun x => { dotAll := da, anchorStart := st, items := x.1, anchorEnd := x.2 })

def Atom.accepts (dotAll : Bool) : Atom → Char → Bool
  | .chr c, d => c == d
  | .dot, d => dotAll || d != '\n'
  | .notSlash, d => d != '/'

/-- `x*` followed by `cont`: zero or more accepted characters, then the continuation -/
def manyLoop (acc : Char → Bool) (cont : Str → Bool) : Str → Bool
  | [] => cont []
  | c :: k => cont (c :: k) || (acc c && manyLoop acc cont k)

/-- the items match a prefix of the text (the whole text when `$` is present) -/
def matchHere (da : Bool) (anchorEnd : Bool) : List Item → Str → Bool
  | [], k => if anchorEnd then k.isEmpty else true
  | .one a :: is, k =>
    match k with
    | [] => false
    | c :: k' => a.accepts da c && matchHere da anchorEnd is k'
  | .many a :: is, k => manyLoop (a.accepts da) (matchHere da anchorEnd is) k

/-- no `^`: the match may start at any position -/
def searchFrom (m : Str → Bool) : Str → Bool
  | [] => m []
  | c :: k => m (c :: k) || searchFrom m k

/-- `Regex::is_match` -/
def reMatch (re : Regex) (k : Str) : Bool :=
  if re.anchorStart then matchHere re.dotAll re.anchorEnd re.items k
  else searchFrom (matchHere re.dotAll re.anchorEnd re.items) k

/-- the language of an item sequence, as the `regex` documentation defines it for this fragment:
    a single atom consumes one accepted character, `a*` consumes any run of accepted characters -/
inductive ItemsLang (da : Bool) : List Item → Str → Prop
  | nil : ItemsLang da [] []
  | one {a c is k} : a.accepts da c = true → ItemsLang da is k → ItemsLang da (.one a :: is) (c :: k)
  | many {a s is k} : (∀ c ∈ s, a.accepts da c = true) → ItemsLang da is k →
      ItemsLang da (.many a :: is) (s ++ k)

/-! ## the documented glob syntax (reference; independent of the regex route) -/

/-- what one pattern token matches: `*` any text without `/`, `**` any text, `?` exactly one
    character, any other character itself -/
def TokMatch : Tok → Str → Prop
  | .star, s => '/' ∉ s
  | .dstar, _ => True
  | .q, s => ∃ c, s = [c]
  | .lit c, s => s = [c]

/-- the key is the concatenation of one piece per token, each piece matched by its token -/
inductive Matches : List Tok → Str → Prop
  | nil : Matches [] []
  | cons {t ts s k} : TokMatch t s → Matches ts k → Matches (t :: ts) (s ++ k)

/-- some split `k = s ++ r` with every character of `s` satisfying `ok` and `cont r` -/
def splitLoop (ok : Char → Bool) (cont : Str → Bool) : Str → Bool
  | [] => cont []
  | c :: k => cont (c :: k) || (ok c && splitLoop ok cont k)

/-- executable reference matcher on the raw pattern characters -/
def globMatch : Str → Str → Bool
  | [], k => k.isEmpty
  | c :: p, k =>
    if c = '*' then
      match p with
      | d :: p' =>
        if d = '*' then splitLoop (fun _ => true) (globMatch p') k
        else splitLoop (fun x => x != '/') (globMatch (d :: p')) k
      | [] => splitLoop (fun x => x != '/') (globMatch []) k
    else if c = '?' then
      match k with
      | [] => false
      | _ :: k' => globMatch p k'
    else
      match k with
      | [] => false
      | x :: k' => x == c && globMatch p k'

/-! ## keys: order, store, listing, expansion -/

/-- Rust `String` order = lexicographic on UTF-8 bytes = lexicographic on scalar values
    (proved, not assumed: `strLe_is_utf8_byte_order`) -/
def strLe : Str → Str → Bool
  | [], _ => true
  | _ :: _, [] => false
  | a :: as, b :: bs => decide (a.toNat < b.toNat) || (a == b && strLe as bs)

def sortKeys (ks : List Str) : List Str := ks.mergeSort strLe

/-! what "Rust `String` order" is, stated on bytes (specification only — `strLe` is what runs;
    `Props/C19.lean::strLe_is_utf8_byte_order` proves the two equal for all strings) -/

/-- UTF-8 encoding of a scalar value (RFC 3629), bytes as `Nat` -/
def utf8 (c : Char) : List Nat :=
  let n := c.toNat
  if n < 0x80 then [n]
  else if n < 0x800 then [0xC0 + n / 64, 0x80 + n % 64]
  else if n < 0x10000 then [0xE0 + n / 4096, 0x80 + n / 64 % 64, 0x80 + n % 64]
  else [0xF0 + n / 262144, 0x80 + n / 4096 % 64, 0x80 + n / 64 % 64, 0x80 + n % 64]

def utf8s (s : Str) : List Nat := s.flatMap utf8

/-- `<[u8] as Ord>::cmp(..) != Greater`: lexicographic on bytes, a proper prefix is smaller -/
def bytesLe : List Nat → List Nat → Bool
  | [], _ => true
  | _ :: _, [] => false
  | p :: ps, q :: qs => decide (p < q) || (p == q && bytesLe ps qs)


/-- one bucket of `FakeObjectIO`: a map from key to content, as an association list with unique keys -/
abbrev Store (β : Type) := List (Str × β)

def put {β} (s : Store β) (k : Str) (b : β) : Store β := s.filter (fun e => e.1 != k) ++ [(k, b)]

def get {β} (s : Store β) (k : Str) : Option β := (s.find? (fun e => e.1 == k)).map (·.2)

def keysOf {β} (s : Store β) : List Str := s.map (·.1)

/-- `list_objects(bucket, prefix)`: the keys that start with the prefix (all keys for `None`) -/
def listKeys (keys : List Str) : Option Str → List Str
  | none => keys
  | some p => keys.filter (fun k => p.isPrefixOf k)

inductive Err where
  | invalidInput | notFound | internal
  deriving DecidableEq, Repr

/-- `expand_cloud_glob` for an arbitrary regex source and prefix function -/
def expandWith (toRe : Str → Str) (keys : List Str) (pat : Str) : Except Err (List Str) :=
  match parseRegex (toRe pat) with
  | none => .error .invalidInput            -- `Regex::new` failed
  | some re => .ok (sortKeys ((listKeys keys (literalPrefix pat)).filter (reMatch re)))

def expandGlob (keys : List Str) (pat : Str) : Except Err (List Str) := expandWith globToRegex keys pat

/-- the argument of the one `list_objects` call of `expand_cloud_glob` (outer `none`: `Regex::new` failed
    first and nothing is listed) -/
def listedPrefix (toRe : Str → Str) (pat : Str) : Option (Option Str) :=
  (parseRegex (toRe pat)).map (fun _ => literalPrefix pat)

def Legacy.expandGlob (keys : List Str) (pat : Str) : Except Err (List Str) :=
  expandWith Legacy.globToRegex keys pat

/-- `expand_cloud_glob_required` -/
def expandGlobRequired (keys : List Str) (pat : Str) : Except Err (List Str) :=
  match expandGlob keys pat with
  | .error e => .error e
  | .ok [] => .error .notFound
  | .ok ks => .ok ks

/-! ## cloud JSONL: codec choice, write, read -/

inductive Codec where
  | plain | gzip | zstd | bzip2 | xz
  deriving DecidableEq, Repr

def lowerAscii (c : Char) : Char :=
  if 'A'.toNat ≤ c.toNat ∧ c.toNat ≤ 'Z'.toNat then Char.ofNat (c.toNat + 32) else c

/-- `str::to_lowercase` as far as it matters for the codec extensions: the only non-ASCII characters
    whose lower-case form contains an ASCII letter are U+212A (→ `k`) and U+0130 (→ `i` + U+0307), neither
    of which can complete one of the extensions below. -/
def lower (s : Str) : Str := s.map lowerAscii

def endsWith (s suf : Str) : Bool := suf.reverse.isPrefixOf s.reverse

/-- the built-in registry of `compression.rs` (`CODEC_REGISTRY`) in registration order: (codec, extensions).
    NOT trusted as written: `Props/C19.lean::registry_current` re-derives it on every run from
    `IB.Generated.codecTable`, the table dumped from the running code by `c10.rs`. -/
def registry : List (Codec × List Str) :=
  [(.gzip, [['.', 'g', 'z'], ['.', 'g', 'z', 'i', 'p']]),
   (.zstd, [['.', 'z', 's', 't'], ['.', 'z', 's', 't', 'd']]),
   (.bzip2, [['.', 'b', 'z', '2'], ['.', 'b', 'z', 'i', 'p', '2']]),
   (.xz, [['.', 'x', 'z']])]

/-- `CompressionCodec::name()` of a registry row ↦ the codec; an unknown name has no model -/
def codecOfName (n : String) : Option Codec :=
  if n = "gzip" then some .gzip else if n = "zstd" then some .zstd
  else if n = "bzip2" then some .bzip2 else if n = "xz" then some .xz else none

/-- the rows `(name, extensions, magic)` of `compression::verif_codec_table()` as a model registry -/
def registryOfTable (t : List (String × List String × Option (List Nat))) : Option (List (Codec × List Str)) :=
  t.mapM (fun r => (codecOfName r.1).map (fun c => (c, r.2.1.map String.toList)))

/-- `detect_from_extension` over a registry: first registered codec one of whose extensions is a suffix of
    the lower-cased path -/
def extCodecWith (reg : List (Codec × List Str)) (key : Str) : Option Codec :=
  (reg.find? (fun e => e.2.any (fun ext => endsWith (lower key) ext))).map (·.1)

def extCodec (key : Str) : Option Codec := extCodecWith registry key

/-- `Path::new(s).file_name()` on Unix: the last component that is not empty and not `.`;
    `None` if there is none or it is `..` -/
def splitOnSlash : Str → List Str
  | [] => [[]]
  | c :: r =>
    if c = '/' then [] :: splitOnSlash r
    else match splitOnSlash r with
      | [] => [[c]]
      | s :: ss => (c :: s) :: ss

def fileName (path : Str) : Option Str :=
  match ((splitOnSlash path).filter (fun s => s != [] && s != ['.'])).getLast? with
  | none => none
  | some s => if s = ['.', '.'] then none else some s

/-- `Path::extension`: the part of the file name after its last `.`; `None` when there is no `.` or the
    only `.` is the first character of the file name -/
def pathExtension (path : Str) : Option Str :=
  match fileName path with
  | none => none
  | some f =>
    let after := (f.reverse.takeWhile (· != '.')).reverse
    if after.length = f.length then none                 -- no dot
    else if after.length + 1 = f.length then none        -- before == ""
    else some after

def codecOfExtName (e : Str) : Option Codec :=
  if e = ['g', 'z'] ∨ e = ['g', 'z', 'i', 'p'] then some .gzip
  else if e = ['z', 's', 't'] ∨ e = ['z', 's', 't', 'd'] then some .zstd
  else if e = ['b', 'z', '2'] ∨ e = ['b', 'z', 'i', 'p', '2'] then some .bzip2
  else if e = ['x', 'z'] then some .xz
  else none

/-- pinned-commit writer: `Path::new(&key.to_lowercase()).extension()` compared with the extension names -/
def Legacy.writerCodec (key : Str) : Codec :=
  ((pathExtension (lower key)).bind codecOfExtName).getD .plain

/-- the text after the LAST `.` of the whole string (`rsplit_once('.')`), `none` without a `.` -/
def rsplitDotExt (s : Str) : Option Str :=
  let after := (s.reverse.takeWhile (· != '.')).reverse
  if after.length = s.length then none else some after

/-- NOT the code: the codec named by the text after the last `.` of the lower-cased key. Kept because it is
    the convenient form for reasoning; `Props/C19.lean::writerCodec_eq_lastDot` proves it equal to the
    transliterated chain below for every key. -/
def writerCodecByLastDot (key : Str) : Codec :=
  ((rsplitDotExt (lower key)).bind codecOfExtName).getD .plain

/-- current writer, `write_cloud_jsonl_vec` (readers.rs), branch by branch:
    ```
    let key_lower = key.to_lowercase();
    if key_lower.ends_with(".gz") || key_lower.ends_with(".gzip") { gzip }
    else if key_lower.ends_with(".zst") || key_lower.ends_with(".zstd") { zstd }
    else if key_lower.ends_with(".bz2") || key_lower.ends_with(".bzip2") { bzip2 }
    else if key_lower.ends_with(".xz") { xz }
    else { uncompressed }
    ```
    (all four compression features are enabled in the build under test, so no branch returns `InvalidInput`) -/
def writerCodec (key : Str) : Codec :=
  let keyLower := lower key
  if endsWith keyLower ['.', 'g', 'z'] || endsWith keyLower ['.', 'g', 'z', 'i', 'p'] then .gzip
  else if endsWith keyLower ['.', 'z', 's', 't'] || endsWith keyLower ['.', 'z', 's', 't', 'd'] then .zstd
  else if endsWith keyLower ['.', 'b', 'z', '2'] || endsWith keyLower ['.', 'b', 'z', 'i', 'p', '2'] then .bzip2
  else if endsWith keyLower ['.', 'x', 'z'] then .xz
  else .plain

/-- the same chain as data (condition alternatives per branch, in source order): what
    `Props/C19.lean::writer_chain_is_table` compares with the registry dumped from the running code -/
def writerChain : List (Codec × List Str) :=
  [(.gzip, [['.', 'g', 'z'], ['.', 'g', 'z', 'i', 'p']]),
   (.zstd, [['.', 'z', 's', 't'], ['.', 'z', 's', 't', 'd']]),
   (.bzip2, [['.', 'b', 'z', '2'], ['.', 'b', 'z', 'i', 'p', '2']]),
   (.xz, [['.', 'x', 'z']])]

section io
variable {R β : Type}

/-- the serialiser / codec the code calls (serde_json, flate2, zstd, bzip2, xz2): parameters whose
    laws are hypotheses of the theorems -/
structure Ext (R β : Type) where
  ser : R → Str                      -- `serde_json::to_writer`
  de : Str → Option R                -- `serde_json::from_str`
  enc : Codec → Str → β              -- the encoder (`.plain` = the bytes themselves)
  dec : Codec → β → Option Str       -- the decoder + UTF-8 validation of `lines()`
  magic : β → Option Codec           -- `detect_from_magic` on the stored bytes (`none` = no signature)

/-- `for item in data { to_writer(item); push('\n') }` -/
def jsonl (x : Ext R β) (rs : List R) : Str := rs.flatMap (fun r => x.ser r ++ ['\n'])

/-- `BufRead::lines`: split at `\n`, no final empty line, one trailing `\r` stripped per line -/
def splitLines : Str → List Str
  | [] => []
  | c :: r =>
    if c = '\n' then [] :: splitLines r
    else match splitLines r with
      | [] => [[c]]
      | l :: ls => (c :: l) :: ls

def stripCR (l : Str) : Str :=
  match l.reverse with
  | '\r' :: r => r.reverse
  | _ => l

/-- `char::is_whitespace` restricted to what `trim` can meet in a line: the ASCII ones and U+0085/U+00A0…;
    only used through the hypothesis "a serialised record is not blank" -/
def isWhite (c : Char) : Bool :=
  c == ' ' || ('\t'.toNat ≤ c.toNat && c.toNat ≤ '\r'.toNat) || c.toNat == 0x85 || c.toNat == 0xA0

def blank (l : Str) : Bool := l.all isWhite

/-- the body of `read_cloud_jsonl_vec` after decompression -/
def parseJsonl (x : Ext R β) (text : Str) : Option (List R) :=
  (((splitLines text).map stripCR).filter (fun l => !blank l)).mapM x.de

/-- `auto_detect_reader`: extension first, then magic bytes, else as-is -/
def readerCodec (x : Ext R β) (key : Str) (blob : β) : Codec :=
  match extCodec key with
  | some c => c
  | none => (x.magic blob).getD .plain

/-- `write_cloud_jsonl_vec` with the codec choice as a parameter -/
def writeObjWith (wc : Str → Codec) (x : Ext R β) (s : Store β) (key : Str) (rs : List R) : Store β :=
  put s key (x.enc (wc key) (jsonl x rs))

def writeObj (x : Ext R β) (s : Store β) (key : Str) (rs : List R) : Store β :=
  writeObjWith writerCodec x s key rs

def Legacy.writeObj (x : Ext R β) (s : Store β) (key : Str) (rs : List R) : Store β :=
  writeObjWith Legacy.writerCodec x s key rs

/-- a sequence of `write_cloud_jsonl_vec` calls on one bucket -/
def writeAll (x : Ext R β) (s : Store β) : List (Str × List R) → Store β
  | [] => s
  | o :: os => writeAll x (writeObj x s o.1 o.2) os

/-- `read_cloud_jsonl_vec` -/
def readObj (x : Ext R β) (s : Store β) (key : Str) : Except Err (List R) :=
  match get s key with
  | none => .error .notFound
  | some blob =>
    match x.dec (readerCodec x key blob) blob with
    | none => .error .internal
    | some text =>
      match parseJsonl x text with
      | none => .error .internal
      | some rs => .ok rs

/-- the `for key in keys { all.extend(read(key)?) }` loop of `read_cloud_jsonl_glob` -/
def readAll (x : Ext R β) (s : Store β) : List Str → Except Err (List R)
  | [] => .ok []
  | k :: ks =>
    match readObj x s k with
    | .error e => .error e
    | .ok rs =>
      match readAll x s ks with
      | .error e => .error e
      | .ok rest => .ok (rs ++ rest)

/-- `read_cloud_jsonl_glob` -/
def readGlob (x : Ext R β) (s : Store β) (pat : Str) : Except Err (List R) :=
  match expandGlob (keysOf s) pat with
  | .error e => .error e
  | .ok ks => readAll x s ks

end io

/-! ## the serialiser / codec instance the driver EXECUTES the model with

Records travel as opaque tokens `r<lower-case hex of their JSON>`; a compressed blob is the text behind a
one-word signature that is not a scalar value. `Props/C19.lean::wireExt_lawful` proves that this instance
satisfies the hypotheses of the round-trip theorems, so what the driver runs is an instance the theorems
are about. -/

def isHexChar (c : Char) : Bool := ('0' ≤ c ∧ c ≤ '9') || ('a' ≤ c ∧ c ≤ 'f')

structure RecTok where
  hex : Str
  ok : hex.all isHexChar = true
  deriving DecidableEq

def codecTag : Codec → Nat
  | .plain => 0 | .gzip => 0x110001 | .zstd => 0x110002 | .bzip2 => 0x110003 | .xz => 0x110004

def wireText (b : List Nat) : Option Str :=
  if b.all (· < 0x110000) then some (b.map Char.ofNat) else none

def wireExt : Ext RecTok (List Nat) where
  ser r := 'r' :: r.hex
  de l := match l with
    | 'r' :: h => if hh : h.all isHexChar = true then some ⟨h, hh⟩ else none
    | _ => none
  enc c t := match c with
    | .plain => t.map Char.toNat
    | c => codecTag c :: t.map Char.toNat
  dec c b := match c with
    | .plain => wireText b
    | c => match b with
      | tag :: rest => if tag = codecTag c then wireText rest else none
      | [] => none
  magic b := match b with
    | tag :: _ =>
      if tag = 0x110001 then some .gzip else if tag = 0x110002 then some .zstd
      else if tag = 0x110003 then some .bzip2 else if tag = 0x110004 then some .xz else none
    | [] => none

/-! ## a float-bearing record type, as serde_json sees it

`struct RecF { x: f64, o: Option<f64>, v: Vec<f32> }` of the harness. JSON has no text for NaN / ±∞:
`serde_json::Serializer::serialize_f64/f32` writes `null` for a non-finite value (and returns `Ok`), the
deserialiser rejects `null` where an `f64`/`f32` is expected and reads it as `None` where an `Option<f64>` is
expected. A finite value is written as its shortest round-tripping decimal text — opaque here (`NumTok`).
`FRec.parse` is `serde_json::from_str::<RecF>` RESTRICTED to the texts `FRec.json` can produce (compact, fields
in declaration order); nothing else is ever stored by `write_cloud_jsonl_vec`. -/

def isNumChar (c : Char) : Bool :=
  (decide ('0' ≤ c) && decide (c ≤ '9')) || c == '-' || c == '+' || c == '.' || c == 'e' || c == 'E'

/-- the decimal text of a finite float (`-0.0`, `1e-7`, `1.7976931348623157e308`, …) -/
structure NumTok where
  text : Str
  ne : text ≠ []
  ok : text.all isNumChar = true
  deriving DecidableEq

inductive FVal where
  | fin (t : NumTok)
  | nan | pinf | ninf
  deriving DecidableEq

def FVal.isFin : FVal → Bool
  | .fin _ => true
  | _ => false

structure FRec where
  x : FVal
  o : Option FVal
  v : List FVal
  deriving DecidableEq

def nullText : Str := ['n', 'u', 'l', 'l']

/-- `serialize_f64`: `match value.classify() { Nan | Infinite => write_null, _ => write_f64 }` -/
def FVal.json : FVal → Str
  | .fin t => t.text
  | _ => nullText

def joinC (sep : Char) : List Str → Str
  | [] => []
  | [a] => a
  | a :: b :: r => a ++ sep :: joinC sep (b :: r)

/-- `str::split(sep)`: always at least one piece -/
def splitOnC (sep : Char) : Str → List Str
  | [] => [[]]
  | c :: r =>
    if c = sep then [] :: splitOnC sep r
    else match splitOnC sep r with
      | [] => [[c]]
      | s :: ss => (c :: s) :: ss

def pfxX : Str := ['{', '"', 'x', '"', ':']
def pfxO : Str := [',', '"', 'o', '"', ':']
def pfxV : Str := [',', '"', 'v', '"', ':', '[']
def sfxV : Str := [']', '}']

/-- `Option<f64>`: `None` is written `null` — as a non-finite `Some` is -/
def optJson : Option FVal → Str
  | none => nullText
  | some f => f.json

/-- `serde_json::to_writer(&RecF)` (derive(Serialize), compact formatter) -/
def FRec.json (r : FRec) : Str :=
  pfxX ++ (r.x.json ++ (pfxO ++ (optJson r.o ++ (pfxV ++ (joinC ',' (r.v.map FVal.json) ++ sfxV)))))

def stripPrefix : Str → Str → Option Str
  | [], s => some s
  | _ :: _, [] => none
  | p :: ps, c :: s => if p = c then stripPrefix ps s else none

theorem all_takeWhile (p : Char → Bool) (l : Str) : (l.takeWhile p).all p = true := by
  induction l with
  | nil => rfl
  | cons c l ih =>
    cases h : p c <;> simp [h, ih]

/-- a number where a float is expected: the maximal run of number characters, at least one
    (`null` there: "invalid type: null, expected f64") -/
def takeNum (s : Str) : Option (NumTok × Str) :=
  if h : s.takeWhile isNumChar ≠ [] then
    some (⟨s.takeWhile isNumChar, h, all_takeWhile _ _⟩, s.dropWhile isNumChar)
  else none

/-- a whole array element is one number -/
def numWhole? (s : Str) : Option NumTok :=
  if h : s ≠ [] ∧ s.all isNumChar = true then some ⟨s, h.1, h.2⟩ else none

/-- where an `Option<f64>` is expected: `null` ↦ `None`, a number ↦ `Some` -/
def parseO (s : Str) : Option (Option FVal × Str) :=
  match stripPrefix nullText s with
  | some s' => some (none, s')
  | none => (takeNum s).map (fun ts => (some (FVal.fin ts.1), ts.2))

/-- where the `Vec<f32>` is expected (and the object must end after it): the text up to the first `]`, split
    at `,`, every element a number (`null` there: "invalid type: null, expected f32") -/
def parseV (s : Str) : Option (List FVal) :=
  if s.dropWhile (· != ']') = sfxV then
    if s.takeWhile (· != ']') = [] then some []
    else ((splitOnC ',' (s.takeWhile (· != ']'))).mapM numWhole?).map (fun ts => ts.map FVal.fin)
  else none

/-- `serde_json::from_str::<RecF>` on a line written by `FRec.json` -/
def FRec.parse (s : Str) : Option FRec :=
  (stripPrefix pfxX s).bind fun s =>
  (takeNum s).bind fun xs =>
  (stripPrefix pfxO xs.2).bind fun s =>
  (parseO s).bind fun os =>
  (stripPrefix pfxV os.2).bind fun s =>
  (parseV s).map fun v => (⟨FVal.fin xs.1, os.1, v⟩ : FRec)

/-- is `from_str(to_string(r))` an `Ok`: every float that is not behind an `Option` is finite -/
def FRec.readable (r : FRec) : Bool := r.x.isFin && r.v.all FVal.isFin

/-- what comes back when it is: a non-finite `Some` has become `None` -/
def cleanO : Option FVal → Option FVal
  | some (.fin t) => some (.fin t)
  | _ => none

def FRec.clean (r : FRec) : FRec := { r with o := cleanO r.o }

/-- every float of the record is finite (the scope in which JSON can carry the record) -/
def FRec.finite (r : FRec) : Bool :=
  r.x.isFin && (match r.o with | some f => f.isFin | none => true) && r.v.all FVal.isFin

/-- the float record type over the same wire codec as `wireExt` -/
def floatExt : Ext FRec (List Nat) where
  ser := FRec.json
  de := FRec.parse
  enc := wireExt.enc
  dec := wireExt.dec
  magic := wireExt.magic


end IB.CloudGlob
