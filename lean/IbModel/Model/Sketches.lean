/-!
# Sketches: the t-digest (`src/combiners/quantiles.rs`) and the KMV distinct counter
# (`src/combiners/distinct.rs`)

Transliteration of the Rust, branch by branch. The t-digest is generic over a numeric carrier `α`
(`+ − * /`, decidable `≤`/`<`, `==`, and the few `f64` primitives collected in `NumOps`); the theorems
(`Props/C15.lean`) instantiate `α := Rat` (exact arithmetic), the driver (`Driver/D15.lean`) instantiates
`α := Float` (IEEE doubles, `mul_add` emulated exactly in `Model/SketchesFloat.lean`).

The public `add_weighted(value, weight)` is modelled with its weight parameter (`TDigest.addWeighted`; `add` is
`addWeighted · 1`); a merge tree may contain `wleaf` leaves fed through it.

`&mut self` = returned value. `f64::INFINITY` / `NEG_INFINITY` in the fields `min`/`max` of an empty
digest = `none`. `f64::NAN` as a result = `none`. The `Vec<Centroid>` is a `List`.

KMV is generic over the rank type (only `<` and `==` are used); the hash function is not part of the
model: the harness supplies the hash values.
-/
namespace IB.Sketches

/-- the `f64` primitives used by `quantiles.rs` beyond `+ - * /` and comparisons -/
class NumOps (α : Type) where
  zero : α
  one : α
  two : α
  half : α
  /-- `f64::EPSILON` -/
  eps : α
  /-- `usize as f64` -/
  ofNat : Nat → α
  /-- `a.mul_add(b, c)` = `a*b + c` (fused on `f64`) -/
  mulAdd : α → α → α → α
  /-- `f64::min` / `f64::max` -/
  fmin : α → α → α
  fmax : α → α → α
  abs : α → α
  isFinite : α → Bool

open NumOps

section TDigest
variable {α : Type} [Add α] [Sub α] [Mul α] [Div α] [LE α] [LT α] [DecidableLE α] [DecidableLT α]
  [BEq α] [NumOps α]

structure Centroid (α : Type) where
  mean : α
  weight : α

structure TDigest (α : Type) where
  compression : α
  /-- sorted by mean after `compress`; an unsorted tail between compressions -/
  centroids : List (Centroid α)
  total : α
  /-- `none` = `f64::INFINITY` (nothing seen yet) -/
  min : Option α
  /-- `none` = `f64::NEG_INFINITY` -/
  max : Option α

/-- `TDigest::new` -/
def TDigest.new (δ : α) : TDigest α := ⟨δ, [], zero, none, none⟩

/-- `self.min.min(value)` where `self.min` may still be `+∞` -/
def ominV : Option α → α → Option α
  | none, v => some v
  | some m, v => some (fmin m v)
def omaxV : Option α → α → Option α
  | none, v => some v
  | some m, v => some (fmax m v)
/-- `self.min.min(other.min)` -/
def ominO : Option α → Option α → Option α
  | none, o => o
  | some a, none => some a
  | some a, some b => some (fmin a b)
def omaxO : Option α → Option α → Option α
  | none, o => o
  | some a, none => some a
  | some a, some b => some (fmax a b)

/-- `f64::clamp(lo, hi)`: `if x < lo {lo} else if x > hi {hi} else x` -/
def clamp (x lo hi : α) : α := if x < lo then lo else if x > hi then hi else x

/-- `k_size`: `(δ·q·(1−q)/2).max(1)` with `q` clamped to `[0,1]` -/
def kSize (δ q : α) : α :=
  let q := clamp q zero one
  fmax (δ * q * (one - q) / two) one

/-- the centroid that replaces `cur` when `c` is merged into it -/
def mergeCentroid (cur c : Centroid α) : Centroid α :=
  let pw := cur.weight + c.weight
  ⟨mulAdd cur.mean cur.weight (c.mean * c.weight) / pw, pw⟩

/-- does `compress` merge `c` into `cur` (cumulative weight before `cur` is `cum`)? -/
def fits (δ total cum : α) (cur c : Centroid α) : Bool :=
  let pw := cur.weight + c.weight
  let q0 := cum / total
  let q1 := (cum + pw) / total
  decide (pw ≤ fmin (kSize δ q0) (kSize δ q1))

/-- the loop of `compress` over the sorted centroids after the first; `bound cur c m` is what the code
    applies to the freshly merged mean `m` of `cur` and `c` (identity in `Legacy`) -/
def compressLoopWith (bound : Centroid α → Centroid α → α → α) (δ total : α) :
    α → Centroid α → List (Centroid α) → List (Centroid α)
  | _, cur, [] => [cur]
  | cum, cur, c :: rest =>
    if fits δ total cum cur c then
      let m := mergeCentroid cur c
      compressLoopWith bound δ total cum ⟨bound cur c m.mean, m.weight⟩ rest
    else
      cur :: compressLoopWith bound δ total (cum + cur.weight) c rest

/-- current code: `(…).max(current.mean).min(centroid.mean)` — a merged mean never passes either of the two
    means it merges (so rounding / overflow cannot break the order of the centroids, nor leave `[min,max]`) -/
def boundBetween (cur c : Centroid α) (m : α) : α := fmin (fmax m cur.mean) c.mean

/-- the comparator of `sort_by(|a,b| a.mean.partial_cmp(&b.mean).unwrap_or(Equal))`: "not greater" -/
def meanLe (a b : Centroid α) : Bool := !decide (b.mean < a.mean)

/-- keep a merged mean inside `[min, max]` (the guard of `ad184d4`, replaced by `boundBetween`; see `Legacy.compressMinMax`) -/
def clampOpt (mn mx : Option α) (x : α) : α :=
  match mn, mx with
  | some lo, some hi => clamp x lo hi
  | _, _ => x

/-- `TDigest::compress` -/
def TDigest.compress (d : TDigest α) : TDigest α :=
  match d.centroids.mergeSort meanLe with
  | [] => d
  | c :: rest =>
    { d with centroids := compressLoopWith boundBetween d.compression d.total zero c rest }

/-- `insertByMean` on the reversed list: in front of the first (= after the last, in the original order)
    centroid whose mean is `≤` the new one -/
def insertRev (c : Centroid α) : List (Centroid α) → List (Centroid α)
  | [] => [c]
  | x :: xs => if x.mean ≤ c.mean then c :: x :: xs else x :: insertRev c xs

/-- `let pos = centroids.iter().rposition(|c| c.mean <= value).map_or(0, |i| i + 1); centroids.insert(pos, new)` -/
def insertByMean (c : Centroid α) (l : List (Centroid α)) : List (Centroid α) := (insertRev c l.reverse).reverse

/-- the guard of `add_weighted` on the weight: `!weight.is_finite() || weight <= 0.0` ⇒ the call is ignored -/
def weightOk (w : α) : Bool := isFinite w && !decide (w ≤ zero)

/-- `TDigest::add_weighted(value, weight)`: a non-finite value, or a weight that is not a positive finite number, is
    ignored (`if !value.is_finite() || !weight.is_finite() || weight <= 0.0 { return; }`) -/
def TDigest.addWeighted (d : TDigest α) (x w : α) : TDigest α :=
  if !isFinite x || !weightOk w then d else
  let d1 : TDigest α :=
    { d with min := ominV d.min x, max := omaxV d.max x,
             centroids := insertByMean ⟨x, w⟩ d.centroids, total := d.total + w }
  if ofNat d1.centroids.length > d1.compression * two then d1.compress else d1

/-- `TDigest::add` = `add_weighted(value, 1.0)` -/
def TDigest.add (d : TDigest α) (x : α) : TDigest α := d.addWeighted x one

/-- `TDigest::merge` -/
def TDigest.merge (d o : TDigest α) : TDigest α :=
  if o.total == zero then d else
  TDigest.compress
    { d with min := ominO d.min o.min, max := omaxO d.max o.max,
             centroids := d.centroids ++ o.centroids, total := d.total + o.total }

/-- the `for i in 0..len` loop of `quantile`; `left` is the previous centroid's mean (`min` for
    `i = 0`), `cum` the cumulative weight before the head; `post` is applied to the interpolated
    value (the clamp of the current code; identity in `Legacy`) -/
def quantileLoopWith (post : α → α) (mx target : α) : α → α → List (Centroid α) → α
  | _, _, [] => mx
  | left, cum, c :: rest =>
    let next := cum + c.weight
    if next ≥ target then
      if abs (next - cum) < eps then c.mean
      else
        let fraction := (target - cum) / c.weight
        let right := match rest with
          | [] => mx
          | r :: _ => r.mean
        post (left + fraction * (right - left))
    else quantileLoopWith post mx target c.mean next rest

/-- `quantile` on a digest with at least one centroid (`min`/`max` are then finite numbers): the two end-point
    tests come FIRST, the single-centroid short cut after them (a single centroid built from fractional weights
    has `min < max`: `q = 1` must answer `max`) -/
def quantileCoreWith (post : α → α) (total : α) (cs : List (Centroid α)) (mn mx q : α) : α :=
  let q := clamp q zero one
  if abs (q - zero) ≤ eps then mn
  else if abs (q - one) ≤ eps then mx
  else if cs.length == 1 then mn
  else quantileLoopWith post mx (q * total) mn zero cs

/-- `TDigest::quantile`; `none` = `f64::NAN` -/
def TDigest.quantile (d : TDigest α) (q : α) : Option α :=
  match d.centroids, d.min, d.max with
  | [], _, _ => none
  | c :: cs, some mn, some mx => some (quantileCoreWith (fun x => clamp x mn mx) d.total (c :: cs) mn mx q)
  | _ :: _, _, _ => none   -- unreachable: a digest with a centroid has seen a finite value

/-- the current `quantile` without the final clamp of `ad184d4` (exact arithmetic: the same function,
    `quantile_eq_noclamp`) -/
def TDigest.quantileNoClamp (d : TDigest α) (q : α) : Option α :=
  match d.centroids, d.min, d.max with
  | [], _, _ => none
  | c :: cs, some mn, some mx => some (quantileCoreWith id d.total (c :: cs) mn mx q)
  | _ :: _, _, _ => none

/-- which branch of `quantile` answers `q`: the empty digest, the `min` / `max` short cuts, the `i`-th centroid
    of the walk, or the fall-through after the loop. Same tests, same order, same arithmetic as
    `quantileCoreWith` / `quantileLoopWith`; used to say WHERE an inversion of the estimate sits. -/
inductive Cover where
  | empty | min | max | at (i : Nat) | past
  deriving DecidableEq, Repr

def coverLoop (target : α) : α → Nat → List (Centroid α) → Cover
  | _, _, [] => .past
  | cum, i, c :: rest =>
    let next := cum + c.weight
    if next ≥ target then .at i else coverLoop target next (i + 1) rest

def TDigest.cover (d : TDigest α) (q : α) : Cover :=
  match d.centroids with
  | [] => .empty
  | c :: cs =>
    let q := clamp q zero one
    if abs (q - zero) ≤ eps then .min
    else if abs (q - one) ≤ eps then .max
    else if (c :: cs).length == 1 then .min
    else coverLoop (q * d.total) zero 0 (c :: cs)

/-- `TDigest::quantiles` -/
def TDigest.quantiles (d : TDigest α) (qs : List α) : List (Option α) := qs.map d.quantile

/-- the loop of `cdf` -/
def cdfLoop (value total : α) : α → α → List (Centroid α) → α
  | cum, _, [] => cum / total
  | cum, prev, c :: rest =>
    if value < c.mean then
      let fraction := (value - prev) / fmax (c.mean - prev) eps
      mulAdd fraction c.weight cum / total
    else cdfLoop value total (cum + c.weight) c.mean rest

/-- `TDigest::cdf` -/
def TDigest.cdf (d : TDigest α) (v : α) : α :=
  match d.centroids, d.min, d.max with
  | [], _, _ => zero
  | c :: cs, some mn, some mx =>
    if v < mn then zero else if v ≥ mx then one else cdfLoop v d.total zero mn (c :: cs)
  | _ :: _, _, _ => zero

/-- `is_empty` -/
def TDigest.isEmpty (d : TDigest α) : Bool := d.total == zero

/-- `ApproxQuantiles::finish` -/
def approxQuantilesFinish (qs : List α) (d : TDigest α) : List (Option α) :=
  if d.isEmpty then qs.map (fun _ => none) else d.compress.quantiles qs

/-- `ApproxMedian::finish` -/
def approxMedianFinish (d : TDigest α) : Option α :=
  if d.isEmpty then none else d.compress.quantile half

/-- `create` + `add_input` for every value (one partition, element-wise path) -/
def foldAdd (δ : α) (xs : List α) : TDigest α := xs.foldl TDigest.add (TDigest.new δ)

/-- `build_from_group` (lifted path): fold, then one `compress` -/
def buildFromGroup (δ : α) (xs : List α) : TDigest α := (foldAdd δ xs).compress

/-- `create` + `add_weighted` for every (value, weight) pair (direct use of the public `TDigest`) -/
def foldAddW (δ : α) (ps : List (α × α)) : TDigest α :=
  ps.foldl (fun d p => d.addWeighted p.1 p.2) (TDigest.new δ)

/-- a merge tree: how the engine (or a direct user of `TDigest`) combined the accumulators -/
inductive MTree (α : Type) where
  | leaf (xs : List α)
  | built (xs : List α)
  /-- a digest fed through the public `add_weighted` with (value, weight) pairs -/
  | wleaf (ps : List (α × α))
  | node (l r : MTree α)

/-- the values offered with an admissible weight (non-finite VALUES are still listed: that they are ignored is
    `nonfinite_ignored_tree`; pairs whose WEIGHT is not a positive finite number are not inputs at all) -/
def MTree.leaves : MTree α → List α
  | .leaf xs => xs
  | .built xs => xs
  | .wleaf ps => (ps.filter (fun p => weightOk p.2)).map Prod.fst
  | .node l r => l.leaves ++ r.leaves

/-- no `add_weighted` leaf: everything a pipeline builds (`add_input` has weight 1) -/
def MTree.unit : MTree α → Bool
  | .leaf _ => true
  | .built _ => true
  | .wleaf _ => false
  | .node l r => l.unit && r.unit

/-- `l.merge(&r)` at every inner node -/
def MTree.eval (δ : α) : MTree α → TDigest α
  | .leaf xs => foldAdd δ xs
  | .built xs => buildFromGroup δ xs
  | .wleaf ps => foldAddW δ ps
  | .node l r => (l.eval δ).merge (r.eval δ)

/-! ## `Legacy`: the code before the C15 fixes (`ad184d4`: no clamp on merged means, none on the estimate;
    `673b7b5`: `add` appended, so the centroids were unsorted between two compressions; the `add_weighted` /
    `quantile` fix: any weight was accepted and the single-centroid short cut of `quantile` came before the
    `q = 1` test) -/
namespace Legacy

def compress (d : TDigest α) : TDigest α :=
  match d.centroids.mergeSort meanLe with
  | [] => d
  | c :: rest => { d with centroids := compressLoopWith (fun _ _ m => m) d.compression d.total zero c rest }

/-- `compress` between `ad184d4` and `994fdb6`: the merged mean was clamped to `[min,max]` only. In exact
    arithmetic indistinguishable from both neighbours (a weighted mean of two values lies between them); on `f64`
    the merged mean of `0.1, 0.1, 0.1` is `0.10000000000000002` and lands BEFORE a following `0.1`, and near
    `f64::MAX` the products overflow and the mean collapses to `min`/`max` (corpus of `harness/src/c15.rs`). -/
def compressMinMax (d : TDigest α) : TDigest α :=
  match d.centroids.mergeSort meanLe with
  | [] => d
  | c :: rest => { d with centroids := compressLoopWith (fun _ _ m => clampOpt d.min d.max m) d.compression d.total zero c rest }

def add (d : TDigest α) (x : α) : TDigest α :=
  if !isFinite x then d else
  let d1 : TDigest α :=
    { d with min := ominV d.min x, max := omaxV d.max x,
             centroids := d.centroids ++ [⟨x, one⟩], total := d.total + one }
  if ofNat d1.centroids.length > d1.compression * two then compress d1 else d1

def merge (d o : TDigest α) : TDigest α :=
  if o.total == zero then d else
  compress
    { d with min := ominO d.min o.min, max := omaxO d.max o.max,
             centroids := d.centroids ++ o.centroids, total := d.total + o.total }

/-- `quantile` before the end-point tests were moved in front of the single-centroid short cut:
    `if |q − 0| ≤ ε || len == 1 { return min }` came first -/
def quantileCoreWith (post : α → α) (total : α) (cs : List (Centroid α)) (mn mx q : α) : α :=
  let q := clamp q zero one
  if abs (q - zero) ≤ eps || cs.length == 1 then mn
  else if abs (q - one) ≤ eps then mx
  else quantileLoopWith post mx (q * total) mn zero cs

/-- `quantile` before `ad184d4` (no clamp on the estimate, short cut first) -/
def quantile (d : TDigest α) (q : α) : Option α :=
  match d.centroids, d.min, d.max with
  | [], _, _ => none
  | c :: cs, some mn, some mx => some (quantileCoreWith id d.total (c :: cs) mn mx q)
  | _ :: _, _, _ => none

/-- `quantile` between `ad184d4` and the `add_weighted` fix (clamp, short cut first) -/
def quantileShortcutFirst (d : TDigest α) (q : α) : Option α :=
  match d.centroids, d.min, d.max with
  | [], _, _ => none
  | c :: cs, some mn, some mx => some (quantileCoreWith (fun x => clamp x mn mx) d.total (c :: cs) mn mx q)
  | _ :: _, _, _ => none

/-- `add_weighted` before the fix: ordered insert (`673b7b5`), but ANY weight was accepted (zero, negative, NaN, ∞) -/
def addWeighted (d : TDigest α) (x w : α) : TDigest α :=
  if !isFinite x then d else
  let d1 : TDigest α :=
    { d with min := ominV d.min x, max := omaxV d.max x,
             centroids := insertByMean ⟨x, w⟩ d.centroids, total := d.total + w }
  if ofNat d1.centroids.length > d1.compression * two then d1.compress else d1

def foldAdd (δ : α) (xs : List α) : TDigest α := xs.foldl add (TDigest.new δ)

def eval (δ : α) : MTree α → TDigest α
  | .leaf xs => foldAdd δ xs
  | .built xs => compress (foldAdd δ xs)
  | .wleaf ps => ps.foldl (fun d p => addWeighted d p.1 p.2) (TDigest.new δ)
  | .node l r => merge (eval δ l) (eval δ r)

def approxQuantilesFinish (qs : List α) (d : TDigest α) : List (Option α) :=
  if d.isEmpty then qs.map (fun _ => none) else qs.map (quantile (compress d))

end Legacy
end TDigest

/-! ## KMV -/
section KMV
variable {α : Type} [BEq α] [LT α] [DecidableLT α]

/-- `KMVAcc`: `heap` = the `BinaryHeap` (a max-heap, modelled by its contents), `set` = the `HashSet` -/
structure KMV (α : Type) where
  heap : List α
  set : List α
  k : Nat

/-- `KMVApproxDistinctCount::new(k)` clamps the sketch size -/
def kmvK (k : Nat) : Nat := Nat.max k 4

/-- `create` -/
def KMV.create (k : Nat) : KMV α := ⟨[], [], k⟩

/-- `BinaryHeap::peek`: the largest element -/
def heapMax : List α → Option α
  | [] => none
  | x :: xs =>
    match heapMax xs with
    | none => some x
    | some m => if m < x then some x else some m

/-- `KMVAcc::try_insert` -/
def KMV.tryInsert (a : KMV α) (r : α) : KMV α :=
  -- `if !self.set.insert(r) { return; }`
  if a.set.contains r then a else
  let set1 := r :: a.set
  if a.heap.length < a.k then
    { a with heap := r :: a.heap, set := set1 }
  else
    match heapMax a.heap with
    | some rk =>
      if r < rk then
        -- pop the threshold from heap and set, push the smaller rank
        { a with heap := r :: a.heap.erase rk, set := set1.erase rk }
      else
        -- worse than the threshold: forget it again
        { a with set := set1.erase r }
    | none => { a with set := set1 }   -- k = 0: nothing is ever kept in the heap

/-- `while let Some(r) = other.heap.pop() { self.try_insert(r) }` (largest first) -/
def KMV.drain : Nat → KMV α → List α → KMV α
  | 0, a, _ => a
  | fuel + 1, a, h =>
    match heapMax h with
    | none => a
    | some m => KMV.drain fuel (a.tryInsert m) (h.erase m)

/-- `KMVAcc::merge_from` -/
def KMV.mergeFrom (a o : KMV α) : KMV α := KMV.drain o.heap.length a o.heap

inductive KmvOut (α : Type) where
  /-- `m == 0` ⇒ `0.0` -/
  | zero
  /-- fewer than `k` distinct ranks: the exact count -/
  | exact (m : Nat)
  /-- `(k − 1) / r_k` -/
  | est (k : Nat) (rk : α)
  /-- `heap.peek().expect(..)` on an empty heap (only for `k = 0`) -/
  | panic

/-- `KMVAcc::finish` -/
def KMV.finish (a : KMV α) : KmvOut α :=
  let m := a.set.length
  if m == 0 then .zero
  else if m < a.k then .exact m
  else match heapMax a.heap with
    | some rk => .est a.k rk
    | none => .panic

/-- merge tree of KMV accumulators; a leaf is `create` + `try_insert` of every rank in order -/
inductive KTree (α : Type) where
  | leaf (xs : List α)
  | node (l r : KTree α)

/-- `KMVApproxDistinctCount::build_from_group`: `let mut acc = self.create(); for v in values { acc.try_insert(rank(v)) }`
    — literally the loop of an element-wise leaf -/
def KTree.built (xs : List α) : KTree α := .leaf xs

def KTree.leaves : KTree α → List α
  | .leaf xs => xs
  | .node l r => l.leaves ++ r.leaves

def KTree.eval (k : Nat) : KTree α → KMV α
  | .leaf xs => xs.foldl KMV.tryInsert (KMV.create k)
  | .node l r => (l.eval k).mergeFrom (r.eval k)

end KMV

/-! ## `Rat` instance (exact arithmetic; the theorems are about this one) -/

instance : NumOps Rat where
  zero := 0
  one := 1
  two := 2
  half := 1 / 2
  eps := 1 / 4503599627370496
  ofNat n := (n : Rat)
  mulAdd a b c := a * b + c
  fmin a b := if a ≤ b then a else b
  fmax a b := if a ≤ b then b else a
  abs a := if 0 ≤ a then a else -a
  isFinite _ := true

end IB.Sketches
