/-!
# `CombineFn` / `LiftableCombiner` as a structure (src/collection.rs)

`create`, `add_input`, `merge`, `finish` and `build_from_group`, with `&mut A` turned into a returned
accumulator. Shared by the combiner models (C06), the per-key / global combine closures (C05, C01) and
the sketches (C14, C15).
-/
namespace IB

structure Combiner (V A O : Type) where
  create : A
  add : A → V → A
  merge : A → A → A
  finish : A → O
  /-- `LiftableCombiner::build_from_group`; the trait's default is the fold below -/
  build : List V → A

namespace Combiner
variable {V A O : Type}

/-- add the values one at a time, left to right -/
def foldAdd (c : Combiner V A O) (a : A) (xs : List V) : A := xs.foldl c.add a

/-- the trait's default `build_from_group` -/
def defaultBuild (create : A) (add : A → V → A) (xs : List V) : A := xs.foldl add create

@[simp] theorem foldAdd_nil (c : Combiner V A O) (a : A) : c.foldAdd a [] = a := rfl
@[simp] theorem foldAdd_cons (c : Combiner V A O) (a : A) (x : V) (xs : List V) :
    c.foldAdd a (x :: xs) = c.foldAdd (c.add a x) xs := rfl
theorem foldAdd_append (c : Combiner V A O) (a : A) (xs ys : List V) :
    c.foldAdd a (xs ++ ys) = c.foldAdd (c.foldAdd a xs) ys := by
  simp [foldAdd, List.foldl_append]

end Combiner

/-- What the engine needs from a combiner: accumulators are compared up to an equivalence `R`
    (e.g. "same set", "same heap contents"); merging two folds is the fold of the concatenation;
    `finish` does not look beyond `R`; `build_from_group` is the fold. Commutativity is *not* part of
    this structure: the engine always merges in partition order. -/
structure LawfulCombiner {V A O : Type} (c : Combiner V A O) (R : A → A → Prop) : Prop where
  refl : ∀ a, R a a
  symm : ∀ {a b}, R a b → R b a
  trans : ∀ {a b d}, R a b → R b d → R a d
  merge_congr : ∀ {a a' b b'}, R a a' → R b b' → R (c.merge a b) (c.merge a' b')
  finish_congr : ∀ {a b}, R a b → c.finish a = c.finish b
  merge_fold : ∀ xs ys, R (c.merge (c.foldAdd c.create xs) (c.foldAdd c.create ys))
                          (c.foldAdd c.create (xs ++ ys))
  build_fold : ∀ xs, R (c.build xs) (c.foldAdd c.create xs)

end IB
