import IbModel.Model.Closures
import IbModel.Model.Planner
import IbModel.Model.Combiners
import IbModel.Model.UserCombiners
/-!
# Programs: the named function library and the translation of builder calls to node chains

The harness implements the same library in Rust (`harness/src/pipe.rs`). A program is a source
vector and a list of steps; each step stands for one public builder call (or a fixed short sequence of
them, e.g. `distinct`) and inserts the same nodes, in the same order, as the Rust builders do.
User functions stay shallow: theorems quantify over arbitrary `Val → Val`; the library only
instantiates them for the correspondence check.
-/
namespace IB
open Val

inductive Fn | add (n : Int) | mul (n : Int) | modn (m : Int) | neg | dup | fst | snd | wrap | len | tostr | ident
deriving Repr
inductive Pred | even | lt (n : Int) | ge (n : Int) | ne (n : Int) | tt | ff
deriving Repr
inductive FlatFn | rep (n : Nat) | upto | ifeven | twice
deriving Repr
inductive KeyFn | kmod (m : Int) | kself | kconst (c : Int) | kstr
deriving Repr
/-- chunk functions: `each f` is element-wise (hence partition-independent); the others look across
    their slice and are partition-dependent by the operator's documented per-partition semantics -/
inductive BatchFn | each (f : Fn) | rev | sumall
  /-- length-CHANGING chunk functions (round 3): drop the chunk's last element / repeat its first one -/
  | droplast | dupfirst
  /-- one row per chunk holding the chunk's length: NON-empty on the empty slice, so a batch operator that calls its
      function on an empty partition (the real chunk loop never does) becomes visible -/
  | countrow
deriving Repr
inductive Comb | count | sum | min | max | minT | maxT | distinctSet | topK (k : Nat)
  /-- user combiners with non-`Option` accumulators (`Model/UserCombiners.lean`) -/
  | uSumMod (m : Int) | uUnion | uMaxAbs | uLast
deriving Repr

def natToDec (n : Nat) : String := toString n
def intToDec (i : Int) : String := toString i

def Fn.eval : Fn → Val → Val
  | .add n, x => .int (x.toInt + n)
  | .mul n, x => .int (x.toInt * n)
  | .modn m, x => .int (x.toInt % m)
  | .neg, x => .int (- x.toInt)
  | .dup, x => .pair x x
  | .fst, x => match x with | .pair a _ => a | v => v
  | .snd, x => match x with | .pair _ b => b | v => v
  | .wrap, x => ofList [x]
  | .len, x => match x with
      | .nil => .int 0
      | .cons h t => .int ((toList (.cons h t)).length)
      | .str s => .int s.utf8ByteSize
      | _ => .int 1
  | .tostr, x => .str (intToDec x.toInt)
  | .ident, x => x

def Pred.eval : Pred → Val → Bool
  | .even, x => x.toInt % 2 == 0
  | .lt n, x => x.toInt < n
  | .ge n, x => x.toInt ≥ n
  | .ne n, x => x.toInt != n
  | .tt, _ => true
  | .ff, _ => false

def FlatFn.eval : FlatFn → Val → List Val
  | .rep n, x => List.replicate n x
  | .upto, x => (List.range (min x.toInt.natAbs 3)).map (fun i => .int (Int.ofNat i))
  | .ifeven, x => if x.toInt % 2 == 0 then [x] else []
  | .twice, x => [x, .int (x.toInt + 1)]

def KeyFn.eval : KeyFn → Val → Val
  | .kmod m, x => .int (x.toInt % m)
  | .kself, x => x
  | .kconst c, _ => .int c
  | .kstr, x => .str (intToDec (x.toInt % 3))

def BatchFn.eval : BatchFn → List Val → List Val
  | .each f, c => c.map f.eval
  | .rev, c => c.reverse
  | .sumall, c => c.map (fun _ => .int ((c.map toInt).foldl (· + ·) 0))
  | .droplast, c => c.dropLast
  | .dupfirst, c => match c with | [] => [] | x :: xs => x :: x :: xs
  | .countrow, c => [.int c.length]

/-! ## `Val`-level combiners used by the pipeline model (accumulators are `Val`s) -/

/-- A typed combiner (`Model/Combiners.lean`, the literal models of C06) seen as a `Val`-level one: input
    values are decoded with `decV`, the accumulator travels encoded (`encA`, read back with `decA`), the
    output is encoded with `encO`. With `decA (encA a) = a` every law of the typed combiner transfers
    (`Proofs/CombTransfer.lean`). -/
def Combiner.toVal {V A O : Type} (decV : Val → V) (encA : A → Val) (decA : Val → A) (encO : O → Val)
    (t : Combiner V A O) : VCombiner where
  create := encA t.create
  add a v := encA (t.add (decA a) (decV v))
  merge a b := encA (t.merge (decA a) (decA b))
  finish a := encO (t.finish (decA a))
  build xs := encA (t.build (xs.map decV))

/-- the real `TopK<V>` (C06's literal model `topKBy`: `BinaryHeap<Reverse<V>>` = ascending list, the
    `len₁ + len₂ ≤ k` extend path and the two-pointer merge, `finish` = descending `Vec`,
    `build_from_group` = the push / pop-if-larger-than-k loop) over the harness order `V: Ord` = `Val.le`;
    the heap travels as the `Val` list of its ascending contents -/
def topKVal (k : Nat) : VCombiner :=
  Combiner.toVal id Val.ofList Val.toList Val.ofList (Combiners.topKBy Val.le k)

def minAdd (acc v : Val) : Val :=
  match acc with
  | .some cur => if Val.lt v cur then .some v else .some cur
  | _ => .some v
def maxAdd (acc v : Val) : Val :=
  match acc with
  | .some cur => if Val.lt cur v then .some v else .some cur
  | _ => .some v
def optFinish : Val → Val
  | .some v => v
  | _ => .err      -- `expect("…finish called on empty group")`: a panic

def setInsert (acc : List Val) (v : Val) : List Val := if acc.contains v then acc else acc ++ [v]

def Comb.toCombiner : Comb → VCombiner
  | .count =>
    { create := .int 0, add := fun a _ => .int (a.toInt + 1), merge := fun a b => .int (a.toInt + b.toInt),
      finish := id, build := fun xs => .int xs.length }
  | .sum =>
    { create := .int 0, add := fun a v => .int (a.toInt + v.toInt), merge := fun a b => .int (a.toInt + b.toInt),
      finish := id, build := fun xs => xs.foldl (fun a v => .int (a.toInt + v.toInt)) (.int 0) }
  | .min =>
    { create := .none, add := minAdd,
      merge := fun a b => match b with | .some v => minAdd a v | _ => a,
      finish := optFinish, build := fun xs => xs.foldl minAdd .none }
  | .max =>
    { create := .none, add := maxAdd,
      merge := fun a b => match b with | .some v => maxAdd a v | _ => a,
      finish := optFinish, build := fun xs => xs.foldl maxAdd .none }
  | .minT =>   -- harness user combiner: total min, the trait's default `build_from_group`
    { create := .none, add := minAdd,
      merge := fun a b => match b with | .some v => minAdd a v | _ => a,
      finish := fun a => match a with | .some v => v | _ => .none, build := fun xs => xs.foldl minAdd .none }
  | .maxT =>
    { create := .none, add := maxAdd,
      merge := fun a b => match b with | .some v => maxAdd a v | _ => a,
      finish := fun a => match a with | .some v => v | _ => .none, build := fun xs => xs.foldl maxAdd .none }
  | .distinctSet =>
    -- `HashSet`: a duplicate-free list; `merge` has the `is_empty ⇒ replace` fast path
    { create := .nil, add := fun a v => ofList (setInsert a.toList v),
      merge := fun a b => if a.toList.isEmpty then b else ofList (b.toList.foldl setInsert a.toList),
      finish := id, build := fun xs => ofList (xs.foldl setInsert []) }
  | .topK k => topKVal k
  | .uSumMod m => userSumMod m
  | .uUnion => userUnion
  | .uMaxAbs => userMaxAbs
  | .uLast => userLast

/-! ## steps -/

inductive Step where
  | map (f : Fn) | filter (p : Pred) | flatMap (f : FlatFn) | keyBy (k : KeyFn)
  | mapBatches (n : Nat) (f : BatchFn)
  | mapValues (f : Fn) | filterValues (p : Pred) | mapValuesBatches (n : Nat) (f : BatchFn)
  | unkey | swapkv | values | keys | topair
  | gbk | ungroup | glen | gsum
  | combineValues (c : Comb) | combineValuesLifted (c : Comb)
  | combineGlobally (c : Comb) (fo : Option Nat) | combineGloballyLifted (c : Comb) (fo : Option Nat)
  | distinct | distinctPerKey | topKPerKey (k : Nat)
  /-- `map_with_side` / `filter_with_side` (helpers/side_inputs.rs): a `map` / `filter` whose closure also reads a side vector -/
  | mapSide (side : List Int) | filterSide (side : List Int)
  /-- `try_map` (helpers/try_process.rs): a `map` to `Result<V, String>`; `unresult` maps the result back to a plain value -/
  | tryMap | unresult
  /-- debug taps (testing/debug.rs): identity operators with the trait-default flags -/
  | debugInspect | debugCount | debugSample (n : Nat)
  /-- `apply_transform(Arc<dyn DynOp>)` (collection.rs) with a user-written operator that overrides no flag -/
  | customOp (n : Int)
  /-- `map_with_side_map` (helpers/side_inputs.rs) over the side map `{0 ↦ 10, 1 ↦ 20}` -/
  | mapSideMap
  | join (k : JoinKind) (rsrc : List Val) (rsteps : List Step)
  /-- round 3 (PIPE3b). `try_map` with a named predicate: `Ok(x)` when `p x`, else `Err("bad:<to_int x>")` -/
  | tryMapP (p : Pred)
  /-- `try_flat_map`: `Ok(f x)` (a `Vec`) when `p x`, else `Err("bad:<to_int x>")`; the harness then maps
      `Result<Vec<V>, String>` to `Result<V, String>` (the `Vec` becomes a list value) with a plain `map` -/
  | tryFlatMap (f : FlatFn) (p : Pred)
  /-- `Result`-preserving steps: `map(|r| r.map(f))` and `filter(|r| r is Err or p(ok value))` -/
  | resMap (f : Fn) | resFilter (p : Pred)
  /-- `map_with_side_map` over `side_hashmap(pairs)`: duplicate keys allowed (the LAST pair wins), `[]` = empty map -/
  | mapSideMapP (pairs : List (Int × Int))
  /-- `apply_transform` with a user operator on `(K, V)` rows that CLAIMS `key_preserving`, `value_only` and
      `reorder_safe_with_value_only` with cost hint `cost`: it adds `n` to every value -/
  | customValueOp (n : Int) (cost : Nat)

def unkeyF (r : Val) : Val := r                          -- `(k, v)` ↦ `P(k, v)`: the same `Val`
def swapF (r : Val) : Val := .pair r.value r.key
def topairF (x : Val) : Val := match x with | .pair a b => .pair a b | v => .pair v v
def ungroupF (r : Val) : List Val := r.value.toList.map (fun v => .pair r.key v)
def glenF (r : Val) : Val := .pair r.key (.int r.value.toList.length)
def gsumF (r : Val) : Val := .pair r.key (.int ((r.value.toList.map toInt).foldl (· + ·) 0))

def sideSum (side : List Int) : Int := side.foldl (· + ·) 0
def mapSideF (side : List Int) (x : Val) : Val := .int (x.toInt + sideSum side)
def filterSideF (side : List Int) (x : Val) : Bool := side.contains (x.toInt % 5)
/-- `Ok(x)` for even `x`, `Err("odd")` otherwise; a `Result` travels as `("ok", v)` / `("err", msg)` -/
def tryF (x : Val) : Val := if x.toInt % 2 == 0 then .pair (.str "ok") x else .pair (.str "err") (.str "odd")
def customF (n : Int) (x : Val) : Val := .int (x.toInt + n)
/-- the user operator of `apply_transform`: trait-default flags and cost -/
def customDynOp (n : Int) : DynOp Part := withFlags Generated.bareOpFlags (List.map (customF n))
/-- lookup in the side map `{0 ↦ 10, 1 ↦ 20}` by `x mod 3`, absent ↦ 0 -/
def sideMapF (x : Val) : Val :=
  .int (x.toInt + (if x.toInt % 3 == 0 then 10 else if x.toInt % 3 == 1 then 20 else 0))
/-- a debug tap passes its partition through unchanged -/
def debugOp : DynOp Part := withFlags Generated.bareOpFlags (List.map (fun x => x))

/-- does the harness insert a typed conversion `map` after this combiner (`u64`/`Vec<V>` → `V`)? -/
def Comb.globalNeedsConv : Comb → Bool
  | .count | .distinctSet | .topK _ => true
  | _ => false
def Comb.perKeyNeedsConv : Comb → Bool
  | .count => true
  | _ => false

/-- round 3: the error text of the named-predicate `try_map` / `try_flat_map` -/
def badMsg (x : Val) : Val := .str ("bad:" ++ intToDec x.toInt)
def tryPF (p : Pred) (x : Val) : Val := if p.eval x then .pair (.str "ok") x else .pair (.str "err") (badMsg x)
def tryFlatF (f : FlatFn) (p : Pred) (x : Val) : Val :=
  if p.eval x then .pair (.str "ok") (ofList (f.eval x)) else .pair (.str "err") (badMsg x)
/-- is this encoded `Result` an `Err`? -/
def isErrRow : Val → Bool
  | .pair (.str t) _ => t == "err"
  | _ => false
def resMapF (f : Fn) (r : Val) : Val := if isErrRow r then r else .pair r.key (f.eval r.value)
def resFilterF (p : Pred) (r : Val) : Bool := isErrRow r || p.eval r.value
/-- `HashMap::from_iter(pairs)`: the last pair with a given key wins -/
def sideMapLookup (pairs : List (Int × Int)) (k : Int) : Int :=
  pairs.foldl (fun acc kv => if kv.1 == k then kv.2 else acc) 0
def sideMapPF (pairs : List (Int × Int)) (x : Val) : Val := .int (x.toInt + sideMapLookup pairs (x.toInt % 3))
/-- the flag-claiming user operator of `apply_transform` (all three capability flags, cost hint `cost`) -/
def customValueDynOp (n : Int) (cost : Nat) : DynOp Part :=
  { apply := List.map (fun r => .pair r.key (.int (r.value.toInt + n))),
    keyPreserving := true, valueOnly := true, reorderSafe := true, cost := cost }

def st (op : DynOp Part) : Node Part := .stateless [op]

mutual
/-- the chain after applying one builder call to the collection whose lineage is `acc` -/
def Step.apply (acc : List (Node Part)) : Step → List (Node Part)
  | .map f => acc ++ [st (mapOp f.eval)]
  | .filter p => acc ++ [st (filterOp p.eval)]
  | .flatMap f => acc ++ [st (flatMapOp f.eval)]
  | .keyBy k => acc ++ [st (keyByOp k.eval)]
  | .mapBatches n f => acc ++ [st (batchMapOp n f.eval)]
  | .mapValues f => acc ++ [st (mapValuesOp f.eval)]
  | .filterValues p => acc ++ [st (filterValuesOp p.eval)]
  | .mapValuesBatches n f => acc ++ [st (batchMapValuesOp n f.eval)]
  | .unkey => acc ++ [st (mapOp unkeyF)]
  | .swapkv => acc ++ [st (mapOp swapF)]
  | .values => acc ++ [st (mapOp Val.value)]
  | .keys => acc ++ [st (mapOp Val.key)]
  | .topair => acc ++ [st (mapOp topairF)]
  | .gbk => acc ++ [gbkNode]
  | .ungroup => acc ++ [st (flatMapOp ungroupF)]
  | .glen => acc ++ [st (mapOp glenF)]
  | .gsum => acc ++ [st (mapOp gsumF)]
  | .combineValues c =>
      acc ++ [combineValuesNode c.toCombiner] ++ (if c.perKeyNeedsConv then [st (mapOp id)] else [])
  | .combineValuesLifted c =>
      acc ++ [combineValuesLiftedNode c.toCombiner] ++ (if c.perKeyNeedsConv then [st (mapOp id)] else [])
  | .combineGlobally c fo =>
      acc ++ [combineGlobalNode c.toCombiner fo] ++ (if c.globalNeedsConv then [st (mapOp id)] else [])
  | .combineGloballyLifted c fo =>
      acc ++ [combineGlobalLiftedNode c.toCombiner fo] ++ (if c.globalNeedsConv then [st (mapOp id)] else [])
  | .distinct =>
      acc ++ [combineGlobalNode Comb.distinctSet.toCombiner Option.none, st (flatMapOp Val.toList)]
  | .distinctPerKey =>
      acc ++ [gbkNode, combineValuesLiftedNode Comb.distinctSet.toCombiner, st (flatMapOp ungroupF)]
  | .topKPerKey k => acc ++ [combineValuesNode (Comb.topK k).toCombiner]
  | .mapSide side => acc ++ [st (mapOp (mapSideF side))]
  | .filterSide side => acc ++ [st (filterOp (filterSideF side))]
  | .tryMap => acc ++ [st (mapOp tryF)]
  | .unresult => acc ++ [st (mapOp (fun x => x))]
  | .debugInspect => acc ++ [st debugOp]
  | .debugCount => acc ++ [st debugOp]
  | .debugSample _ => acc ++ [st debugOp]
  | .customOp n => acc ++ [st (customDynOp n)]
  | .mapSideMap => acc ++ [st (mapOp sideMapF)]
  | .join k rsrc rsteps =>
      -- `chain_from` snapshots both lineages literally; the outer chain restarts at a dummy source;
      -- the harness then maps the joined rows `(k, (v, w))` back to `(V, V)` rows
      [dummySource, joinNode k acc (applySteps [vecSource rsrc] rsteps), st (mapOp id)]
  | .tryMapP p => acc ++ [st (mapOp (tryPF p))]
  | .tryFlatMap f p => acc ++ [st (mapOp (tryFlatF f p)), st (mapOp (fun x => x))]
  | .resMap f => acc ++ [st (mapOp (resMapF f))]
  | .resFilter p => acc ++ [st (filterOp (resFilterF p))]
  | .mapSideMapP pairs => acc ++ [st (mapOp (sideMapPF pairs))]
  | .customValueOp n cost => acc ++ [st (customValueDynOp n cost)]

def applySteps (acc : List (Node Part)) : List Step → List (Node Part)
  | [] => acc
  | s :: rest => applySteps (Step.apply acc s) rest
end

/-- the literal chain a collection built by `steps` over `from_vec(src)` has -/
def litChain (src : List Val) (steps : List Step) : List (Node Part) := applySteps [vecSource src] steps

/-- the same program over a streamed file source with `per` lines per shard -/
def litChainFile (src : List Val) (per : Nat) (steps : List Step) : List (Node Part) :=
  applySteps [fileSource src per] steps
def runSeqFile (src : List Val) (per : Nat) (steps : List Step) : M Part :=
  execSeq (optimise (litChainFile src per steps))
def runParFile (src : List Val) (per : Nat) (steps : List Step) (n : Nat) : M Part :=
  execPar List.flatten (optimise (litChainFile src per steps)) n

def runSeq (src : List Val) (steps : List Step) : M Part := execSeq (optimise (litChain src steps))
def runPar (src : List Val) (steps : List Step) (n : Nat) : M Part :=
  execPar List.flatten (optimise (litChain src steps)) n
/-- literal execution (no planner) — the reference for C02/C03 -/
def runLiteral (src : List Val) (steps : List Step) : M Part := execSeq (litChain src steps)
def runSeqNoReorder (src : List Val) (steps : List Step) : M Part :=
  execSeq (optimiseNoReorder (litChain src steps))

end IB
