/-!
# Model of `src/validation.rs` and `src/helpers/validation.rs` (C17)

Transliteration, branch by branch, of

* `ValidationResult = Result<(), Vec<ValidationError>>`           ↦ `VResult ε = Option (List ε)`
  (`none` = `Ok(())`, `some es` = `Err(es)`; NB `Err(vec![])` is representable and is a *failed* validation —
  the operators treat it as invalid because they match on `Err(_)`, not on the list being non-empty);
* `ErrorCollector::add_error` (a `Vec::push` of a `RecordError { record_id, errors }`);
* `ValidateOp::apply` / `ValidateValuesOp::apply` — the per-partition loop
  `for (idx, elem) in elements.into_iter().enumerate()`: keep on `Ok`, on `Err(errors)` do nothing (skip), push
  `(Some("record_{idx}"), errors)` into the shared collector if there is one (log), or `panic!` (fail-fast);
  `idx` is the index **inside the partition**; the collector's guard is taken with
  `lock().unwrap_or_else(PoisonError::into_inner)`, i.e. whether the user's mutex is poisoned makes no difference
  (`Legacy.validateLoop` is the code before that `fix:` commit: `lock().unwrap()` panicked on a poisoned mutex);
* the collector object across runs (`Collector`): it is the caller's `Arc<Mutex<ErrorCollector>>`, may already
  hold entries (pre-populated, or used by an earlier run / an earlier validator of the same block) and only ever
  grows by `add_error`;
* a fused `Node::Stateless(ops)` block that contains validators (`applyBlock`);
* `VecOpsImpl::split` and the `parts = partitions.max(1).min(len.max(1))` clamp of `runner.rs::exec_par`;
* a validator behind a barrier (`afterBarrier`, `runStages`: ONE partition comes out of `GroupByKey`) and in the
  sides of a join (`runJoin`: `CoGroup` runs the left sub-chain, then the right one, then joins);
* `combine_validations`;
* the capability contract tested by `planner.rs::reorder_value_only_runs_tracked`.

A record's validation is a function parameter `validate : α → VResult ε` (user code).
The shared `Arc<Mutex<ErrorCollector>>` is modelled by the sequence of `add_error` calls each partition performs
(`pushes`, in program order); the final collector content of a parallel run is *some interleaving* of the
per-partition sequences (`Interleave`), because every push happens under the mutex; what the caller finds in
the collector afterwards is `Collector.absorb`: the previous content followed by those pushes.
"Fails" / "panics" below is a real `panic!` that unwinds out of `collect_seq` / `collect_par` (there is no
`catch_unwind` in the crate): `Run.output = none` means the caller's thread panicked, not that an `Err` came back.
-/
namespace IB.Validation

/-- `enum ValidationMode { SkipInvalid, LogAndContinue, FailFast }` -/
inductive Mode
  | skipInvalid
  | logAndContinue
  | failFast
  deriving DecidableEq, Repr

/-- `Result<(), Vec<ValidationError>>` -/
abbrev VResult (ε : Type) := Option (List ε)

/-- `RecordError { record_id: Option<String>, errors: Vec<ValidationError> }` -/
structure RecordError (ε : Type) where
  recordId : Option String
  errors : List ε
  deriving DecidableEq, Repr

/-- `ErrorCollector::add_error(&mut self, record_id, errors)`: `self.errors.push(RecordError {..})` -/
def addError {ε : Type} (collector : List (RecordError ε)) (recordId : Option String) (errors : List ε) :
    List (RecordError ε) :=
  collector ++ [⟨recordId, errors⟩]

/-- The caller's `Arc<Mutex<ErrorCollector>>` as a validator finds it: the entries already in it (the user put
    them there, or an earlier run / an earlier validator of the same block did) and whether the mutex is
    poisoned (some thread panicked while holding its guard). -/
structure Collector (ε : Type) where
  entries : List (RecordError ε)
  poisoned : Bool

/-- `collector.lock().unwrap_or_else(PoisonError::into_inner).add_error(id, errors)`: the guard is taken out of a
    poisoned lock as well; nothing clears the poison flag. -/
def Collector.push {ε : Type} (c : Collector ε) (e : RecordError ε) : Collector ε :=
  { c with entries := addError c.entries e.recordId e.errors }

/-- the collector after the pushes `coll` landed in it, in this order -/
def Collector.absorb {ε : Type} (c : Collector ε) (coll : List (RecordError ε)) : Collector ε :=
  coll.foldl Collector.push c

/-- What one call of `apply` did: the `valid` vector built so far, the `add_error` calls performed (in order),
    and — if the loop left through `panic!` — the index and errors quoted in the panic message. The operator's
    output partition exists only when `panic = none` (a panic drops `valid`). -/
structure Outcome (α ε : Type) where
  valid : List α
  pushes : List (RecordError ε)
  panic : Option (Nat × List ε)

/-- The loop of `ValidateOp::apply`, state passed explicitly: remaining elements, `idx`, `valid`, pushes so far.
    `hasCollector` = `self.collector.is_some()`. -/
def validateLoop {α ε : Type} (validate : α → VResult ε) (mode : Mode) (hasCollector : Bool) :
    List α → Nat → List α → List (RecordError ε) → Outcome α ε
  | [], _, valid, pushes => ⟨valid, pushes, none⟩
  | elem :: rest, idx, valid, pushes =>
    match validate elem with
    | none => validateLoop validate mode hasCollector rest (idx + 1) (valid ++ [elem]) pushes   -- Ok(()) => valid.push(elem)
    | some errors =>
      match mode with
      | .skipInvalid => validateLoop validate mode hasCollector rest (idx + 1) valid pushes       -- silently skip
      | .logAndContinue =>
        if hasCollector then
          validateLoop validate mode hasCollector rest (idx + 1) valid
            (addError pushes (some ("record_" ++ toString idx)) errors)
        else validateLoop validate mode hasCollector rest (idx + 1) valid pushes
      | .failFast => ⟨valid, pushes, some (idx, errors)⟩                                          -- panic!

/-- `ValidateOp::<T>::apply` on one partition. -/
def validateOp {α ε : Type} (validate : α → VResult ε) (mode : Mode) (hasCollector : Bool)
    (elements : List α) : Outcome α ε :=
  validateLoop validate mode hasCollector elements 0 [] []

/-- The loop of `ValidateValuesOp::apply`: destructures `(key, value)`, validates the value, ids are `pair_{idx}`. -/
def validateValuesLoop {κ α ε : Type} (validate : α → VResult ε) (mode : Mode) (hasCollector : Bool) :
    List (κ × α) → Nat → List (κ × α) → List (RecordError ε) → Outcome (κ × α) ε
  | [], _, valid, pushes => ⟨valid, pushes, none⟩
  | (key, value) :: rest, idx, valid, pushes =>
    match validate value with
    | none => validateValuesLoop validate mode hasCollector rest (idx + 1) (valid ++ [(key, value)]) pushes
    | some errors =>
      match mode with
      | .skipInvalid => validateValuesLoop validate mode hasCollector rest (idx + 1) valid pushes
      | .logAndContinue =>
        if hasCollector then
          validateValuesLoop validate mode hasCollector rest (idx + 1) valid
            (addError pushes (some ("pair_" ++ toString idx)) errors)
        else validateValuesLoop validate mode hasCollector rest (idx + 1) valid pushes
      | .failFast => ⟨valid, pushes, some (idx, errors)⟩

/-- `ValidateValuesOp::<K, V>::apply` on one partition. -/
def validateValuesOp {κ α ε : Type} (validate : α → VResult ε) (mode : Mode) (hasCollector : Bool)
    (pairs : List (κ × α)) : Outcome (κ × α) ε :=
  validateValuesLoop validate mode hasCollector pairs 0 [] []

/-! ### before the `fix:` commit: `collector.lock().unwrap()` -/

/-- `ValidateOp::apply` as it was: identical, except that logging into a collector whose mutex is `poisoned`
    panics (`called Result::unwrap() on an Err value: PoisonError`) at the first invalid record. The panic is
    recorded with that record's index and errors like a fail-fast panic (the message differs). -/
def Legacy.validateLoop {α ε : Type} (validate : α → VResult ε) (mode : Mode) (hasCollector poisoned : Bool) :
    List α → Nat → List α → List (RecordError ε) → Outcome α ε
  | [], _, valid, pushes => ⟨valid, pushes, none⟩
  | elem :: rest, idx, valid, pushes =>
    match validate elem with
    | none => Legacy.validateLoop validate mode hasCollector poisoned rest (idx + 1) (valid ++ [elem]) pushes
    | some errors =>
      match mode with
      | .skipInvalid => Legacy.validateLoop validate mode hasCollector poisoned rest (idx + 1) valid pushes
      | .logAndContinue =>
        if hasCollector then
          if poisoned then ⟨valid, pushes, some (idx, errors)⟩                                   -- lock().unwrap()
          else Legacy.validateLoop validate mode hasCollector poisoned rest (idx + 1) valid
            (addError pushes (some ("record_" ++ toString idx)) errors)
        else Legacy.validateLoop validate mode hasCollector poisoned rest (idx + 1) valid pushes
      | .failFast => ⟨valid, pushes, some (idx, errors)⟩

def Legacy.validateOp {α ε : Type} (validate : α → VResult ε) (mode : Mode) (hasCollector poisoned : Bool)
    (elements : List α) : Outcome α ε :=
  Legacy.validateLoop validate mode hasCollector poisoned elements 0 [] []

/-! ## A fused block (`Node::Stateless(ops)`) with validators in it -/

/-- the operators C17 puts into one block: element-wise steps and validators -/
inductive BlockOp (α ε : Type)
  /-- `map` / `map_values` -/
  | map (f : α → α)
  /-- `filter` / `filter_values` -/
  | filter (p : α → Bool)
  /-- `ValidateOp` / `ValidateValuesOp` (any mode; every validator of the block holds the same collector) -/
  | validator (op : List α → Outcome α ε)

/-- `ops.iter().fold(partition, |acc, op| op.apply(acc))` on one partition. A validator that panics ends the
    partition (the steps after it never run); the pushes of the validators land in the shared collector in step
    order. -/
def applyBlock {α ε : Type} : List (BlockOp α ε) → Outcome α ε → Outcome α ε
  | [], st => st
  | s :: rest, st =>
    if st.panic.isSome then st else
    match s with
    | .map f => applyBlock rest { st with valid := st.valid.map f }
    | .filter p => applyBlock rest { st with valid := st.valid.filter p }
    | .validator op =>
      let o := op st.valid
      applyBlock rest ⟨o.valid, st.pushes ++ o.pushes, o.panic⟩

/-- a block as an operator on one partition (what `runParts` takes) -/
def blockOp {α ε : Type} (ops : List (BlockOp α ε)) (part : List α) : Outcome α ε :=
  applyBlock ops ⟨part, [], none⟩

/-! ## Partitioning (`type_token.rs::VecOpsImpl::split`, `runner.rs::exec_par`) -/

/-- `slice::chunks(chunk)` with explicit fuel (`fuel ≥ len` suffices when `chunk ≥ 1`). -/
def chunksAux {α : Type} (chunk : Nat) : Nat → List α → List (List α)
  | 0, _ => []
  | fuel + 1, xs => if xs.isEmpty then [] else xs.take chunk :: chunksAux chunk fuel (xs.drop chunk)

def chunks {α : Type} (chunk : Nat) (xs : List α) : List (List α) := chunksAux chunk xs.length xs

/-- `VecOpsImpl::split(data, n)`: `n ≤ 1 || len ≤ 1` ⇒ one part; else contiguous chunks of `len.div_ceil(n)`. -/
def split {α : Type} (n : Nat) (v : List α) : List (List α) :=
  if n ≤ 1 ∨ v.length ≤ 1 then [v] else chunks ((v.length + n - 1) / n) v

/-- `exec_par`: `parts = partitions.max(1).min(total_len.max(1))`, then `vec_ops.split(payload, parts)`. -/
def sourcePartitions {α : Type} (partitions : Nat) (v : List α) : List (List α) :=
  split (min (max partitions 1) (max v.length 1)) v

/-! ## Whole runs -/

/-- Result of a run as the caller can observe it: `output = none` = the run panicked (the validator's `panic!`
    unwinds out of `collect_*`; it is not an `Err` value) or the collected vector; plus what is in the collector afterwards when the pushes are taken partition by partition
    (one admissible interleaving; the theorems quantify over all of them). -/
structure Run (α ε : Type) where
  output : Option (List α)
  collector : List (RecordError ε)
  /-- the panics raised, in partition order (which one the caller sees is up to the scheduler) -/
  panics : List (Nat × List ε)

/-- Apply an operator to every partition (`curr.into_par_iter().map(|p| op.apply(p)).collect()`), concatenate
    (`terminal`: partitions are appended in order); the run panics iff some partition panicked. -/
def runParts {α ε : Type} (op : List α → Outcome α ε) (parts : List (List α)) : Run α ε :=
  let outs := parts.map op
  { output := if outs.all (fun o => o.panic.isNone) then some (outs.flatMap (·.valid)) else none
    collector := outs.flatMap (·.pushes)
    panics := outs.filterMap (·.panic) }

/-- `collect_seq`: the whole source vector is one partition. -/
def runSeq {α ε : Type} (op : List α → Outcome α ε) (rows : List α) : Run α ε := runParts op [rows]

/-- `collect_par(_, Some(partitions))`. -/
def runPar {α ε : Type} (op : List α → Outcome α ε) (partitions : Nat) (rows : List α) : Run α ε :=
  runParts op (sourcePartitions partitions rows)

/-- `out` is an interleaving of the sequences `ps`: repeatedly take the head of one of them. This is every
    order in which mutex-protected pushes of concurrently running partitions can land in the shared vector. -/
inductive Interleave {β : Type} : List (List β) → List β → Prop
  | done {ps : List (List β)} : (∀ l ∈ ps, l = []) → Interleave ps []
  | take {a b : List (List β)} {x : β} {rest out : List β} :
      Interleave (a ++ rest :: b) out → Interleave (a ++ (x :: rest) :: b) (x :: out)

/-! ## Validators behind a barrier and inside the sides of a join

`runner.rs::exec_par`, arm `GroupByKey`: `curr = vec![merge(mids)]` — whatever the source partitioning was, ONE
partition comes out of a barrier, and the fused block that follows runs on it (sequentially there is one
partition throughout). `group_by_key` + ungroup (`flat_map`) hands the rows on grouped by key, the keys in
`HashMap` order: SOME rearrangement `regroup` of the rows that reached the barrier. Arm `CoGroup`: the left
sub-chain runs to completion (`run_subplan_par(left)?`), then the right one, each with the source clamp / split of
its own source, then `exec` joins the two coalesced sides. -/

/-- a block `b` that runs on the single partition coming out of a barrier, after the run `r` so far: nothing more
    happens when `r` panicked; otherwise `b` sees `regroup mid`, its pushes land after everything pushed so far
    (every partition of the earlier stage has finished before `merge` is called) -/
def afterBarrier {α ε : Type} (regroup : List α → List α) (r : Run α ε) (b : List α → Outcome α ε) : Run α ε :=
  match r.output with
  | none => r
  | some mid =>
    let o := b (regroup mid)
    { output := if o.panic.isNone then some o.valid else none
      collector := r.collector ++ o.pushes
      panics := r.panics ++ o.panic.toList }

/-- `Source → first → barrier → later₀ → barrier → later₁ …`: the first block on the source partitions, every
    later block on the one partition its barrier produced -/
def runStages {α ε : Type} (regroup : List α → List α) (first : List α → Outcome α ε)
    (later : List (List α → Outcome α ε)) (parts : List (List α)) : Run α ε :=
  later.foldl (afterBarrier regroup) (runParts first parts)

/-- stable insertion by key: `x` came before every element of `l`, so it goes in front of the first element whose
    key is not strictly smaller -/
def insertByKey {α : Type} (key : α → Int) (x : α) : List α → List α
  | [] => [x]
  | y :: ys => if key y < key x then y :: insertByKey key x ys else x :: y :: ys

/-- a concrete regrouping (what the driver evaluates): the rows grouped by key, each group in arrival order
    (`merge` appends the per-partition groups in partition order), the groups in ascending key order — ONE of the
    orders a `HashMap` may give; the theorems hold for every permutation -/
def regroupBy {α : Type} (key : α → Int) (xs : List α) : List α := xs.foldr (insertByKey key) []

/-- `join_inner`'s `exec` closure up to the order of the output rows (the code walks a `HashMap` of the left keys;
    per key: left rows in order × right rows in order): one row per pair of a left and a right row with equal keys -/
def innerJoin {κ β₁ β₂ : Type} [BEq κ] (l : List (κ × β₁)) (r : List (κ × β₂)) : List (κ × (β₁ × β₂)) :=
  l.flatMap (fun kv => (r.filter (fun kw => kw.1 == kv.1)).map (fun kw => (kv.1, (kv.2, kw.2))))

/-- `Node::CoGroup`: left sub-chain (block `opL` on the left source's partitions), then the right one, then the
    join of what the two sides let through. A panic on the left means the right side never starts. All validators
    of both sides push into the one collector: the left side's entries land before the right side's. -/
def runJoin {β₁ β₂ γ ε : Type} (opL : List β₁ → Outcome β₁ ε) (opR : List β₂ → Outcome β₂ ε)
    (join : List β₁ → List β₂ → List γ) (lparts : List (List β₁)) (rparts : List (List β₂)) : Run γ ε :=
  let rl := runParts opL lparts
  match rl.output with
  | none => { output := none, collector := rl.collector, panics := rl.panics }
  | some lrows =>
    let rr := runParts opR rparts
    match rr.output with
    | none => { output := none, collector := rl.collector ++ rr.collector, panics := rr.panics }
    | some rrows => { output := some (join lrows rrows), collector := rl.collector ++ rr.collector, panics := [] }

/-! ## `combine_validations` -/

/-- loop body of the pinned-commit `combine_validations`: `if let Err(mut errors) = result { all_errors.append(&mut errors) }` -/
def Legacy.combineStep {ε : Type} (allErrors : List ε) (result : VResult ε) : List ε :=
  match result with
  | some errors => allErrors ++ errors
  | none => allErrors

/-- pinned-commit `combine_validations`: append every `Err` payload; `Ok` iff the *concatenation* is empty.
    (So `[Err(vec![])]` combines to `Ok(())`.) -/
def Legacy.combineValidations {ε : Type} (results : List (VResult ε)) : VResult ε :=
  let allErrors := results.foldl Legacy.combineStep []
  if allErrors.isEmpty then none else some allErrors

/-- loop body of the current `combine_validations`: state = (`any_failed`, `all_errors`) -/
def combineStep {ε : Type} (st : Bool × List ε) (result : VResult ε) : Bool × List ε :=
  match result with
  | some errors => (true, st.2 ++ errors)
  | none => st

/-- current `combine_validations` (after the `fix:` commit): additionally remembers whether any part failed. -/
def combineValidations {ε : Type} (results : List (VResult ε)) : VResult ε :=
  let st := results.foldl combineStep (false, [])
  if st.1 then some st.2 else none

/-! ## Capability flags and the planner's reorder guard -/

/-- what `DynOp` exposes to the planner -/
structure Flags where
  keyPreserving : Bool
  valueOnly : Bool
  reorderSafe : Bool
  cost : Nat
  deriving DecidableEq, Repr

/-- a row of the generated tables: (name, key_preserving, value_only, reorder_safe_with_value_only, cost_hint) -/
def flagsOfRow (r : String × Bool × Bool × Bool × Nat) : Flags := ⟨r.2.1, r.2.2.1, r.2.2.2.1, r.2.2.2.2⟩

/-- `op.value_only() && op.key_preserving() && op.reorder_safe_with_value_only()` -/
def movable (f : Flags) : Bool := f.valueOnly && f.keyPreserving && f.reorderSafe

/-- the sort key of `reorder_value_only_runs_tracked`: `(cost != 1, cost)` -/
def sortKeyLt (a b : Flags) : Bool :=
  let ka : Nat × Nat := (if a.cost != 1 then 1 else 0, a.cost)
  let kb : Nat × Nat := (if b.cost != 1 then 1 else 0, b.cost)
  ka.1 < kb.1 || (ka.1 == kb.1 && ka.2 < kb.2)

/-- stable insertion sort (`sort_by_key` is stable): `x` came before every element of the already sorted
    tail, so it is placed before the first element that is not strictly smaller -/
def insertSorted {σ : Type} (flagsOf : σ → Flags) (x : σ) : List σ → List σ
  | [] => [x]
  | y :: ys => if sortKeyLt (flagsOf y) (flagsOf x) then y :: insertSorted flagsOf x ys else x :: y :: ys

def stableSort {σ : Type} (flagsOf : σ → Flags) (l : List σ) : List σ := l.foldr (insertSorted flagsOf) []

/-- one `Node::Stateless(ops)` block through `reorder_value_only_runs_tracked`; `σ` = the operators,
    `flagsOf` = what they answer to the four capability queries -/
def reorderBlock {σ : Type} (flagsOf : σ → Flags) (ops : List σ) : List σ :=
  if ops.all (fun op => movable (flagsOf op)) && ops.length > 1 then stableSort flagsOf ops else ops

end IB.Validation
