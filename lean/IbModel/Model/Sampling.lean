import IbModel.Model.Engine
import IbModel.Model.Planner
import IbModel.Model.CombinerCore
/-!
# Model of `src/combiners/sampling.rs` (`PriorityReservoir`, `PRAcc`, `SplitMix64`) and of the four
entry points of `src/helpers/sampling.rs` (C14)

Transliterated branch by branch.

* **RNG.** `SplitMix64` on `UInt64` (wrapping, bit-exact). The accumulator functions are *generic* in the
  generator (`next : σ → Nat × σ`), so the theorems hold for every priority stream; the driver and the
  negation witness instantiate `next := smNextPrio`, `σ := UInt64`.
* **Priority.** The code computes `u = ((next_u64() >> 11) as f64) * 2^-53`, replaces `u == 0.0` by
  `f64::from_bits(1)` and orders by `f64::total_cmp`. `m = next_u64() >> 11 < 2^53` converts to `f64`
  exactly, the scaling by a power of two is exact (smallest non-zero result `2^-53`, a normal number), and
  `from_bits(1) = 5e-324 < 2^-53`; so `m ↦ u` is strictly monotone and the model uses the integer `m`
  itself as the priority (same order, same ties).
* **Heap.** `BinaryHeap<Reverse<(OrdF64, u64, usize)>>` is observed only through `push` and `pop`
  (= remove a minimum of the lexicographic order on `(priority, seq, idx)`); it is modelled as a list
  (a multiset) with `popMin`. Equal triples are indistinguishable, so which one is removed is unobservable.
* **`seq`** is a `u64` counter in the code; modelled as `Nat` (no wrap below 2^64 inputs).
* **Loops.** `while alive > k { pop … }` and `while let Some(..) = other.heap.pop()` remove one heap entry
  per iteration; they are structural recursions on fuel = the heap's length (never exhausted early).
* **`finish`.** `sort_by` is a stable sort; modelled by a stable insertion sort with the same comparator.

* **`acc.k = acc.k.max(other.k)`** in `merge` is transliterated but unobservable: every accumulator of a run comes
  from ONE combiner (`Props/C14.lean: merge_k_align_noop`), and no request merges accumulators of different `k`.
* **The stored `f64`.** `prioBits m` is the bit pattern of the priority `add_input` stores; `RESSTATE` requests
  compare it (and `seq`, tombstones, `alive`, the heap length) with the real accumulator (hook `PRAcc::verif_slots`),
  `ORDF64` requests compare `totalCmp` with `OrdF64::cmp`; `prioBits_strictMono` / `totalCmp_prio` close the argument.

Pipelines: `combine_globally(PriorityReservoir, None)` = per-partition fold, one merge of all accumulators
in partition order, `finish`; `group_by_key().combine_values_lifted(..)` is rewritten by the planner — in a
TOP-LEVEL chain only — to the classic per-pair local (`lift_gbk_then_combine`), then merged per key in partition
order starting from a fresh `create()` (`sampleKeyedParts`). A join side runs its chain un-planned:
`GroupByKey` barrier + `local_groups` (`sampleKeyedUnlifted`; there the per-key sample IS mode-stable). The
definitions are tied to the engine model: `execSeq/execPar/runSubPar` on `globalChain` / `optimise keyedChain` /
`keyedChain` equal them (`Props/C14.lean: execPar_globalChain …`). The driver evaluates the partitions the real
`VecOps::split` produced (sizes travel in the request), see `cutSizes` below. `std::HashMap` = insertion-ordered association list; keyed outputs are compared after a
stable sort by key. Each of the four entry points has its own definition: `sampleSeq`/`samplePar`
(`sample_reservoir_vec`), `sampleFlatSeq`/`sampleFlatPar` (`sample_reservoir` = the `Vec` row put through the
trailing `flat_map`), `sampleKeyedSeq`/`sampleKeyedPar` (`sample_values_reservoir_vec`) and `flattenKeyed` of
those (`sample_values_reservoir`). `sampleParts` is the global sample over an arbitrary list of partitions;
`sampleFilter*` / `sampleKeyedFilter*` put a `filter` between the source and the sample: `exec_par` splits the
SOURCE (`partsOf n xs`) and runs the stateless op inside every partition, so the combiner sees skewed or
empty partitions.
-/
namespace IB.Sampling

/-! ## SplitMix64 -/

def smMix (z : UInt64) : UInt64 :=
  let z := (z ^^^ (z >>> 30)) * 0xBF58476D1CE4E5B9
  let z := (z ^^^ (z >>> 27)) * 0x94D049BB133111EB
  z ^^^ (z >>> 31)

/-- `SplitMix64::next_u64`: `(output, new state)` -/
def smNextU64 (s : UInt64) : UInt64 × UInt64 :=
  let s' := s + 0x9E3779B97F4A7C15
  (smMix s', s')

/-- `next_f64` as the 53-bit integer it is computed from (see the header: same order as the `f64`) -/
def smNextPrio (s : UInt64) : Nat × UInt64 :=
  let r := smNextU64 s
  ((r.1 >>> 11).toNat, r.2)

/-- `SplitMix64::new(seed.wrapping_mul(0xA24B_AED4_0B9C_497C))` -/
def seedState (seed : UInt64) : UInt64 := seed * 0xA24BAED40B9C497C

/-! ## the `f64` the code really stores, as its bit pattern

`u = (m as f64) * 2^-53` for `m = next_u64() >> 11 < 2^53`, and `u == 0.0` replaced by `f64::from_bits(1)`.
For `m ≥ 1` with `e = ⌊log2 m⌋ ≤ 52` the product is exact: `u = 1.f × 2^(e-53)`, biased exponent `e + 970`,
fraction `m·2^(52-e) − 2^52`. `prioBits_strictMono` (Props/C14) proves that `m ↦ prioBits m` is strictly
increasing, and `f64::total_cmp` on non-negative floats is the unsigned order of the bit patterns, so ordering
by the integer `m` (what `PRAcc` does) is ordering by the stored `f64`. The `RESSTATE` requests compare
`prioBits` with the bit patterns read from the real accumulator (hook `PRAcc::verif_slots`). -/

/-- bit pattern of the priority `add_input` stores for the 53-bit draw `m` -/
def prioBits (m : Nat) : Nat :=
  if m = 0 then 1
  else
    let e := Nat.log2 m
    (e + 970) * 2 ^ 52 + (m * 2 ^ (52 - e) - 2 ^ 52)

/-- `f64::total_cmp` on bit patterns: negative floats (sign bit set) order by descending magnitude below all
    non-negative ones, which order by their bit pattern -/
def totalKey (bits : Nat) : Nat :=
  if bits < 2 ^ 63 then bits + 2 ^ 63 else 2 ^ 64 - 1 - bits

def totalCmp (a b : Nat) : Ordering := compare (totalKey a) (totalKey b)

/-! ## the accumulator -/

/-- `PRAcc<T>`; heap entries are `(priority, seq, idx)`, store slots `(priority, seq, value)` -/
structure PRAcc (σ α : Type) where
  k : Nat
  rng : σ
  seq : Nat
  heap : List (Nat × Nat × Nat)
  store : List (Option (Nat × Nat × α))
  alive : Nat

variable {σ α : Type}

/-- `create` (the initial generator state is a parameter; the code uses `seedState seed`) -/
def create (k : Nat) (s0 : σ) : PRAcc σ α :=
  { k := k, rng := s0, seq := 0, heap := [], store := [], alive := 0 }

/-- strict lexicographic order on `(priority, seq, idx)` (derived `Ord` of the tuple) -/
def lexLt (a b : Nat × Nat × Nat) : Bool :=
  decide (a.1 < b.1) || (a.1 == b.1 && (decide (a.2.1 < b.2.1) || (a.2.1 == b.2.1 && decide (a.2.2 < b.2.2))))

def minOf : (Nat × Nat × Nat) → List (Nat × Nat × Nat) → (Nat × Nat × Nat)
  | m, [] => m
  | m, x :: xs => minOf (if lexLt x m then x else m) xs

/-- `heap.pop()` on a min-heap (`Reverse`): a minimum and the remaining entries -/
def popMin : List (Nat × Nat × Nat) → Option ((Nat × Nat × Nat) × List (Nat × Nat × Nat))
  | [] => none
  | x :: xs => let m := minOf x xs; some (m, (x :: xs).erase m)

/-- `while acc.alive > acc.k { if let Some(e) = heap.pop() { tombstone a live slot } else { break } }` -/
def trimLoop : Nat → PRAcc σ α → PRAcc σ α
  | 0, a => a
  | fuel + 1, a =>
    if a.alive > a.k then
      match popMin a.heap with
      | none => a
      | some (e, h') =>
        match a.store[e.2.2]? with
        | some (some _) =>
            trimLoop fuel { a with heap := h', store := a.store.set e.2.2 none, alive := a.alive - 1 }
        | _ => trimLoop fuel { a with heap := h' }
    else a

def trim (a : PRAcc σ α) : PRAcc σ α := trimLoop a.heap.length a

/-- `add_input` -/
def addInput (next : σ → Nat × σ) (a : PRAcc σ α) (v : α) : PRAcc σ α :=
  if a.k == 0 then a
  else
    let r := next a.rng
    trim { a with rng := r.2, seq := a.seq + 1,
                  store := a.store ++ [some (r.1, a.seq, v)],
                  heap := (r.1, a.seq, a.store.length) :: a.heap,
                  alive := a.alive + 1 }

/-- the `for slot in other.store` loop of `merge`: state `(acc.store, map, acc.alive)` -/
def moveLive : List (Option (Nat × Nat × α)) →
    List (Option (Nat × Nat × α)) × List (Option Nat) × Nat →
    List (Option (Nat × Nat × α)) × List (Option Nat) × Nat
  | [], s => s
  | some it :: rest, (st, mp, al) => moveLive rest (st ++ [some it], mp ++ [some st.length], al + 1)
  | none :: rest, (st, mp, al) => moveLive rest (st, mp ++ [none], al)

/-- the `while let Some(..) = other.heap.pop()` loop of `merge`: remap the index or drop the entry -/
def drainHeap (mp : List (Option Nat)) : Nat → List (Nat × Nat × Nat) → List (Nat × Nat × Nat) →
    List (Nat × Nat × Nat)
  | 0, _, acc => acc
  | fuel + 1, oh, acc =>
    match popMin oh with
    | none => acc
    | some (e, oh') =>
      match mp[e.2.2]? with
      | some (some i) => drainHeap mp fuel oh' ((e.1, e.2.1, i) :: acc)
      | _ => drainHeap mp fuel oh' acc

/-- `merge(acc, other)` -/
def merge (a o : PRAcc σ α) : PRAcc σ α :=
  if a.k == 0 then a
  else
    let moved := moveLive o.store (a.store, [], a.alive)
    trim { a with k := max a.k o.k,
                  store := moved.1,
                  heap := drainHeap moved.2.1 o.heap.length o.heap a.heap,
                  alive := moved.2.2 }

/-- live slots in store order (`store.into_iter().flatten()`) -/
def live (st : List (Option (Nat × Nat × α))) : List (Nat × Nat × α) := st.filterMap id

/-- `b.0.cmp(&a.0).then_with(|| a.1.cmp(&b.1)) != Greater`: `x` may stay before `y` -/
def itemLe (x y : Nat × Nat × α) : Bool :=
  decide (y.1 < x.1) || (y.1 == x.1 && decide (x.2.1 ≤ y.2.1))

def insertItem (x : Nat × Nat × α) : List (Nat × Nat × α) → List (Nat × Nat × α)
  | [] => [x]
  | y :: ys => if itemLe x y then x :: y :: ys else y :: insertItem x ys

/-- stable sort by (priority desc, seq asc) -/
def sortItems (l : List (Nat × Nat × α)) : List (Nat × Nat × α) := l.foldr insertItem []

/-- `finish` -/
def finish (a : PRAcc σ α) : List α :=
  if a.k == 0 || a.alive == 0 then []
  else ((sortItems (live a.store)).take a.k).map (fun it => it.2.2)

/-- `PriorityReservoir::new(k, seed)` as a `Combiner` (generator and its initial state are parameters) -/
def reservoir (next : σ → Nat × σ) (k : Nat) (s0 : σ) : Combiner α (PRAcc σ α) (List α) where
  create := create k s0
  add := addInput next
  merge := merge
  finish := finish
  build := fun xs => xs.foldl (addInput next) (create k s0)

/-- the combiner the code builds: SplitMix64 stream started at `seedState seed` -/
def reservoirSM (k : Nat) (seed : UInt64) : Combiner α (PRAcc UInt64 α) (List α) :=
  reservoir smNextPrio k (seedState seed)

/-! ## merge trees -/

inductive Tree (α : Type) where
  | leaf (xs : List α)
  | node (l r : Tree α)

namespace Tree
def leaves : Tree α → List α
  | leaf xs => xs
  | node l r => l.leaves ++ r.leaves

/-- leaves = per-partition folds from a fresh accumulator; inner nodes = `merge(left, right)` -/
def eval {A O : Type} (c : Combiner α A O) : Tree α → A
  | leaf xs => c.foldAdd c.create xs
  | node l r => c.merge (l.eval c) (r.eval c)
end Tree

/-! ## the pipelines -/

/-- `VecOpsImpl::split` -/
def vecSplit {β : Type} (xs : List β) (n : Nat) : List (List β) :=
  if n ≤ 1 ∨ xs.length ≤ 1 then [xs] else chunksOf ((xs.length + n - 1) / n) xs.length xs

/-- the partitions `exec_par` starts from -/
def partsOf {β : Type} (n : Nat) (xs : List β) : List (List β) := vecSplit xs (clampParts n xs.length)

/-- the `merge` closure of `combine_globally`: the first accumulator (or `create()`), then `merge` of
    each further one in order -/
def mergeAll {V A O : Type} (c : Combiner V A O) : List A → A
  | [] => c.create
  | a :: rest => rest.foldl c.merge a

/-- `sample_reservoir_vec(..).collect_seq()`: `local`, `merge(vec![mid])`, `finish` (one output row) -/
def sampleSeq {V A O : Type} (c : Combiner V A O) (xs : List V) : O :=
  c.finish (mergeAll c [c.foldAdd c.create xs])

/-- `sample_reservoir_vec(..).collect_par(_, Some n)`: fan-out `None` ⇒ one `merge` of all accumulators -/
def samplePar {V A O : Type} (c : Combiner V A O) (n : Nat) (xs : List V) : O :=
  c.finish (mergeAll c ((partsOf n xs).map (c.foldAdd c.create)))

/-- the global sample over an **arbitrary** list of partitions (possibly empty or skewed ones, as left behind
    by a per-partition `filter` upstream): per-partition fold, one `merge` of all accumulators in partition
    order, `finish`.  `samplePar c n xs = sampleParts c (partsOf n xs)` by `rfl`. -/
def sampleParts {V A O : Type} (c : Combiner V A O) (ps : List (List V)) : O :=
  c.finish (mergeAll c (ps.map (c.foldAdd c.create)))

/-- the flattening `flat_map(|v| v.clone())` of `sample_reservoir` over the rows of the `Vec` form -/
def flattenGlobal {V : Type} (rows : List (List V)) : List V := rows.flatMap (fun v => v)

/-- `sample_reservoir(..).collect_seq()`: the single `Vec` row of `sample_reservoir_vec`, flattened -/
def sampleFlatSeq {V A : Type} (c : Combiner V A (List V)) (xs : List V) : List V :=
  flattenGlobal [sampleSeq c xs]

/-- `sample_reservoir(..).collect_par(_, Some n)`: after the global combine there is one partition holding
    the one `Vec` row; the `flat_map` runs on it -/
def sampleFlatPar {V A : Type} (c : Combiner V A (List V)) (n : Nat) (xs : List V) : List V :=
  flattenGlobal [samplePar c n xs]

/-- `from_vec(xs).filter(p).sample_reservoir_vec(..).collect_seq()` -/
def sampleFilterSeq {V A O : Type} (c : Combiner V A O) (p : V → Bool) (xs : List V) : O :=
  sampleSeq c (xs.filter p)

/-- `from_vec(xs).filter(p).sample_reservoir_vec(..).collect_par(_, Some n)`: the source is split first
    (`partsOf n xs`, sizes from the UNfiltered length), the stateless `filter` runs inside every partition,
    then the per-partition folds are merged — partitions may be skewed or empty -/
def sampleFilterPar {V A O : Type} (c : Combiner V A O) (n : Nat) (p : V → Bool) (xs : List V) : O :=
  sampleParts c ((partsOf n xs).map (List.filter p))

/-- the left comb `mergeAll` walks: `((p0 ⋈ p1) ⋈ p2) ⋈ …` -/
def combTree (p : List α) (ps : List (List α)) : Tree α :=
  ps.foldl (fun t q => .node t (.leaf q)) (.leaf p)

/-! ### per key -/

variable {κ : Type} [DecidableEq κ]

/-- `entry(k).or_insert_with(init)` then `f` on the entry (insertion-ordered association list) -/
def upsert {β : Type} (m : List (κ × β)) (k : κ) (init : β) (f : β → β) : List (κ × β) :=
  match m with
  | [] => [(k, f init)]
  | (k', b) :: rest => if k' = k then (k', f b) :: rest else (k', b) :: upsert rest k init f

/-- `local_pairs`: `for (k, v) in kv { add_input(map.entry(k).or_insert_with(create), v) }` -/
def localPairs {V A O : Type} (c : Combiner V A O) (rows : List (κ × V)) : List (κ × A) :=
  rows.foldl (fun m kv => upsert m kv.1 c.create (fun a => c.add a kv.2)) []

/-- the keyed `merge` closure before `finish`: partitions in order, `merge(accs.entry(k).or_insert_with(create), a)` -/
def mergeMapsAcc {A V O : Type} (c : Combiner V A O) (parts : List (List (κ × A))) : List (κ × A) :=
  parts.foldl (fun accs m => m.foldl (fun accs ka => upsert accs ka.1 c.create (fun e => c.merge e ka.2)) accs) []

def mergeMaps {A V O : Type} (c : Combiner V A O) (parts : List (List (κ × A))) : List (κ × O) :=
  (mergeMapsAcc c parts).map (fun ka => (ka.1, c.finish ka.2))

/-- `sample_values_reservoir_vec(..).collect_seq()` (rows in map order) -/
def sampleKeyedSeq {V A O : Type} (c : Combiner V A O) (rows : List (κ × V)) : List (κ × O) :=
  mergeMaps c [localPairs c rows]

/-- `sample_values_reservoir_vec(..).collect_par(_, Some n)` -/
def sampleKeyedPar {V A O : Type} (c : Combiner V A O) (n : Nat) (rows : List (κ × V)) : List (κ × O) :=
  mergeMaps c ((partsOf n rows).map (localPairs c))

/-- `from_vec(rows).filter(p).sample_values_reservoir_vec(..).collect_seq()` -/
def sampleKeyedFilterSeq {V A O : Type} (c : Combiner V A O) (p : κ × V → Bool) (rows : List (κ × V)) :
    List (κ × O) :=
  sampleKeyedSeq c (rows.filter p)

/-- `from_vec(rows).filter(p).sample_values_reservoir_vec(..).collect_par(_, Some n)`: split, filter inside
    every partition, per-partition `local_pairs`, keyed merge -/
def sampleKeyedFilterPar {V A O : Type} (c : Combiner V A O) (n : Nat) (p : κ × V → Bool)
    (rows : List (κ × V)) : List (κ × O) :=
  mergeMaps c (((partsOf n rows).map (List.filter p)).map (localPairs c))

/-- the flattening `flat_map` of `sample_values_reservoir` -/
def flattenKeyed {V : Type} (rows : List (κ × List V)) : List (κ × V) :=
  rows.flatMap (fun kv => kv.2.map (fun v => (kv.1, v)))

/-! ## the partitions actually cut, stateless ops in front of the sample, the un-lifted keyed plan

The correspondence requests carry the sizes of the chunks the REAL `VecOps::split` returned for every run
(`SAMPLEPIPE … p3@7.7.6 …`), so the driver evaluates `sampleParts` / `sampleKeyedParts` on the partitions the
engine really started from. `cutSizes xs ((partsOf n xs).map length) = some (partsOf n xs)`
(`cutSizes_partsOf`), i.e. as long as the code splits the way `vecSplit` says, the driver's answer IS
`samplePar c n xs` / `sampleKeyedPar c n rows`; a benign change of the chunking is followed instead of being
reported as a disagreement (the property quantifies over every partitioning; all theorems about `sampleParts`
hold for an arbitrary partition list). -/

/-- cut `xs` into consecutive pieces of the given sizes; `none` unless the sizes add up exactly -/
def cutSizes {β : Type} (xs : List β) : List Nat → Option (List (List β))
  | [] => if xs.isEmpty then some [] else none
  | s :: rest =>
    if s ≤ xs.length then
      match cutSizes (xs.drop s) rest with
      | some ps => some (xs.take s :: ps)
      | none => none
    else none

/-- per-key sampling over an **arbitrary** list of partitions on the LIFTED plan (the planner drops the
    `group_by_key` and runs `local_pairs` in every partition); rows in map order -/
def sampleKeyedParts {V A O : Type} (c : Combiner V A O) (ps : List (List (κ × V))) : List (κ × O) :=
  mergeMaps c (ps.map (localPairs c))

/-- a stateless element-wise operator `flat_map(g)` between the source and the global sample, over an arbitrary
    partition list: `exec_par` runs the stateless block inside every partition, then the per-partition folds are
    merged (`filter p` is `g x = if p x then [x] else []`, `map f` is `g x = [f x]`) -/
def samplePreParts {V W A O : Type} (c : Combiner W A O) (g : V → List W) (ps : List (List V)) : O :=
  sampleParts c (ps.map (List.flatMap g))

/-- the same in front of the per-key sample (lifted plan) -/
def sampleKeyedPreParts {V W A O : Type} (c : Combiner W A O) (g : κ × V → List (κ × W))
    (ps : List (List (κ × V))) : List (κ × O) :=
  sampleKeyedParts c (ps.map (List.flatMap g))

/-- `filter p` as the `flat_map` it is to the engine (a stateless element-wise op) -/
def filterG {V : Type} (p : V → Bool) : V → List V := fun x => if p x then [x] else []

/-! ### `group_by_key` and the UN-lifted plan `GroupByKey → CombineValues{local_groups}`

The planner rewrites `group_by_key().combine_values_lifted(..)` only in a TOP-LEVEL chain. The chain of a join
side is taken literally from the graph (`helpers/joins.rs::chain_from`, no planner pass), so
`x.sample_values_reservoir_vec(k, s).join_inner(..)` runs the barrier `GroupByKey` (every key's values, all
partitions, in input order) and then `local_groups` = ONE `build_from_group` per key; the merge closure merges
that accumulator into a fresh `create()`. -/

/-- the accumulation `group_by_key` performs, as a combiner: `or_default()` = `[]`, `push(v)`, `extend(vs)` -/
def listCombiner (V : Type) : Combiner V (List V) (List V) where
  create := []
  add := fun l v => l ++ [v]
  merge := fun l r => l ++ r
  finish := fun l => l
  build := fun l => l

/-- `group_by_key` over the partitions: `local` per partition (`m.entry(k).or_default().push(v)`), `merge`
    (`acc.entry(k).or_default().extend(vs)` in partition order), `into_iter().collect()` -/
def gbkParts {V : Type} (ps : List (List (κ × V))) : List (κ × List V) :=
  sampleKeyedParts (listCombiner V) ps

/-- `match map.entry(k) { Occupied(e) => merge(e.get_mut(), acc), Vacant(e) => e.insert(acc) }` -/
def insertOrMerge {β : Type} (m : List (κ × β)) (k : κ) (new : β) (f : β → β) : List (κ × β) :=
  match m with
  | [] => [(k, new)]
  | (k', b) :: rest => if k' = k then (k', f b) :: rest else (k', b) :: insertOrMerge rest k new f

/-- `local_groups`: `for (k, vs) in kvv { acc = build_from_group(&vs); insert or merge }` -/
def localGroups {V A O : Type} (c : Combiner V A O) (groups : List (κ × List V)) : List (κ × A) :=
  groups.foldl (fun m kv => insertOrMerge m kv.1 (c.build kv.2) (fun e => c.merge e (c.build kv.2))) []

/-- `sample_values_reservoir_vec` on the UN-lifted plan over an arbitrary partition list: `GroupByKey` barrier
    (one partition afterwards), `local_groups` on it, keyed merge, `finish` -/
def sampleKeyedUnlifted {V A O : Type} (c : Combiner V A O) (ps : List (List (κ × V))) : List (κ × O) :=
  mergeMaps c [localGroups c (gbkParts ps)]

/-- a stateless op in front of the un-lifted per-key sample -/
def sampleKeyedPreUnlifted {V W A O : Type} (c : Combiner W A O) (g : κ × V → List (κ × W))
    (ps : List (List (κ × V))) : List (κ × O) :=
  sampleKeyedUnlifted c (ps.map (List.flatMap g))

/-! ### the nodes the builders insert, over a typed partition sum (for the tie to `Engine.execPar`)

`Partition = Box<dyn Any>`; the closures downcast and panic on a wrong type (`bad`). -/

inductive SPart (K V A O : Type) where
  | rows (l : List V)                  -- `Vec<T>` (global entry points)
  | acc (a : A)                        -- one accumulator
  | out (l : List O)                   -- `Vec<O>` (one row)
  | krows (l : List (K × V))           -- `Vec<(K, V)>`
  | kgroups (l : List (K × List V))    -- `HashMap<K, Vec<V>>` / `Vec<(K, Vec<V>)>`
  | kaccs (l : List (K × A))           -- `HashMap<K, A>`
  | kout (l : List (K × O))            -- `Vec<(K, O)>`
  | bad

section nodes
variable {K V A O : Type} [DecidableEq K]

def SPart.getAcc : SPart K V A O → Option A
  | .acc a => some a
  | _ => none
def SPart.getKAccs : SPart K V A O → Option (List (K × A))
  | .kaccs l => some l
  | _ => none
def SPart.getKGroups : SPart K V A O → Option (List (K × List V))
  | .kgroups l => some l
  | _ => none

/-- `combine_globally`: `local` (downcast `Vec<T>`, `create`, `add_input` per row) -/
def gLocal (c : Combiner V A O) : SPart K V A O → SPart K V A O
  | .rows l => .acc (c.foldAdd c.create l)
  | _ => .bad
/-- `combine_globally`: `merge` (first accumulator or `create()`, then `merge` of each further one) -/
def gMerge (c : Combiner V A O) (ps : List (SPart K V A O)) : SPart K V A O :=
  match ps.mapM SPart.getAcc with
  | some as => .acc (mergeAll c as)
  | none => .bad
/-- `combine_globally`: `finish` (`vec![comb.finish(acc)]`) -/
def gFinish (c : Combiner V A O) : SPart K V A O → SPart K V A O
  | .acc a => .out [c.finish a]
  | _ => .bad

/-- `combine_globally(comb, None)` (helpers/combine_global.rs) -/
def globalNode (c : Combiner V A O) : Node (SPart K V A O) :=
  .combineGlobal (gLocal c) (gMerge c) (gFinish c) none

/-- `group_by_key`: `local` / `merge` (helpers/keyed.rs) -/
def gbkLocal : SPart K V A O → SPart K V A O
  | .krows l => .kgroups (localPairs (listCombiner V) l)
  | _ => .bad
def gbkMerge (ps : List (SPart K V A O)) : SPart K V A O :=
  match ps.mapM SPart.getKGroups with
  | some ms => .kgroups (mergeMaps (listCombiner V) ms)
  | none => .bad
def gbkNode : Node (SPart K V A O) := .gbk gbkLocal gbkMerge

/-- `combine_values_lifted`: `local_pairs`, `local_groups`, `merge` (helpers/combine.rs) -/
def cvLocalPairs (c : Combiner V A O) : SPart K V A O → SPart K V A O
  | .krows l => .kaccs (localPairs c l)
  | _ => .bad
def cvLocalGroups (c : Combiner V A O) : SPart K V A O → SPart K V A O
  | .kgroups l => .kaccs (localGroups c l)
  | _ => .bad
def cvMerge (c : Combiner V A O) (ps : List (SPart K V A O)) : SPart K V A O :=
  match ps.mapM SPart.getKAccs with
  | some ms => .kout (mergeMaps c ms)
  | none => .bad
def liftedNode (c : Combiner V A O) : Node (SPart K V A O) :=
  .combineValues (cvLocalPairs c) (some (cvLocalGroups c)) (cvMerge c)

/-- `from_vec(xs)` for a global entry point / for keyed rows -/
def rowsSource (xs : List V) : Node (SPart K V A O) :=
  .source (.rows xs) xs.length (fun n => (vecSplit xs n).map .rows)
def krowsSource (rows : List (K × V)) : Node (SPart K V A O) :=
  .source (.krows rows) rows.length (fun n => (vecSplit rows n).map .krows)

/-- `from_vec(xs).sample_reservoir_vec(k, seed)` as built -/
def globalChain (c : Combiner V A O) (xs : List V) : List (Node (SPart K V A O)) :=
  [rowsSource xs, globalNode c]
/-- `from_vec(rows).sample_values_reservoir_vec(k, seed)` as built (before the planner) -/
def keyedChain (c : Combiner V A O) (rows : List (K × V)) : List (Node (SPart K V A O)) :=
  [krowsSource rows, gbkNode, liftedNode c]

end nodes

end IB.Sampling
