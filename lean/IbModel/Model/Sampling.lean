import IbModel.Model.Engine
import IbModel.Model.CombinerCore
/-!
# Model of `src/combiners/sampling.rs` (`PriorityReservoir`, `PRAcc`, `SplitMix64`) and of the four
entry points of `src/helpers/sampling.rs` (C14)

Transliterated branch by branch.

* **RNG.** `SplitMix64` on `UInt64` (wrapping, bit-exact). The accumulator functions are *generic* in the
  generator (`next : σ → Nat × σ`), so the theorems hold for every priority stream; the driver and the
  negation witness instantiate `next := smNextPrio`, `σ := UInt64`.
* **Priority.** The code computes `u = ((next_u64() >> 11) as f64) * 2^-53`, replaces `u == 0.0` by
  `f64::from_bits(1)` and orders by `f64::total_cmp`. `m = next_u64() >> 11 < 2^53` converts to `f64`
  exactly, the scaling by a power of two is exact (smallest non-zero result `2^-53`, a normal number), and
  `from_bits(1) = 5e-324 < 2^-53`; so `m ↦ u` is strictly monotone and the model uses the integer `m`
  itself as the priority (same order, same ties).
* **Heap.** `BinaryHeap<Reverse<(OrdF64, u64, usize)>>` is observed only through `push` and `pop`
  (= remove a minimum of the lexicographic order on `(priority, seq, idx)`); it is modelled as a list
  (a multiset) with `popMin`. Equal triples are indistinguishable, so which one is removed is unobservable.
* **`seq`** is a `u64` counter in the code; modelled as `Nat` (no wrap below 2^64 inputs).
* **Loops.** `while alive > k { pop … }` and `while let Some(..) = other.heap.pop()` remove one heap entry
  per iteration; they are structural recursions on fuel = the heap's length (never exhausted early).
* **`finish`.** `sort_by` is a stable sort; modelled by a stable insertion sort with the same comparator.

Pipelines: `combine_globally(PriorityReservoir, None)` = per-partition fold, one merge of all accumulators
in partition order, `finish`; `group_by_key().combine_values_lifted(..)` is rewritten by the planner to the
classic per-pair local (`lift_gbk_then_combine`), then merged per key in partition order starting from a
fresh `create()`. `std::HashMap` = insertion-ordered association list; keyed outputs are compared after a
stable sort by key. Each of the four entry points has its own definition: `sampleSeq`/`samplePar`
(`sample_reservoir_vec`), `sampleFlatSeq`/`sampleFlatPar` (`sample_reservoir` = the `Vec` row put through the
trailing `flat_map`), `sampleKeyedSeq`/`sampleKeyedPar` (`sample_values_reservoir_vec`) and `flattenKeyed` of
those (`sample_values_reservoir`). `sampleParts` is the global sample over an arbitrary list of partitions;
`sampleFilter*` / `sampleKeyedFilter*` put a `filter` between the source and the sample: `exec_par` splits the
SOURCE (`partsOf n xs`) and runs the stateless op inside every partition, so the combiner sees skewed or
empty partitions.
-/
namespace IB.Sampling

/-! ## SplitMix64 -/

def smMix (z : UInt64) : UInt64 :=
  let z := (z ^^^ (z >>> 30)) * 0xBF58476D1CE4E5B9
  let z := (z ^^^ (z >>> 27)) * 0x94D049BB133111EB
  z ^^^ (z >>> 31)

/-- `SplitMix64::next_u64`: `(output, new state)` -/
def smNextU64 (s : UInt64) : UInt64 × UInt64 :=
  let s' := s + 0x9E3779B97F4A7C15
  (smMix s', s')

/-- `next_f64` as the 53-bit integer it is computed from (see the header: same order as the `f64`) -/
def smNextPrio (s : UInt64) : Nat × UInt64 :=
  let r := smNextU64 s
  ((r.1 >>> 11).toNat, r.2)

/-- `SplitMix64::new(seed.wrapping_mul(0xA24B_AED4_0B9C_497C))` -/
def seedState (seed : UInt64) : UInt64 := seed * 0xA24BAED40B9C497C

/-! ## the accumulator -/

/-- `PRAcc<T>`; heap entries are `(priority, seq, idx)`, store slots `(priority, seq, value)` -/
structure PRAcc (σ α : Type) where
  k : Nat
  rng : σ
  seq : Nat
  heap : List (Nat × Nat × Nat)
  store : List (Option (Nat × Nat × α))
  alive : Nat

variable {σ α : Type}

/-- `create` (the initial generator state is a parameter; the code uses `seedState seed`) -/
def create (k : Nat) (s0 : σ) : PRAcc σ α :=
  { k := k, rng := s0, seq := 0, heap := [], store := [], alive := 0 }

/-- strict lexicographic order on `(priority, seq, idx)` (derived `Ord` of the tuple) -/
def lexLt (a b : Nat × Nat × Nat) : Bool :=
  decide (a.1 < b.1) || (a.1 == b.1 && (decide (a.2.1 < b.2.1) || (a.2.1 == b.2.1 && decide (a.2.2 < b.2.2))))

def minOf : (Nat × Nat × Nat) → List (Nat × Nat × Nat) → (Nat × Nat × Nat)
  | m, [] => m
  | m, x :: xs => minOf (if lexLt x m then x else m) xs

/-- `heap.pop()` on a min-heap (`Reverse`): a minimum and the remaining entries -/
def popMin : List (Nat × Nat × Nat) → Option ((Nat × Nat × Nat) × List (Nat × Nat × Nat))
  | [] => none
  | x :: xs => let m := minOf x xs; some (m, (x :: xs).erase m)

/-- `while acc.alive > acc.k { if let Some(e) = heap.pop() { tombstone a live slot } else { break } }` -/
def trimLoop : Nat → PRAcc σ α → PRAcc σ α
  | 0, a => a
  | fuel + 1, a =>
    if a.alive > a.k then
      match popMin a.heap with
      | none => a
      | some (e, h') =>
        match a.store[e.2.2]? with
        | some (some _) =>
            trimLoop fuel { a with heap := h', store := a.store.set e.2.2 none, alive := a.alive - 1 }
        | _ => trimLoop fuel { a with heap := h' }
    else a

def trim (a : PRAcc σ α) : PRAcc σ α := trimLoop a.heap.length a

/-- `add_input` -/
def addInput (next : σ → Nat × σ) (a : PRAcc σ α) (v : α) : PRAcc σ α :=
  if a.k == 0 then a
  else
    let r := next a.rng
    trim { a with rng := r.2, seq := a.seq + 1,
                  store := a.store ++ [some (r.1, a.seq, v)],
                  heap := (r.1, a.seq, a.store.length) :: a.heap,
                  alive := a.alive + 1 }

/-- the `for slot in other.store` loop of `merge`: state `(acc.store, map, acc.alive)` -/
def moveLive : List (Option (Nat × Nat × α)) →
    List (Option (Nat × Nat × α)) × List (Option Nat) × Nat →
    List (Option (Nat × Nat × α)) × List (Option Nat) × Nat
  | [], s => s
  | some it :: rest, (st, mp, al) => moveLive rest (st ++ [some it], mp ++ [some st.length], al + 1)
  | none :: rest, (st, mp, al) => moveLive rest (st, mp ++ [none], al)

/-- the `while let Some(..) = other.heap.pop()` loop of `merge`: remap the index or drop the entry -/
def drainHeap (mp : List (Option Nat)) : Nat → List (Nat × Nat × Nat) → List (Nat × Nat × Nat) →
    List (Nat × Nat × Nat)
  | 0, _, acc => acc
  | fuel + 1, oh, acc =>
    match popMin oh with
    | none => acc
    | some (e, oh') =>
      match mp[e.2.2]? with
      | some (some i) => drainHeap mp fuel oh' ((e.1, e.2.1, i) :: acc)
      | _ => drainHeap mp fuel oh' acc

/-- `merge(acc, other)` -/
def merge (a o : PRAcc σ α) : PRAcc σ α :=
  if a.k == 0 then a
  else
    let moved := moveLive o.store (a.store, [], a.alive)
    trim { a with k := max a.k o.k,
                  store := moved.1,
                  heap := drainHeap moved.2.1 o.heap.length o.heap a.heap,
                  alive := moved.2.2 }

/-- live slots in store order (`store.into_iter().flatten()`) -/
def live (st : List (Option (Nat × Nat × α))) : List (Nat × Nat × α) := st.filterMap id

/-- `b.0.cmp(&a.0).then_with(|| a.1.cmp(&b.1)) != Greater`: `x` may stay before `y` -/
def itemLe (x y : Nat × Nat × α) : Bool :=
  decide (y.1 < x.1) || (y.1 == x.1 && decide (x.2.1 ≤ y.2.1))

def insertItem (x : Nat × Nat × α) : List (Nat × Nat × α) → List (Nat × Nat × α)
  | [] => [x]
  | y :: ys => if itemLe x y then x :: y :: ys else y :: insertItem x ys

/-- stable sort by (priority desc, seq asc) -/
def sortItems (l : List (Nat × Nat × α)) : List (Nat × Nat × α) := l.foldr insertItem []

/-- `finish` -/
def finish (a : PRAcc σ α) : List α :=
  if a.k == 0 || a.alive == 0 then []
  else ((sortItems (live a.store)).take a.k).map (fun it => it.2.2)

/-- `PriorityReservoir::new(k, seed)` as a `Combiner` (generator and its initial state are parameters) -/
def reservoir (next : σ → Nat × σ) (k : Nat) (s0 : σ) : Combiner α (PRAcc σ α) (List α) where
  create := create k s0
  add := addInput next
  merge := merge
  finish := finish
  build := fun xs => xs.foldl (addInput next) (create k s0)

/-- the combiner the code builds: SplitMix64 stream started at `seedState seed` -/
def reservoirSM (k : Nat) (seed : UInt64) : Combiner α (PRAcc UInt64 α) (List α) :=
  reservoir smNextPrio k (seedState seed)

/-! ## merge trees -/

inductive Tree (α : Type) where
  | leaf (xs : List α)
  | node (l r : Tree α)

namespace Tree
def leaves : Tree α → List α
  | leaf xs => xs
  | node l r => l.leaves ++ r.leaves

/-- leaves = per-partition folds from a fresh accumulator; inner nodes = `merge(left, right)` -/
def eval {A O : Type} (c : Combiner α A O) : Tree α → A
  | leaf xs => c.foldAdd c.create xs
  | node l r => c.merge (l.eval c) (r.eval c)
end Tree

/-! ## the pipelines -/

/-- `VecOpsImpl::split` -/
def vecSplit {β : Type} (xs : List β) (n : Nat) : List (List β) :=
  if n ≤ 1 ∨ xs.length ≤ 1 then [xs] else chunksOf ((xs.length + n - 1) / n) xs.length xs

/-- the partitions `exec_par` starts from -/
def partsOf {β : Type} (n : Nat) (xs : List β) : List (List β) := vecSplit xs (clampParts n xs.length)

/-- the `merge` closure of `combine_globally`: the first accumulator (or `create()`), then `merge` of
    each further one in order -/
def mergeAll {V A O : Type} (c : Combiner V A O) : List A → A
  | [] => c.create
  | a :: rest => rest.foldl c.merge a

/-- `sample_reservoir_vec(..).collect_seq()`: `local`, `merge(vec![mid])`, `finish` (one output row) -/
def sampleSeq {V A O : Type} (c : Combiner V A O) (xs : List V) : O :=
  c.finish (mergeAll c [c.foldAdd c.create xs])

/-- `sample_reservoir_vec(..).collect_par(_, Some n)`: fan-out `None` ⇒ one `merge` of all accumulators -/
def samplePar {V A O : Type} (c : Combiner V A O) (n : Nat) (xs : List V) : O :=
  c.finish (mergeAll c ((partsOf n xs).map (c.foldAdd c.create)))

/-- the global sample over an **arbitrary** list of partitions (possibly empty or skewed ones, as left behind
    by a per-partition `filter` upstream): per-partition fold, one `merge` of all accumulators in partition
    order, `finish`.  `samplePar c n xs = sampleParts c (partsOf n xs)` by `rfl`. -/
def sampleParts {V A O : Type} (c : Combiner V A O) (ps : List (List V)) : O :=
  c.finish (mergeAll c (ps.map (c.foldAdd c.create)))

/-- the flattening `flat_map(|v| v.clone())` of `sample_reservoir` over the rows of the `Vec` form -/
def flattenGlobal {V : Type} (rows : List (List V)) : List V := rows.flatMap (fun v => v)

/-- `sample_reservoir(..).collect_seq()`: the single `Vec` row of `sample_reservoir_vec`, flattened -/
def sampleFlatSeq {V A : Type} (c : Combiner V A (List V)) (xs : List V) : List V :=
  flattenGlobal [sampleSeq c xs]

/-- `sample_reservoir(..).collect_par(_, Some n)`: after the global combine there is one partition holding
    the one `Vec` row; the `flat_map` runs on it -/
def sampleFlatPar {V A : Type} (c : Combiner V A (List V)) (n : Nat) (xs : List V) : List V :=
  flattenGlobal [samplePar c n xs]

/-- `from_vec(xs).filter(p).sample_reservoir_vec(..).collect_seq()` -/
def sampleFilterSeq {V A O : Type} (c : Combiner V A O) (p : V → Bool) (xs : List V) : O :=
  sampleSeq c (xs.filter p)

/-- `from_vec(xs).filter(p).sample_reservoir_vec(..).collect_par(_, Some n)`: the source is split first
    (`partsOf n xs`, sizes from the UNfiltered length), the stateless `filter` runs inside every partition,
    then the per-partition folds are merged — partitions may be skewed or empty -/
def sampleFilterPar {V A O : Type} (c : Combiner V A O) (n : Nat) (p : V → Bool) (xs : List V) : O :=
  sampleParts c ((partsOf n xs).map (List.filter p))

/-- the left comb `mergeAll` walks: `((p0 ⋈ p1) ⋈ p2) ⋈ …` -/
def combTree (p : List α) (ps : List (List α)) : Tree α :=
  ps.foldl (fun t q => .node t (.leaf q)) (.leaf p)

/-! ### per key -/

variable {κ : Type} [DecidableEq κ]

/-- `entry(k).or_insert_with(init)` then `f` on the entry (insertion-ordered association list) -/
def upsert {β : Type} (m : List (κ × β)) (k : κ) (init : β) (f : β → β) : List (κ × β) :=
  match m with
  | [] => [(k, f init)]
  | (k', b) :: rest => if k' = k then (k', f b) :: rest else (k', b) :: upsert rest k init f

/-- `local_pairs`: `for (k, v) in kv { add_input(map.entry(k).or_insert_with(create), v) }` -/
def localPairs {V A O : Type} (c : Combiner V A O) (rows : List (κ × V)) : List (κ × A) :=
  rows.foldl (fun m kv => upsert m kv.1 c.create (fun a => c.add a kv.2)) []

/-- the keyed `merge` closure before `finish`: partitions in order, `merge(accs.entry(k).or_insert_with(create), a)` -/
def mergeMapsAcc {A V O : Type} (c : Combiner V A O) (parts : List (List (κ × A))) : List (κ × A) :=
  parts.foldl (fun accs m => m.foldl (fun accs ka => upsert accs ka.1 c.create (fun e => c.merge e ka.2)) accs) []

def mergeMaps {A V O : Type} (c : Combiner V A O) (parts : List (List (κ × A))) : List (κ × O) :=
  (mergeMapsAcc c parts).map (fun ka => (ka.1, c.finish ka.2))

/-- `sample_values_reservoir_vec(..).collect_seq()` (rows in map order) -/
def sampleKeyedSeq {V A O : Type} (c : Combiner V A O) (rows : List (κ × V)) : List (κ × O) :=
  mergeMaps c [localPairs c rows]

/-- `sample_values_reservoir_vec(..).collect_par(_, Some n)` -/
def sampleKeyedPar {V A O : Type} (c : Combiner V A O) (n : Nat) (rows : List (κ × V)) : List (κ × O) :=
  mergeMaps c ((partsOf n rows).map (localPairs c))

/-- `from_vec(rows).filter(p).sample_values_reservoir_vec(..).collect_seq()` -/
def sampleKeyedFilterSeq {V A O : Type} (c : Combiner V A O) (p : κ × V → Bool) (rows : List (κ × V)) :
    List (κ × O) :=
  sampleKeyedSeq c (rows.filter p)

/-- `from_vec(rows).filter(p).sample_values_reservoir_vec(..).collect_par(_, Some n)`: split, filter inside
    every partition, per-partition `local_pairs`, keyed merge -/
def sampleKeyedFilterPar {V A O : Type} (c : Combiner V A O) (n : Nat) (p : κ × V → Bool)
    (rows : List (κ × V)) : List (κ × O) :=
  mergeMaps c (((partsOf n rows).map (List.filter p)).map (localPairs c))

/-- the flattening `flat_map` of `sample_values_reservoir` -/
def flattenKeyed {V : Type} (rows : List (κ × List V)) : List (κ × V) :=
  rows.flatMap (fun kv => kv.2.map (fun v => (kv.1, v)))

end IB.Sampling
