import IbModel.Model.Checkpoint
import IbModel.Model.Engine
/-!
# Model of the two checkpointing engines of `src/runner.rs` (C11)

`exec_seq_with_checkpointing` and `exec_par_with_checkpointing`, transliterated over

* the abstract engine of `Model/Engine.lean` (`Node P`, `execSeq`, `execPar`),
* the checkpoint store of `Model/Checkpoint.lean` (C12: `save`, `latest`, `read`, `load`, `clear`,
  `shouldCheckpoint`) on the model file system `FS = List (Name × Bytes)`,
* an environment `Env` holding everything the code takes from outside: the hash (`compute_checksum`, SHA-256
  hex — a PARAMETER), the decoder configuration of `load_checkpoint`, the wall clock as a script (the k-th
  reading, in nanoseconds; NOT assumed monotone), and the `f64` progress computation.

What the code does, and the model repeats literally:

* the pipeline id is `generate_pipeline_id(format!("{:?}", chain.len()))` (sequential) resp.
  `format!("{:?}:{}", chain.len(), partitions)` (parallel): the first 16 hex digits of the hash of the chain
  LENGTH (and partition count) — pipelines of equal length share an id;
* recovery (`auto_recover`): `find_latest_checkpoint`, then `load_checkpoint`; the loaded state / the error is only
  logged. The one way this can influence the run is by not returning: a panic ("capacity overflow") or an abort
  (allocation failure) inside the decoder kills the process — `Outcome.died`;
* the sequential engine has ITS OWN per-node match (`stepSeqCk`, a re-implementation of `exec_seq`'s); after each
  node `should_checkpoint(idx, is_barrier, total)` decides whether a progress record is saved
  (`save_checkpoint`, errors swallowed); an `Err` from a node (`?`) returns at once — files stay; after the terminal
  downcast `clear_checkpoints(pipeline_id)`;
* the parallel engine is `exec_par` wrapped: `Ok` ⇒ clear, `Err` ⇒ save a `"Failed"` marker record.

What the two engines do BEFORE the first node, and the model repeats as outcomes of their own (`Outcome.setupFailed`):

* `CheckpointManager::new(config)?` — `create_dir_all(directory)`; when the path cannot be made a directory (it is a
  regular file, a parent is read-only, …) `run_collect` returns that `Err` although the plain engines would have
  returned the result (`Env.dirCreatable = false` ⇒ `.setupFailed .createDir`);
* `find_latest_checkpoint(..)?` (only with `auto_recover`) — it returns `Ok(None)` when `!directory.exists()`
  (`Env.dirExists = false` ⇒ recovery sees nothing) and only then calls `read_dir(directory)`, whose failure (e.g.
  mode 0300) is an `Err` (`Env.dirListable = false` ⇒ `.setupFailed .readDir`).

Both are exits that exist ONLY in the checkpointing engines: WITH AN UNUSABLE CHECKPOINT DIRECTORY THE CHECKPOINTING RUN
RETURNS `Err` WHERE THE PLAIN RUN RETURNS `Ok`. They are OUTSIDE the transparency claim: transparency is a theorem
under the hypothesis "the checkpoint directory is usable" (`DirUsable`, Proofs/CheckpointRun.lean); without it the
negation is proved (Props/C11.lean: `unusable_directory_not_transparent`, `unlistable_directory_not_transparent`).
The first exit is reproduced on the real code by the harness (jobs `dir=file`: the path is a regular file); the
second is modelled and proved only — the sandbox runs as uid 0, for which a mode-0300 directory is still listable. The same `read_dir` is also called by `cleanup_old_checkpoints` (inside
`save_checkpoint`, whose `Err` is only logged) and by `clear_checkpoints` (`.ok()`): with an unlistable directory the
file is written but retention / the final clear do nothing — modelled (`saveD`, `clearRun`).

Entries of the directory that are themselves DIRECTORIES (`Env.isDir`, a predicate on names; the code never creates
or removes a directory inside the checkpoint directory, so it is constant during a run): the three scans take
REGULAR FILES only (`entry.path().is_file()`, since the C12 fix "checkpoint directory scans take regular files only"),
so an own-named sub-directory `checkpoint_<pid>_<n>.bin/` is not counted by retention, is never "the latest" and is
not a candidate of clear (it stays, also after a successful run); `File::create` still fails on it (`save_checkpoint`
= `Err`, logged). (Before that fix the scans filtered by name only: the directory was counted, could be "the latest"
and made `load_checkpoint` fail — `Checkpoint.Legacy.latestWithDirs`.) `cleanupD` / `clearD` / `saveD` / `readD` below are the store functions of `Model/Checkpoint.lean`
with exactly this difference; with `isDir = fun _ => false` they are those functions (`Proofs/CheckpointRun.lean`).

A checkpoint directory that stops being usable WHILE the run is in progress (`Env.failFrom = some k`: it is renamed /
removed / replaced while chain node `k` executes): every later `save_checkpoint` fails in `File::create` (its `Err` is
logged), the final `clear_checkpoints` fails in `read_dir` (`.ok()`), what the directory held at that moment stays.
Reproduced on the real code by the harness (jobs `sab=j`: a user closure renames the directory away).

Leftover files too large to read (`Env.tooBig`): `load_checkpoint` reads the WHOLE file (`read_to_end`) before the decode
limit applies; when that many bytes cannot be reserved the read returns `Err` and recovery logs it (observed under the
child's address-space limit with a sparse 3 GiB file). NOT modelled: memory that can be reserved but not backed (OOM kill).

The terminal downcast `downcast::<Vec<T>>()` and the partition count as the caller writes it (`partitions: None`) are a
layer on top of the type-erased engines: `execSeqCkptT` / `execParCkptT` / `runCollectT` (end of this file).

NOT modelled: I/O errors on single regular files (`write_all` / `sync_all` / `remove_file` failing; `File::create`
failing for another reason than "is a directory" / "the directory is gone"), `read_dir` entries that fail individually
(`filter_map(Result::ok)`), non-UTF-8 names (skipped by `to_str()` in the code), the `?` exits "unsupported source vec
type" and the `Materialized` arm (unreachable through `run_collect` on builder-made pipelines).

Engine conventions inherited from `Model/Engine.lean`: `Err.emptyBuf` stands for a panic of the engine
(`buf.take().unwrap()` on `None`), `Err.nonTermination` for a fan-in loop that never ends; neither RETURNS, so
neither clears nor saves a marker.

`Legacy.*` = the code at the pinned commit: the sequential checkpointing engine had no `CoGroup` arm.
Imports nothing outside core Lean.
-/
namespace IB.CheckpointRun
open IB IB.Checkpoint

/-- the part of `CheckpointConfig` the engines read (`enabled` is true on this path: `run_collect` only enters the
    checkpointing engines when `config.enabled`; `directory` is the model file system itself, its state as a path —
    creatable, listable — is in `Env`) -/
structure Config where
  policy : Policy
  autoRecover : Bool
  max : Option Nat

/-- everything taken from outside -/
structure Env where
  /-- `compute_checksum` / the digest inside `generate_pipeline_id`: lower-case hex SHA-256 in the code -/
  H : Bytes → Bytes
  /-- decoder configuration of `load_checkpoint` (bincode limit, what the allocator can give) -/
  dec : Cfg
  /-- the k-th reading of the wall clock, nanoseconds since the epoch (any function: not assumed monotone) -/
  clock : Nat → Nat
  /-- `((idx as f64 / total_nodes as f64) * 100.0) as u8` -/
  progress : Nat → Nat → UInt8
  /-- does `create_dir_all(config.directory)` succeed (the path is, or can be made, a directory)? -/
  dirCreatable : Bool := true
  /-- does `config.directory.exists()` hold after a successful `create_dir_all`? Always, except for a path that
      `create_dir_all` accepts without creating anything: the EMPTY path (`create_dir_all("") = Ok(())`,
      `Path::new("").exists() = false`, `read_dir("")` fails, but `Path::new("").join(name)` is a file in the current
      directory, so `File::create` works). Since the fix "an empty checkpoint directory path is the current directory"
      `CheckpointManager::new` never leaves the path empty; the test itself is still in `find_latest_checkpoint`. -/
  dirExists : Bool := true
  /-- does `read_dir(config.directory)` succeed? -/
  dirListable : Bool := true
  /-- the names in the checkpoint directory that are sub-directories -/
  isDir : Name → Bool := fun _ => false
  /-- regular files too large to be read into memory: `load_checkpoint` does `read_to_end` of the WHOLE file before the
      decode limit applies; when the reservation of that many bytes fails, `File::read_to_end` returns `Err`
      (`try_reserve`), which `load_checkpoint` passes on ("Failed to read checkpoint") and the recovery block logs.
      (A reservation that succeeds but cannot be backed — an OOM kill by the kernel — is outside the model.) -/
  tooBig : Name → Bool := fun _ => false
  /-- `some k`: the checkpoint directory stops being usable WHILE chain node `k` executes (something outside the engine
      — e.g. a user closure, another process — renames / removes / replaces it): from then on `File::create` and
      `read_dir` on the configured path fail, so every later `save_checkpoint` and the final `clear_checkpoints`
      return `Err` (logged / `.ok()`). The content the directory had at that moment is what stays. -/
  failFrom : Option Nat := none

/-- ASCII bytes of a literal -/
def ascii (s : String) : Bytes := s.toList.map (fun c => UInt8.ofNat c.toNat)

/-- `generate_pipeline_id(x)`: `format!("{:x}", sha256(x))[..16]` -/
def pipelineId (env : Env) (x : Bytes) : Bytes := (env.H x).take 16

/-- sequential: `generate_pipeline_id(&format!("{:?}", chain.len()))` -/
def seqPid (env : Env) (len : Nat) : Bytes := pipelineId env (decDigits len)

/-- parallel: `generate_pipeline_id(&format!("{:?}:{}", chain.len(), partitions))` -/
def parPid (env : Env) (len parts : Nat) : Bytes := pipelineId env (decDigits len ++ [colon] ++ decDigits parts)

variable {P : Type}

/-- `matches!(node, GroupByKey | CombineValues | CoGroup | CombineGlobal)` -/
def isBarrier : Node P → Bool
  | .gbk .. => true
  | .combineValues .. => true
  | .coGroup .. => true
  | .combineGlobal .. => true
  | _ => false

/-- the `node_type` string -/
def nodeType : Node P → Bytes
  | .source .. => ascii "Source"
  | .stateless _ => ascii "Stateless"
  | .gbk .. => ascii "GroupByKey"
  | .combineValues .. => ascii "CombineValues"
  | .coGroup .. => ascii "CoGroup"
  | .materialized _ => ascii "Materialized"
  | .combineGlobal .. => ascii "CombineGlobal"

/-! ## the store functions in the presence of sub-directories and of a directory that cannot be listed -/

/-- an own-named REGULAR file: what `remove_file` can actually remove among the candidates of the scans -/
def ownFile (isDir : Name → Bool) (pid : Bytes) (name : Name) : Bool := isOwn pid name && !isDir name

/-- `cleanup_old_checkpoints`: the doomed names are chosen among the own-named REGULAR FILES (the scans skip
    sub-directories); `remove_file(..).ok()` then removes them -/
def cleanupD (isDir : Name → Bool) (max : Option Nat) (pid : Bytes) (fs : FS) : FS :=
  match max with
  | none => fs
  | some m =>
    let d := doomed (ownFile isDir pid) (sortKey (pfx pid)) m (names fs)
    fs.filter (fun f => !d.contains f.1)

/-- `find_latest_checkpoint` (after a successful `read_dir`): the newest own-named regular file -/
def latestD (isDir : Name → Bool) (pid : Bytes) (fs : FS) : Option Name :=
  latestWith (ownFile isDir pid) (sortKey (pfx pid)) true fs

/-- `clear_checkpoints` (after a successful `read_dir`): every own-named regular file goes, sub-directories stay -/
def clearD (isDir : Name → Bool) (pid : Bytes) (fs : FS) : FS := clearWith (ownFile isDir pid) fs

/-- `save_checkpoint`: `none` = `File::create` failed (the name is a sub-directory) — nothing else happened;
    otherwise the file is written and, if the directory can be listed, retention runs (if not,
    `cleanup_old_checkpoints` returns `Err` AFTER the write — the file stays, nothing is removed) -/
def saveD (isDir : Name → Bool) (listable : Bool) (max : Option Nat) (fs : FS) (s : State) : Option FS :=
  if isDir (fileName s) then none
  else
    let w := write fs (fileName s) (encode s)
    some (if listable then cleanupD isDir max s.pipelineId w else w)

/-- `File::open` + `read_to_end`: fails on a sub-directory (EISDIR) and on a file whose size cannot be reserved -/
def readD (isDir tooBig : Name → Bool) (fs : FS) (name : Name) : Option Bytes :=
  if isDir name || tooBig name then none else read fs name

/-! ## recovery -/

/-- what the recovery block saw (it is only logged) -/
inductive RecLog where
  | off                      -- `auto_recover = false`
  | nothing                  -- no checkpoint of this pipeline id in the directory
  | unreadable               -- `File::open` / `read_to_end` failed: logged, ignored
  | loaded (s : State)       -- "[Checkpoint] Recovered from node {idx} ({pp}% complete)"
  | rejected (e : DecErr)    -- "[Checkpoint] Failed to load checkpoint: {e}"
deriving DecidableEq, Repr

/-- does this decoder outcome kill the process instead of returning? -/
def kills : DecErr → Bool
  | .capacityOverflow => true   -- panic inside bincode's `Vec<u8>` decode
  | .allocFail => true          -- the allocator aborts the process
  | _ => false

/-- how the recovery block can fail to fall through to the node loop -/
inductive RecFail where
  /-- the process died inside `load_checkpoint` -/
  | died (e : DecErr)
  /-- `find_latest_checkpoint(..)?`: `read_dir` failed, `run_collect` returns `Err` -/
  | readDir
deriving DecidableEq, Repr

/-- the recovery block: `if auto_recover && let Some(path) = find_latest_checkpoint(pid)? { match load_checkpoint(path) … }`.
    `find_latest_checkpoint` returns `Ok(None)` when `!directory.exists()` BEFORE it calls `read_dir`. -/
def recover (env : Env) (cfg : Config) (pid : Bytes) (fs : FS) : Except RecFail RecLog :=
  if !cfg.autoRecover then .ok .off
  else if !env.dirExists then .ok .nothing
  else if !env.dirListable then .error .readDir
  else match latestD env.isDir pid fs with
    | none => .ok .nothing
    | some name =>
      match readD env.isDir env.tooBig fs name with
      | none => .ok .unreadable
      | some bytes =>
        match load env.H env.dec bytes with
        | .ok s => .ok (.loaded s)
        | .error e => if kills e then .error (.died e) else .ok (.rejected e)

/-! ## the manager's mutable state during a run -/

structure St where
  fs : FS
  /-- `last_checkpoint_time` -/
  last : Option Nat
  /-- clock readings consumed so far -/
  tick : Nat

def policyReadsClock : Policy → Bool
  | .timeInterval _ => true
  | .hybrid _ _ => true
  | _ => false

/-- `manager.should_checkpoint(idx, is_barrier, total)` (the time policies read `SystemTime::now()`) -/
def shouldCk (env : Env) (cfg : Config) (st : St) (idx : Nat) (barrier : Bool) : Bool × St :=
  if policyReadsClock cfg.policy then
    (shouldCheckpoint true cfg.policy st.last (env.clock st.tick) idx barrier, { st with tick := st.tick + 1 })
  else
    (shouldCheckpoint true cfg.policy st.last 0 idx barrier, st)

def u64Mod : Nat := 18446744073709551616

/-- `current_timestamp_ms()`: `as_millis() as u64` of one clock reading -/
def stampOf (ns : Nat) : Nat := (ns / 1000000) % u64Mod

/-- a progress record with the genuine checksum (`compute_checksum(format!("{pid}:{idx}:{ts}:{pc}"))`) -/
def mkState (env : Env) (pid : Bytes) (idx ts pc : Nat) (mode : Bytes) (total : Nat) (nt : Bytes) (pp : UInt8) : State :=
  let s0 : State := { pipelineId := pid, completedNodeIndex := idx, timestamp := ts, partitionCount := pc,
                      checksum := [], execMode := mode,
                      metadata := { totalNodes := total, lastNodeType := nt, progressPercent := pp } }
  { s0 with checksum := env.H (metaString s0) }

/-- the record the sequential engine saves after node `idx` -/
def seqState (env : Env) (pid : Bytes) (idx total ts : Nat) (nt : Bytes) : State :=
  mkState env pid idx ts 1 (ascii "sequential") total nt (env.progress idx total)

/-- has the directory stopped being usable by the time the block after node `idx` runs? -/
def storeFails (env : Env) (idx : Nat) : Bool :=
  match env.failFrom with
  | some k => decide (k ≤ idx)
  | none => false

/-- … by the time a chain of `total` nodes has run to its end? -/
def storeFailsAtEnd (env : Env) (total : Nat) : Bool :=
  match env.failFrom with
  | some k => decide (k < total)
  | none => false

/-- `manager.save_checkpoint(&state)` as the engines use it (result only logged): create + write, then
    `last_checkpoint_time = Some(SystemTime::now())`, then retention. When `File::create` fails (the name is a
    sub-directory; the directory is gone: `fails`) the function returns before the clock is read. -/
def doSave (env : Env) (cfg : Config) (fails : Bool) (st : St) (s : State) : St :=
  if fails then st
  else
  match saveD env.isDir env.dirListable cfg.max st.fs s with
  | none => st
  | some fs' => { fs := fs', last := some (env.clock st.tick), tick := st.tick + 1 }

/-- the block after each node of the sequential engine: `if manager.should_checkpoint(..) { … save_checkpoint … }` -/
def afterNode (env : Env) (cfg : Config) (pid : Bytes) (total idx : Nat) (node : Node P) (st : St) : St :=
  let d := shouldCk env cfg st idx (isBarrier node)
  if d.1 then
    let st1 := d.2
    let ts := stampOf (env.clock st1.tick)
    doSave env cfg (storeFails env idx) { st1 with tick := st1.tick + 1 } (seqState env pid idx total ts (nodeType node))
  else d.2

/-! ## the sequential checkpointing engine -/

/-- the engine's OWN node match ("same logic as exec_seq" — a second copy of it, arm by arm) -/
def stepSeqCk (cur : Option P) : Node P → M P
  | .source w _ _ => pure w
  | .stateless ops => do let b ← need cur; pure (applyOps ops b)
  | .gbk l m => do let b ← need cur; pure (m [l b])
  | .combineValues lp lg m => do let b ← need cur; pure (m [(lg.getD lp) b])
  | .materialized p => pure p
  | .coGroup l r _coL _coR ex => do
      let lp ← runSubSeq l
      let rp ← runSubSeq r
      pure (ex lp rp)
  | .combineGlobal l m f _ => do let b ← need cur; pure (f (m [l b]))

/-- `for (idx, node) in chain.into_iter().enumerate() { buf = Some(step); maybe save }`, generic in the node match -/
def runNodes {ε : Type} (step : Option P → Node P → Except ε P) (env : Env) (cfg : Config) (pid : Bytes)
    (total : Nat) : (idx : Nat) → List (Node P) → Option P → St → Except ε (Option P) × St
  | _, [], cur, st => (.ok cur, st)
  | idx, n :: rest, cur, st =>
    match step cur n with
    | .error e => (.error e, st)                     -- `?`: return at once, nothing cleared
    | .ok b => runNodes step env cfg pid total (idx + 1) rest (some b) (afterNode env cfg pid total idx n st)

/-- the two `?` exits in front of the node loop -/
inductive SetupErr where
  /-- `CheckpointManager::new`: "Failed to create checkpoint directory" -/
  | createDir
  /-- `find_latest_checkpoint`: "Failed to read checkpoint directory" -/
  | readDir
deriving DecidableEq, Repr

/-- how a run ended -/
inductive Outcome (ρ : Type) where
  /-- `run_collect` returned (engine conventions: `.error .emptyBuf` = engine panic, `.nonTermination` = hang) -/
  | finished (r : ρ)
  /-- the process panicked / aborted inside `load_checkpoint` during recovery -/
  | died (e : DecErr)
  /-- `run_collect` returned an `Err` of the checkpointing set-up, before any node ran -/
  | setupFailed (e : SetupErr)

structure Run (ρ : Type) where
  outcome : Outcome ρ
  /-- the directory afterwards -/
  fs : FS
  /-- what recovery logged (`none` when the process died there) -/
  log : Option RecLog

def initSt (fs : FS) : St := { fs := fs, last := none, tick := 0 }

/-- `manager.clear_checkpoints(&pipeline_id).ok()` at the end of a chain of `total` nodes: nothing happens when
    `read_dir` fails (directory not listable, or no longer there) -/
def clearRun (env : Env) (total : Nat) (pid : Bytes) (fs : FS) : FS :=
  if env.dirListable && !storeFailsAtEnd env total then clearD env.isDir pid fs else fs

/-- `exec_seq_with_checkpointing(chain, config)` -/
def execSeqCkpt (env : Env) (cfg : Config) (fs : FS) (chain : List (Node P)) : Run (M P) :=
  let total := chain.length
  let pid := seqPid env total
  if !env.dirCreatable then { outcome := .setupFailed .createDir, fs := fs, log := none }   -- `CheckpointManager::new(config)?`
  else
  match recover env cfg pid fs with
  | .error (.died e) => { outcome := .died e, fs := fs, log := none }
  | .error .readDir => { outcome := .setupFailed .readDir, fs := fs, log := none }
  | .ok lg =>
    let r := runNodes stepSeqCk env cfg pid total 0 chain none (initSt fs)
    match r.1 with
    | .error e => { outcome := .finished (.error e), fs := r.2.fs, log := some lg }
    | .ok none => { outcome := .finished (.error .emptyBuf), fs := r.2.fs, log := some lg }   -- `buf.unwrap()` panics
    | .ok (some b) => { outcome := .finished (.ok b), fs := clearRun env total pid r.2.fs, log := some lg }

/-- the directory a run leaves behind when it is KILLED right after the `k`-th node (and its save, if one was due):
    nothing is cleared. `k = 0`: killed before the first node. -/
def crashFs (env : Env) (cfg : Config) (fs : FS) (chain : List (Node P)) (k : Nat) : FS :=
  (runNodes stepSeqCk env cfg (seqPid env chain.length) chain.length 0 (chain.take k) none (initSt fs)).2.fs

/-! ## the parallel checkpointing engine -/

/-- does the engine RETURN this error as an `Err` (as opposed to panicking / never returning)? -/
def returnsErr : Err → Bool
  | .emptyBuf => false
  | .nonTermination => false
  | _ => true

/-- the `"Failed"` marker record of the parallel engine -/
def failedState (env : Env) (pid : Bytes) (total parts ts : Nat) : State :=
  mkState env pid 0 ts parts (ascii "parallel:" ++ decDigits parts) total (ascii "Failed") 0

/-- `exec_par_with_checkpointing(chain, partitions, config)` -/
def execParCkpt (concat : List P → P) (env : Env) (cfg : Config) (fs : FS) (chain : List (Node P)) (n : Nat) :
    Run (M P) :=
  let total := chain.length
  let pid := parPid env total n
  if !env.dirCreatable then { outcome := .setupFailed .createDir, fs := fs, log := none }
  else
  match recover env cfg pid fs with
  | .error (.died e) => { outcome := .died e, fs := fs, log := none }
  | .error .readDir => { outcome := .setupFailed .readDir, fs := fs, log := none }
  | .ok lg =>
    let r := execPar concat chain n
    match r with
    | .ok _ => { outcome := .finished r, fs := clearRun env total pid fs, log := some lg }
    | .error e =>
      -- (`exec_par` on an EMPTY chain indexes `chain[0]`: a panic, not an `Err` — nothing is saved; `build_plan`
      --  never produces one, the engine model's `.noSource` stands for both)
      if returnsErr e && !chain.isEmpty && !storeFailsAtEnd env total then
        let ts := stampOf (env.clock 0)
        { outcome := .finished r,
          fs := (saveD env.isDir env.dirListable cfg.max fs (failedState env pid total n ts)).getD fs,   -- `.ok()`
          log := some lg }
      else { outcome := .finished r, fs := fs, log := some lg }

/-! ## `Runner::run_collect`: which engine runs -/

/-- `ExecMode` after the partition count has been resolved (`partitions.or(suggested).unwrap_or(default)`) -/
inductive ExecMode where
  | sequential
  | parallel (partitions : Nat)
deriving DecidableEq, Repr

/-- `Runner { mode, checkpoint_config }`: the configuration is optional and carries its own `enabled` flag -/
structure Runner where
  mode : ExecMode
  checkpoint : Option (Bool × Config)

/-- the engine dispatch of `run_collect` on an already planned chain:
    `checkpoint_config.as_ref().is_some_and(|c| c.enabled)` selects the checkpointing engines, otherwise the plain
    ones run and the checkpoint directory is not even looked at -/
def runCollect (concat : List P → P) (env : Env) (r : Runner) (fs : FS) (chain : List (Node P)) : Run (M P) :=
  match r.checkpoint with
  | some (true, cfg) =>
    match r.mode with
    | .sequential => execSeqCkpt env cfg fs chain
    | .parallel n => execParCkpt concat env cfg fs chain n
  | _ =>
    match r.mode with
    | .sequential => { outcome := .finished (execSeq chain), fs := fs, log := some .off }
    | .parallel n => { outcome := .finished (execPar concat chain n), fs := fs, log := some .off }

/-! ## the terminal downcast (`run_collect::<T>`), and the partition count as the caller writes it

The engine model is type-erased like the Rust engines (`P` = `Box<dyn Any>`); the only place where the requested
element type `T` matters is the terminal downcast `out.downcast::<Vec<T>>().map_err(|_| anyhow!("terminal type
mismatch"))?`. It is a parameter here: `cast : P → Option R` (`none` = the terminal partition is not a `Vec<T>`).

* `exec_seq` / `exec_par`: the downcast is their last statement — `castRes`.
* `exec_seq_with_checkpointing`: the downcast comes AFTER the node loop (all saves done) and BEFORE
  `clear_checkpoints`: with a wrong `T` the run returns the same `Err` as the plain engine, and every checkpoint file
  the loop saved stays — the directory is exactly what a run killed after its last node leaves
  (`crashFs … chain.length`).
* `exec_par_with_checkpointing`: the downcast is inside `exec_par`; its `Err` makes `result.is_ok()` false, so the
  `"Failed"` marker is saved.

The two other `?` exits inside the node match ("unsupported source vec type", the `Materialized` arm's downcast)
cannot be reached through `Runner::run_collect` on a pipeline the builders made (a `Source` node always carries the
`VecOps` of its own payload; `Node::Materialized` is never constructed by the crate) and have no model. -/

/-- errors of the typed run -/
inductive TErr where
  | engine (e : Err)
  /-- `anyhow!("terminal type mismatch")` -/
  | typeMismatch
deriving DecidableEq, Repr

/-- the tail of `exec_seq::<T>` / `exec_par::<T>`: downcast of the terminal partition -/
def castRes {R : Type} (cast : P → Option R) : M P → Except TErr R
  | .error e => .error (.engine e)
  | .ok b =>
    match cast b with
    | some v => .ok v
    | none => .error .typeMismatch

/-- `exec_seq_with_checkpointing::<T>` -/
def execSeqCkptT {R : Type} (cast : P → Option R) (env : Env) (cfg : Config) (fs : FS) (chain : List (Node P)) :
    Run (Except TErr R) :=
  let r := execSeqCkpt env cfg fs chain
  match r.outcome with
  | .finished (.ok b) =>
    match cast b with
    | some v => { outcome := .finished (.ok v), fs := r.fs, log := r.log }
    | none =>   -- `?` after the loop, before `clear_checkpoints`
      { outcome := .finished (.error .typeMismatch), fs := crashFs env cfg fs chain chain.length, log := r.log }
  | .finished (.error e) => { outcome := .finished (.error (.engine e)), fs := r.fs, log := r.log }
  | .died e => { outcome := .died e, fs := r.fs, log := r.log }
  | .setupFailed e => { outcome := .setupFailed e, fs := r.fs, log := r.log }

/-- `exec_par_with_checkpointing::<T>` -/
def execParCkptT {R : Type} (cast : P → Option R) (concat : List P → P) (env : Env) (cfg : Config) (fs : FS)
    (chain : List (Node P)) (n : Nat) : Run (Except TErr R) :=
  let r := execParCkpt concat env cfg fs chain n
  match r.outcome with
  | .finished (.ok b) =>
    match cast b with
    | some v => { outcome := .finished (.ok v), fs := r.fs, log := r.log }
    | none =>   -- `exec_par` returned `Err`: the marker is saved (`.ok()`), nothing is cleared
      let total := chain.length
      let pid := parPid env total n
      { outcome := .finished (.error .typeMismatch),
        fs := if storeFailsAtEnd env total then fs
              else (saveD env.isDir env.dirListable cfg.max fs (failedState env pid total n (stampOf (env.clock 0)))).getD fs,
        log := r.log }
  | .finished (.error e) => { outcome := .finished (.error (.engine e)), fs := r.fs, log := r.log }
  | .died e => { outcome := .died e, fs := r.fs, log := r.log }
  | .setupFailed e => { outcome := .setupFailed e, fs := r.fs, log := r.log }

/-- `ExecMode` as the caller writes it -/
inductive ModeSpec where
  | sequential
  | parallel (threads : Option Nat) (partitions : Option Nat)
deriving DecidableEq, Repr

/-- `Runner { mode, default_partitions, checkpoint_config }` -/
structure RunnerSpec where
  mode : ModeSpec
  defaultPartitions : Nat
  checkpoint : Option (Bool × Config)

/-- `partitions.or(suggested_parts).unwrap_or(self.default_partitions)` — the copy in the CHECKPOINTING branch of
    `run_collect` (runner.rs, `if checkpoint_enabled { … }`) -/
def resolvePartsCk (partitions suggested : Option Nat) (dflt : Nat) : Nat := (partitions.or suggested).getD dflt

/-- … and the copy in the plain branch -/
def resolvePartsPlain (partitions suggested : Option Nat) (dflt : Nat) : Nat := (partitions.or suggested).getD dflt

/-- `Runner::run_collect::<T>` on the planned chain, with the planner's partition suggestion; `threads` only
    configures the global rayon pool (`build_global().ok()`), it does not enter the result -/
def runCollectT {R : Type} (cast : P → Option R) (concat : List P → P) (env : Env) (r : RunnerSpec)
    (suggested : Option Nat) (fs : FS) (chain : List (Node P)) : Run (Except TErr R) :=
  match r.checkpoint with
  | some (true, cfg) =>
    match r.mode with
    | .sequential => execSeqCkptT cast env cfg fs chain
    | .parallel _ p => execParCkptT cast concat env cfg fs chain (resolvePartsCk p suggested r.defaultPartitions)
  | _ =>
    match r.mode with
    | .sequential => { outcome := .finished (castRes cast (execSeq chain)), fs := fs, log := some .off }
    | .parallel _ p =>
      { outcome := .finished (castRes cast (execPar concat chain (resolvePartsPlain p suggested r.defaultPartitions))),
        fs := fs, log := some .off }

/-! ## the pinned commit: no `CoGroup` arm in the sequential checkpointing engine -/

namespace Legacy

inductive RunErr where
  | engine (e : Err)
  /-- `bail!("CoGroup requires subplan execution")` -/
  | coGroupRequiresSubplan
deriving DecidableEq, Repr

def lift (x : M P) : Except RunErr P :=
  match x with
  | .ok b => .ok b
  | .error e => .error (.engine e)

def stepSeqCk (cur : Option P) : Node P → Except RunErr P
  | .coGroup .. => .error .coGroupRequiresSubplan
  | n => lift (IB.CheckpointRun.stepSeqCk cur n)

def execSeqCkpt (env : Env) (cfg : Config) (fs : FS) (chain : List (Node P)) : Run (Except RunErr P) :=
  let total := chain.length
  let pid := seqPid env total
  if !env.dirCreatable then { outcome := .setupFailed .createDir, fs := fs, log := none }
  else
  match recover env cfg pid fs with
  | .error (.died e) => { outcome := .died e, fs := fs, log := none }
  | .error .readDir => { outcome := .setupFailed .readDir, fs := fs, log := none }
  | .ok lg =>
    let r := runNodes stepSeqCk env cfg pid total 0 chain none (initSt fs)
    match r.1 with
    | .error e => { outcome := .finished (.error e), fs := r.2.fs, log := some lg }
    | .ok none => { outcome := .finished (.error (.engine .emptyBuf)), fs := r.2.fs, log := some lg }
    | .ok (some b) => { outcome := .finished (.ok b), fs := clearRun env total pid r.2.fs, log := some lg }

end Legacy

end IB.CheckpointRun
