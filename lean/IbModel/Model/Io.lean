/-!
# Model of the file I/O shard arithmetic (C09)

Transliteration of `src/io/jsonl.rs`, `src/io/csv.rs`, `src/io/parquet.rs`, `src/io/glob.rs`,
of the file-source `VecOps` (`len` / `split` / `clone_any`) and of how `src/runner.rs` consumes a
source (sequential: `clone_any`; parallel: `split` then concatenation in partition order).

The third-party serialisers (serde_json, csv, serde_arrow/parquet) are **parameters**:
`ser : Rec → Line`, `de : Line → Option Rec`, `blank : Line → Bool`. Their round-trip law is a
hypothesis of the theorems in `Props/C09.lean`, never an axiom.

`Legacy.*` is the code as it was at the pinned commit: `write_jsonl_par` with the start index not clamped,
`write_csv_par` without `create_dir_all`; the un-prefixed definitions follow the current code (after the
`fix:` commits).

Third round: the Parquet batch / row-group arithmetic with failure outcomes (`pqWrite`, `readBatches`,
`pqReadRange`, `pqSplit`, `pqSeq`, `runSeqP`, `runParP`), the directory around a writer (`Fs`, `writeParts`,
`concatParts`, `parWriteJsonlFs`, `writeAt`, `createsParents`), the `PCollection` writer methods
(`pcWriteCsvPar` with the planner's partition suggestion, `pcWriteJsonlPar`), the integer line codec the
driver runs (`serInt` / `deInt`, `I64`), and the glob-or-literal dispatch of the path helpers (`readHelper`).
-/
namespace IB.Io

/-! ## integer helpers -/

/-- `usize::div_ceil` (`b > 0` at every call site) -/
def divCeil (a b : Nat) : Nat := if a % b > 0 then a / b + 1 else a / b

/-- `Ord::clamp(self, lo, hi)` (`lo ≤ hi` at every call site: `n ≥ 1`) -/
def clamp (x lo hi : Nat) : Nat := if x < lo then lo else if x > hi then hi else x

/-- `&data[s..e]`: `none` = the slice-index panic -/
def slice? {α : Type} (data : List α) (s e : Nat) : Option (List α) :=
  if s ≤ e ∧ e ≤ data.length then some ((data.drop s).take (e - s)) else none

/-! ## shard construction for the streaming readers -/

/-- `build_jsonl_shards` / `build_csv_shards`: half-open ranges over `total` lines/rows.
    `per = 0` is clamped to 1 (`.max(1)`); an empty file has no ranges. -/
def mkRanges (total per : Nat) : List (Nat × Nat) :=
  if total = 0 then []
  else
    let lps := max per 1
    (List.range (divCeil total lps)).map fun i => (i * lps, min ((i + 1) * lps) total)

/-- the `while start < num_groups` loop of `build_parquet_shards` (fuel = number of groups) -/
def groupLoop (num g : Nat) : Nat → Nat → List (Nat × Nat)
  | 0, _ => []
  | fuel + 1, start =>
    if start < num then
      let e := min (start + g) num
      (start, e) :: groupLoop num g fuel e
    else []

/-- `build_parquet_shards`: ranges of row-group indices -/
def mkGroupRanges (numGroups per : Nat) : List (Nat × Nat) :=
  if numGroups = 0 then [] else groupLoop numGroups (max per 1) numGroups 0

/-! ## range readers -/

section readers
variable {Line Rec : Type}

/-- loop of `read_jsonl_range` / `read_csv_range`; `i` is the index of the head line.
    `i < start` → `continue` (not parsed); `i ≥ end` → `break`; blank → skipped (still counted);
    a parse failure inside the range → `Err` (`none`). For CSV `blank = fun _ => false`
    (the csv reader never yields empty records). -/
def readRangeFrom (blank : Line → Bool) (de : Line → Option Rec) (s e : Nat) :
    Nat → List Line → Option (List Rec)
  | _, [] => some []
  | i, l :: ls =>
    if i < s then readRangeFrom blank de s e (i + 1) ls
    else if e ≤ i then some []
    else if blank l then readRangeFrom blank de s e (i + 1) ls
    else
      match de l with
      | none => none
      | some r => (readRangeFrom blank de s e (i + 1) ls).map (r :: ·)

/-- `read_jsonl_range(src, s, e)` / `read_csv_range(src, s, e)` -/
def readRange (blank : Line → Bool) (de : Line → Option Rec) (ls : List Line) (s e : Nat) :
    Option (List Rec) :=
  readRangeFrom blank de s e 0 ls

/-- `read_jsonl_vec` / `read_csv_vec`: every non-blank line is parsed, first failure → `Err` -/
def readAll (blank : Line → Bool) (de : Line → Option Rec) : List Line → Option (List Rec)
  | [] => some []
  | l :: ls =>
    if blank l then readAll blank de ls
    else
      match de l with
      | none => none
      | some r => (readAll blank de ls).map (r :: ·)

/-- `VecOps::split` of a JSONL/CSV shard payload: one partition per range, `n` ignored;
    `none` = some range failed to read (`.ok()?`). -/
def splitView (blank : Line → Bool) (de : Line → Option Rec) (ls : List Line) (per : Nat) :
    Option (List (List Rec)) :=
  (mkRanges ls.length per).mapM fun r => readRange blank de ls r.1 r.2

/-- `VecOps::clone_any` of a JSONL/CSV shard payload: `read_*_range(src, 0, total)` -/
def seqView (blank : Line → Bool) (de : Line → Option Rec) (ls : List Line) : Option (List Rec) :=
  readRange blank de ls 0 ls.length

/-- outcome of running a pipeline that consists of the source only -/
inductive Outcome (α : Type)
  | ok (v : α) | err | panic
deriving Repr, DecidableEq

/-- `exec_seq` on a file source: `clone_any(..).ok_or_else(..)?` -/
def runSeq (blank : Line → Bool) (de : Line → Option Rec) (ls : List Line) : Outcome (List Rec) :=
  match seqView blank de ls with
  | some v => .ok v
  | none => .err

/-- `exec_par` on a file source: `split(..).unwrap_or_else(|| vec![clone_any(..).expect(..)])`,
    then the terminal concatenation of all partitions in order (zero partitions → empty). -/
def runPar (blank : Line → Bool) (de : Line → Option Rec) (ls : List Line) (per : Nat) :
    Outcome (List Rec) :=
  match splitView blank de ls per with
  | some parts => .ok parts.flatten
  | none =>
    match seqView blank de ls with
    | some v => .ok v
    | none => .panic

end readers

/-! ## JSONL at the byte level: `BufRead::lines` and the sequential writer -/

/-- `BufRead::lines`: split at `\n`; a final unterminated segment counts iff it is non-empty;
    one trailing `\r` is removed from every `\n`-terminated line (not from an unterminated last
    segment). `cur` is the current line, reversed. -/
def stripCr : List Char → List Char
  | [] => []
  | cs => if cs.getLast? = some '\r' then cs.dropLast else cs

def splitLinesAux : List Char → List Char → List (List Char)
  | cur, [] => if cur.isEmpty then [] else [cur.reverse]
  | cur, c :: cs =>
    if c = '\n' then stripCr cur.reverse :: splitLinesAux [] cs
    else splitLinesAux (c :: cur) cs

def splitLines (bytes : List Char) : List (List Char) := splitLinesAux [] bytes

/-- Unicode `White_Space` (what `str::trim` removes) -/
def isWhiteSpace (c : Char) : Bool :=
  let n := c.toNat
  (9 ≤ n && n ≤ 13) || n == 32 || n == 0x85 || n == 0xA0 || n == 0x1680 ||
  (0x2000 ≤ n && n ≤ 0x200A) || n == 0x2028 || n == 0x2029 || n == 0x202F || n == 0x205F ||
  n == 0x3000

/-- `line.trim().is_empty()` -/
def blankLine (l : List Char) : Bool := l.all isWhiteSpace

/-- `write_jsonl_vec`: `ser r` then `\n`, for every record -/
def writeJsonl {Rec : Type} (ser : Rec → List Char) (rs : List Rec) : List Char :=
  (rs.map fun r => ser r ++ ['\n']).flatten

/-! ## `write_jsonl_par` -/

section parwrite
variable {α : Type}

/-- shard `i` of `write_jsonl_par` (current code): `start = (i*chunk).min(n)`, `end = ((i+1)*chunk).min(n)` -/
def jsonlShardBounds (n shards : Nat) : List (Nat × Nat × Nat) :=
  let chunk := divCeil n shards
  (List.range shards).map fun i => (i, min (i * chunk) n, min ((i + 1) * chunk) n)

/-- pinned commit: `start = i*chunk` (can exceed `n`) -/
def Legacy.jsonlShardBounds (n shards : Nat) : List (Nat × Nat × Nat) :=
  let chunk := divCeil n shards
  (List.range shards).map fun i => (i, i * chunk, min ((i + 1) * chunk) n)

/-- number of writer shards: `shards.unwrap_or_else(|| num_cpus::get().max(2)).clamp(1, n)`;
    `auto` = the value of the `unwrap_or_else` closure -/
def shardCount (shards : Option Nat) (auto n : Nat) : Nat := clamp (shards.getD auto) 1 n

/-- the records of the final file of `write_jsonl_par`, in file order: the part files are
    concatenated in shard-index order; `none` = a slice index panicked. -/
def parWriteWith (bounds : Nat → Nat → List (Nat × Nat × Nat)) (data : List α)
    (shards : Option Nat) (auto : Nat) : Option (List (List α)) :=
  let n := data.length
  if n = 0 then some []
  else (bounds n (shardCount shards auto n)).mapM fun b => slice? data b.2.1 b.2.2

def parWriteJsonl (data : List α) (shards : Option Nat) (auto : Nat) : Option (List α) :=
  (parWriteWith jsonlShardBounds data shards auto).map List.flatten

def Legacy.parWriteJsonl (data : List α) (shards : Option Nat) (auto : Nat) : Option (List α) :=
  (parWriteWith Legacy.jsonlShardBounds data shards auto).map List.flatten

/-- bytes of the final file: concatenation of the part files, each written like `write_jsonl_vec` -/
def parWriteJsonlBytes (ser : α → List Char) (data : List α) (shards : Option Nat) (auto : Nat) :
    Option (List Char) :=
  (parWriteWith jsonlShardBounds data shards auto).map fun parts =>
    (parts.map (writeJsonl ser)).flatten

end parwrite

/-! ## `write_csv_par` / `split_ranges` -/

/-- `for idx in 0..parts` of `split_ranges`; `todo` iterations left -/
def splitLoop (base rem : Nat) : Nat → Nat → Nat → List (Nat × Nat × Nat)
  | 0, _, _ => []
  | todo + 1, idx, start =>
    let e := start + base + (if idx < rem then 1 else 0)
    if start < e then (idx, start, e) :: splitLoop base rem todo (idx + 1) e
    else splitLoop base rem todo (idx + 1) e

/-- `split_ranges(len, parts)` → `(chunk_idx, start, end)` -/
def splitRanges (len parts : Nat) : List (Nat × Nat × Nat) :=
  let parts := min (max parts 1) (max len 1)
  splitLoop (len / parts) (len % parts) parts 0 0

section csv
variable {Line Rec : Type}

/-- `csv::Writer` with `has_headers(hdr)`: the header record is emitted before the FIRST
    serialised row (so an empty slice produces an empty buffer even with `hdr`). -/
def csvWrite (hdr : Bool) (header : Line) (ser : Rec → Line) (rows : List Rec) : List Line :=
  if hdr && !rows.isEmpty then header :: rows.map ser else rows.map ser

/-- `csv::Reader` with `has_headers(hdr)`: the first record is consumed as the header -/
def csvBody (hdr : Bool) (recs : List Line) : List Line := if hdr then recs.drop 1 else recs

/-- `read_csv_vec` -/
def csvRead (hdr : Bool) (de : Line → Option Rec) (recs : List Line) : Option (List Rec) :=
  readAll (fun _ => false) de (csvBody hdr recs)

/-- buffers of `write_csv_par` in index order (the `sort_by_key(idx)` is the identity because
    rayon's indexed `collect` already returns the buffers in range order and `idx` is increasing);
    only chunk 0 may emit the header. -/
def parWriteCsvParts (hdr : Bool) (header : Line) (ser : Rec → Line) (data : List Rec)
    (shards : Option Nat) (auto : Nat) : Option (List (List Line)) :=
  let n := data.length
  if n = 0 then some []
  else (splitRanges n (shardCount shards auto n)).mapM fun b =>
    (slice? data b.2.1 b.2.2).map (csvWrite (hdr && b.1 == 0) header ser)

def parWriteCsv (hdr : Bool) (header : Line) (ser : Rec → Line) (data : List Rec)
    (shards : Option Nat) (auto : Nat) : Option (List Line) :=
  (parWriteCsvParts hdr header ser data shards auto).map List.flatten

end csv

/-! ## `VecOpsImpl::split` (in-memory source; used by `PCollection::write_csv_par` = `collect_par` + `write_csv_vec`) -/

/-- `slice::chunks(c)` with fuel -/
def chunksFuel {α : Type} (c : Nat) : Nat → List α → List (List α)
  | 0, _ => []
  | _ + 1, [] => []
  | fuel + 1, x :: xs => (x :: xs).take c :: chunksFuel c fuel ((x :: xs).drop c)

/-- `VecOpsImpl::split(data, n)` -/
def vecSplit {α : Type} (data : List α) (n : Nat) : List (List α) :=
  if n ≤ 1 ∨ data.length ≤ 1 then [data]
  else chunksFuel (divCeil data.length n) data.length data

/-- `exec_par` head: `parts = partitions.max(1).min(len.max(1))`, split, concatenate -/
def collectParVec {α : Type} (data : List α) (partitions : Nat) : List α :=
  (vecSplit data (min (max partitions 1) (max data.length 1))).flatten

/-! ## Parquet: row groups -/

section parquet
variable {Rec : Type}

/-- `read_parquet_row_group_range`: the rows of groups `[s, e)` in order -/
def readGroups (groups : List (List Rec)) (s e : Nat) : List Rec :=
  ((groups.drop s).take (e - s)).flatten

/-- `ParquetVecOps::split` -/
def parquetSplit (groups : List (List Rec)) (per : Nat) : List (List Rec) :=
  (mkGroupRanges groups.length per).map fun r => readGroups groups r.1 r.2

/-- `ParquetVecOps::clone_any`: groups `0 .. last range end` (0 when there is no range) -/
def parquetSeq (groups : List (List Rec)) (per : Nat) : List Rec :=
  readGroups groups 0 (((mkGroupRanges groups.length per).getLast?.map (·.2)).getD 0)

/-- `read_parquet_vec`: all batches in file order -/
def parquetAll (groups : List (List Rec)) : List Rec := groups.flatten

end parquet

/-! ## glob reads -/

/-- lexicographic `≤` on lists (`Ord for [T]` / `Iterator::cmp`) -/
def lexLe {α : Type} (le : α → α → Bool) : List α → List α → Bool
  | [], _ => true
  | _ :: _, [] => false
  | a :: as, b :: bs => if le a b && le b a then lexLe le as bs else le a b

/-- a path = its components, each a byte string (`PathBuf: Ord` compares component-wise) -/
abbrev PathC := List (List Nat)

def natLe (a b : Nat) : Bool := decide (a ≤ b)

/-- `PathBuf::cmp(..) != Greater` -/
def pathLe (a b : PathC) : Bool := lexLe (lexLe natLe) a b

/-- `expand_glob`'s `result.sort()` -/
def sortPaths {β : Type} (files : List (PathC × β)) : List (PathC × β) :=
  files.mergeSort fun a b => pathLe a.1 b.1

/-- glob branch of `read_jsonl` / `read_csv` / `read_parquet_streaming`: every matched file is
    read whole, in sorted path order, and the results are concatenated; first failure → `Err`. -/
def globRead {Line Rec : Type} (readFile : List Line → Option (List Rec))
    (files : List (PathC × List Line)) : Option (List Rec) :=
  ((sortPaths files).mapM fun f => readFile f.2).map List.flatten

/-! ## Parquet: OUR row-group / batch arithmetic (`write_parquet_vec`, `read_parquet_vec`,
`read_parquet_row_group_range`, `ParquetVecOps`) with failure outcomes

`Row` is a stored (encoded) row, `Rec` a decoded record. The arrow/parquet encodings are parameters:
`enc : Rec → Row` (serde_arrow `to_record_batch` + column encodings), `dec : List Row → Option (List Rec)`
(`from_record_batch` of one batch; `none` = `Err`). What is OURS: the single batch handed to the writer, the
row-group ranges, the `while let Some(batch) … out.append(&mut rows)` loops, the `.ok()?` plumbing of the
`VecOps`, and the consumption by the runner. -/

section parquetIO
variable {Row Rec : Type}

/-- `ArrowWriter` cuts the ONE batch that `write_parquet_vec` hands over into row groups of at most `maxRG`
    rows (`WriterProperties::builder().build()`: 1 Mi rows); zero rows ⇒ zero row groups. -/
def pqGroups (maxRG : Nat) (rows : List Row) : List (List Row) :=
  chunksFuel (max maxRG 1) rows.length rows

/-- `write_parquet_vec(path, data)`: the row groups of the written file -/
def pqWrite (maxRG : Nat) (enc : Rec → Row) (data : List Rec) : List (List Row) :=
  pqGroups maxRG (data.map enc)

/-- the record-batch reader cuts the selected rows into consecutive batches of at most `b` rows
    (`with_batch_size(64 * 1024)` in `read_parquet_vec`, the builder default 1024 in
    `read_parquet_row_group_range`) -/
def pqBatches (b : Nat) (rows : List Row) : List (List Row) :=
  chunksFuel (max b 1) rows.length rows

/-- `while let Some(batch) = reader.next().transpose()? { let mut rows = from_record_batch(&batch)?;
    out.append(&mut rows) }` — first failing batch → `Err` -/
def readBatches (dec : List Row → Option (List Rec)) : List (List Row) → Option (List Rec)
  | [] => some []
  | b :: bs =>
    match dec b with
    | none => none
    | some rows => (readBatches dec bs).map (rows ++ ·)

/-- the rows of row groups `[s, e)` in file order (`with_row_groups((s..e).collect())`) -/
def groupRows (groups : List (List Row)) (s e : Nat) : List Row :=
  ((groups.drop s).take (e - s)).flatten

/-- `read_parquet_row_group_range(src, s, e)`; `opened = false`: `File::open` / the reader builder
    fails at READ time (the file vanished or was replaced after the shards were built) -/
def pqReadRange (opened : Bool) (b : Nat) (dec : List Row → Option (List Rec))
    (groups : List (List Row)) (s e : Nat) : Option (List Rec) :=
  if opened then readBatches dec (pqBatches b (groupRows groups s e)) else none

/-- `read_parquet_vec(path)`: all row groups, batches of `b` (= 65 536) rows -/
def pqReadAll (opened : Bool) (b : Nat) (dec : List Row → Option (List Rec))
    (groups : List (List Row)) : Option (List Rec) :=
  if opened then readBatches dec (pqBatches b groups.flatten) else none

/-- `ParquetVecOps::split`: one partition per group range (ranges computed at BUILD time), `n` ignored;
    `none` = some range failed (`.ok()?`) -/
def pqSplit (opened : Bool) (b : Nat) (dec : List Row → Option (List Rec)) (groups : List (List Row))
    (per : Nat) : Option (List (List Rec)) :=
  (mkGroupRanges groups.length per).mapM fun r => pqReadRange opened b dec groups r.1 r.2

/-- `ParquetVecOps::clone_any`: groups `0 .. last range end` (`map_or(0, ..)` when there is no range) -/
def pqSeq (opened : Bool) (b : Nat) (dec : List Row → Option (List Rec)) (groups : List (List Row))
    (per : Nat) : Option (List Rec) :=
  pqReadRange opened b dec groups 0 (((mkGroupRanges groups.length per).getLast?.map (·.2)).getD 0)

/-- `exec_seq` on a Parquet source -/
def runSeqP (opened : Bool) (b : Nat) (dec : List Row → Option (List Rec)) (groups : List (List Row))
    (per : Nat) : Outcome (List Rec) :=
  match pqSeq opened b dec groups per with
  | some v => .ok v
  | none => .err

/-- `exec_par` on a Parquet source: `split(..).unwrap_or_else(|| vec![clone_any(..).expect(..)])` -/
def runParP (opened : Bool) (b : Nat) (dec : List Row → Option (List Rec)) (groups : List (List Row))
    (per : Nat) : Outcome (List Rec) :=
  match pqSplit opened b dec groups per with
  | some parts => .ok parts.flatten
  | none =>
    match pqSeq opened b dec groups per with
    | some v => .ok v
    | none => .panic

end parquetIO

/-! ## The directory around a writer: truncation, part files, parent directories -/

/-- a directory: path ↦ content (`none` = no such file) -/
abbrev Fs := String → Option (List Char)

/-- `File::create(p)` + write `c` + close: creates or TRUNCATES -/
def fsCreate (fs : Fs) (p : String) (c : List Char) : Fs := fun q => if q = p then some c else fs q

/-- `remove_file(p)` (result ignored) -/
def fsRemove (fs : Fs) (p : String) : Fs := fun q => if q = p then none else fs q

/-- `write_jsonl_vec(path, data)` / `write_csv_vec`: the target is created or truncated -/
def writeFileFs (fs : Fs) (path : String) (bytes : List Char) : Fs := fsCreate fs path bytes

section parfs
variable {α : Type}

/-- the `par_iter().try_for_each` of `write_jsonl_par`: EVERY shard (also an empty one) creates /
    truncates its part file and writes its slice. The shards run concurrently on DISTINCT paths, so
    the index order used here is one of the equivalent schedules. `none` = slice-index panic. -/
def writeParts (ser : α → List Char) (part : Nat → String) (data : List α) :
    List (Nat × Nat × Nat) → Fs → Option Fs
  | [], fs => some fs
  | b :: bs, fs =>
    match slice? data b.2.1 b.2.2 with
    | none => none
    | some xs => writeParts ser part data bs (fsCreate fs (part b.1) (writeJsonl ser xs))

/-- `for p in &shard_paths { copy(File::open(p)?, &mut out) }`; `none` = a part cannot be opened (`Err`) -/
def concatParts (part : Nat → String) (fs : Fs) : List Nat → Option (List Char)
  | [] => some []
  | i :: is =>
    match fs (part i) with
    | none => none
    | some c => (concatParts part fs is).map (c ++ ·)

/-- `for p in shard_paths { let _ = remove_file(p); }` -/
def removeParts (part : Nat → String) : List Nat → Fs → Fs
  | [], fs => fs
  | i :: is, fs => removeParts part is (fsRemove fs (part i))

/-- number of part files `write_jsonl_par` creates, reads and removes -/
def jsonlPartCount (n : Nat) (shards : Option Nat) (auto : Nat) : Nat :=
  if n = 0 then 0 else shardCount shards auto n

/-- `write_jsonl_par(path, data, shards)` as a transformation of the directory (plain extension; the
    codec wrapper is C10's): `n = 0` → the target is created empty; else every part is created, the target is
    created (truncated), the parts are appended to it in index order, the parts are removed.
    `part i` = `path.with_extension("jsonl.part{i}")`. `none` = panic / `Err`. -/
def parWriteJsonlFs (ser : α → List Char) (part : Nat → String) (path : String) (data : List α)
    (shards : Option Nat) (auto : Nat) (fs : Fs) : Option Fs :=
  let n := data.length
  if n = 0 then some (fsCreate fs path [])
  else
    let sc := shardCount shards auto n
    match writeParts ser part data (jsonlShardBounds n sc) fs with
    | none => none
    | some fs1 =>
      let fs2 := fsCreate fs1 path []
      match concatParts part fs2 (List.range sc) with
      | none => none
      | some out => some (removeParts part (List.range sc) (fsCreate fs2 path out))

end parfs

/-- `write_csv_par(path, ..)` as a transformation of the directory: the shard buffers live in memory,
    the only file touched is the target, created (truncated) once -/
def parWriteCsvFs (fs : Fs) (path : String) (bytes : List Char) : Fs := fsCreate fs path bytes

/-- Outcome of a writer on a target whose parent directory may be missing: a writer that runs
    `create_dir_all(parent)` first succeeds either way (the directory is assumed creatable), one that does
    not fails at `File::create`. `write_jsonl_vec`, `write_csv_vec`, `write_jsonl_par`, `write_csv_par`
    (since the `fix:` commit) create the parents; `write_parquet_vec` does not. -/
def writeAt {β : Type} (createsParents parentExists : Bool) (result : β) : Option β :=
  if createsParents || parentExists then some result else none


/-- which writer runs `create_dir_all(parent)` before `File::create` (current code) -/
def createsParents (writer : String) : Bool :=
  writer == "write_jsonl_vec" || writer == "write_csv_vec" || writer == "write_jsonl_par" ||
  writer == "write_csv_par" || writer == "pc_write_jsonl" || writer == "pc_write_csv" ||
  writer == "pc_write_jsonl_par" || writer == "pc_write_csv_par"

/-- pinned commit: `write_csv_par` (the free function) did not -/
def Legacy.createsParents (writer : String) : Bool :=
  writer != "write_csv_par" && IB.Io.createsParents writer

/-! ## `PCollection::write_csv_par` / `write_jsonl_par` -/

/-- `planner::suggest_partitions(Some(n))`: `n.div_ceil(64_000).clamp(hw, 8·hw)`, `hw = num_cpus.max(2)` -/
def suggestParts (n hw : Nat) : Nat := clamp (divCeil n 64000) hw (8 * hw)

/-- `PCollection::write_csv_par(path, shards, hdr)` = `collect_par(threads := shards, partitions := None)`
    then `write_csv_vec`. `shards` is the rayon THREAD count (it sizes the global pool if no pool exists yet
    and never enters the data path); the partition count is the planner's suggestion for an in-memory source. -/
def pcWriteCsvPar {Line Rec : Type} (hdr : Bool) (header : Line) (ser : Rec → Line) (data : List Rec)
    (_threads : Option Nat) (hw : Nat) : List Line :=
  csvWrite hdr header ser (collectParVec data (suggestParts data.length hw))

/-- `PCollection::write_jsonl_par(path, shards)` = `collect_seq` (the identity on an in-memory source) then
    the free function -/
def pcWriteJsonlPar {α : Type} (data : List α) (shards : Option Nat) (auto : Nat) : Option (List α) :=
  parWriteJsonl data shards auto

/-! ## the integer line codec the driver runs (`JSONLRD`, `WRJSONL`): serde_json on `i64` -/

/-- decimal digits, most significant first (`itoa`) -/
def serNat (n : Nat) : List Char :=
  if n < 10 then [Char.ofNat (48 + n)] else serNat (n / 10) ++ [Char.ofNat (48 + n % 10)]
termination_by n
decreasing_by omega

/-- `serde_json::to_writer(&i64)` -/
def serInt (v : Int) : List Char :=
  if v < 0 then '-' :: serNat v.natAbs else serNat v.natAbs

def jsonWs (c : Char) : Bool := c == ' ' || c == '\t' || c == '\n' || c == '\r'

def trimJsonWs (l : List Char) : List Char :=
  ((l.dropWhile jsonWs).reverse.dropWhile jsonWs).reverse

def parseDigits (ds : List Char) : Nat := ds.foldl (fun acc c => acc * 10 + (c.toNat - 48)) 0

/-- `serde_json::from_str::<i64>`: optional JSON whitespace around a canonical JSON integer in the `i64`
    range (no leading zeros, no `-0`, no `+`) -/
def deInt (l : List Char) : Option Int :=
  let t := trimJsonWs l
  let (neg, ds) := match t with
    | '-' :: r => (true, r)
    | r => (false, r)
  if ds.isEmpty || !ds.all Char.isDigit then none
  else if ds.length > 1 && ds.head? == some '0' then none
  else
    let n := parseDigits ds
    if neg && n == 0 then none
    else
      let v : Int := if neg then - (Int.ofNat n) else Int.ofNat n
      if v < -9223372036854775808 || v > 9223372036854775807 then none else some v


/-- the `i64` values -/
def I64 : Type := { v : Int // -9223372036854775808 ≤ v ∧ v ≤ 9223372036854775807 }

def serI64 (r : I64) : List Char := serInt r.val

def deI64 (l : List Char) : Option I64 :=
  match deInt l with
  | none => none
  | some v =>
    if h : -9223372036854775808 ≤ v ∧ v ≤ 9223372036854775807 then some ⟨v, h⟩ else none

/-! ## the path helpers `read_jsonl` / `read_csv` / `read_parquet_streaming`: glob or literal -/

/-- `Regex::new(r"[*?\[]").is_match(path)` -/
def isPattern (path : List Char) : Bool := path.any fun c => c == '*' || c == '?' || c == '['

/-- `read_jsonl(p, path)` / `read_csv(p, path, hdr)`: a path with a glob metacharacter takes the glob branch
    (`matched` = the files `expand_glob` finds; none at all → `bail!`), any other path is read as ONE file
    (`literal` = its lines, `none` = cannot be opened). -/
def readHelper {Line Rec : Type} (readFile : List Line → Option (List Rec)) (path : List Char)
    (literal : Option (List Line)) (matched : List (PathC × List Line)) : Option (List Rec) :=
  if isPattern path then
    if matched.isEmpty then none else globRead readFile matched
  else
    match literal with
    | none => none
    | some ls => readFile ls

end IB.Io
