/-!
# Model of the file I/O shard arithmetic (C09)

Transliteration of `src/io/jsonl.rs`, `src/io/csv.rs`, `src/io/parquet.rs`, `src/io/glob.rs`,
of the file-source `VecOps` (`len` / `split` / `clone_any`) and of how `src/runner.rs` consumes a
source (sequential: `clone_any`; parallel: `split` then concatenation in partition order).

The third-party serialisers (serde_json, csv, serde_arrow/parquet) are **parameters**:
`ser : Rec → Line`, `de : Line → Option Rec`, `blank : Line → Bool`. Their round-trip law is a
hypothesis of the theorems in `Props/C09.lean`, never an axiom.

`Legacy.*` is `write_jsonl_par` as it was at the pinned commit (start index not clamped);
the un-prefixed definitions follow the current code (after the `fix:` commit).
-/
namespace IB.Io

/-! ## integer helpers -/

/-- `usize::div_ceil` (`b > 0` at every call site) -/
def divCeil (a b : Nat) : Nat := if a % b > 0 then a / b + 1 else a / b

/-- `Ord::clamp(self, lo, hi)` (`lo ≤ hi` at every call site: `n ≥ 1`) -/
def clamp (x lo hi : Nat) : Nat := if x < lo then lo else if x > hi then hi else x

/-- `&data[s..e]`: `none` = the slice-index panic -/
def slice? {α : Type} (data : List α) (s e : Nat) : Option (List α) :=
  if s ≤ e ∧ e ≤ data.length then some ((data.drop s).take (e - s)) else none

/-! ## shard construction for the streaming readers -/

/-- `build_jsonl_shards` / `build_csv_shards`: half-open ranges over `total` lines/rows.
    `per = 0` is clamped to 1 (`.max(1)`); an empty file has no ranges. -/
def mkRanges (total per : Nat) : List (Nat × Nat) :=
  if total = 0 then []
  else
    let lps := max per 1
    (List.range (divCeil total lps)).map fun i => (i * lps, min ((i + 1) * lps) total)

/-- the `while start < num_groups` loop of `build_parquet_shards` (fuel = number of groups) -/
def groupLoop (num g : Nat) : Nat → Nat → List (Nat × Nat)
  | 0, _ => []
  | fuel + 1, start =>
    if start < num then
      let e := min (start + g) num
      (start, e) :: groupLoop num g fuel e
    else []

/-- `build_parquet_shards`: ranges of row-group indices -/
def mkGroupRanges (numGroups per : Nat) : List (Nat × Nat) :=
  if numGroups = 0 then [] else groupLoop numGroups (max per 1) numGroups 0

/-! ## range readers -/

section readers
variable {Line Rec : Type}

/-- loop of `read_jsonl_range` / `read_csv_range`; `i` is the index of the head line.
    `i < start` → `continue` (not parsed); `i ≥ end` → `break`; blank → skipped (still counted);
    a parse failure inside the range → `Err` (`none`). For CSV `blank = fun _ => false`
    (the csv reader never yields empty records). -/
def readRangeFrom (blank : Line → Bool) (de : Line → Option Rec) (s e : Nat) :
    Nat → List Line → Option (List Rec)
  | _, [] => some []
  | i, l :: ls =>
    if i < s then readRangeFrom blank de s e (i + 1) ls
    else if e ≤ i then some []
    else if blank l then readRangeFrom blank de s e (i + 1) ls
    else
      match de l with
      | none => none
      | some r => (readRangeFrom blank de s e (i + 1) ls).map (r :: ·)

/-- `read_jsonl_range(src, s, e)` / `read_csv_range(src, s, e)` -/
def readRange (blank : Line → Bool) (de : Line → Option Rec) (ls : List Line) (s e : Nat) :
    Option (List Rec) :=
  readRangeFrom blank de s e 0 ls

/-- `read_jsonl_vec` / `read_csv_vec`: every non-blank line is parsed, first failure → `Err` -/
def readAll (blank : Line → Bool) (de : Line → Option Rec) : List Line → Option (List Rec)
  | [] => some []
  | l :: ls =>
    if blank l then readAll blank de ls
    else
      match de l with
      | none => none
      | some r => (readAll blank de ls).map (r :: ·)

/-- `VecOps::split` of a JSONL/CSV shard payload: one partition per range, `n` ignored;
    `none` = some range failed to read (`.ok()?`). -/
def splitView (blank : Line → Bool) (de : Line → Option Rec) (ls : List Line) (per : Nat) :
    Option (List (List Rec)) :=
  (mkRanges ls.length per).mapM fun r => readRange blank de ls r.1 r.2

/-- `VecOps::clone_any` of a JSONL/CSV shard payload: `read_*_range(src, 0, total)` -/
def seqView (blank : Line → Bool) (de : Line → Option Rec) (ls : List Line) : Option (List Rec) :=
  readRange blank de ls 0 ls.length

/-- outcome of running a pipeline that consists of the source only -/
inductive Outcome (α : Type)
  | ok (v : α) | err | panic
deriving Repr, DecidableEq

/-- `exec_seq` on a file source: `clone_any(..).ok_or_else(..)?` -/
def runSeq (blank : Line → Bool) (de : Line → Option Rec) (ls : List Line) : Outcome (List Rec) :=
  match seqView blank de ls with
  | some v => .ok v
  | none => .err

/-- `exec_par` on a file source: `split(..).unwrap_or_else(|| vec![clone_any(..).expect(..)])`,
    then the terminal concatenation of all partitions in order (zero partitions → empty). -/
def runPar (blank : Line → Bool) (de : Line → Option Rec) (ls : List Line) (per : Nat) :
    Outcome (List Rec) :=
  match splitView blank de ls per with
  | some parts => .ok parts.flatten
  | none =>
    match seqView blank de ls with
    | some v => .ok v
    | none => .panic

end readers

/-! ## JSONL at the byte level: `BufRead::lines` and the sequential writer -/

/-- `BufRead::lines`: split at `\n`; a final unterminated segment counts iff it is non-empty;
    one trailing `\r` is removed from every `\n`-terminated line (not from an unterminated last
    segment). `cur` is the current line, reversed. -/
def stripCr : List Char → List Char
  | [] => []
  | cs => if cs.getLast? = some '\r' then cs.dropLast else cs

def splitLinesAux : List Char → List Char → List (List Char)
  | cur, [] => if cur.isEmpty then [] else [cur.reverse]
  | cur, c :: cs =>
    if c = '\n' then stripCr cur.reverse :: splitLinesAux [] cs
    else splitLinesAux (c :: cur) cs

def splitLines (bytes : List Char) : List (List Char) := splitLinesAux [] bytes

/-- Unicode `White_Space` (what `str::trim` removes) -/
def isWhiteSpace (c : Char) : Bool :=
  let n := c.toNat
  (9 ≤ n && n ≤ 13) || n == 32 || n == 0x85 || n == 0xA0 || n == 0x1680 ||
  (0x2000 ≤ n && n ≤ 0x200A) || n == 0x2028 || n == 0x2029 || n == 0x202F || n == 0x205F ||
  n == 0x3000

/-- `line.trim().is_empty()` -/
def blankLine (l : List Char) : Bool := l.all isWhiteSpace

/-- `write_jsonl_vec`: `ser r` then `\n`, for every record -/
def writeJsonl {Rec : Type} (ser : Rec → List Char) (rs : List Rec) : List Char :=
  (rs.map fun r => ser r ++ ['\n']).flatten

/-! ## `write_jsonl_par` -/

section parwrite
variable {α : Type}

/-- shard `i` of `write_jsonl_par` (current code): `start = (i*chunk).min(n)`, `end = ((i+1)*chunk).min(n)` -/
def jsonlShardBounds (n shards : Nat) : List (Nat × Nat × Nat) :=
  let chunk := divCeil n shards
  (List.range shards).map fun i => (i, min (i * chunk) n, min ((i + 1) * chunk) n)

/-- pinned commit: `start = i*chunk` (can exceed `n`) -/
def Legacy.jsonlShardBounds (n shards : Nat) : List (Nat × Nat × Nat) :=
  let chunk := divCeil n shards
  (List.range shards).map fun i => (i, i * chunk, min ((i + 1) * chunk) n)

/-- number of writer shards: `shards.unwrap_or_else(|| num_cpus::get().max(2)).clamp(1, n)`;
    `auto` = the value of the `unwrap_or_else` closure -/
def shardCount (shards : Option Nat) (auto n : Nat) : Nat := clamp (shards.getD auto) 1 n

/-- the records of the final file of `write_jsonl_par`, in file order: the part files are
    concatenated in shard-index order; `none` = a slice index panicked. -/
def parWriteWith (bounds : Nat → Nat → List (Nat × Nat × Nat)) (data : List α)
    (shards : Option Nat) (auto : Nat) : Option (List (List α)) :=
  let n := data.length
  if n = 0 then some []
  else (bounds n (shardCount shards auto n)).mapM fun b => slice? data b.2.1 b.2.2

def parWriteJsonl (data : List α) (shards : Option Nat) (auto : Nat) : Option (List α) :=
  (parWriteWith jsonlShardBounds data shards auto).map List.flatten

def Legacy.parWriteJsonl (data : List α) (shards : Option Nat) (auto : Nat) : Option (List α) :=
  (parWriteWith Legacy.jsonlShardBounds data shards auto).map List.flatten

/-- bytes of the final file: concatenation of the part files, each written like `write_jsonl_vec` -/
def parWriteJsonlBytes (ser : α → List Char) (data : List α) (shards : Option Nat) (auto : Nat) :
    Option (List Char) :=
  (parWriteWith jsonlShardBounds data shards auto).map fun parts =>
    (parts.map (writeJsonl ser)).flatten

end parwrite

/-! ## `write_csv_par` / `split_ranges` -/

/-- `for idx in 0..parts` of `split_ranges`; `todo` iterations left -/
def splitLoop (base rem : Nat) : Nat → Nat → Nat → List (Nat × Nat × Nat)
  | 0, _, _ => []
  | todo + 1, idx, start =>
    let e := start + base + (if idx < rem then 1 else 0)
    if start < e then (idx, start, e) :: splitLoop base rem todo (idx + 1) e
    else splitLoop base rem todo (idx + 1) e

/-- `split_ranges(len, parts)` → `(chunk_idx, start, end)` -/
def splitRanges (len parts : Nat) : List (Nat × Nat × Nat) :=
  let parts := min (max parts 1) (max len 1)
  splitLoop (len / parts) (len % parts) parts 0 0

section csv
variable {Line Rec : Type}

/-- `csv::Writer` with `has_headers(hdr)`: the header record is emitted before the FIRST
    serialised row (so an empty slice produces an empty buffer even with `hdr`). -/
def csvWrite (hdr : Bool) (header : Line) (ser : Rec → Line) (rows : List Rec) : List Line :=
  if hdr && !rows.isEmpty then header :: rows.map ser else rows.map ser

/-- `csv::Reader` with `has_headers(hdr)`: the first record is consumed as the header -/
def csvBody (hdr : Bool) (recs : List Line) : List Line := if hdr then recs.drop 1 else recs

/-- `read_csv_vec` -/
def csvRead (hdr : Bool) (de : Line → Option Rec) (recs : List Line) : Option (List Rec) :=
  readAll (fun _ => false) de (csvBody hdr recs)

/-- buffers of `write_csv_par` in index order (the `sort_by_key(idx)` is the identity because
    rayon's indexed `collect` already returns the buffers in range order and `idx` is increasing);
    only chunk 0 may emit the header. -/
def parWriteCsvParts (hdr : Bool) (header : Line) (ser : Rec → Line) (data : List Rec)
    (shards : Option Nat) (auto : Nat) : Option (List (List Line)) :=
  let n := data.length
  if n = 0 then some []
  else (splitRanges n (shardCount shards auto n)).mapM fun b =>
    (slice? data b.2.1 b.2.2).map (csvWrite (hdr && b.1 == 0) header ser)

def parWriteCsv (hdr : Bool) (header : Line) (ser : Rec → Line) (data : List Rec)
    (shards : Option Nat) (auto : Nat) : Option (List Line) :=
  (parWriteCsvParts hdr header ser data shards auto).map List.flatten

end csv

/-! ## `VecOpsImpl::split` (in-memory source; used by `PCollection::write_csv_par` = `collect_par` + `write_csv_vec`) -/

/-- `slice::chunks(c)` with fuel -/
def chunksFuel {α : Type} (c : Nat) : Nat → List α → List (List α)
  | 0, _ => []
  | _ + 1, [] => []
  | fuel + 1, x :: xs => (x :: xs).take c :: chunksFuel c fuel ((x :: xs).drop c)

/-- `VecOpsImpl::split(data, n)` -/
def vecSplit {α : Type} (data : List α) (n : Nat) : List (List α) :=
  if n ≤ 1 ∨ data.length ≤ 1 then [data]
  else chunksFuel (divCeil data.length n) data.length data

/-- `exec_par` head: `parts = partitions.max(1).min(len.max(1))`, split, concatenate -/
def collectParVec {α : Type} (data : List α) (partitions : Nat) : List α :=
  (vecSplit data (min (max partitions 1) (max data.length 1))).flatten

/-! ## Parquet: row groups -/

section parquet
variable {Rec : Type}

/-- `read_parquet_row_group_range`: the rows of groups `[s, e)` in order -/
def readGroups (groups : List (List Rec)) (s e : Nat) : List Rec :=
  ((groups.drop s).take (e - s)).flatten

/-- `ParquetVecOps::split` -/
def parquetSplit (groups : List (List Rec)) (per : Nat) : List (List Rec) :=
  (mkGroupRanges groups.length per).map fun r => readGroups groups r.1 r.2

/-- `ParquetVecOps::clone_any`: groups `0 .. last range end` (0 when there is no range) -/
def parquetSeq (groups : List (List Rec)) (per : Nat) : List Rec :=
  readGroups groups 0 (((mkGroupRanges groups.length per).getLast?.map (·.2)).getD 0)

/-- `read_parquet_vec`: all batches in file order -/
def parquetAll (groups : List (List Rec)) : List Rec := groups.flatten

end parquet

/-! ## glob reads -/

/-- lexicographic `≤` on lists (`Ord for [T]` / `Iterator::cmp`) -/
def lexLe {α : Type} (le : α → α → Bool) : List α → List α → Bool
  | [], _ => true
  | _ :: _, [] => false
  | a :: as, b :: bs => if le a b && le b a then lexLe le as bs else le a b

/-- a path = its components, each a byte string (`PathBuf: Ord` compares component-wise) -/
abbrev PathC := List (List Nat)

def natLe (a b : Nat) : Bool := decide (a ≤ b)

/-- `PathBuf::cmp(..) != Greater` -/
def pathLe (a b : PathC) : Bool := lexLe (lexLe natLe) a b

/-- `expand_glob`'s `result.sort()` -/
def sortPaths {β : Type} (files : List (PathC × β)) : List (PathC × β) :=
  files.mergeSort fun a b => pathLe a.1 b.1

/-- glob branch of `read_jsonl` / `read_csv` / `read_parquet_streaming`: every matched file is
    read whole, in sorted path order, and the results are concatenated; first failure → `Err`. -/
def globRead {Line Rec : Type} (readFile : List Line → Option (List Rec))
    (files : List (PathC × List Line)) : Option (List Rec) :=
  ((sortPaths files).mapM fun f => readFile f.2).map List.flatten

end IB.Io
