import IbModel.Model.Program
/-!
# Float aggregates at the end of a pipeline (C01: "aggregates that accumulate floating-point sums agree up to rounding")

A `PIPE` program, then a map to `f64` (`ToF`), then `Sum<f64>` / `AverageF64` through one of the four combine
entry points. The model evaluates the tail over Lean's `Float` (IEEE doubles, the same correctly rounded `+`, `/`
as Rust's `f64`) in ROW ORDER — i.e. it is the sequential fold. The parallel engine adds the same numbers in
another association (per partition, then merged), so the real parallel answer agrees with this model only up to
rounding; the correspondence check compares `F…` tokens with a relative tolerance of 1e-9 and the harness's own
oracle compares the real parallel run with the real sequential run under the same tolerance.

Nothing here is the subject of a theorem: Lean's `Float` is opaque to the kernel. What IS proved is the
exact-arithmetic statement (`Props/C06.lean`: `Sum` / `Average` over `Rat` are lawful combiners, so every merge
tree gives the same value; `Props/C01.lean`/`C05.lean`: the engine computes a merge tree). The rounding error of a
sum of `n` NON-NEGATIVE doubles in any association is at most `(n-1)·2⁻⁵³` relative (Higham, Accuracy and
Stability of Numerical Algorithms, §4.2) — recorded as an assumption, exercised here with `n ≤ 400`, non-negative
terms only (`ToF.eval ≥ 0`), so the 1e-9 tolerance is never at risk from cancellation.
-/
namespace IB
open Val

/-- the maps to `f64` of the harness (`pipe_float.rs::ToF`): exactly representable inputs, one or two IEEE operations -/
inductive ToF | tenth | recip | third
deriving Repr

def ToF.eval (t : ToF) (x : Val) : Float :=
  let n := x.toInt.natAbs % 100000
  match t with
  | .tenth => Float.ofNat (n + 1) / 10.0
  | .recip => 1.0 / Float.ofNat (n + 1)
  | .third => Float.ofNat (n % 1000) / 3.0 + 0.75

inductive FAgg | sum | avg
deriving Repr

/-- `Sum<f64>`: `create = 0.0`, `add_input = acc + v`; `AverageF64`: `(sum, count)`, `finish = sum / count` (0.0 when empty) -/
def FAgg.fold (a : FAgg) (xs : List Float) : Float :=
  let s := xs.foldl (· + ·) 0.0
  match a with
  | .sum => s
  | .avg => if xs.isEmpty then 0.0 else s / Float.ofNat xs.length

/-- global entry points: one value -/
def floatGlobal (a : FAgg) (t : ToF) (rows : List Val) : Float := a.fold (rows.map t.eval)

/-- per-key entry points: the values of each key in row order (keys in first-occurrence order) -/
def floatPerKey (a : FAgg) (t : ToF) (rows : List Val) : List (Val × Float) :=
  (groupRows rows).map (fun kv => (kv.1, a.fold (kv.2.map t.eval)))

end IB
