import IbModel.Model.Compression
import IbModel.Generated.Tables
/-! The codec registry of the RUNNING code (dumped by `ibh tables` through the hook
`compression::verif_codec_table()`), as model rows. -/
namespace IB.Compression

def codecTable : List CodecEntry := IB.Generated.codecTable.map CodecEntry.ofRow

end IB.Compression
