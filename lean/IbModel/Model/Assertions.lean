/-!
# Model of `src/testing/assertions.rs` and of the two file assertions of `src/testing/mock_io.rs` (C20)

Each assertion is a `Bool` function: `true` = the Rust function returns `()`, `false` = it panics.
Transliterated check by check, in the order the Rust code performs them.

`Legacy.*` is the code as it was before the respective `fix:` commit (set-based comparison in the
unordered/grouped assertions; position-wise comparison after the stable sort in the key/value
assertion and — `Legacy.assertGroupedPos` — in the grouped assertion); the un-prefixed definitions
follow the current code.

Assumption (stated, not modelled): `==` on elements/values is a lawful equality (`DecidableEq`).
Rust only asks for `PartialEq` in `assert_collections_equal`, `assert_contains`, the values of
`assert_kv_collections_equal` and of `assert_maps_equal`; with a non-reflexive `==` (`f64::NAN`) those
reject a collection compared with itself. `Eq + Hash` / `Ord` types are assumed to honour their contracts.
`Debug` (used only in panic messages) and the hasher do not occur in the model: the answers may not depend
on them (`first_count_mismatch`'s `HashMap` is an association list queried by key only).
-/
namespace IB.Assertions

variable {α : Type} [DecidableEq α]

/-- `assert_collections_equal`: length, then index-wise equality. -/
def assertEqual (actual expected : List α) : Bool :=
  actual.length == expected.length && (actual.zip expected).all (fun p => p.1 == p.2)

/-- `HashSet` inclusion of the element sets -/
def subsetB (a b : List α) : Bool := a.all (fun x => b.contains x)

/-- `actual_set == expected_set` -/
def setEq (a b : List α) : Bool := subsetB a b && subsetB b a

/-- occurrence counts agree for every element of either side — the SPECIFICATION of what the counter
    `firstCountMismatch` below decides (`firstCountMismatch_isNone` in `Proofs/Assertions.lean`) -/
def countsEq (a b : List α) : Bool := (a ++ b).all (fun x => a.count x == b.count x)

/-! ### `first_count_mismatch` (the `HashMap<&T, (usize, usize)>` counter), literally

The map is an association list in insertion order; `HashMap::entry(x).or_insert((0, 0))` finds the
entry of an equal key or appends a fresh one. Its iteration order is never used by the Rust code
(only `get`), so no assumption on the hasher is involved. -/

/-- `counts.entry(x).or_insert((0, 0)).0 += 1` -/
def bumpL (x : α) : List (α × Nat × Nat) → List (α × Nat × Nat)
  | [] => [(x, 1, 0)]
  | (y, n, m) :: t => if y == x then (y, n + 1, m) :: t else (y, n, m) :: bumpL x t

/-- `counts.entry(x).or_insert((0, 0)).1 += 1` -/
def bumpR (x : α) : List (α × Nat × Nat) → List (α × Nat × Nat)
  | [] => [(x, 0, 1)]
  | (y, n, m) :: t => if y == x then (y, n, m + 1) :: t else (y, n, m) :: bumpR x t

/-- `for x in a { … .0 += 1 }  for x in b { … .1 += 1 }` -/
def countTable (a b : List α) : List (α × Nat × Nat) :=
  b.foldl (fun t x => bumpR x t) (a.foldl (fun t x => bumpL x t) [])

/-- `counts.get(x)` -/
def getCount (z : α) : List (α × Nat × Nat) → Option (Nat × Nat)
  | [] => none
  | (y, n, m) :: t => if y == z then some (n, m) else getCount z t

/-- `a.iter().chain(b.iter()).find(|x| counts.get(x).is_some_and(|(n, m)| n != m))` -/
def firstCountMismatch (a b : List α) : Option α :=
  (a ++ b).find? (fun x => match getCount x (countTable a b) with
    | some (n, m) => n != m
    | none => false)

/-- pinned-commit `assert_collections_unordered_equal`: equal lengths and equal *sets*. -/
def Legacy.assertUnordered (actual expected : List α) : Bool :=
  actual.length == expected.length && setEq actual expected

/-- current `assert_collections_unordered_equal`: lengths, sets, then
    `first_count_mismatch(actual, expected)` must be `None`. -/
def assertUnordered (actual expected : List α) : Bool :=
  actual.length == expected.length && setEq actual expected &&
    (firstCountMismatch actual expected).isNone

variable {κ : Type} [DecidableEq κ]

/-- `sort_by(|a, b| a.0.cmp(&b.0))` — Rust's `sort_by` is stable, as is `mergeSort`. -/
def sortByKey (le : κ → κ → Bool) (l : List (κ × α)) : List (κ × α) :=
  l.mergeSort (fun x y => le x.1 y.1)

/-- `assert_kv_collections_equal` before the `fix:` commit: stable sort both by key, length, then
    pairwise `(k, v)`. -/
def Legacy.assertKv (le : κ → κ → Bool) (actual expected : List (κ × α)) : Bool :=
  let a := sortByKey le actual
  let e := sortByKey le expected
  a.length == e.length && (a.zip e).all (fun p => p.1.1 == p.2.1 && p.1.2 == p.2.2)

/-- `(start..end).find(|&j| !used[j - start] && expected[j].0 == *ak && expected[j].1 == *av)`
    followed by `used[j - start] = true`: the updated `used` flags, `none` = no partner (panic).
    `re` is `expected[start..end]`, `used` the flags of that run. -/
def markFirst (row : κ × α) : List (κ × α) → List Bool → Option (List Bool)
  | e :: es, u :: us =>
      if !u && e.1 == row.1 && e.2 == row.2 then some (true :: us)
      else (markFirst row es us).map (u :: ·)
  | _, _ => none

/-- `for i in start..end { … }` over one run: `ra` = the not yet visited rows of `actual[start..end]`. -/
def matchRun : List (κ × α) → List (κ × α) → List Bool → Bool
  | [], _, _ => true
  | row :: rest, re, used =>
      match markFirst row re used with
      | some used' => matchRun rest re used'
      | none => false

/-- `while start < actual.len() { … start = end }`: `a`, `e` are `actual[start..]`, `expected[start..]`.
    One iteration consumes one run (`end - start ≥ 1` rows), so `fuel = actual.len()` iterations
    always suffice; running out of fuel with rows left would answer `false` (never reached: the
    theorems are about the call made by `assertKv`, with exactly this fuel). -/
def walkRuns : Nat → List (κ × α) → List (κ × α) → Bool
  | _, [], _ => true
  | 0, _ :: _, _ => false
  | fuel + 1, (k, v) :: rest, e =>
      -- `end = start + 1; while end < len && actual[end].0 == actual[start].0 { end += 1 }`
      let n := 1 + (rest.takeWhile (fun r => r.1 == k)).length
      matchRun (((k, v) :: rest).take n) (e.take n) (List.replicate n false) &&
        walkRuns fuel (((k, v) :: rest).drop n) (e.drop n)

/-- current `assert_kv_collections_equal`: stable sort both by key, length, then every run of equal
    keys of `actual` is matched greedily (with `==` on the whole row) against the rows of `expected`
    at the same positions, each expected row being used at most once. -/
def assertKv (le : κ → κ → Bool) (actual expected : List (κ × α)) : Bool :=
  let a := sortByKey le actual
  let e := sortByKey le expected
  a.length == e.length && walkRuns a.length a e

/-- pinned-commit `assert_grouped_kv_equal`: sort by key, lengths, keys pairwise, values as *sets*. -/
def Legacy.assertGrouped (le : κ → κ → Bool) (actual expected : List (κ × List α)) : Bool :=
  let a := sortByKey le actual
  let e := sortByKey le expected
  a.length == e.length && (a.zip e).all (fun p => p.1.1 == p.2.1 && setEq p.1.2 p.2.2)

/-- `assert_grouped_kv_equal` between the first and the second `fix:` commit: values compared as sets
    and then by occurrence counts (the counter written as its specification `countsEq`), rows compared
    position by position after the stable sort. -/
def Legacy.assertGroupedPos (le : κ → κ → Bool) (actual expected : List (κ × List α)) : Bool :=
  let a := sortByKey le actual
  let e := sortByKey le expected
  a.length == e.length &&
    (a.zip e).all (fun p => p.1.1 == p.2.1 && setEq p.1.2 p.2.2 && countsEq p.1.2 p.2.2)

/-- the closure `same_values(av, ev)`: `HashSet` equality, then `first_count_mismatch(av, ev).is_none()` -/
def sameValues (av ev : List α) : Bool := setEq av ev && (firstCountMismatch av ev).isNone

/-- `(start..end).find(|&j| !used[j - start] && expected[j].0 == *ak && same_values(av, &expected[j].1))`
    followed by `used[j - start] = true` (grouped rows; cf. `markFirst`). -/
def markFirstG (row : κ × List α) : List (κ × List α) → List Bool → Option (List Bool)
  | e :: es, u :: us =>
      if !u && e.1 == row.1 && sameValues row.2 e.2 then some (true :: us)
      else (markFirstG row es us).map (u :: ·)
  | _, _ => none

/-- `for i in start..end { … }` over one run of the grouped assertion: no partner = panic. -/
def matchRunG : List (κ × List α) → List (κ × List α) → List Bool → Bool
  | [], _, _ => true
  | row :: rest, re, used =>
      match markFirstG row re used with
      | some used' => matchRunG rest re used'
      | none => false

/-- `while start < actual.len() { … start = end }` of the grouped assertion (cf. `walkRuns`). -/
def walkRunsG : Nat → List (κ × List α) → List (κ × List α) → Bool
  | _, [], _ => true
  | 0, _ :: _, _ => false
  | fuel + 1, (k, vs) :: rest, e =>
      let n := 1 + (rest.takeWhile (fun r => r.1 == k)).length
      matchRunG (((k, vs) :: rest).take n) (e.take n) (List.replicate n false) &&
        walkRunsG fuel (((k, vs) :: rest).drop n) (e.drop n)

/-- current `assert_grouped_kv_equal`: stable sort both by key, length, then every run of equal keys
    of `actual` is matched greedily against the groups of `expected` at the same positions (same key,
    values equal as a multiset), each expected group being used at most once. -/
def assertGrouped (le : κ → κ → Bool) (actual expected : List (κ × List α)) : Bool :=
  let a := sortByKey le actual
  let e := sortByKey le expected
  a.length == e.length && walkRunsG a.length a e

/-- the key/value rows a grouped collection stands for: `(k, [v₁, v₂])` ↦ `(k, v₁), (k, v₂)` -/
def flattenGroups (g : List (κ × List α)) : List (κ × α) :=
  g.flatMap (fun r => r.2.map (fun v => (r.1, v)))

/-! ## the remaining shipped assertions -/

/-- `assert_all`: `for item in collection { assert!(predicate(item)) }` -/
def assertAll (p : α → Bool) (c : List α) : Bool := c.all p

/-- `assert_any`: `assert!(collection.iter().any(&predicate))` -/
def assertAny (p : α → Bool) (c : List α) : Bool := c.any p

/-- `assert_none`: `for item in collection { assert!(!predicate(item)) }` -/
def assertNone (p : α → Bool) (c : List α) : Bool := c.all (fun x => !p x)

/-- `assert_collection_size`: `assert_eq!(collection.len(), expected_size)` -/
def assertSize (c : List α) (n : Nat) : Bool := c.length == n

/-- `assert_contains`: `assert!(collection.contains(element))` -/
def assertContains (c : List α) (x : α) : Bool := c.contains x

/-- `HashMap::insert`: overwrite the entry of an existing key, else add one. A map is the list of its
    entries (keys pairwise distinct, `mkMap_keys_nodup`); the iteration order of the real map is
    arbitrary, the answers below do not depend on it (`assertMaps_perm`). -/
def insertKV (k : κ) (v : α) : List (κ × α) → List (κ × α)
  | [] => [(k, v)]
  | (k', v') :: t => if k' == k then (k, v) :: t else (k', v') :: insertKV k v t

/-- the map built by a sequence of `insert` calls -/
def mkMap (rows : List (κ × α)) : List (κ × α) := rows.foldl (fun m r => insertKV r.1 r.2 m) []

/-- `assert_maps_equal`: sizes, then `for (key, expected_value) in expected { match actual.get(key) … }`:
    `Some(v)` with `v == expected_value` continues, another value or `None` panics. -/
def assertMaps (actual expected : List (κ × α)) : Bool :=
  actual.length == expected.length &&
    expected.all (fun r => match actual.lookup r.1 with
      | some v => v == r.2
      | none => false)

/-- the key order of the concrete instances (`Ord` on `i64`; the driver evaluates `Int` keys) -/
def leInt (a b : Int) : Bool := decide (a ≤ b)

/-! ## the other element / key types the driver evaluates

The harness runs the generic assertions at three types: `i64`, `struct P(i64, i64)` (derived
`PartialEq/Eq/PartialOrd/Ord`, a hand-written `Debug` that prints the first field only and a hand-written
`Hash` that feeds one bit to the hasher) and `String`. An abstract element `x : Int` of a request is
embedded injectively (`embP_injective`, `embS_injective`) and the model evaluates the SAME generic
definitions at `Int × Int` / `String`, with the derived orders below. Neither `Debug` nor `Hash` exists
in the model: the answers may not depend on them. -/

/-- `P(x.div_euclid(2), x.rem_euclid(2))` -/
def embP (x : Int) : Int × Int := (x / 2, x % 2)

/-- `format!("s{x}")` -/
def embS (x : Int) : String := "s" ++ toString x

/-- derived `Ord` of `struct P(i64, i64)`: lexicographic -/
def lePair (a b : Int × Int) : Bool := decide (a.1 < b.1 ∨ (a.1 = b.1 ∧ a.2 ≤ b.2))

/-- `Ord` of `String` (lexicographic by code point = by UTF-8 bytes) -/
def leStr (a b : String) : Bool := decide (a ≤ b)

/-! ## the file assertions of `src/testing/mock_io.rs` (`assert_jsonl_equals`, `assert_csv_equals`)

Both are "the ordered assertion applied to what the reader returns": `read_*_output(path).expect(..)`,
then `assert_eq!(actual.len(), expected.len())`, then `zip` + `assert_eq!` per index — the body of
`assert_collections_equal` (`assertJsonl_eq`, `assertCsv_eq` in `Props/C20.lean`).

A file is `Option (List L)`: `none` = it cannot be opened (`File::open` / `Reader::from_path` return
`Err`, the `expect` panics), `some lines` = its lines. `L` is the type of lines; what `serde_json` / the
`csv` crate make of one line is a PARAMETER (`parse`, `isBlank` / `isEmpty`); the laws assumed of them are
hypotheses of the theorems (`parse (ser x) = some x`), never axioms. The driver instantiates `L` with
the line classes the harness writes (`JLine`, `CLine` below) and the harness checks, case by case, that
the real parsers treat the rendered text of each class as the class says. -/

section files
variable {L : Type}

/-- `for line in lines { records.push(parse(line)?) }`: every line must parse, in order -/
def parseAll (parse : L → Option α) : List L → Option (List α)
  | [] => some []
  | l :: ls =>
      match parse l with
      | none => none
      | some r => (parseAll parse ls).map (r :: ·)

/-- `read_jsonl_output` once the file is open: `for line in reader.lines() { let line = line?;
    if !line.trim().is_empty() { records.push(from_str(&line)?) } }`. A line that is not valid UTF-8
    (`line?` is `Err`) is a line with `isBlank = false`, `parse = none`. -/
def readJsonl (isBlank : L → Bool) (parse : L → Option α) : List L → Option (List α)
  | [] => some []
  | l :: ls =>
      if isBlank l then readJsonl isBlank parse ls
      else
        match parse l with
        | none => none
        | some r => (readJsonl isBlank parse ls).map (r :: ·)

/-- `assert_jsonl_equals(path, expected)` -/
def assertJsonl (isBlank : L → Bool) (parse : L → Option α) (file : Option (List L))
    (expected : List α) : Bool :=
  match file.bind (readJsonl isBlank parse) with
  | none => false   -- `.expect("Failed to read JSONL file")`
  | some actual =>
      actual.length == expected.length && (actual.zip expected).all (fun p => p.1 == p.2)

/-- `read_csv_output` once the file is open: `Reader::from_path` has `has_headers = true`, so the first
    record of the file is the header row and never data; the `csv` crate skips empty lines; every
    further record is deserialised against the header (`parse hdr`), the first `Err` is returned. -/
def readCsv (isEmpty : L → Bool) (parse : L → L → Option α) (lines : List L) : Option (List α) :=
  match lines.filter (fun l => !isEmpty l) with
  | [] => some []
  | hdr :: rows => parseAll (parse hdr) rows

/-- `assert_csv_equals(path, expected)` -/
def assertCsv (isEmpty : L → Bool) (parse : L → L → Option α) (file : Option (List L))
    (expected : List α) : Bool :=
  match file.bind (readCsv isEmpty parse) with
  | none => false   -- `.expect("Failed to read CSV file")`
  | some actual =>
      actual.length == expected.length && (actual.zip expected).all (fun p => p.1 == p.2)

end files

/-- the line classes of the JSONL files the harness writes; the record type is
    `struct Row { k: i64, v: i64 }` -/
inductive JLine where
  /-- a JSON object holding exactly the record `(k, v)` (any field order / inner whitespace) -/
  | record (k v : Int)
  /-- `line.trim().is_empty()` -/
  | blank
  /-- not blank, and `serde_json::from_str::<Row>` (or the UTF-8 decoding of the line) fails -/
  | bad
deriving DecidableEq, Repr

def JLine.isBlank : JLine → Bool
  | .blank => true
  | _ => false

def JLine.parse : JLine → Option (Int × Int)
  | .record k v => some (k, v)
  | _ => none

/-- the line classes of the CSV files the harness writes (same record type) -/
inductive CLine where
  /-- `k,v` -/
  | hdr
  /-- `v,k` -/
  | hdrSwapped
  /-- two integer fields `a,b` -/
  | row (a b : Int)
  /-- an empty line -/
  | empty
  /-- a non-empty line that is neither of the above (wrong number of fields, a non-integer field) -/
  | bad
deriving DecidableEq, Repr

def CLine.isEmpty : CLine → Bool
  | .empty => true
  | _ => false

/-- a data record read against a header row: fields are matched BY NAME, so under `v,k` the line
    `a,b` is the record `{k: b, v: a}`; under a first row that does not name both fields (a data row
    or a malformed row in header position) no record can be built; a repeated header line or a
    malformed line in data position is an error. -/
def CLine.parse : CLine → CLine → Option (Int × Int)
  | .hdr, .row a b => some (a, b)
  | .hdrSwapped, .row a b => some (b, a)
  | _, _ => none

end IB.Assertions
