/-!
# Model of `src/testing/assertions.rs` (C20)

Each assertion is a `Bool` function: `true` = the Rust function returns `()`, `false` = it panics.
Transliterated check by check, in the order the Rust code performs them.

`Legacy.*` is the code as it was before the respective `fix:` commit (set-based comparison in the
unordered/grouped assertions; position-wise comparison after the stable sort in the key/value
assertion and — `Legacy.assertGroupedPos` — in the grouped assertion); the un-prefixed definitions
follow the current code.

Assumption (stated, not modelled): `==` on elements/values is a lawful equality (`DecidableEq`).
Rust only asks for `PartialEq` in `assert_collections_equal`, `assert_contains`, the values of
`assert_kv_collections_equal` and of `assert_maps_equal`; with a non-reflexive `==` (`f64::NAN`) those
reject a collection compared with itself. `Eq + Hash` / `Ord` types are assumed to honour their contracts.
-/
namespace IB.Assertions

variable {α : Type} [DecidableEq α]

/-- `assert_collections_equal`: length, then index-wise equality. -/
def assertEqual (actual expected : List α) : Bool :=
  actual.length == expected.length && (actual.zip expected).all (fun p => p.1 == p.2)

/-- `HashSet` inclusion of the element sets -/
def subsetB (a b : List α) : Bool := a.all (fun x => b.contains x)

/-- `actual_set == expected_set` -/
def setEq (a b : List α) : Bool := subsetB a b && subsetB b a

/-- occurrence counts agree for every element of either side -/
def countsEq (a b : List α) : Bool := (a ++ b).all (fun x => a.count x == b.count x)

/-- pinned-commit `assert_collections_unordered_equal`: equal lengths and equal *sets*. -/
def Legacy.assertUnordered (actual expected : List α) : Bool :=
  actual.length == expected.length && setEq actual expected

/-- current `assert_collections_unordered_equal`: lengths, sets, then per-element counts. -/
def assertUnordered (actual expected : List α) : Bool :=
  actual.length == expected.length && setEq actual expected && countsEq actual expected

variable {κ : Type} [DecidableEq κ]

/-- `sort_by(|a, b| a.0.cmp(&b.0))` — Rust's `sort_by` is stable, as is `mergeSort`. -/
def sortByKey (le : κ → κ → Bool) (l : List (κ × α)) : List (κ × α) :=
  l.mergeSort (fun x y => le x.1 y.1)

/-- `assert_kv_collections_equal` before the `fix:` commit: stable sort both by key, length, then
    pairwise `(k, v)`. -/
def Legacy.assertKv (le : κ → κ → Bool) (actual expected : List (κ × α)) : Bool :=
  let a := sortByKey le actual
  let e := sortByKey le expected
  a.length == e.length && (a.zip e).all (fun p => p.1.1 == p.2.1 && p.1.2 == p.2.2)

/-- `(start..end).find(|&j| !used[j - start] && expected[j].0 == *ak && expected[j].1 == *av)`
    followed by `used[j - start] = true`: the updated `used` flags, `none` = no partner (panic).
    `re` is `expected[start..end]`, `used` the flags of that run. -/
def markFirst (row : κ × α) : List (κ × α) → List Bool → Option (List Bool)
  | e :: es, u :: us =>
      if !u && e.1 == row.1 && e.2 == row.2 then some (true :: us)
      else (markFirst row es us).map (u :: ·)
  | _, _ => none

/-- `for i in start..end { … }` over one run: `ra` = the not yet visited rows of `actual[start..end]`. -/
def matchRun : List (κ × α) → List (κ × α) → List Bool → Bool
  | [], _, _ => true
  | row :: rest, re, used =>
      match markFirst row re used with
      | some used' => matchRun rest re used'
      | none => false

/-- `while start < actual.len() { … start = end }`: `a`, `e` are `actual[start..]`, `expected[start..]`.
    One iteration consumes one run (`end - start ≥ 1` rows), so `fuel = actual.len()` iterations
    always suffice; running out of fuel with rows left would answer `false` (never reached: the
    theorems are about the call made by `assertKv`, with exactly this fuel). -/
def walkRuns : Nat → List (κ × α) → List (κ × α) → Bool
  | _, [], _ => true
  | 0, _ :: _, _ => false
  | fuel + 1, (k, v) :: rest, e =>
      -- `end = start + 1; while end < len && actual[end].0 == actual[start].0 { end += 1 }`
      let n := 1 + (rest.takeWhile (fun r => r.1 == k)).length
      matchRun (((k, v) :: rest).take n) (e.take n) (List.replicate n false) &&
        walkRuns fuel (((k, v) :: rest).drop n) (e.drop n)

/-- current `assert_kv_collections_equal`: stable sort both by key, length, then every run of equal
    keys of `actual` is matched greedily (with `==` on the whole row) against the rows of `expected`
    at the same positions, each expected row being used at most once. -/
def assertKv (le : κ → κ → Bool) (actual expected : List (κ × α)) : Bool :=
  let a := sortByKey le actual
  let e := sortByKey le expected
  a.length == e.length && walkRuns a.length a e

/-- pinned-commit `assert_grouped_kv_equal`: sort by key, lengths, keys pairwise, values as *sets*. -/
def Legacy.assertGrouped (le : κ → κ → Bool) (actual expected : List (κ × List α)) : Bool :=
  let a := sortByKey le actual
  let e := sortByKey le expected
  a.length == e.length && (a.zip e).all (fun p => p.1.1 == p.2.1 && setEq p.1.2 p.2.2)

/-- `assert_grouped_kv_equal` between the first and the second `fix:` commit: values compared as sets
    and then by occurrence counts, rows compared position by position after the stable sort. -/
def Legacy.assertGroupedPos (le : κ → κ → Bool) (actual expected : List (κ × List α)) : Bool :=
  let a := sortByKey le actual
  let e := sortByKey le expected
  a.length == e.length &&
    (a.zip e).all (fun p => p.1.1 == p.2.1 && setEq p.1.2 p.2.2 && countsEq p.1.2 p.2.2)

/-- the closure `same_values(av, ev)`: `HashSet` equality, then `first_count_mismatch(av, ev).is_none()` -/
def sameValues (av ev : List α) : Bool := setEq av ev && countsEq av ev

/-- `(start..end).find(|&j| !used[j - start] && expected[j].0 == *ak && same_values(av, &expected[j].1))`
    followed by `used[j - start] = true` (grouped rows; cf. `markFirst`). -/
def markFirstG (row : κ × List α) : List (κ × List α) → List Bool → Option (List Bool)
  | e :: es, u :: us =>
      if !u && e.1 == row.1 && sameValues row.2 e.2 then some (true :: us)
      else (markFirstG row es us).map (u :: ·)
  | _, _ => none

/-- `for i in start..end { … }` over one run of the grouped assertion: no partner = panic. -/
def matchRunG : List (κ × List α) → List (κ × List α) → List Bool → Bool
  | [], _, _ => true
  | row :: rest, re, used =>
      match markFirstG row re used with
      | some used' => matchRunG rest re used'
      | none => false

/-- `while start < actual.len() { … start = end }` of the grouped assertion (cf. `walkRuns`). -/
def walkRunsG : Nat → List (κ × List α) → List (κ × List α) → Bool
  | _, [], _ => true
  | 0, _ :: _, _ => false
  | fuel + 1, (k, vs) :: rest, e =>
      let n := 1 + (rest.takeWhile (fun r => r.1 == k)).length
      matchRunG (((k, vs) :: rest).take n) (e.take n) (List.replicate n false) &&
        walkRunsG fuel (((k, vs) :: rest).drop n) (e.drop n)

/-- current `assert_grouped_kv_equal`: stable sort both by key, length, then every run of equal keys
    of `actual` is matched greedily against the groups of `expected` at the same positions (same key,
    values equal as a multiset), each expected group being used at most once. -/
def assertGrouped (le : κ → κ → Bool) (actual expected : List (κ × List α)) : Bool :=
  let a := sortByKey le actual
  let e := sortByKey le expected
  a.length == e.length && walkRunsG a.length a e

/-- the key/value rows a grouped collection stands for: `(k, [v₁, v₂])` ↦ `(k, v₁), (k, v₂)` -/
def flattenGroups (g : List (κ × List α)) : List (κ × α) :=
  g.flatMap (fun r => r.2.map (fun v => (r.1, v)))

/-! ## the remaining shipped assertions -/

/-- `assert_all`: `for item in collection { assert!(predicate(item)) }` -/
def assertAll (p : α → Bool) (c : List α) : Bool := c.all p

/-- `assert_any`: `assert!(collection.iter().any(&predicate))` -/
def assertAny (p : α → Bool) (c : List α) : Bool := c.any p

/-- `assert_none`: `for item in collection { assert!(!predicate(item)) }` -/
def assertNone (p : α → Bool) (c : List α) : Bool := c.all (fun x => !p x)

/-- `assert_collection_size`: `assert_eq!(collection.len(), expected_size)` -/
def assertSize (c : List α) (n : Nat) : Bool := c.length == n

/-- `assert_contains`: `assert!(collection.contains(element))` -/
def assertContains (c : List α) (x : α) : Bool := c.contains x

/-- `HashMap::insert`: overwrite the entry of an existing key, else add one. A map is the list of its
    entries (keys pairwise distinct, `mkMap_keys_nodup`); the iteration order of the real map is
    arbitrary, the answers below do not depend on it (`assertMaps_perm`). -/
def insertKV (k : κ) (v : α) : List (κ × α) → List (κ × α)
  | [] => [(k, v)]
  | (k', v') :: t => if k' == k then (k, v) :: t else (k', v') :: insertKV k v t

/-- the map built by a sequence of `insert` calls -/
def mkMap (rows : List (κ × α)) : List (κ × α) := rows.foldl (fun m r => insertKV r.1 r.2 m) []

/-- `assert_maps_equal`: sizes, then `for (key, expected_value) in expected { match actual.get(key) … }`:
    `Some(v)` with `v == expected_value` continues, another value or `None` panics. -/
def assertMaps (actual expected : List (κ × α)) : Bool :=
  actual.length == expected.length &&
    expected.all (fun r => match actual.lookup r.1 with
      | some v => v == r.2
      | none => false)

/-- the key order of the concrete instances (`Ord` on `i64`; the driver evaluates `Int` keys) -/
def leInt (a b : Int) : Bool := decide (a ≤ b)

end IB.Assertions
