/-!
# Model of `src/testing/assertions.rs` (C20)

Each assertion is a `Bool` function: `true` = the Rust function returns `()`, `false` = it panics.
Transliterated check by check, in the order the Rust code performs them.

`Legacy.*` is the code as it was at the pinned commit (set-based comparison); the un-prefixed
definitions follow the current code (count-based comparison added by the `fix:` commit).
-/
namespace IB.Assertions

variable {α : Type} [DecidableEq α]

/-- `assert_collections_equal`: length, then index-wise equality. -/
def assertEqual (actual expected : List α) : Bool :=
  actual.length == expected.length && (actual.zip expected).all (fun p => p.1 == p.2)

/-- `HashSet` inclusion of the element sets -/
def subsetB (a b : List α) : Bool := a.all (fun x => b.contains x)

/-- `actual_set == expected_set` -/
def setEq (a b : List α) : Bool := subsetB a b && subsetB b a

/-- occurrence counts agree for every element of either side -/
def countsEq (a b : List α) : Bool := (a ++ b).all (fun x => a.count x == b.count x)

/-- pinned-commit `assert_collections_unordered_equal`: equal lengths and equal *sets*. -/
def Legacy.assertUnordered (actual expected : List α) : Bool :=
  actual.length == expected.length && setEq actual expected

/-- current `assert_collections_unordered_equal`: lengths, sets, then per-element counts. -/
def assertUnordered (actual expected : List α) : Bool :=
  actual.length == expected.length && setEq actual expected && countsEq actual expected

variable {κ : Type} [DecidableEq κ]

/-- `sort_by(|a, b| a.0.cmp(&b.0))` — Rust's `sort_by` is stable, as is `mergeSort`. -/
def sortByKey (le : κ → κ → Bool) (l : List (κ × α)) : List (κ × α) :=
  l.mergeSort (fun x y => le x.1 y.1)

/-- `assert_kv_collections_equal`: stable sort both by key, length, then pairwise `(k, v)`. -/
def assertKv (le : κ → κ → Bool) (actual expected : List (κ × α)) : Bool :=
  let a := sortByKey le actual
  let e := sortByKey le expected
  a.length == e.length && (a.zip e).all (fun p => p.1.1 == p.2.1 && p.1.2 == p.2.2)

/-- pinned-commit `assert_grouped_kv_equal`: sort by key, lengths, keys pairwise, values as *sets*. -/
def Legacy.assertGrouped (le : κ → κ → Bool) (actual expected : List (κ × List α)) : Bool :=
  let a := sortByKey le actual
  let e := sortByKey le expected
  a.length == e.length && (a.zip e).all (fun p => p.1.1 == p.2.1 && setEq p.1.2 p.2.2)

/-- current `assert_grouped_kv_equal`: values compared as sets and then by occurrence counts. -/
def assertGrouped (le : κ → κ → Bool) (actual expected : List (κ × List α)) : Bool :=
  let a := sortByKey le actual
  let e := sortByKey le expected
  a.length == e.length &&
    (a.zip e).all (fun p => p.1.1 == p.2.1 && setEq p.1.2 p.2.2 && countsEq p.1.2 p.2.2)

end IB.Assertions
