/-!
# Model of `src/testing/assertions.rs` (C20)

Each assertion is a `Bool` function: `true` = the Rust function returns `()`, `false` = it panics.
Transliterated check by check, in the order the Rust code performs them.

`Legacy.*` is the code as it was before the respective `fix:` commit (set-based comparison in the
unordered/grouped assertions; position-wise comparison after the stable sort in the key/value
assertion); the un-prefixed definitions follow the current code.
-/
namespace IB.Assertions

variable {α : Type} [DecidableEq α]

/-- `assert_collections_equal`: length, then index-wise equality. -/
def assertEqual (actual expected : List α) : Bool :=
  actual.length == expected.length && (actual.zip expected).all (fun p => p.1 == p.2)

/-- `HashSet` inclusion of the element sets -/
def subsetB (a b : List α) : Bool := a.all (fun x => b.contains x)

/-- `actual_set == expected_set` -/
def setEq (a b : List α) : Bool := subsetB a b && subsetB b a

/-- occurrence counts agree for every element of either side -/
def countsEq (a b : List α) : Bool := (a ++ b).all (fun x => a.count x == b.count x)

/-- pinned-commit `assert_collections_unordered_equal`: equal lengths and equal *sets*. -/
def Legacy.assertUnordered (actual expected : List α) : Bool :=
  actual.length == expected.length && setEq actual expected

/-- current `assert_collections_unordered_equal`: lengths, sets, then per-element counts. -/
def assertUnordered (actual expected : List α) : Bool :=
  actual.length == expected.length && setEq actual expected && countsEq actual expected

variable {κ : Type} [DecidableEq κ]

/-- `sort_by(|a, b| a.0.cmp(&b.0))` — Rust's `sort_by` is stable, as is `mergeSort`. -/
def sortByKey (le : κ → κ → Bool) (l : List (κ × α)) : List (κ × α) :=
  l.mergeSort (fun x y => le x.1 y.1)

/-- `assert_kv_collections_equal` before the `fix:` commit: stable sort both by key, length, then
    pairwise `(k, v)`. -/
def Legacy.assertKv (le : κ → κ → Bool) (actual expected : List (κ × α)) : Bool :=
  let a := sortByKey le actual
  let e := sortByKey le expected
  a.length == e.length && (a.zip e).all (fun p => p.1.1 == p.2.1 && p.1.2 == p.2.2)

/-- `(start..end).find(|&j| !used[j - start] && expected[j].0 == *ak && expected[j].1 == *av)`
    followed by `used[j - start] = true`: the updated `used` flags, `none` = no partner (panic).
    `re` is `expected[start..end]`, `used` the flags of that run. -/
def markFirst (row : κ × α) : List (κ × α) → List Bool → Option (List Bool)
  | e :: es, u :: us =>
      if !u && e.1 == row.1 && e.2 == row.2 then some (true :: us)
      else (markFirst row es us).map (u :: ·)
  | _, _ => none

/-- `for i in start..end { … }` over one run: `ra` = the not yet visited rows of `actual[start..end]`. -/
def matchRun : List (κ × α) → List (κ × α) → List Bool → Bool
  | [], _, _ => true
  | row :: rest, re, used =>
      match markFirst row re used with
      | some used' => matchRun rest re used'
      | none => false

/-- `while start < actual.len() { … start = end }`: `a`, `e` are `actual[start..]`, `expected[start..]`.
    One iteration consumes one run (`end - start ≥ 1` rows), so `fuel = actual.len()` iterations
    always suffice; running out of fuel with rows left would answer `false` (never reached: the
    theorems are about the call made by `assertKv`, with exactly this fuel). -/
def walkRuns : Nat → List (κ × α) → List (κ × α) → Bool
  | _, [], _ => true
  | 0, _ :: _, _ => false
  | fuel + 1, (k, v) :: rest, e =>
      -- `end = start + 1; while end < len && actual[end].0 == actual[start].0 { end += 1 }`
      let n := 1 + (rest.takeWhile (fun r => r.1 == k)).length
      matchRun (((k, v) :: rest).take n) (e.take n) (List.replicate n false) &&
        walkRuns fuel (((k, v) :: rest).drop n) (e.drop n)

/-- current `assert_kv_collections_equal`: stable sort both by key, length, then every run of equal
    keys of `actual` is matched greedily (with `==` on the whole row) against the rows of `expected`
    at the same positions, each expected row being used at most once. -/
def assertKv (le : κ → κ → Bool) (actual expected : List (κ × α)) : Bool :=
  let a := sortByKey le actual
  let e := sortByKey le expected
  a.length == e.length && walkRuns a.length a e

/-- pinned-commit `assert_grouped_kv_equal`: sort by key, lengths, keys pairwise, values as *sets*. -/
def Legacy.assertGrouped (le : κ → κ → Bool) (actual expected : List (κ × List α)) : Bool :=
  let a := sortByKey le actual
  let e := sortByKey le expected
  a.length == e.length && (a.zip e).all (fun p => p.1.1 == p.2.1 && setEq p.1.2 p.2.2)

/-- current `assert_grouped_kv_equal`: values compared as sets and then by occurrence counts. -/
def assertGrouped (le : κ → κ → Bool) (actual expected : List (κ × List α)) : Bool :=
  let a := sortByKey le actual
  let e := sortByKey le expected
  a.length == e.length &&
    (a.zip e).all (fun p => p.1.1 == p.2.1 && setEq p.1.2 p.2.2 && countsEq p.1.2 p.2.2)

/-- the key/value rows a grouped collection stands for: `(k, [v₁, v₂])` ↦ `(k, v₁), (k, v₂)` -/
def flattenGroups (g : List (κ × List α)) : List (κ × α) :=
  g.flatMap (fun r => r.2.map (fun v => (r.1, v)))

end IB.Assertions
