import IbModel.Util.Wire
/-!
# The dynamic element type of the pipeline model

`Val` mirrors the harness's Rust `enum V { I(i64), S(String), P(..), L(Vec<V>), N, O(..), U }`.
Lists are encoded with `nil`/`cons` so that the type is a plain (non-nested) inductive and
`DecidableEq` can be derived. `err` marks a value that the real code could not have produced.
-/
namespace IB

inductive Val where
  | int (i : Int)
  | str (s : String)
  | unit
  | none
  | some (v : Val)
  | pair (a b : Val)
  | nil
  | cons (h t : Val)
  | err
deriving DecidableEq, Repr, Inhabited

namespace Val

def ofList : List Val → Val
  | [] => .nil
  | x :: xs => .cons x (ofList xs)

def toList : Val → List Val
  | .cons h t => h :: toList t
  | _ => []

@[simp] theorem toList_ofList (xs : List Val) : toList (ofList xs) = xs := by
  induction xs with
  | nil => rfl
  | cons x xs ih => simp [ofList, toList, ih]

def isList : Val → Bool
  | .nil => true
  | .cons _ t => isList t
  | _ => false

/-- key / value projections of a `(K, V)` row; rows that are not pairs cannot occur in a
    type-checked Rust pipeline — the model maps them to `err` instead of inventing data. -/
def key : Val → Val
  | .pair k _ => k
  | _ => .err

def value : Val → Val
  | .pair _ v => v
  | _ => .err

/-- total integer coercion shared with the harness (`V::as_i64`) -/
def toInt : Val → Int
  | .int i => i
  | .str s => s.utf8ByteSize
  | .unit => 0
  | .none => 0
  | .some v => toInt v
  | .pair a b => toInt a + toInt b
  | .nil => 0
  | .cons _ t => 1 + toInt t
  | .err => 0

/-! ## wire format: `I<n>` `S<hex>` `U` `N` `O v` `P a b` `L<n> v…` `E` -/

def encToks : Val → List String
  | .int i => ["I" ++ toString i]
  | .str s => ["S" ++ Wire.stringToHex s]
  | .unit => ["U"]
  | .none => ["N"]
  | .some v => "O" :: encToks v
  | .pair a b => "P" :: (encToks a ++ encToks b)
  | .err => ["E"]
  | .nil => ["L0"]
  | .cons h t =>
      -- flatten the list spine: L<n> followed by the n elements
      let rec spine : Val → List (List String)
        | .cons h t => encToks h :: spine t
        | _ => []
      let elems := encToks h :: spine t
      ("L" ++ toString elems.length) :: elems.flatten

def enc (v : Val) : String := " ".intercalate (encToks v)

/-- parser with fuel (= number of tokens is always enough) -/
def parse : Nat → List String → Option (Val × List String)
  | 0, _ => Option.none
  | fuel + 1, toks =>
    match toks with
    | [] => Option.none
    | t :: rest =>
      if t == "U" then Option.some (.unit, rest)
      else if t == "N" then Option.some (.none, rest)
      else if t == "E" then Option.some (.err, rest)
      else if t == "O" then
        match parse fuel rest with
        | Option.some (v, r) => Option.some (.some v, r)
        | Option.none => Option.none
      else if t == "P" then
        match parse fuel rest with
        | Option.some (a, r1) =>
          match parse fuel r1 with
          | Option.some (b, r2) => Option.some (.pair a b, r2)
          | Option.none => Option.none
        | Option.none => Option.none
      else if t.startsWith "I" then
        (Wire.parseInt? (t.drop 1).toString).map (fun i => (.int i, rest))
      else if t.startsWith "S" then
        (Wire.hexToString? (t.drop 1).toString).map (fun s => (.str s, rest))
      else if t.startsWith "L" then
        match Wire.parseNat? (t.drop 1).toString with
        | Option.some n =>
          let rec many : Nat → List String → Option (List Val × List String)
            | 0, r => Option.some ([], r)
            | k + 1, r =>
              match parse fuel r with
              | Option.some (v, r') =>
                match many k r' with
                | Option.some (vs, r'') => Option.some (v :: vs, r'')
                | Option.none => Option.none
              | Option.none => Option.none
          match many n rest with
          | Option.some (vs, r) => Option.some (ofList vs, r)
          | Option.none => Option.none
        | Option.none => Option.none
      else Option.none

/-- parse a whole token list as a sequence of values -/
def parseAll : Nat → List String → Option (List Val)
  | 0, toks => if toks.isEmpty then Option.some [] else Option.none
  | fuel + 1, toks =>
    if toks.isEmpty then Option.some []
    else match parse (toks.length + 1) toks with
      | Option.some (v, rest) => (parseAll fuel rest).map (v :: ·)
      | Option.none => Option.none

def parseRows (toks : List String) : Option (List Val) := parseAll (toks.length + 1) toks

/-! ## the order shared with the harness (`impl Ord for V`)

`Val.le` compares by `toInt` first and breaks ties by the STRUCTURAL order `Val.cmp`: constructor rank
(`I < S < U < N < O < P < L`, `nil < cons`, `err` last), then the components — ints numerically, strings by
`compare` on `String` (code points = UTF-8 bytes, Rust's `str::cmp`), `some` / `pair` component-wise, lists
lexicographically (head, then tail; a proper prefix is smaller). Unlike the encoded text `enc` (which does not
separate `cons 1 0` from `cons 1 nil`), `cmp a b = .eq` only for `a = b`, so `le` is antisymmetric on ALL of
`Val` (`Proofs/ValOrder.lean`). `enc` remains the wire format and the canonicalisation key (`sortByEnc`). -/

/-- variant rank: `I < S < U < N < O < P < L` (`nil` before `cons`), `err` (no Rust counterpart) last -/
def rank : Val → Nat
  | .int _ => 0
  | .str _ => 1
  | .unit => 2
  | .none => 3
  | .some _ => 4
  | .pair _ _ => 5
  | .nil => 6
  | .cons _ _ => 7
  | .err => 8

/-- the structural order -/
def cmp : Val → Val → Ordering
  | .int a, .int b => compare a b
  | .str a, .str b => compare a b
  | .some a, .some b => cmp a b
  | .pair a₁ a₂, .pair b₁ b₂ => (cmp a₁ b₁).then (cmp a₂ b₂)
  | .cons a₁ a₂, .cons b₁ b₂ => (cmp a₁ b₁).then (cmp a₂ b₂)
  | a, b => compare (rank a) (rank b)

/-- total order shared with the harness: by `toInt`, ties by the structural order -/
def le (a b : Val) : Bool :=
  let x := toInt a; let y := toInt b
  if x < y then true else if y < x then false else (cmp a b).isLE

def lt (a b : Val) : Bool := le a b && !(a == b)

/-- canonical form: every nested list sorted by encoded text (used only for comparing outputs that
    went through a hash map in the real code) -/
def sortByEnc (xs : List Val) : List Val :=
  xs.mergeSort (fun a b => decide (enc a ≤ enc b))

partial def deepCanon : Val → Val
  | .some v => .some (deepCanon v)
  | .pair a b => .pair (deepCanon a) (deepCanon b)
  | .cons h t => ofList (sortByEnc ((toList (.cons h t)).map deepCanon))
  | v => v

end Val
end IB
