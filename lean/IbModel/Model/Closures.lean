import IbModel.Model.Engine
import IbModel.Model.Val
import IbModel.Model.CombinerCore
import IbModel.Generated.Tables
/-!
# Layer 2: the closures the builders create, over `P := List Val`

`src/collection.rs` (`MapOp`, `FilterOp`, `FlatMapOp`, `MapValuesOp`, `FilterValuesOp`, `BatchMapOp`,
`BatchMapValuesOp`), `helpers/keyed.rs` (`group_by_key`), `helpers/combine.rs` (`combine_values`,
`combine_values_lifted`), `helpers/combine_global.rs`, `helpers/joins.rs`, `type_token.rs`
(`VecOpsImpl::split`). `std::HashMap` is modelled as an insertion-ordered association list; a
per-partition `HashMap<K, A>` travels as rows `pair k acc`, a global accumulator as a 1-row partition.
Capability flags and cost hints come from `Generated.Tables` (read from the running code).
-/
namespace IB

abbrev Part := List Val

open Val

/-! ## stateless operators -/

def withFlags (fl : Generated.OpFlags) (apply : Part → Part) : DynOp Part :=
  { apply := apply, keyPreserving := fl.keyPreserving, valueOnly := fl.valueOnly,
    reorderSafe := fl.reorderSafe, cost := fl.cost }

def mapOp (f : Val → Val) : DynOp Part := withFlags Generated.flags_map (List.map f)
def filterOp (p : Val → Bool) : DynOp Part := withFlags Generated.flags_filter (List.filter p)
def flatMapOp (f : Val → List Val) : DynOp Part := withFlags Generated.flags_flat_map (List.flatMap f)
/-- `key_by f = map (fun t => (f t, t))` -/
def keyByOp (f : Val → Val) : DynOp Part :=
  withFlags Generated.flags_key_by (List.map (fun t => .pair (f t) t))
def mapValuesOp (f : Val → Val) : DynOp Part :=
  withFlags Generated.flags_map_values (List.map (fun r => .pair r.key (f r.value)))
def filterValuesOp (p : Val → Bool) : DynOp Part :=
  withFlags Generated.flags_filter_values (List.filter (fun r => p r.value))

/-- `slice::chunks(n)` for `n ≥ 1` (`chunksOf` of the engine model; fuel = length is always enough) -/
def chunks (n : Nat) (xs : List Val) : List (List Val) := chunksOf n xs.length xs

/-- `BatchMapOp`: `batch_size.max(1)`, `f` applied chunk by chunk, results appended -/
def batchMapOp (n : Nat) (f : List Val → List Val) : DynOp Part :=
  withFlags Generated.flags_map_batches (fun rows => (chunks (max n 1) rows).flatMap f)

/-- re-pair the outputs of one chunk with the chunk's keys, in order. The real code first
    `assert_eq!(produced.len(), vals.len())` (collection.rs, `BatchMapValuesOp::apply`): a chunk function that
    changes the chunk length PANICS — the model then yields the single row `err` (rendered `PANIC`). -/
def rekeyChunk (c out : List Val) : List Val :=
  if out.length = c.length then List.zipWith (fun r o => .pair r.key o) c out else [.err]

/-- `BatchMapValuesOp`: values of each chunk through `f`, keys re-attached positionally (`rekeyChunk`) -/
def batchMapValuesOp (n : Nat) (f : List Val → List Val) : DynOp Part :=
  withFlags Generated.flags_map_values_batches (fun rows =>
    (chunks (max n 1) rows).flatMap (fun c => rekeyChunk c (f (c.map value))))

/-! ## sources: `VecOpsImpl::split` -/

/-- `n ≤ 1 ∨ len ≤ 1` ⇒ one part; else contiguous chunks of `ceil(len / n)` -/
def vecSplit (xs : List Val) (n : Nat) : List Part :=
  if n ≤ 1 ∨ xs.length ≤ 1 then [xs] else chunks ((xs.length + n - 1) / n) xs

def vecSource (xs : List Val) : Node Part := .source xs xs.length (vecSplit xs)

/-- A streamed file source (`read_jsonl_streaming` / `read_csv_streaming`, helpers/jsonl.rs + io/jsonl.rs
    `build_jsonl_shards`): `len` = number of lines, the sequential view (`clone_any`) reads all of them,
    `split` IGNORES the requested partition count and returns one part per shard of
    `lines_per_shard.max(1)` lines — zero parts for an empty file. (The file layer itself is C09.) -/
def fileSplit (xs : List Val) (per : Nat) : Nat → List Part :=
  fun _ => chunksOf (max per 1) xs.length xs

def fileSource (xs : List Val) (per : Nat) : Node Part := .source xs xs.length (fileSplit xs per)

/-! ## insertion-ordered association lists (the model of `HashMap`) -/

/-- `entry(k).or_insert_with(init)` followed by `f` on the entry -/
def upsert {β : Type} (m : List (Val × β)) (k : Val) (init : β) (f : β → β) : List (Val × β) :=
  match m with
  | [] => [(k, f init)]
  | (k', b) :: rest => if k' == k then (k', f b) :: rest else (k', b) :: upsert rest k init f

/-- `insert(k, b)`: overwrite an existing entry in place, else add -/
def insertKV {β : Type} (m : List (Val × β)) (k : Val) (b : β) : List (Val × β) :=
  match m with
  | [] => [(k, b)]
  | (k', b') :: rest => if k' == k then (k', b) :: rest else (k', b') :: insertKV rest k b

def lookupKV {β : Type} (m : List (Val × β)) (k : Val) : Option β :=
  match m with
  | [] => Option.none
  | (k', b) :: rest => if k' == k then Option.some b else lookupKV rest k

def encGroups (m : List (Val × List Val)) : Part := m.map (fun kv => .pair kv.1 (ofList kv.2))
def decGroups (p : Part) : List (Val × List Val) := p.map (fun r => (r.key, r.value.toList))
def encAccs (m : List (Val × Val)) : Part := m.map (fun kv => .pair kv.1 kv.2)
def decAccs (p : Part) : List (Val × Val) := p.map (fun r => (r.key, r.value))

/-- the shape every keyed accumulation loop in the code has: for each `(k, x)` item in order,
    `g` is applied to `entry(k).or_insert_with(init)` -/
def upsertFold {β γ : Type} (g : β → γ → β) (init : β) (m : List (Val × β)) (items : List (Val × γ)) :
    List (Val × β) :=
  items.foldl (fun m it => upsert m it.1 init (fun b => g b it.2)) m

def rowKV (r : Val) : Val × Val := (r.key, r.value)

/-! ## group_by_key -/

/-- GBK local: `m.entry(k).or_default().push(v)` row by row -/
def groupRows (rows : List Val) : List (Val × List Val) :=
  upsertFold (fun vs v => vs ++ [v]) [] [] (rows.map rowKV)

/-- GBK merge: `acc.entry(k).or_default().extend(vs)` part by part, entry by entry -/
def mergeGroups (parts : List (List (Val × List Val))) : List (Val × List Val) :=
  parts.foldl (fun acc m => upsertFold (fun vs ws => vs ++ ws) [] acc m) []

def gbkLocal (rows : Part) : Part := encGroups (groupRows rows)
def gbkMerge (parts : List Part) : Part := encGroups (mergeGroups (parts.map decGroups))
def gbkNode : Node Part := .gbk gbkLocal gbkMerge

/-! ## combine_values / combine_values_lifted (accumulators are `Val`s) -/

abbrev VCombiner := Combiner Val Val Val

/-- local for `(K, V)` pairs: `add_input(entry(k).or_insert_with(create), v)` -/
def combineLocalPairs (c : VCombiner) (rows : Part) : Part :=
  encAccs (upsertFold c.add c.create [] (rows.map rowKV))

/-- one step of the lifted local, current code: a repeated key's accumulator is merged into the
    existing entry (`Entry::Occupied => merge`, `Entry::Vacant => insert`) -/
def liftedStep (c : VCombiner) (m : List (Val × Val)) (r : Val) : List (Val × Val) :=
  let acc := c.build r.value.toList
  match lookupKV m r.key with
  | Option.some _ => upsert m r.key c.create (fun a => c.merge a acc)
  | Option.none => m ++ [(r.key, acc)]

/-- lifted local for `(K, Vec<V>)` groups -/
def combineLocalGroups (c : VCombiner) (rows : Part) : Part :=
  encAccs (rows.foldl (liftedStep c) [])

/-- pinned commit: `map.insert(k, acc)` — a repeated key overwrites the earlier accumulator -/
def Legacy.combineLocalGroups (c : VCombiner) (rows : Part) : Part :=
  encAccs (rows.foldl (fun m r => insertKV m r.key (c.build r.value.toList)) [])

/-- merge: `merge(entry(k).or_insert_with(create), a)` part by part, entry by entry -/
def mergeAccs (c : VCombiner) (parts : List (List (Val × Val))) : List (Val × Val) :=
  parts.foldl (fun accs m => upsertFold c.merge c.create accs m) []

/-- … then `finish` every entry -/
def combineMerge (c : VCombiner) (parts : List Part) : Part :=
  (mergeAccs c (parts.map decAccs)).map (fun ka => .pair ka.1 (c.finish ka.2))

def combineValuesNode (c : VCombiner) : Node Part :=
  .combineValues (combineLocalPairs c) Option.none (combineMerge c)
def combineValuesLiftedNode (c : VCombiner) : Node Part :=
  .combineValues (combineLocalPairs c) (Option.some (combineLocalGroups c)) (combineMerge c)
def Legacy.combineValuesLiftedNode (c : VCombiner) : Node Part :=
  .combineValues (combineLocalPairs c) (Option.some (Legacy.combineLocalGroups c)) (combineMerge c)

/-! ## combine_globally / combine_globally_lifted (the accumulator is a 1-row partition) -/

def accOf (p : Part) : Val := p.headD .err

def globalLocal (c : VCombiner) (rows : Part) : Part := [c.foldAdd c.create rows]
def globalLocalLifted (c : VCombiner) (rows : Part) : Part := [c.build rows]
def globalMerge (c : VCombiner) (parts : List Part) : Part :=
  match parts with
  | [] => [c.create]
  | p :: rest => [rest.foldl (fun a q => c.merge a (accOf q)) (accOf p)]
def globalFinish (c : VCombiner) (p : Part) : Part := [c.finish (accOf p)]

def combineGlobalNode (c : VCombiner) (fanout : Option Nat) : Node Part :=
  .combineGlobal (globalLocal c) (globalMerge c) (globalFinish c) fanout
def combineGlobalLiftedNode (c : VCombiner) (fanout : Option Nat) : Node Part :=
  .combineGlobal (globalLocalLifted c) (globalMerge c) (globalFinish c) fanout

/-! ## joins: the four `exec` closures of `helpers/joins.rs` -/

def optV : Option Val → Val
  | Option.some v => .some v
  | Option.none => .none

def joinInner (l r : Part) : Part :=
  let lm := groupRows l; let rm := groupRows r
  lm.flatMap (fun kv => match lookupKV rm kv.1 with
    | Option.some ws => kv.2.flatMap (fun v => ws.map (fun w => .pair kv.1 (.pair v w)))
    | Option.none => [])

def joinLeft (l r : Part) : Part :=
  let lm := groupRows l; let rm := groupRows r
  lm.flatMap (fun kv => match lookupKV rm kv.1 with
    | Option.some ws => kv.2.flatMap (fun v => ws.map (fun w => .pair kv.1 (.pair v (.some w))))
    | Option.none => kv.2.map (fun v => .pair kv.1 (.pair v .none)))

def joinRight (l r : Part) : Part :=
  let lm := groupRows l; let rm := groupRows r
  rm.flatMap (fun kw => match lookupKV lm kw.1 with
    | Option.some vs => kw.2.flatMap (fun w => vs.map (fun v => .pair kw.1 (.pair (.some v) w)))
    | Option.none => kw.2.map (fun w => .pair kw.1 (.pair .none w)))

def joinFull (l r : Part) : Part :=
  let lm := groupRows l; let rm := groupRows r
  -- keys of the left map, then the right-only keys (a `HashSet` in the code: order abstracted)
  let keys := lm.map (·.1) ++ (rm.map (·.1)).filter (fun k => (lookupKV lm k).isNone)
  keys.flatMap (fun k => match lookupKV lm k, lookupKV rm k with
    | Option.some vs, Option.some ws => vs.flatMap (fun v => ws.map (fun w => .pair k (.pair (.some v) (.some w))))
    | Option.some vs, Option.none => vs.map (fun v => .pair k (.pair (.some v) .none))
    | Option.none, Option.some ws => ws.map (fun w => .pair k (.pair .none (.some w)))
    | Option.none, Option.none => [])

inductive JoinKind | inner | left | right | full
deriving DecidableEq, Repr

def joinExec : JoinKind → Part → Part → Part
  | .inner => joinInner | .left => joinLeft | .right => joinRight | .full => joinFull

/-- `insert_dummy_source`: a 1-element `Vec<u8>` -/
def dummySource : Node Part := .source [.int 0] 1 (vecSplit [.int 0])

/-- coalesce closures append the parts -/
def joinNode (k : JoinKind) (left right : List (Node Part)) : Node Part :=
  .coGroup left right List.flatten List.flatten (joinExec k)

end IB
