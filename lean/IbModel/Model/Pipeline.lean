/-!
# Pipeline graph model: `src/pipeline.rs`, the builders, `backwalk_linear`, `run_collect` — at LOCK granularity

`Pipeline = Arc<Mutex<PipelineInner{next_id, nodes: HashMap<NodeId,Node>, edges: Vec<(NodeId,NodeId)>}>>`.
Every method of `Pipeline` takes the lock once; what happens under one lock is one ATOMIC step here:

* `insert_node`  — read `next_id`, bump it, `nodes.insert(id, node)` (a `HashMap` insert: replaces an equal key);
* `connect`      — `edges.push((from,to))`;
* `snapshot`     — clone `nodes` and `edges`;
* `record_metrics_start/end` — lock, touch only the metrics collector (no effect on the graph);
* `set_metrics` / `take_metrics` / `get_metrics` — lock, `metrics = Some(..)` / `metrics.take()` / `metrics.clone()`
  (no effect on the graph).

Builders are SEQUENCES of such steps (the code between two locks touches only thread-local data):

* `from_vec`                        = `[insert]`                                 (helpers/stdlib.rs)
* `apply_transform` / every `map`…  = `[insert; connect parent new]`              (collection.rs, helpers/*.rs)
  — also the barrier builders `group_by_key` (keyed.rs), `combine_values`, `combine_values_lifted`
  (combine.rs), `combine_globally` (combine_global.rs): one `insert_node`, one `connect`, nothing else
* `join_*`                          = `[snapshot(+chain_from left); snapshot(+chain_from right);
                                        insert dummy source; insert CoGroup{left_chain,right_chain}; connect dummy cogroup]`
                                                                                  (helpers/joins.rs)
* `collect_*` → `Runner::run_collect` = `[metrics start; snapshot(+backwalk_linear); ⟨execute outside the lock⟩; metrics end]`
                                                                                  (runner.rs, planner.rs::build_plan)
  — when the planner fails (`build_plan(..)?`: "missing node") the run returns at once: no execution and NO
  `record_metrics_end` (never reached from a published handle: `Props/C08.lean: collect_chain_exists`)

**User code.** No builder calls a user function (closure / `CombineFn`): it only stores it in the node it
inserts. User functions run when a chain is EXECUTED, i.e. inside `run_collect` between its `build_plan` and
its `record_metrics_end`, outside the lock, on thread-local data (the cloned snapshot) — so any point of that
interval is a valid linearisation point; the model attributes the run to the collect's last step. Each
thread carries the explicit trace `calls` of the chains whose user functions it has run; every step except a
collect's last one leaves every thread's trace unchanged (`Props/C08.lean: build_step_runs_no_user_code`).

A thread is a program (list of operations); its program counter `PC` says which atomic step of the current
operation comes next. A history is a *schedule*: a list of thread indices; `run` executes it. A handle is only
usable by others once its builder has RETURNED (after its last step): it is then appended to `pool`
("published"). Each operation starts with a `begin` step in which its handle arguments are looked up in
the pool / the thread's own handles (this is the harness' way of "being given a handle").

The model is generic in the node payload `N` (what a `Node` is — source data, closures — is irrelevant for the
graph discipline) so the theorems hold for every node type; the driver instantiates `N` (see `Driver/D08.lean`).
Imports nothing outside core.
-/
namespace IB.Graph

/-- `PipelineInner` (without the metrics collector) -/
structure PState (N : Type) where
  nextId : Nat
  nodes : List (Nat × N)      -- `HashMap<NodeId, Node>` as an association list in insertion order
  edges : List (Nat × Nat)    -- `Vec<(from, to)>`, push order
deriving Repr

def PState.init {N : Type} : PState N := ⟨0, [], []⟩

variable {N : Type}

/-- `HashMap::insert`: replaces an existing entry with the same key -/
def put (nodes : List (Nat × N)) (id : Nat) (n : N) : List (Nat × N) :=
  nodes.filter (fun p => p.1 != id) ++ [(id, n)]

/-- `Pipeline::insert_node` (one critical section): returns the new state and the allocated id -/
def insertNode (s : PState N) (n : N) : PState N × Nat :=
  ({ s with nextId := s.nextId + 1, nodes := put s.nodes s.nextId n }, s.nextId)

/-- `Pipeline::connect` (one critical section) -/
def connect (s : PState N) (f t : Nat) : PState N :=
  { s with edges := s.edges ++ [(f, t)] }

/-- `HashMap::get`/`remove` lookup -/
def lookupNode (nodes : List (Nat × N)) (id : Nat) : Option N :=
  match nodes.find? (fun p => p.1 == id) with
  | some p => some p.2
  | none => none

/-- the loop of `planner.rs::backwalk_linear` (= `joins.rs::chain_from`): `nodes.remove(&cur)` or
    "missing node" error (`none`); push; follow the FIRST edge whose `to` is `cur`; stop when there is none.
    `acc` is the reversed push order, i.e. already the `chain.reverse()`d result. Every iteration removes a
    node, so `nodes.length + 1` fuel is never exhausted (`backwalkGo_fuel`). -/
def backwalkGo : Nat → List (Nat × N) → List (Nat × Nat) → Nat → List N → Option (List N)
  | 0, _, _, _, _ => none
  | fuel + 1, nodes, edges, cur, acc =>
    match lookupNode nodes cur with
    | none => none
    | some n =>
      match edges.find? (fun e => e.2 == cur) with
      | some e => backwalkGo fuel (nodes.filter (fun p => p.1 != cur)) edges e.1 (n :: acc)
      | none => some (n :: acc)

/-- `snapshot()` followed by `backwalk_linear(nodes, &edges, terminal)` -/
def backwalk (s : PState N) (x : Nat) : Option (List N) :=
  backwalkGo (s.nodes.length + 1) s.nodes s.edges x []

/-! ## variants the check guards against (NOT the code; used for negation witnesses / equivalence) -/

namespace Variant

/-- back-walk that follows the LAST edge into `cur` (`rfind` instead of `find`) -/
def backwalkGoLast : Nat → List (Nat × N) → List (Nat × Nat) → Nat → List N → Option (List N)
  | 0, _, _, _, _ => none
  | fuel + 1, nodes, edges, cur, acc =>
    match lookupNode nodes cur with
    | none => none
    | some n =>
      match edges.reverse.find? (fun e => e.2 == cur) with
      | some e => backwalkGoLast fuel (nodes.filter (fun p => p.1 != cur)) edges e.1 (n :: acc)
      | none => some (n :: acc)

/-- `insert_node` split into two critical sections: read `next_id` under one lock … -/
def readId (s : PState N) : Nat := s.nextId

/-- … and write under another (what `next_id` is by then is ignored) -/
def insertAt (s : PState N) (id : Nat) (n : N) : PState N :=
  { s with nextId := id + 1, nodes := put s.nodes id n }

end Variant

/-! ## operations, program counters, threads -/

/-- how an operation names a handle it "has been given": an index into the published pool (from the
    front / from the back) or into the thread's own results (from the back) -/
inductive Ref where
  | front (k : Nat)
  | back (k : Nat)
  | mine (k : Nat)
deriving Repr, DecidableEq

/-- `sig` of a derive: `none` = applicable to a collection of any element type, the result has the parent's
    type class (`map`/`filter`); `some (need, out)` = applicable only to a collection of class `need`, the
    result has class `out` (`group_by_key`: (K,V) → (K,Vec V); `combine_values`: (K,V) → (K,O); …).
    Classes are only used to resolve handle arguments the way a typed program can (`resolveCls`). -/
inductive Op (N : Type) where
  | source (n : N)                                   -- `from_vec`
  | derive (p : Ref) (sig : Option (Nat × Nat)) (n : N) -- `map`/`filter`/`group_by_key`/`combine_*` on an existing collection
  | join (l r : Ref) (tag : Nat)                     -- `join_inner`/`_left`/`_right`/`_full` (`tag`) of two existing collections
  | collect (x : Ref)                                -- `collect_seq` / `collect_par`
  | setMetrics                                       -- `Pipeline::set_metrics`
  | takeMetrics                                      -- `Pipeline::take_metrics`
  | getMetrics                                       -- `Pipeline::get_metrics` (a clone of the collector, if any)

/-- what is used to build a join: the dummy source node and the `CoGroup` node (of join kind `tag`) holding
    both chains -/
structure Kit (N : Type) where
  dummy : N
  cogroup : Nat → List N → List N → N

/-- the next atomic step of the operation in progress (thread-local variables are the arguments) -/
inductive PC (N : Type) where
  | idle                                         -- between operations (next: `begin`)
  | srcIns (n : N)                               -- from_vec: about to `insert_node`
  | drvIns (p cls : Nat) (n : N)                 -- derive: about to `insert_node` (`cls`: class of the result)
  | drvCon (p m cls : Nat) (n : N)               -- derive: about to `connect(p, m)`; `n` = the payload it inserted under `m`
  | joinSnapL (l r tag : Nat)                    -- join: about to `chain_from(left)`
  | joinSnapR (l r tag : Nat) (lc : List N)      -- join: about to `chain_from(right)`
  | joinInsD (l r tag : Nat) (lc rc : List N)    -- join: about to insert the dummy source (`l r`: the operands, kept for the theorems)
  | joinInsG (l r d tag : Nat) (lc rc : List N)  -- join: about to insert the CoGroup node
  | joinCon (l r d g tag : Nat) (lc rc : List N) -- join: about to `connect(dummy, cogroup)`
  | colStart (x : Nat)                           -- collect: about to `record_metrics_start`
  | colSnap (x : Nat)                            -- collect: about to `build_plan` (snapshot + back-walk)
  | colEnd (x : Nat) (ch : List N)               -- collect: executes the planned chain outside the lock; about to `record_metrics_end`
  | metSet                                       -- about to `set_metrics`
  | metTake                                      -- about to `take_metrics`
  | metGet                                       -- about to `get_metrics`

inductive Outcome (N : Type) where
  | built (id : Nat)
  | collected (x : Nat) (ch : Option (List N))   -- the chain the run executed (`none` = planner error)
  | skipped                                      -- a handle argument could not be resolved (empty pool)
  | panicked                                     -- `chain_from(..).expect(..)` failed
  | metricsSet                                   -- `set_metrics` returned
  | metricsTaken (had : Bool)                    -- `take_metrics` returned `Some(..)` / `None`
  | metricsGot (had : Bool)                      -- `get_metrics` returned `Some(..)` / `None`

structure Thread (N : Type) where
  todo : List (Op N)
  pc : PC N
  own : List Nat
  outs : List (Outcome N)
  calls : List (List N)                     -- trace of user-code runs: the chains whose user functions this thread has executed

structure Cfg (N : Type) where
  g : PState N
  metrics : Bool                            -- `PipelineInner.metrics.is_some()`
  pool : List Nat                           -- published handles, in publication order
  cls : List (Nat × Nat)                    -- element-type class of each published handle (0 = `(K,V)`, 1 = join result, 2 = grouped)
  born : List (Nat × Option (List N))       -- ghost: the lineage of each handle at the moment it was published
  threads : List (Thread N)

def Cfg.init (progs : List (List (Op N))) : Cfg N :=
  { g := PState.init, metrics := false, pool := [], cls := [], born := [],
    threads := progs.map (fun p => { todo := p, pc := .idle, own := [], outs := [], calls := [] }) }

/-- all user-code runs so far, thread by thread -/
def Cfg.calls (c : Cfg N) : List (List N) := c.threads.flatMap Thread.calls

def pick (l : List Nat) (k : Nat) : Option Nat :=
  if l.length = 0 then none else l[k % l.length]?

def resolve (pool own : List Nat) : Ref → Option Nat
  | .front k => pick pool k
  | .back k => pick pool.reverse k
  | .mine k => match pick own.reverse k with
    | some x => some x
    | none => pick pool.reverse k

def classOf (cls : List (Nat × Nat)) (x : Nat) : Nat :=
  match cls.find? (fun p => p.1 == x) with
  | some p => p.2
  | none => 0

/-- typed arguments (join operands, `group_by_key`, `combine_*`) are resolved among the handles of class `k` -/
def resolveCls (pool : List Nat) (cls : List (Nat × Nat)) (own : List Nat) (k : Nat) (r : Ref) : Option Nat :=
  resolve (pool.filter (fun x => classOf cls x == k)) (own.filter (fun x => classOf cls x == k)) r

/-- the builder returns: the handle becomes usable by everybody (ghost: remember its lineage now) -/
def publish (c : Cfg N) (x : Nat) (k : Nat) : Cfg N :=
  { c with pool := c.pool ++ [x],
           cls := c.cls ++ [(x, k)],
           born := c.born ++ [(x, backwalk c.g x)] }

def Thread.finish (th : Thread N) (o : Outcome N) : Thread N :=
  { th with pc := .idle, outs := th.outs ++ [o] }

def Thread.finishBuilt (th : Thread N) (id : Nat) : Thread N :=
  { th with pc := .idle, outs := th.outs ++ [.built id], own := th.own ++ [id] }

/-- `begin`: pop the next operation and resolve its handle arguments -/
def beginOp (c : Cfg N) (th : Thread N) (op : Op N) (rest : List (Op N)) : Thread N :=
  let th := { th with todo := rest }
  match op with
  | .source n => { th with pc := .srcIns n }
  | .derive p none n =>
    match resolve c.pool th.own p with
    | some x => { th with pc := .drvIns x (classOf c.cls x) n }
    | none => th.finish .skipped
  | .derive p (some sg) n =>
    match resolveCls c.pool c.cls th.own sg.1 p with
    | some x => { th with pc := .drvIns x sg.2 n }
    | none => th.finish .skipped
  | .join l r tag =>
    match resolveCls c.pool c.cls th.own 0 l, resolveCls c.pool c.cls th.own 0 r with
    | some a, some b => { th with pc := .joinSnapL a b tag }
    | _, _ => th.finish .skipped
  | .collect x =>
    match resolve c.pool th.own x with
    | some a => { th with pc := .colStart a }
    | none => th.finish .skipped
  | .setMetrics => { th with pc := .metSet }
  | .takeMetrics => { th with pc := .metTake }
  | .getMetrics => { th with pc := .metGet }

/-- one atomic step of thread `th` in configuration `c` (the `threads` field is updated by `step`) -/
def stepTh (kit : Kit N) (c : Cfg N) (th : Thread N) : Cfg N × Thread N :=
  match th.pc with
  | .idle =>
    match th.todo with
    | [] => (c, th)
    | op :: rest => (c, beginOp c th op rest)
  | .srcIns n =>
    let r := insertNode c.g n
    (publish { c with g := r.1 } r.2 0, th.finishBuilt r.2)
  | .drvIns p k n =>
    let r := insertNode c.g n
    ({ c with g := r.1 }, { th with pc := .drvCon p r.2 k n })
  | .drvCon p m k _ =>
    (publish { c with g := connect c.g p m } m k, th.finishBuilt m)
  | .joinSnapL l r tag =>
    match backwalk c.g l with
    | some lc => (c, { th with pc := .joinSnapR l r tag lc })
    | none => (c, th.finish .panicked)
  | .joinSnapR l r tag lc =>
    match backwalk c.g r with
    | some rc => (c, { th with pc := .joinInsD l r tag lc rc })
    | none => (c, th.finish .panicked)
  | .joinInsD l r tag lc rc =>
    let i := insertNode c.g kit.dummy
    ({ c with g := i.1 }, { th with pc := .joinInsG l r i.2 tag lc rc })
  | .joinInsG l r d tag lc rc =>
    let i := insertNode c.g (kit.cogroup tag lc rc)
    ({ c with g := i.1 }, { th with pc := .joinCon l r d i.2 tag lc rc })
  | .joinCon _ _ d g _ _ _ =>
    (publish { c with g := connect c.g d g } g 1, th.finishBuilt g)
  | .colStart x => (c, { th with pc := .colSnap x })
  | .colSnap x =>
    -- `build_plan(p, terminal)?` (runner.rs): a planner error ("missing node") leaves `run_collect` at once —
    -- no execution, NO `record_metrics_end`
    match backwalk c.g x with
    | some ch => (c, { th with pc := .colEnd x ch })
    | none => (c, th.finish (.collected x none))
  | .colEnd x ch =>
    -- the run (`exec_seq`/`exec_par` on the planned chain) happened since the snapshot: the ONLY step that
    -- extends a trace of user-code runs
    (c, { th.finish (.collected x (some ch)) with calls := th.calls ++ [ch] })
  | .metSet => ({ c with metrics := true }, th.finish .metricsSet)
  | .metTake => ({ c with metrics := false }, th.finish (.metricsTaken c.metrics))
  | .metGet => (c, th.finish (.metricsGot c.metrics))

/-- thread `i` performs its next atomic step (a finished or non-existent thread: nothing happens) -/
def step (kit : Kit N) (c : Cfg N) (i : Nat) : Cfg N :=
  match c.threads[i]? with
  | none => c
  | some th =>
    let r := stepTh kit c th
    { r.1 with threads := r.1.threads.set i r.2 }

/-- execute a schedule -/
def run (kit : Kit N) (c : Cfg N) (sched : List Nat) : Cfg N :=
  sched.foldl (step kit) c

/-- name of the lock site the next step of a thread goes through (compared with the real trace) -/
def siteOf (th : Thread N) : String :=
  match th.pc with
  | .idle => match th.todo with
    | [] => "done"
    | _ => "begin"
  | .srcIns _ => "insert_node"
  | .drvIns _ _ _ => "insert_node"
  | .drvCon _ _ _ _ => "connect"
  | .joinSnapL _ _ _ => "snapshot"
  | .joinSnapR _ _ _ _ => "snapshot"
  | .joinInsD _ _ _ _ _ => "insert_node"
  | .joinInsG _ _ _ _ _ _ => "insert_node"
  | .joinCon _ _ _ _ _ _ _ => "connect"
  | .colStart _ => "record_metrics_start"
  | .colSnap _ => "snapshot"
  | .colEnd _ _ => "record_metrics_end"
  | .metSet => "set_metrics"
  | .metTake => "take_metrics"
  | .metGet => "get_metrics"

/-! ## the abstract view used by the invariant: which ids a thread holds / has reserved -/

/-- handles (already published) the thread is working with -/
def PC.held : PC N → List Nat
  | .drvIns p _ _ => [p]
  | .drvCon p _ _ _ => [p]
  | .joinSnapL l r _ => [l, r]
  | .joinSnapR l r _ _ => [l, r]
  | .colStart x => [x]
  | .colSnap x => [x]
  | .colEnd x _ => [x]
  | _ => []

/-- ids the thread has inserted but whose builder has not returned yet (nobody else knows them) -/
def PC.resv : PC N → List Nat
  | .drvCon _ m _ _ => [m]
  | .joinInsG _ _ d _ _ _ => [d]
  | .joinCon _ _ d g _ _ _ => [d, g]
  | _ => []

structure View where
  held : List Nat
  resv : List Nat

def Thread.view (th : Thread N) : View := ⟨th.pc.held ++ th.own, th.pc.resv⟩

/-- the graph, the pool and what each thread holds/has reserved -/
structure ACfg (N : Type) where
  g : PState N
  pool : List Nat
  views : List View

def Cfg.abs (c : Cfg N) : ACfg N := ⟨c.g, c.pool, c.threads.map Thread.view⟩

/-! ## the graph part of the invariant as a decidable check (evaluated by the driver on REAL snapshots) -/

def nodupB : List Nat → Bool
  | [] => true
  | a :: t => !(t.contains a) && nodupB t

/-- ids are exactly `0..nextId-1` in order; every edge goes from an older to a younger existing node; no node has
    two incoming edges (`Props/C08.lean: graphInvB_iff` ties it to the three graph fields of the invariant) -/
def graphInvB (nextId : Nat) (ids : List Nat) (edges : List (Nat × Nat)) : Bool :=
  ids == List.range nextId &&
  edges.all (fun e => decide (e.1 < e.2) && decide (e.2 < nextId)) &&
  nodupB (edges.map Prod.snd)

/-! ## reading a source: `Node::Source{payload: Arc<dyn Any>, vec_ops: Arc<dyn VecOps>}`

`VecOps::{len, split, clone_any}` get the payload as `&dyn Any`. A payload with interior mutability (a `Mutex`, a
cursor into a file) could still change under a `&` borrow, so the model gives every read the payload STATE `σ` and lets
it return a new one: a run that "moves" / drains its source is expressible (`Variant.drainOps`), and "never consumes
its source" is a theorem about `ReadOnly` ops, not a consequence of the data type. The engines read a source in exactly
two ways (runner.rs): `exec_seq` / `run_subplan_seq` → `clone_any(payload)`; `exec_par` / `run_subplan_par` →
`len`, then `split(payload, clamp(partitions))`, falling back to `[clone_any(payload)]` when `split` declines. -/

structure SrcOps (σ R : Type) where
  len : σ → Option Nat
  split : σ → Nat → σ × Option (List (List R))
  cloneAny : σ → σ × Option (List R)

/-- `partitions.max(1).min(total_len.max(1))` -/
def clampParts (partitions : Nat) (total : Option Nat) : Nat :=
  Nat.min (Nat.max partitions 1) (Nat.max (total.getD 0) 1)

/-- how a run reads its head source: `none` = sequential engine, `some p` = parallel engine with `p` requested
    partitions. Returns the payload state afterwards and the partitions read (`none` = "unsupported source"). -/
def readSource {σ R : Type} (ops : SrcOps σ R) (s : σ) : Option Nat → σ × Option (List (List R))
  | none =>
    let r := ops.cloneAny s
    (r.1, r.2.map (fun rows => [rows]))
  | some p =>
    let r := ops.split s (clampParts p (ops.len s))
    match r.2 with
    | some parts => (r.1, some parts)
    | none =>
      let r2 := ops.cloneAny r.1
      (r2.1, r2.2.map (fun rows => [rows]))

/-- a history of runs over ONE source (each with its own mode): the rows every run saw, and the final payload -/
def readMany {σ R : Type} (ops : SrcOps σ R) : σ → List (Option Nat) → σ × List (Option (List R))
  | s, [] => (s, [])
  | s, m :: rest =>
    let r := readSource ops s m
    let t := readMany ops r.1 rest
    (t.1, r.2.map List.flatten :: t.2)

/-- the contract of a `VecOps`: it only READS the payload, and its partitioned view is its whole view cut in pieces -/
structure ReadOnly {σ R : Type} (ops : SrcOps σ R) : Prop where
  cloneKeeps : ∀ s, (ops.cloneAny s).1 = s
  splitKeeps : ∀ s n, (ops.split s n).1 = s
  splitIsClone : ∀ s n parts, (ops.split s n).2 = some parts → (ops.cloneAny s).2 = some parts.flatten

/-- `chunks(k)` of a list, `k ≥ 1` (fuel = the length) -/
def chunksGo {R : Type} : Nat → Nat → List R → List (List R)
  | 0, _, _ => []
  | fuel + 1, k, l => if l.isEmpty then [] else l.take k :: chunksGo fuel k (l.drop k)

/-- `type_token.rs::VecOpsImpl<T>` on a `Vec<T>` payload: `split`: one chunk when `n ≤ 1` or `len ≤ 1`, else
    contiguous chunks of `ceil(len/n)`; `clone_any`: the whole vector. The payload is returned untouched. -/
def vecOps (R : Type) : SrcOps (List R) R where
  len := fun v => some v.length
  split := fun v n =>
    if n ≤ 1 ∨ v.length ≤ 1 then (v, some [v])
    else (v, some (chunksGo v.length ((v.length + n - 1) / n) v))
  cloneAny := fun v => (v, some v)

namespace Variant

/-- what the check guards against: a source whose first full read DRAINS it (`mem::take` of a cache / a moved
    payload): the state is what is left -/
def drainOps (R : Type) : SrcOps (List R) R where
  len := fun v => some v.length
  split := fun v _ => ([], some [v])
  cloneAny := fun v => ([], some v)

end Variant

end IB.Graph
