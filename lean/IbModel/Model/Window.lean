import IbModel.Model.Engine
/-!
# Model of `src/window.rs`, `src/helpers/tumbling.rs`, `src/helpers/timestamped.rs` and `key_by` (C13)

`u64` values are `Nat`s below `2^64`; every arithmetic step is the **checked** operation a build with
`overflow-checks = true` / `debug-assertions = true` performs (the correspondence harness is compiled
that way): `none` = the Rust code panics (subtract/add/multiply with overflow, division by zero,
`debug_assert!(size_ms > 0)`).  `tumbleWrapping` is the same code in a release build (wrapping
arithmetic, no debug assertions; division by zero still panics).

`Legacy.tumble` is `Window::tumble` as it was at the pinned commit (`rel = ts - offset_ms`);
`tumble` follows the current code (offset reduced modulo the size first, `fix:` commit).

**Correspondence of the four variants** (all checked line by line on every run, `harness/src/c13.rs`):
`tumble` ↔ the linked ironbeam crate (overflow-checking harness build), request `TUMBLE`;
`tumbleWrapping` ↔ the text of the current `src/window.rs` compiled as crate `harness/relwin`
(`overflow-checks = false`, `debug-assertions = false`, i.e. release arithmetic), request `TUMBLE-WRAP`;
`Legacy.tumble` / `Legacy.tumbleWrapping` ↔ the VENDORED pre-fix text `harness/chkwin/legacy_window.rs` (verbatim
`impl Window` + `div_floor` of `src/window.rs` at `dfa2e3374cfa`, the parent of the fix commit `a2578065dcd1`; no
`git` at build time), compiled as `harness/chkwin` (checking) / `harness/relwin` (release), requests
`TUMBLE-LEGACY` / `TUMBLE-LEGACY-WRAP`.  A source copy that is missing or does not compile stand-alone never breaks
the build: the harness then writes a `VALIDATION INCOMPLETE` note and `validation:…=NOT-VALIDATED` counters into the
evidence naming the theorems that were proved but not validated in that run.

`Window` gets its `DecidableEq` instance FROM `Window.eqImpl` (the transliterated `impl PartialEq`), through the
proof that `eqImpl` is field-wise equality: the association-list `group_by_key` below therefore compares window keys
by running `eqImpl`, and a change of `eqImpl` that breaks `a.eqImpl b ↔ a = b` breaks this file, not just one theorem.
`splitVec` / `sourceParts` are written with the ENGINE model's `chunksOf` / `clampParts` (`Model/Engine.lean`, the
definitions C01–C08 use); `Proofs/WindowEngine.lean` shows that the bespoke `groupPipeline` below is what the engine
model (`execSeq` / `execPar` after the planner model `optimise`) computes with C04's `group_by_key` node.

The grouping helpers are `map` followed by `group_by_key` (`src/helpers/keyed.rs`): a per-partition
`HashMap<K, Vec<V>>` built with `entry(k).or_default().push(v)` and a merge that walks the
partitions in order doing `entry(k).or_default().extend(vs)`.  `std::HashMap` is modelled as an
insertion-ordered association list (`upsert`); no theorem depends on that order.
-/
namespace IB.Window

/-- `2^64` -/
def U64 : Nat := 18446744073709551616

/-- `Window { start, end }` (closed–open `[start, stop)`; `end` is a Lean keyword) -/
structure Window where
  start : Nat
  stop : Nat
deriving Repr

/-- `Timestamped<T> { ts, value }` -/
structure Timestamped (α : Type) where
  ts : Nat
  value : α
deriving DecidableEq, Repr

/-- `impl PartialEq for Window`: `self.start == other.start && self.end == other.end` -/
def Window.eqImpl (a b : Window) : Bool := a.start == b.start && a.stop == b.stop

/-- `impl PartialEq` is field-wise equality (property theorem `window_eq_iff` restates this) -/
theorem Window.eqImpl_iff (a b : Window) : a.eqImpl b = true ↔ a = b := by
  cases a; cases b; simp [Window.eqImpl]

/-- `Eq` for `Window` AS THE CODE DECIDES IT: the instance every `HashMap<Window, _>` / `HashMap<(K, Window), _>`
    of the model uses runs `eqImpl` -/
instance : DecidableEq Window := fun a b => decidable_of_iff (a.eqImpl b = true) (Window.eqImpl_iff a b)

/-- `Window::new(start, end)` in a build with debug assertions: `debug_assert!(end >= start)` -/
def Window.new? (start stop : Nat) : Option Window := if stop ≥ start then some ⟨start, stop⟩ else none

/-- `Window::new` in a release build (no assertion): any pair is accepted -/
def Window.newRelease (start stop : Nat) : Window := ⟨start, stop⟩

/-- `impl Hash for Window`: the words fed to the hasher, in order (`start.hash; end.hash`) -/
def Window.hashWords (a : Window) : List Nat := [a.start, a.stop]

/-- `impl Ord for Window`: `self.start.cmp(&o.start).then(self.end.cmp(&o.end))` -/
def Window.cmpImpl (a b : Window) : Ordering :=
  (compare a.start b.start).then (compare a.stop b.stop)

/-- `impl PartialOrd for Window`: `Some(self.cmp(o))` -/
def Window.partialCmpImpl (a b : Window) : Option Ordering := some (a.cmpImpl b)

/-! ## checked `u64` arithmetic (`none` = panic) -/

def ckSub (a b : Nat) : Option Nat := if b ≤ a then some (a - b) else none
def ckAdd (a b : Nat) : Option Nat := if a + b < U64 then some (a + b) else none
def ckMul (a b : Nat) : Option Nat := if a * b < U64 then some (a * b) else none
def ckDiv (a b : Nat) : Option Nat := if b = 0 then none else some (a / b)
def ckMod (a b : Nat) : Option Nat := if b = 0 then none else some (a % b)

/-- `div_floor(a, b)`: `q = a / b; r = a % b; if r != 0 && ((r > 0) != (b > 0)) { q - 1 } else { q }` -/
def divFloor (a b : Nat) : Option Nat :=
  match ckDiv a b, ckMod a b with
  | some q, some r =>
    if r ≠ 0 ∧ (decide (r > 0) != decide (b > 0)) then ckSub q 1 else some q
  | _, _ => none

/-- pinned-commit `Window::tumble(ts, size_ms, offset_ms)`, debug/overflow-checking build. -/
def Legacy.tumble (ts size off : Nat) : Option Window :=
  if size = 0 then none else                 -- debug_assert!(size_ms > 0)
  match ckSub ts off with                    -- let rel = ts - offset_ms;
  | none => none
  | some rel =>
  match divFloor rel size with               -- let k = div_floor(rel, size_ms);
  | none => none
  | some k =>
  match ckMul k size with                    -- k * size_ms
  | none => none
  | some m =>
  match ckAdd m off with                     -- let win_start = k * size_ms + offset_ms;
  | none => none
  | some ws =>
  match ckAdd ws size with                   -- end: win_start + size_ms
  | none => none
  | some we => some ⟨ws, we⟩

/-- current `Window::tumble`: `let off = offset_ms % size_ms; let rel = ts - off; …  + off`. -/
def tumble (ts size off : Nat) : Option Window :=
  if size = 0 then none else                 -- debug_assert!(size_ms > 0)
  match ckMod off size with                  -- let off = offset_ms % size_ms;
  | none => none
  | some o =>
  match ckSub ts o with                      -- let rel = ts - off;
  | none => none
  | some rel =>
  match divFloor rel size with               -- let k = div_floor(rel, size_ms);
  | none => none
  | some k =>
  match ckMul k size with                    -- k * size_ms
  | none => none
  | some m =>
  match ckAdd m o with                       -- let win_start = k * size_ms + off;
  | none => none
  | some ws =>
  match ckAdd ws size with                   -- end: win_start + size_ms
  | none => none
  | some we => some ⟨ws, we⟩

/-! ## the same code in a release build (wrapping arithmetic; `x / 0` still panics) -/

def wSub (a b : Nat) : Nat := (a + U64 - b) % U64
def wAdd (a b : Nat) : Nat := (a + b) % U64
def wMul (a b : Nat) : Nat := (a * b) % U64

def divFloorWrapping (a b : Nat) : Option Nat :=
  if b = 0 then none else
  let q := a / b
  let r := a % b
  if r ≠ 0 ∧ (decide (r > 0) != decide (b > 0)) then some (wSub q 1) else some q

def Legacy.tumbleWrapping (ts size off : Nat) : Option Window :=
  match divFloorWrapping (wSub ts off) size with
  | none => none
  | some k =>
    let ws := wAdd (wMul k size) off
    some ⟨ws, wAdd ws size⟩

def tumbleWrapping (ts size off : Nat) : Option Window :=
  if size = 0 then none else
  let o := off % size
  match divFloorWrapping (wSub ts o) size with
  | none => none
  | some k =>
    let ws := wAdd (wMul k size) o
    some ⟨ws, wAdd ws size⟩

/-! ## `group_by_key` over an insertion-ordered association list -/

section GroupBy
variable {κ : Type} [DecidableEq κ] {β : Type}

/-- `m.entry(k).or_default().extend(vs)` (`push(v)` is `extend([v])`) -/
def upsert (k : κ) (vs : List β) : List (κ × List β) → List (κ × List β)
  | [] => [(k, vs)]
  | (k', ws) :: rest => if k' = k then (k', ws ++ vs) :: rest else (k', ws) :: upsert k vs rest

/-- GBK local stage: `for (k, v) in kv { m.entry(k).or_default().push(v) }` -/
def groupLocal (kvs : List (κ × β)) : List (κ × List β) :=
  kvs.foldl (fun m kv => upsert kv.1 [kv.2] m) []

/-- inner loop of the merge stage: `for (k, vs) in m { acc.entry(k).or_default().extend(vs) }` -/
def mergeInto (acc m : List (κ × List β)) : List (κ × List β) :=
  m.foldl (fun a g => upsert g.1 g.2 a) acc

/-- GBK merge stage: partitions in order -/
def groupMerge (parts : List (List (κ × List β))) : List (κ × List β) :=
  parts.foldl mergeInto []

/-- `exec_par` at a `GroupByKey`: `merge(parts.map(local))`; `exec_seq` is the case `[whole]`. -/
def groupByKeyPar (parts : List (List (κ × β))) : List (κ × List β) :=
  groupMerge (parts.map groupLocal)

def groupByKeySeq (xs : List (κ × β)) : List (κ × List β) := groupByKeyPar [xs]

/-- the values grouped under `k` (`[]` when the key is absent) -/
def groupOf (k : κ) : List (κ × List β) → List β
  | [] => []
  | (k', ws) :: rest => if k' = k then ws else groupOf k rest

/-- the grouped rows flattened back to `(key, value)` rows -/
def ungroup (m : List (κ × List β)) : List (κ × β) :=
  m.flatMap (fun g => g.2.map (fun v => (g.1, v)))

end GroupBy

/-! ## `VecOpsImpl::split` and the partition count of `exec_par` -/

/-- `split(data, n)`: one chunk if `n ≤ 1 ∨ len ≤ 1`, else contiguous chunks (`v.chunks(c)`) of `c = ceil(len/n)`;
    `IB.chunksOf` is the engine model's `slice::chunks` (fuel = length), the same definition `vecSplit` of C01–C08 uses -/
def splitVec {α : Type} (xs : List α) (n : Nat) : List (List α) :=
  if n ≤ 1 ∨ xs.length ≤ 1 then [xs]
  else IB.chunksOf ((xs.length + n - 1) / n) xs.length xs

/-- `exec_par`: `parts = partitions.max(1).min(len.max(1))` (`IB.clampParts`), then `split` -/
def sourceParts {α : Type} (xs : List α) (partitions : Nat) : List (List α) :=
  splitVec xs (IB.clampParts partitions xs.length)

/-! ## the windowing helpers of `helpers/tumbling.rs` -/

section Helpers
variable {α : Type} {κ : Type} [DecidableEq κ] {β : Type}

/-- a `map` step whose closure may panic (`none`): the whole run panics if any element does -/
def mapAll {α β : Type} (f : α → Option β) : List α → Option (List β)
  | [] => some []
  | x :: xs =>
    match f x, mapAll f xs with
    | some y, some ys => some (y :: ys)
    | _, _ => none

/-- closure shape of both `key_by_window`s: `(key(x)  /* may panic */, value(x).clone())` -/
def keyed (g : α → Option κ) (v : α → β) (x : α) : Option (κ × β) :=
  (g x).map (fun k => (k, v x))

/-- a keyed `map` over every partition (stateless, order-preserving) followed by `group_by_key` -/
def groupPipeline (f : α → Option (κ × β)) (parts : List (List α)) : Option (List (κ × List β)) :=
  (mapAll (mapAll f) parts).map groupByKeyPar

/-- `helpers/timestamped.rs::to_timestamped`: `map(|p| Timestamped::new(p.0, p.1.clone()))` -/
def toTimestamped (xs : List (Nat × β)) : List (Timestamped β) :=
  xs.map (fun p => ⟨p.1, p.2⟩)

/-- `helpers/timestamped.rs::attach_timestamps`: `map(move |t| Timestamped::new(ts_fn(t), t.clone()))` -/
def attachTimestamps (tsFn : α → Nat) (xs : List α) : List (Timestamped α) :=
  xs.map (fun t => ⟨tsFn t, t⟩)

/-- `helpers/keyed.rs::key_by`: `map(move |t| (key_fn(t), t.clone()))` -/
def keyBy {α κ : Type} (keyFn : α → κ) (xs : List α) : List (κ × α) :=
  xs.map (fun t => (keyFn t, t))

/-- key of unkeyed `key_by_window`: `Window::tumble(ev.ts, size, off)` -/
def windowOf (size off : Nat) (ev : Timestamped β) : Option Window := tumble ev.ts size off

/-- key of keyed `key_by_window`: `(kv.0.clone(), Window::tumble(kv.1.ts, size, off))` -/
def keyWindowOf (size off : Nat) (kv : κ × Timestamped β) : Option (κ × Window) :=
  (tumble kv.2.ts size off).map (fun w => (kv.1, w))

/-- closure of unkeyed `key_by_window`: `(Window::tumble(ev.ts, size, off), ev.value.clone())` -/
def windowKey (size off : Nat) : Timestamped β → Option (Window × β) :=
  keyed (windowOf size off) (fun ev => ev.value)

/-- closure of keyed `key_by_window`: `((k.clone(), Window::tumble(ev.ts, size, off)), ev.value.clone())` -/
def keyWindowKey (size off : Nat) : κ × Timestamped β → Option ((κ × Window) × β) :=
  keyed (keyWindowOf size off) (fun kv => kv.2.value)

/-- `PCollection<Timestamped<T>>::key_by_window` on one partition -/
def keyByWindow (size off : Nat) (xs : List (Timestamped β)) : Option (List (Window × β)) :=
  mapAll (windowKey size off) xs

/-- `PCollection<(K, Timestamped<V>)>::key_by_window` on one partition -/
def keyByKeyAndWindow (size off : Nat) (xs : List (κ × Timestamped β)) :
    Option (List ((κ × Window) × β)) :=
  mapAll (keyWindowKey size off) xs

/-- `key_by_window(..).collect_*()` over the given partitions: the stateless `map` runs on every
    partition, the terminal vector is the partitions concatenated in order
    (`exec_seq` is the case `[whole]`, `exec_par` the case `sourceParts whole n`) -/
def keyByWindowPar (size off : Nat) (parts : List (List (Timestamped β))) : Option (List (Window × β)) :=
  (mapAll (keyByWindow size off) parts).map List.flatten

/-- keyed `key_by_window(..).collect_*()` over the given partitions -/
def keyByKeyAndWindowPar (size off : Nat) (parts : List (List (κ × Timestamped β))) :
    Option (List ((κ × Window) × β)) :=
  (mapAll (keyByKeyAndWindow size off) parts).map List.flatten

/-- `group_by_window` = `key_by_window(..).group_by_key()` over the given partitions -/
def groupByWindow (size off : Nat) (parts : List (List (Timestamped β))) :
    Option (List (Window × List β)) :=
  groupPipeline (windowKey size off) parts

/-- `group_by_key_and_window` = keyed `key_by_window(..).group_by_key()` over the given partitions -/
def groupByKeyAndWindow (size off : Nat) (parts : List (List (κ × Timestamped β))) :
    Option (List ((κ × Window) × List β)) :=
  groupPipeline (keyWindowKey size off) parts

/-! ### the same helpers in a RELEASE build (`tumbleWrapping`: no panic for `size ≥ 1`, possibly a garbage window).
Only `Window::tumble` itself is compared with a release compilation (`TUMBLE-WRAP`); the pipeline around it is the
same `map` + `group_by_key`. -/

def windowKeyRelease (size off : Nat) : Timestamped β → Option (Window × β) :=
  keyed (fun ev => tumbleWrapping ev.ts size off) (fun ev => ev.value)

def groupByWindowRelease (size off : Nat) (parts : List (List (Timestamped β))) :
    Option (List (Window × List β)) :=
  groupPipeline (windowKeyRelease size off) parts

/-! ### what the derived observations of the harness show of a grouping (`gbwl`, `gbws`, `gbwj`) -/

/-- `combine_values_lifted(Sum)` after `group_by_window`: one `(window, sum)` row per group -/
def sumGroups (gs : List (κ × List Int)) : List (κ × Int) :=
  gs.map (fun g => (g.1, g.2.foldl (· + ·) 0))

/-- `collect_seq_sorted` / `collect_par_sorted_by_key`: rows ordered by `impl Ord for Window` (stable) -/
def sortByWindow (gs : List (Window × List β)) : List (Window × List β) :=
  gs.mergeSort (fun a b => a.1.cmpImpl b.1 != .gt)

/-- `join_inner`: every pair of a left and a right row with equal keys (left-major) -/
def joinInner {γ : Type} (l : List (κ × β)) (r : List (κ × γ)) : List (κ × (β × γ)) :=
  l.flatMap (fun a => (r.filter (fun b => b.1 = a.1)).map (fun b => (a.1, (a.2, b.2))))

end Helpers

end IB.Window
