import IbModel.Model.Io
/-!
# Model of the compression layer (C10)

Transliteration of `src/io/compression.rs` (codec registry, `detect_from_extension`,
`detect_from_magic`, `auto_detect_reader`, `auto_detect_writer`) and of the way every reader / writer
entry point of `src/io/jsonl.rs`, `src/io/csv.rs`, `src/helpers/{jsonl,csv}.rs` and
`src/io/cloud/readers.rs` goes through (or, at the pinned commit, failed to go through) that layer.

* A path is a `List Char`, a byte string a `List Nat`.
* The registry is a *parameter* `tbl : List CodecEntry`; the running code's registry is dumped on every
  run into `IB.Generated.codecTable` (see `Props/C10.lean`, `Driver/D10.lean`).
* The codecs themselves (flate2, zstd, bzip2, xz2) are ABSTRACT: a `CodecImpl` is any pair of functions
  `compress / decompress` keyed by codec name; the round-trip law and "compressed output starts with
  the format signature" are hypotheses of the theorems (`Lawful`), never axioms. `toy` is a concrete
  lawful instance used by the driver and by the non-vacuity examples.
* `none` = the read fails with an error.
* A reader source is a `Src`: the bytes it will deliver, interleaved with the I/O faults it raises
  (`ErrorKind::Interrupted`, any other error) at given stream offsets, plus a read schedule (how many bytes
  each successful `read` returns at most); `File` / `Cursor` = `Src.full`.
* The registry is process-wide STATE (`CODEC_REGISTRY : RwLock<Option<Vec<..>>>`): `Registry`,
  `Registry.get` (= `get_registry`, initialises on first use), `Registry.register` (= `register_codec`).
  Every detection function takes the table `get_registry()` returned as its parameter `tbl`.
* Every writer / reader entry point has its own definition mirroring its Rust body; the format layer and
  the shard arithmetic come from `IB.Io` (the model of property C09).

`Legacy.*` = the code at the pinned commit `a2588b9` (before the `fix:` commits): bzip2 magic "BZ",
parallel writers that never open the final file through `auto_detect_writer`, the cloud writer's
`Path::extension` test, and `auto_detect_reader` deciding on ONE `fill_buf()` of the source; plus
`Legacy.readHeadSwallow` = `read_head` as introduced by `71bba51`, which stopped at a source error and
let detection run on the partial head (the error was swallowed).
-/
namespace IB.Compression

abbrev Bytes := List Nat

/-- one row of `CODEC_REGISTRY`: `name()`, `extensions()`, `magic_bytes()` -/
structure CodecEntry where
  name : String
  exts : List String
  magic : Option (List Nat)
  deriving DecidableEq, Repr

def CodecEntry.ofRow (r : String × List String × Option (List Nat)) : CodecEntry :=
  ⟨r.1, r.2.1, r.2.2⟩

/-! ## `to_string_lossy().to_lowercase()`

`str::to_lowercase` is Unicode lower-casing. Extensions are ASCII, so all that matters for the suffix
test is which characters produce ASCII output: `A–Z` (→ `a–z`), U+0130 `İ` (→ `i` U+0307) and the
Kelvin sign U+212A (→ `k`). Every other non-ASCII character lower-cases to non-ASCII characters; the
model leaves those unchanged (checked over all Unicode scalar values by the harness). -/
def lowerChar (c : Char) : List Char :=
  if 'A' ≤ c ∧ c ≤ 'Z' then [Char.ofNat (c.toNat + 32)]
  else if c = Char.ofNat 0x130 then ['i', Char.ofNat 0x307]
  else if c = Char.ofNat 0x212A then ['k']
  else [c]

def lowerPath (p : List Char) : List Char := p.flatMap lowerChar

/-- `detect_from_extension`: lower-case the whole path, then the first codec (registry order) one of
    whose extensions is a suffix (`ends_with`) of it. -/
def detectExt (tbl : List CodecEntry) (path : List Char) : Option CodecEntry :=
  let p := lowerPath path
  tbl.find? (fun c => c.exts.any (fun e => e.toList.isSuffixOf p))

/-! ## the registry as state

`static CODEC_REGISTRY: RwLock<Option<Vec<Arc<dyn CompressionCodec>>>> = RwLock::new(None)`.
`init` = `init_registry()` (the built-in codecs). Both accessors take the WRITE lock, so every call is
atomic: a program's use of the registry is a sequence of `RegOp`s. -/

abbrev Registry := Option (List CodecEntry)

/-- `get_registry()`: initialise on first use, return a clone of the list -/
def Registry.get (init : List CodecEntry) (r : Registry) : List CodecEntry × Registry :=
  match r with
  | none => (init, some init)
  | some t => (t, some t)

/-- `register_codec(c)`: initialise on first use, then `push` -/
def Registry.register (init : List CodecEntry) (r : Registry) (c : CodecEntry) : Registry :=
  match r with
  | none => some (init ++ [c])
  | some t => some (t ++ [c])

inductive RegOp
  | get
  | register (c : CodecEntry)
  deriving Repr

def Registry.step (init : List CodecEntry) (r : Registry) : RegOp → Registry
  | .get => (r.get init).2
  | .register c => r.register init c

/-- the state after a sequence of registry operations (any interleaving of threads is such a sequence) -/
def Registry.run (init : List CodecEntry) (r : Registry) (ops : List RegOp) : Registry :=
  ops.foldl (Registry.step init) r

/-- the codecs a sequence of operations registered, in order -/
def registeredBy : List RegOp → List CodecEntry
  | [] => []
  | .get :: ops => registeredBy ops
  | .register c :: ops => c :: registeredBy ops

/-! ## a `Read` and what `auto_detect_reader` peeks from it

A `Read` is modelled by the stream it will deliver — bytes interleaved with the I/O faults the source
raises at that point of the stream (`Interrupted`: a signal arrived, the call must be retried; `error`:
any other `io::Error`, e.g. a time-out, delivered ONCE) — and a *read schedule*: the `i`-th successful
call `read(buf)` returns at most `sched[i] + 1` bytes (a `Read` may always return fewer bytes than asked
for; `0` bytes for a non-empty buffer means end of stream, hence the `+ 1`). Successful calls beyond the
schedule fill the buffer. A read never crosses a pending fault; once no byte is left every call returns
`Ok(0)` (faults behind the last byte never fire).
`File` and `Cursor<Vec<u8>>` (the only sources the crate's own entry points use) have no faults and the
empty schedule; a pipe / socket / chained reader may deliver its first byte alone (`sched = [0]`). -/
inductive Fault
  | interrupted
  | error
  deriving DecidableEq, Repr

inductive Item
  | byte (b : Nat)
  | fault (f : Fault)
  deriving DecidableEq, Repr

structure Src where
  items : List Item
  sched : List Nat
  deriving Repr

/-- the bytes of a stream -/
def bytesOf : List Item → Bytes
  | [] => []
  | .byte b :: r => b :: bytesOf r
  | .fault _ :: r => bytesOf r

def Src.data (s : Src) : Bytes := bytesOf s.items

/-- a fault-free source with a read schedule -/
def Src.chunked (bytes : Bytes) (sched : List Nat) : Src := ⟨bytes.map .byte, sched⟩

/-- no `error` fault anywhere in the stream (`Interrupted` faults are allowed) -/
def errorFree (is : List Item) : Bool := is.all fun i => i != .fault .error

def Src.ErrorFree (s : Src) : Prop := errorFree s.items = true

/-- up to `n` leading bytes, stopping in front of a fault: the bytes and the stream after them -/
def takeBytes : Nat → List Item → Bytes × List Item
  | 0, is => ([], is)
  | _ + 1, [] => ([], [])
  | n + 1, .byte b :: r => (b :: (takeBytes n r).1, (takeBytes n r).2)
  | _ + 1, .fault f :: r => ([], .fault f :: r)

/-- result of one `read` call -/
inductive ReadRes
  | ok (bs : Bytes)
  | interrupted
  | error
  deriving DecidableEq, Repr

/-- one call `read(&mut buf)` with `buf.len() = cap`: the result and the source afterwards -/
def Src.read (s : Src) (cap : Nat) : ReadRes × Src :=
  if bytesOf s.items = [] then (.ok [], s)
  else match s.items with
    | .fault .interrupted :: r => (.interrupted, ⟨r, s.sched⟩)
    | .fault .error :: r => (.error, ⟨r, s.sched⟩)
    | is =>
      let lim := match s.sched with
        | [] => cap
        | k :: _ => min cap (k + 1)
      (.ok (takeBytes lim is).1, ⟨(takeBytes lim is).2, s.sched.tail⟩)

/-- capacity of the `BufReader` whose `fill_buf()` is peeked -/
def bufCap : Nat := 8192

/-- the per-codec test of `detect_from_magic` -/
def magicMatches (buf : Bytes) (c : CodecEntry) : Bool :=
  match c.magic with
  | some m => decide (m.length ≤ buf.length) && m.isPrefixOf buf
  | none => false

/-- `detect_from_magic` on the buffer ONE `fill_buf()` returned: empty → `None`; else the first codec
    (registry order) whose magic bytes are a prefix of the buffer. -/
def detectMagic (tbl : List CodecEntry) (buf : Bytes) : Option CodecEntry :=
  if buf.isEmpty then none else tbl.find? (magicMatches buf)

/-- `longest_magic()`: the length of the longest signature in the registry -/
def magicLen (c : CodecEntry) : Nat := match c.magic with | some x => x.length | none => 0

def headLen (tbl : List CodecEntry) : Nat := tbl.foldl (fun m c => max m (magicLen c)) 0

/-- `read_head(reader, want)` (current code):
    `while len < want { match reader.read(&mut head[len..]) { Ok(0) => break, Ok(n) => len += n,
       Err(Interrupted) => {}, Err(e) => return Err(e) } }`.
    `none` = the source error is returned to the caller. Every iteration that does not stop consumes at
    least one item of the stream, so `fuel = items.length + 1` iterations suffice.
    Returns the collected head and the source after it. -/
def readHead : Nat → Nat → Bytes → Src → Option (Bytes × Src)
  | 0, _, acc, s => some (acc, s)
  | fuel + 1, want, acc, s =>
    if acc.length < want then
      match s.read (want - acc.length) with
      | (.ok bs, s') => if bs.isEmpty then some (acc, s) else readHead fuel want (acc ++ bs) s'
      | (.interrupted, s') => readHead fuel want acc s'
      | (.error, _) => none
    else some (acc, s)

/-- closed form of `read_head` (proved equal for every read schedule, `Proofs/Compression.lean`): the
    first `n` bytes of the stream, `Interrupted` faults skipped, `none` at an `error` fault that has a
    byte behind it -/
def headScan : List Item → Nat → Option (Bytes × List Item)
  | is, 0 => some ([], is)
  | [], _ + 1 => some ([], [])
  | .byte b :: r, n + 1 => (headScan r n).map fun t => (b :: t.1, t.2)
  | .fault f :: r, n + 1 =>
    if bytesOf r = [] then some ([], .fault f :: r)
    else match f with
      | .interrupted => headScan r (n + 1)
      | .error => none

/-- what `auto_detect_reader` does before it decides (`none` = `read_head` returned the source's error):
    the buffer `detect_from_magic` looks at (`none` = its `fill_buf()` failed: `.ok()?` → no detection),
    the bytes taken from the source but not yet handed on (the head, chained back in front; or the
    `BufReader`'s buffer), and the source after them.
    First `fill_buf()` of `BufReader::new(Cursor::new(head).chain(rest))`: `Chain::read` serves the cursor
    while it has bytes (ONE read never crosses into the second reader), else the rest. -/
def peek (tbl : List CodecEntry) (s : Src) : Option (Option Bytes × Bytes × Src) :=
  (readHead (s.items.length + 1) (headLen tbl) [] s).map fun hr =>
    if hr.1.isEmpty then
      match hr.2.read bufCap with
      | (.ok bs, r) => (some bs, bs, r)
      | (_, r) => (none, [], r)
    else (some (hr.1.take bufCap), hr.1, hr.2)

/-- reading a stream to its end (`read_to_end`, `BufRead::lines`, a decoder): `Interrupted` is retried,
    any other error ends the read with `Err` (`none`); nothing is delivered behind the last byte -/
def drainItems : List Item → Option Bytes
  | [] => some []
  | .byte b :: r => (drainItems r).map (b :: ·)
  | .fault .interrupted :: r => drainItems r
  | .fault .error :: r => if bytesOf r = [] then some [] else none

/-- abstract codecs, keyed by codec name -/
structure CodecImpl where
  compress : String → Bytes → Bytes
  decompress : String → Bytes → Option Bytes

/-- which codec `auto_detect_reader` wraps the stream with: extension first, then magic bytes.
    Outer `none` = `auto_detect_reader` itself returns `Err` (a source error while it collected the head). -/
def readerCodecSrc (tbl : List CodecEntry) (path : List Char) (s : Src) : Option (Option CodecEntry) :=
  match detectExt tbl path with
  | some c => some (some c)
  | none => (peek tbl s).map fun p => p.1.bind (detectMagic tbl)

/-- `auto_detect_reader(reader, path)` followed by reading the returned stream to its end; `none` = an
    error (from the source or from the decoder) reaches the caller.
    Extension branch: the decoder wraps the reader itself. Magic branch: the decoder (or the
    pass-through `BufReader`) wraps `head ++ rest`.
    (For a source with an `error` fault BEHIND the part `auto_detect_reader` itself reads, the model lets
    the read fail; a decoder that stops at its end-of-stream marker in front of the fault would not see it.) -/
def autoReaderSrc (K : CodecImpl) (tbl : List CodecEntry) (path : List Char) (s : Src) : Option Bytes :=
  match detectExt tbl path with
  | some c => (drainItems s.items).bind (K.decompress c.name)
  | none =>
    match peek tbl s with
    | none => none
    | some p =>
      match p.1.bind (detectMagic tbl) with
      | some c => ((drainItems p.2.2.items).map (p.2.1 ++ ·)).bind (K.decompress c.name)
      | none => (drainItems p.2.2.items).map (p.2.1 ++ ·)

/-- a `File` / `Cursor` source: every `read` fills the buffer -/
def Src.full (bytes : Bytes) : Src := Src.chunked bytes []

/-- `auto_detect_reader(File::open(path)?, path)` / `auto_detect_reader(Cursor::new(data), key)` -/
def autoReader (K : CodecImpl) (tbl : List CodecEntry) (path : List Char) (bytes : Bytes) : Option Bytes :=
  autoReaderSrc K tbl path (Src.full bytes)

/-- the decision on a `File` / `Cursor` (which never fails while the head is collected) -/
def readerCodec (tbl : List CodecEntry) (path : List Char) (bytes : Bytes) : Option CodecEntry :=
  (readerCodecSrc tbl path (Src.full bytes)).getD none

/-- how many leading bytes `detect_from_magic` gets to see: the longest signature, capped by the `BufReader` -/
def peekLen (tbl : List CodecEntry) : Nat := min (headLen tbl) bufCap

/-- closed form (proved equal for EVERY read schedule and every placement of `Interrupted` faults,
    `Proofs/Compression.lean`): the decision only depends on the first `peekLen tbl` bytes of the stream -/
def readerCodecSpec (tbl : List CodecEntry) (path : List Char) (bytes : Bytes) : Option CodecEntry :=
  match detectExt tbl path with
  | some c => some c
  | none => detectMagic tbl (bytes.take (peekLen tbl))

def autoReaderSpec (K : CodecImpl) (tbl : List CodecEntry) (path : List Char) (bytes : Bytes) : Option Bytes :=
  match readerCodecSpec tbl path bytes with
  | some c => K.decompress c.name bytes
  | none => some bytes

/-- `auto_detect_writer` + writing `plain` + flush/drop: extension only -/
def autoWriter (K : CodecImpl) (tbl : List CodecEntry) (path : List Char) (plain : Bytes) : Bytes :=
  match detectExt tbl path with
  | some c => K.compress c.name plain
  | none => plain

/-! ## the cloud writer's own, hard-coded extension chain (`write_cloud_jsonl_vec`) -/

/-- the `if / else if` chain of `write_cloud_jsonl_vec`, in source order -/
def cloudChain : List (String × List String) :=
  [("gzip", [".gz", ".gzip"]), ("zstd", [".zst", ".zstd"]), ("bzip2", [".bz2", ".bzip2"]), ("xz", [".xz"])]

/-- current code: `key.to_lowercase().ends_with(ext)` -/
def cloudWriterCodec (key : List Char) : Option String :=
  let k := lowerPath key
  (cloudChain.find? (fun r => r.2.any (fun e => e.toList.isSuffixOf k))).map (·.1)

def cloudWriter (K : CodecImpl) (key : List Char) (plain : Bytes) : Bytes :=
  match cloudWriterCodec key with
  | some n => K.compress n plain
  | none => plain

/-! ## entry points

Every entry point is modelled by its OWN definition that mirrors what its Rust body does with the
compression layer: which file handles it opens, which of them it passes through
`auto_detect_writer` / `auto_detect_reader`, and what it writes to / parses from them. The format layer
(serde_json / csv / `BufRead::lines`, shard arithmetic — the subject of property C09, whose model
`IB.Io` is reused here) is a parameter:

* writers: `ser : ρ → Bytes` = the bytes of one record (JSONL: `to_writer` output; the writer adds
  `\n`. CSV: one serialised record including its terminator), CSV `header : Bytes`;
* readers: a `ReadFmt`: `lines` = `BufRead::lines()` / `csv::Reader::records()` (after the header) over
  a PLAIN stream (`none` = the stream itself is not readable, e.g. invalid UTF-8), `blank`, `de`.

`Option`: `none` = the call returns `Err` or panics. -/

/-- `w.write_all(ser item); w.write_all(b"\n")` for every item -/
def jsonlPlain {ρ : Type} (ser : ρ → Bytes) (rs : List ρ) : Bytes :=
  (rs.map fun r => ser r ++ [10]).flatten

/-- `write_jsonl_vec`: `File::create(path)`, `auto_detect_writer(f, path)`, every item, `flush` -/
def writeJsonlVec {ρ : Type} (K : CodecImpl) (tbl : List CodecEntry) (ser : ρ → Bytes)
    (path : List Char) (rs : List ρ) : Bytes :=
  autoWriter K tbl path (jsonlPlain ser rs)

/-- `write_jsonl_par` (current code). Empty data: the final file is opened through
    `auto_detect_writer` and flushed. Otherwise every shard `data[start..end]` goes to its own part file
    through a bare `BufWriter` (NOT the compression layer); then the final file is opened through
    `auto_detect_writer(File::create(path), path)` and the part files are `io::copy`-ed into it in
    shard order. Shard bounds: `IB.Io.jsonlShardBounds` (C09). -/
def writeJsonlPar {ρ : Type} (K : CodecImpl) (tbl : List CodecEntry) (ser : ρ → Bytes)
    (path : List Char) (rs : List ρ) (shards : Option Nat) (auto : Nat) : Option Bytes :=
  if rs.length = 0 then some (autoWriter K tbl path [])
  else (IB.Io.parWriteWith IB.Io.jsonlShardBounds rs shards auto).map fun parts =>
    autoWriter K tbl path ((parts.map (jsonlPlain ser)).flatten)

/-- `PCollection::write_jsonl`: `collect_seq()` (`rs` = what it returns) then `write_jsonl_vec` -/
def pcWriteJsonl {ρ : Type} (K : CodecImpl) (tbl : List CodecEntry) (ser : ρ → Bytes)
    (path : List Char) (rs : List ρ) : Bytes :=
  writeJsonlVec K tbl ser path rs

/-- `PCollection::write_jsonl_par`: `collect_seq()` then `write_jsonl_par` -/
def pcWriteJsonlPar {ρ : Type} (K : CodecImpl) (tbl : List CodecEntry) (ser : ρ → Bytes)
    (path : List Char) (rs : List ρ) (shards : Option Nat) (auto : Nat) : Option Bytes :=
  writeJsonlPar K tbl ser path rs shards auto

/-- `write_cloud_jsonl_vec`: the codec comes from the function's own `ends_with` chain; the
    `compress_jsonl_<codec>` helpers push the same `item, "\n"` sequence through THEIR OWN encoder
    instances (`Kc`: `GzEncoder::new(.., default)`, `ZstdEncoder::new(.., 3)`, … constructed in
    `cloud/readers.rs`, not the registry's `wrap_writer_dyn`) -/
def writeCloudJsonl {ρ : Type} (Kc : CodecImpl) (ser : ρ → Bytes) (key : List Char) (rs : List ρ) : Bytes :=
  cloudWriter Kc key (jsonlPlain ser rs)

/-- what a `csv::Writer` with `has_headers(hdr)` emits for `rs` (header before the FIRST row only) -/
def csvPlain {ρ : Type} (hdr : Bool) (header : Bytes) (ser : ρ → Bytes) (rs : List ρ) : Bytes :=
  (IB.Io.csvWrite hdr header ser rs).flatten

/-- `write_csv_vec`: `auto_detect_writer(File::create(path), path)` handed to the `csv::Writer` -/
def writeCsvVec {ρ : Type} (K : CodecImpl) (tbl : List CodecEntry) (hdr : Bool) (header : Bytes)
    (ser : ρ → Bytes) (path : List Char) (rs : List ρ) : Bytes :=
  autoWriter K tbl path (csvPlain hdr header ser rs)

/-- `write_csv` (the `&Vec<T>` convenience wrapper re-exported at the crate root): calls `write_csv_vec` -/
def writeCsvAlias {ρ : Type} (K : CodecImpl) (tbl : List CodecEntry) (hdr : Bool) (header : Bytes)
    (ser : ρ → Bytes) (path : List Char) (rs : List ρ) : Bytes :=
  writeCsvVec K tbl hdr header ser path rs

/-- `write_csv_par` (current code). Empty data: wrapped, flushed. Otherwise every range of
    `split_ranges` is serialised into an in-memory buffer (plain; only chunk 0 may emit the header);
    then the final file is opened through `auto_detect_writer` and the buffers are written in order. -/
def writeCsvPar {ρ : Type} (K : CodecImpl) (tbl : List CodecEntry) (hdr : Bool) (header : Bytes)
    (ser : ρ → Bytes) (path : List Char) (rs : List ρ) (shards : Option Nat) (auto : Nat) : Option Bytes :=
  if rs.length = 0 then some (autoWriter K tbl path [])
  else (IB.Io.parWriteCsvParts hdr header ser rs shards auto).map fun bufs =>
    autoWriter K tbl path ((bufs.map List.flatten).flatten)

/-- `PCollection::write_csv`: `collect_seq()` then `write_csv_vec` -/
def pcWriteCsv {ρ : Type} (K : CodecImpl) (tbl : List CodecEntry) (hdr : Bool) (header : Bytes)
    (ser : ρ → Bytes) (path : List Char) (rs : List ρ) : Bytes :=
  writeCsvVec K tbl hdr header ser path rs

/-- `PCollection::write_csv_par(path, shards, hdr)`: `collect_par(shards, None)` (in-memory source:
    `IB.Io.collectParVec`; `auto` = the runner's default partition count when `shards = None`) then the
    SEQUENTIAL `write_csv_vec` -/
def pcWriteCsvPar {ρ : Type} (K : CodecImpl) (tbl : List CodecEntry) (hdr : Bool) (header : Bytes)
    (ser : ρ → Bytes) (path : List Char) (rs : List ρ) (shards : Option Nat) (auto : Nat) : Bytes :=
  writeCsvVec K tbl hdr header ser path (IB.Io.collectParVec rs (shards.getD auto))

/-- the JSONL writer entry points -/
inductive JWriter
  | vec                                       -- `write_jsonl_vec`
  | par (shards : Option Nat) (auto : Nat)    -- `write_jsonl_par`
  | pc                                        -- `PCollection::write_jsonl`
  | pcPar (shards : Option Nat) (auto : Nat)  -- `PCollection::write_jsonl_par`
  | cloud                                     -- `write_cloud_jsonl_vec`
  deriving DecidableEq, Repr

/-- the CSV writer entry points -/
inductive CWriter
  | vec                                       -- `write_csv_vec`
  | alias                                     -- `write_csv`
  | par (shards : Option Nat) (auto : Nat)    -- `write_csv_par`
  | pc                                        -- `PCollection::write_csv`
  | pcPar (shards : Option Nat) (auto : Nat)  -- `PCollection::write_csv_par`
  deriving DecidableEq, Repr

/-- `K` = the registry's codecs (`wrap_writer_dyn`), `Kc` = the cloud writer's own encoders -/
def JWriter.run {ρ : Type} (K Kc : CodecImpl) (tbl : List CodecEntry) (ser : ρ → Bytes) :
    JWriter → List Char → List ρ → Option Bytes
  | .vec, p, rs => some (writeJsonlVec K tbl ser p rs)
  | .par sh a, p, rs => writeJsonlPar K tbl ser p rs sh a
  | .pc, p, rs => some (pcWriteJsonl K tbl ser p rs)
  | .pcPar sh a, p, rs => pcWriteJsonlPar K tbl ser p rs sh a
  | .cloud, p, rs => some (writeCloudJsonl Kc ser p rs)

def CWriter.run {ρ : Type} (K : CodecImpl) (tbl : List CodecEntry) (hdr : Bool) (header : Bytes)
    (ser : ρ → Bytes) : CWriter → List Char → List ρ → Option Bytes
  | .vec, p, rs => some (writeCsvVec K tbl hdr header ser p rs)
  | .alias, p, rs => some (writeCsvAlias K tbl hdr header ser p rs)
  | .par sh a, p, rs => writeCsvPar K tbl hdr header ser p rs sh a
  | .pc, p, rs => some (pcWriteCsv K tbl hdr header ser p rs)
  | .pcPar sh a, p, rs => some (pcWriteCsvPar K tbl hdr header ser p rs sh a)

/-! ### readers -/

/-- format layer of a record reader over a PLAIN byte stream -/
structure ReadFmt (Line ρ : Type) where
  lines : Bytes → Option (List Line)
  blank : Line → Bool
  de : Line → Option ρ

section readers
variable {Line ρ : Type}

/-- `read_jsonl_vec` / `read_csv_vec`: `File::open`, `auto_detect_reader(f, path)`, parse every line -/
def readVec (K : CodecImpl) (tbl : List CodecEntry) (F : ReadFmt Line ρ) (path : List Char)
    (file : Bytes) : Option (List ρ) :=
  (autoReader K tbl path file).bind fun plain =>
    (F.lines plain).bind (IB.Io.readAll F.blank F.de)

/-- `read_jsonl` / `read_csv` given ONE file: a path without glob characters (`read_*_vec` then
    `from_vec`), or a pattern in which every `*`, `?`, `[`, `]` of the file's name is escaped (`[[]` …) so
    that it matches exactly that file (the glob branch then reads that one match with `read_*_vec`) -/
def readHelper (K : CodecImpl) (tbl : List CodecEntry) (F : ReadFmt Line ρ) (path : List Char)
    (file : Bytes) : Option (List ρ) :=
  readVec K tbl F path file

/-- `build_jsonl_shards` / `build_csv_shards`: open, `auto_detect_reader`, count the lines / records,
    cut `[0, total)` into ranges (`IB.Io.mkRanges`). Returns `(total, ranges)`. -/
def buildShards (K : CodecImpl) (tbl : List CodecEntry) (F : ReadFmt Line ρ) (path : List Char)
    (file : Bytes) (per : Nat) : Option (Nat × List (Nat × Nat)) :=
  (autoReader K tbl path file).bind fun plain =>
    (F.lines plain).map fun ls => (ls.length, IB.Io.mkRanges ls.length per)

/-- `read_jsonl_range` / `read_csv_range`: the file is opened and passed through
    `auto_detect_reader` AGAIN, for every range -/
def readShard (K : CodecImpl) (tbl : List CodecEntry) (F : ReadFmt Line ρ) (path : List Char)
    (file : Bytes) (s e : Nat) : Option (List ρ) :=
  (autoReader K tbl path file).bind fun plain =>
    (F.lines plain).bind fun ls => IB.Io.readRange F.blank F.de ls s e

/-- `read_*_streaming(path, per)` then `collect_seq` (`clone_any`: one range `[0, total)`) or
    `collect_par` (`split`: one `read_*_range` per shard, concatenated in order; if any shard fails the
    runner falls back to `clone_any`) -/
def readStreaming (K : CodecImpl) (tbl : List CodecEntry) (F : ReadFmt Line ρ) (path : List Char)
    (file : Bytes) (per : Nat) (par : Bool) : Option (List ρ) :=
  (buildShards K tbl F path file per).bind fun sh =>
    if par then
      match sh.2.mapM fun r => readShard K tbl F path file r.1 r.2 with
      | some parts => some parts.flatten
      | none => readShard K tbl F path file 0 sh.1
    else readShard K tbl F path file 0 sh.1

/-- `read_cloud_jsonl_vec`: `get_object`, `Cursor::new(data)`, `auto_detect_reader(cursor, key)` -/
def readCloud (K : CodecImpl) (tbl : List CodecEntry) (F : ReadFmt Line ρ) (key : List Char)
    (object : Bytes) : Option (List ρ) :=
  (autoReader K tbl key object).bind fun plain =>
    (F.lines plain).bind (IB.Io.readAll F.blank F.de)

/-- glob branch of `read_jsonl` / `read_csv`, and `read_cloud_jsonl_glob`: every matched file / key (in
    the sorted order `expand_glob` / `expand_cloud_glob` return — C09 / C19) is read by `read_*_vec` /
    `read_cloud_jsonl_vec` UNDER ITS OWN NAME; first failure → `Err` -/
def readGlob (K : CodecImpl) (tbl : List CodecEntry) (F : ReadFmt Line ρ)
    (files : List (List Char × Bytes)) : Option (List ρ) :=
  (files.mapM fun f => readVec K tbl F f.1 f.2).map List.flatten

/-- the single-file record reader entry points -/
inductive Reader
  | vec                                   -- `read_jsonl_vec` / `read_csv_vec`
  | helper                                -- `read_jsonl` / `read_csv`
  | streaming (per : Nat) (par : Bool)    -- `read_*_streaming` + `collect_seq` / `collect_par`
  | cloud                                 -- `read_cloud_jsonl_vec`
  deriving DecidableEq, Repr

def Reader.run (K : CodecImpl) (tbl : List CodecEntry) (F : ReadFmt Line ρ) :
    Reader → List Char → Bytes → Option (List ρ)
  | .vec, p, f => readVec K tbl F p f
  | .helper, p, f => readHelper K tbl F p f
  | .streaming per par, p, f => readStreaming K tbl F p f per par
  | .cloud, p, f => readCloud K tbl F p f

/-- what the entry point computes from an UNCOMPRESSED stream — the format layer alone (C09 proves
    that all of these equal `readAll`) -/
def Reader.plain (F : ReadFmt Line ρ) : Reader → Bytes → Option (List ρ)
  | .streaming per par, plain =>
    (F.lines plain).bind fun ls =>
      if par then
        match IB.Io.splitView F.blank F.de ls per with
        | some parts => some parts.flatten
        | none => IB.Io.seqView F.blank F.de ls
      else IB.Io.seqView F.blank F.de ls
  | _, plain => (F.lines plain).bind (IB.Io.readAll F.blank F.de)

end readers

/-- any record writer entry point together with its format-layer parameters -/
inductive AnyWriter (ρ : Type)
  | jsonl (w : JWriter) (ser : ρ → Bytes)
  | csv (w : CWriter) (hdr : Bool) (header : Bytes) (ser : ρ → Bytes)

/-- the bytes the entry point stores under `path` -/
def AnyWriter.run {ρ : Type} (K Kc : CodecImpl) (tbl : List CodecEntry) :
    AnyWriter ρ → List Char → List ρ → Option Bytes
  | .jsonl w ser, p, rs => w.run K Kc tbl ser p rs
  | .csv w hdr header ser, p, rs => w.run K tbl hdr header ser p rs

/-- whose encoders the entry point uses: the cloud writer its own, every other one the registry's -/
def AnyWriter.enc {ρ : Type} (K Kc : CodecImpl) : AnyWriter ρ → CodecImpl
  | .jsonl .cloud _ => Kc
  | _ => K

/-- the plain serialisation of the records: what the SEQUENTIAL writer of the format emits -/
def AnyWriter.plainOf {ρ : Type} : AnyWriter ρ → List ρ → Bytes
  | .jsonl _ ser, rs => jsonlPlain ser rs
  | .csv _ hdr header ser, rs => csvPlain hdr header ser rs

/-! ### a concrete format layer (driver, non-vacuity examples): a record = the bytes of one line -/

/-- split at `\n`; a final unterminated segment counts iff it is non-empty (`cur` reversed) -/
def splitNlAux : Bytes → Bytes → List Bytes
  | cur, [] => if cur.isEmpty then [] else [cur.reverse]
  | cur, b :: bs => if b = 10 then cur.reverse :: splitNlAux [] bs else splitNlAux (b :: cur) bs

def splitNl (bytes : Bytes) : List Bytes := splitNlAux [] bytes

def blankBytes (l : Bytes) : Bool := l.all fun b => (decide (9 ≤ b) && decide (b ≤ 13)) || b == 32

/-- JSONL: lines, blank lines skipped, every line is a record -/
def lineJsonl : ReadFmt Bytes Bytes := ⟨fun b => some (splitNl b), blankBytes, some⟩

/-- CSV: records = lines after the optional header, none skipped -/
def lineCsv (hdr : Bool) : ReadFmt Bytes Bytes :=
  ⟨fun b => some (IB.Io.csvBody hdr (splitNl b)), fun _ => false, some⟩

/-- CSV writer side: a record / the header with its terminator -/
def withNl (l : Bytes) : Bytes := l ++ [10]

/-! ## the specification: true format signatures

gzip RFC 1952 §2.3.1 (ID1 ID2); zstd RFC 8878 §3.1.1 (magic 0xFD2FB528 little-endian);
bzip2 file header "BZh"; xz file format §2.1.1.1 (header magic bytes). -/
def specSignatures : List (String × Bytes) :=
  [("gzip", [0x1f, 0x8b]),
   ("zstd", [0x28, 0xb5, 0x2f, 0xfd]),
   ("bzip2", [0x42, 0x5a, 0x68]),
   ("xz", [0xfd, 0x37, 0x7a, 0x58, 0x5a, 0x00])]

def signatureOf (n : String) : Option Bytes := specSignatures.lookup n

/-! ## a concrete codec family for the driver and the non-vacuity examples

`compress n x = signature n ++ tag ++ x`; `decompress` insists on signature and tag (a real decoder
rejects anything that is not a genuine stream of its format). -/
def toyTag : Bytes := [0xde, 0xad, 0xbe, 0xef, 0x00, 0xc1, 0x0c, 0x10]

def toyHeader (n : String) : Bytes := (signatureOf n).getD [] ++ toyTag

def toy : CodecImpl where
  compress n x := toyHeader n ++ x
  decompress n y := if (toyHeader n).isPrefixOf y then some (y.drop (toyHeader n).length) else none

/-- the same family over a registry that holds user codecs too: the stream of codec `n` starts with the
    magic bytes of the first registry row named `n` (if it has any), the tag, and the codec's name; the
    payload follows with every byte XOR-ed with `0x5a` (a codec without magic bytes is only ever recognised by
    extension, so under a neutral name its stream reaches the parser: it must not contain the plain lines) -/
def toyHeaderIn (tbl : List CodecEntry) (n : String) : Bytes :=
  ((tbl.find? fun c => c.name == n).bind (·.magic)).getD [] ++ toyTag ++ n.toList.map Char.toNat

def toyIn (tbl : List CodecEntry) : CodecImpl where
  compress n x := toyHeaderIn tbl n ++ x.map (· ^^^ 0x5a)
  decompress n y :=
    if (toyHeaderIn tbl n).isPrefixOf y then some ((y.drop (toyHeaderIn tbl n).length).map (· ^^^ 0x5a)) else none

/-! ## the pinned commit -/
namespace Legacy

/-- registry at `a2588b9`: bzip2's magic was the two bytes "BZ" -/
def codecTable : List CodecEntry :=
  [⟨"gzip", [".gz", ".gzip"], some [0x1f, 0x8b]⟩,
   ⟨"zstd", [".zst", ".zstd"], some [0x28, 0xb5, 0x2f, 0xfd]⟩,
   ⟨"bzip2", [".bz2", ".bzip2"], some [0x42, 0x5a]⟩,
   ⟨"xz", [".xz"], some [0xfd, 0x37, 0x7a, 0x58, 0x5a, 0x00]⟩]

/-- `Path::new(&key_lower).extension()` for keys without trailing slashes / `..` components:
    the part of the last `/`-component after its last `.`, unless that `.` is its first character. -/
def pathExtension (k : List Char) : Option (List Char) :=
  let name := ((k.reverse.takeWhile (· ≠ '/')).reverse)
  let afterDot := (name.reverse.takeWhile (· ≠ '.')).reverse
  if afterDot.length = name.length then none           -- no dot at all
  else if afterDot.length + 1 = name.length then none  -- the only dot is the first character
  else some afterDot

/-- pinned `write_cloud_jsonl_vec`: codec chosen from `Path::extension` of the lower-cased key -/
def cloudWriterCodec (key : List Char) : Option String :=
  match pathExtension (lowerPath key) with
  | none => none
  | some e => (cloudChain.find? (fun r => r.2.any (fun x => x.toList == '.' :: e))).map (·.1)

def cloudWriter (K : CodecImpl) (key : List Char) (plain : Bytes) : Bytes :=
  match cloudWriterCodec key with
  | some n => K.compress n plain
  | none => plain

/-- pinned `auto_detect_reader`: ONE `fill_buf()` of a `BufReader` over the source itself decides
    (`fill_buf().ok()?`: a failing `fill_buf` means "no codec") -/
def readerCodecSrc (tbl : List CodecEntry) (path : List Char) (s : Src) : Option CodecEntry :=
  match detectExt tbl path with
  | some c => some c
  | none =>
    match (s.read bufCap).1 with
    | .ok bs => detectMagic tbl bs
    | _ => none

def autoReaderSrc (K : CodecImpl) (tbl : List CodecEntry) (path : List Char) (s : Src) : Option Bytes :=
  match readerCodecSrc tbl path s with
  | some c => (drainItems s.items).bind (K.decompress c.name)
  | none => drainItems s.items

/-- `read_head` as introduced by `71bba51` (before the error-propagation `fix:`): `Err(_) => break` — a
    source error ended the loop, was dropped, and detection ran on the bytes collected so far -/
def readHeadSwallow : Nat → Nat → Bytes → Src → Bytes × Src
  | 0, _, acc, s => (acc, s)
  | fuel + 1, want, acc, s =>
    if acc.length < want then
      match s.read (want - acc.length) with
      | (.ok bs, s') => if bs.isEmpty then (acc, s) else readHeadSwallow fuel want (acc ++ bs) s'
      | (.interrupted, s') => readHeadSwallow fuel want acc s'
      | (.error, s') => (acc, s')
    else (acc, s)

/-- `auto_detect_reader` of `71bba51` + read to the end: the head may be PARTIAL after a source error -/
def autoReaderSrcSwallow (K : CodecImpl) (tbl : List CodecEntry) (path : List Char) (s : Src) : Option Bytes :=
  match detectExt tbl path with
  | some c => (drainItems s.items).bind (K.decompress c.name)
  | none =>
    let hr := readHeadSwallow (s.items.length + 1) (headLen tbl) [] s
    let buf : Option Bytes :=
      if hr.1.isEmpty then
        match (hr.2.read bufCap).1 with
        | .ok bs => some bs
        | _ => none
      else some (hr.1.take bufCap)
    match buf.bind (detectMagic tbl) with
    | some c => ((drainItems hr.2.items).map (hr.1 ++ ·)).bind (K.decompress c.name)
    | none => (drainItems hr.2.items).map (hr.1 ++ ·)

/-- pinned `write_jsonl_par`: empty data → `File::create(path)` only (a 0-byte file); otherwise the
    part files were copied into a bare `File::create(path)` — the compression layer was never involved -/
def writeJsonlPar {ρ : Type} (ser : ρ → Bytes) (rs : List ρ) (shards : Option Nat) (auto : Nat) : Option Bytes :=
  if rs.length = 0 then some []
  else (IB.Io.parWriteWith IB.Io.jsonlShardBounds rs shards auto).map fun parts =>
    (parts.map (jsonlPlain ser)).flatten

/-- pinned `write_csv_par`: the buffers were written into a bare `File::create(path)` -/
def writeCsvPar {ρ : Type} (hdr : Bool) (header : Bytes) (ser : ρ → Bytes) (rs : List ρ)
    (shards : Option Nat) (auto : Nat) : Option Bytes :=
  if rs.length = 0 then some []
  else (IB.Io.parWriteCsvParts hdr header ser rs shards auto).map fun bufs => (bufs.map List.flatten).flatten

/-- pinned writer entry points: the two free parallel writers (and `PCollection::write_jsonl_par`, which
    calls one of them) and the cloud writer differ from the current code -/
def JWriter.run {ρ : Type} (K Kc : CodecImpl) (tbl : List CodecEntry) (ser : ρ → Bytes) :
    JWriter → List Char → List ρ → Option Bytes
  | .par sh a, _, rs => writeJsonlPar ser rs sh a
  | .pcPar sh a, _, rs => writeJsonlPar ser rs sh a
  | .cloud, p, rs => some (cloudWriter Kc p (jsonlPlain ser rs))
  | w, p, rs => IB.Compression.JWriter.run K Kc tbl ser w p rs

def CWriter.run {ρ : Type} (K : CodecImpl) (tbl : List CodecEntry) (hdr : Bool) (header : Bytes)
    (ser : ρ → Bytes) : CWriter → List Char → List ρ → Option Bytes
  | .par sh a, _, rs => writeCsvPar hdr header ser rs sh a
  | w, p, rs => IB.Compression.CWriter.run K tbl hdr header ser w p rs

end Legacy

end IB.Compression
