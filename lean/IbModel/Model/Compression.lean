/-!
# Model of the compression layer (C10)

Transliteration of `src/io/compression.rs` (codec registry, `detect_from_extension`,
`detect_from_magic`, `auto_detect_reader`, `auto_detect_writer`) and of the way every reader / writer
entry point of `src/io/jsonl.rs`, `src/io/csv.rs`, `src/helpers/{jsonl,csv}.rs` and
`src/io/cloud/readers.rs` goes through (or, at the pinned commit, failed to go through) that layer.

* A path is a `List Char`, a byte string a `List Nat`.
* The registry is a *parameter* `tbl : List CodecEntry`; the running code's registry is dumped on every
  run into `IB.Generated.codecTable` (see `Props/C10.lean`, `Driver/D10.lean`).
* The codecs themselves (flate2, zstd, bzip2, xz2) are ABSTRACT: a `CodecImpl` is any pair of functions
  `compress / decompress` keyed by codec name; the round-trip law and "compressed output starts with
  the format signature" are hypotheses of the theorems (`Lawful`), never axioms. `toy` is a concrete
  lawful instance used by the driver and by the non-vacuity examples.
* `none` = the read fails with an error.

`Legacy.*` = the code at the pinned commit `a2588b9` (before the `fix:` commits).
-/
namespace IB.Compression

abbrev Bytes := List Nat

/-- one row of `CODEC_REGISTRY`: `name()`, `extensions()`, `magic_bytes()` -/
structure CodecEntry where
  name : String
  exts : List String
  magic : Option (List Nat)
  deriving DecidableEq, Repr

def CodecEntry.ofRow (r : String × List String × Option (List Nat)) : CodecEntry :=
  ⟨r.1, r.2.1, r.2.2⟩

/-! ## `to_string_lossy().to_lowercase()`

`str::to_lowercase` is Unicode lower-casing. Extensions are ASCII, so all that matters for the suffix
test is which characters produce ASCII output: `A–Z` (→ `a–z`), U+0130 `İ` (→ `i` U+0307) and the
Kelvin sign U+212A (→ `k`). Every other non-ASCII character lower-cases to non-ASCII characters; the
model leaves those unchanged (checked over all Unicode scalar values by the harness). -/
def lowerChar (c : Char) : List Char :=
  if 'A' ≤ c ∧ c ≤ 'Z' then [Char.ofNat (c.toNat + 32)]
  else if c = Char.ofNat 0x130 then ['i', Char.ofNat 0x307]
  else if c = Char.ofNat 0x212A then ['k']
  else [c]

def lowerPath (p : List Char) : List Char := p.flatMap lowerChar

/-- `detect_from_extension`: lower-case the whole path, then the first codec (registry order) one of
    whose extensions is a suffix (`ends_with`) of it. -/
def detectExt (tbl : List CodecEntry) (path : List Char) : Option CodecEntry :=
  let p := lowerPath path
  tbl.find? (fun c => c.exts.any (fun e => e.toList.isSuffixOf p))

/-- capacity of the `BufReader` whose `fill_buf()` is peeked -/
def bufCap : Nat := 8192

/-- the per-codec test of `detect_from_magic` -/
def magicMatches (buf : Bytes) (c : CodecEntry) : Bool :=
  match c.magic with
  | some m => decide (m.length ≤ buf.length) && m.isPrefixOf buf
  | none => false

/-- `detect_from_magic`: peek the first buffer; empty → `None`; else the first codec (registry order)
    whose magic bytes are a prefix of the buffer. -/
def detectMagic (tbl : List CodecEntry) (bytes : Bytes) : Option CodecEntry :=
  let buf := bytes.take bufCap
  if buf.isEmpty then none else tbl.find? (magicMatches buf)

/-- abstract codecs, keyed by codec name -/
structure CodecImpl where
  compress : String → Bytes → Bytes
  decompress : String → Bytes → Option Bytes

/-- which codec `auto_detect_reader` wraps the stream with: extension first, then magic bytes -/
def readerCodec (tbl : List CodecEntry) (path : List Char) (bytes : Bytes) : Option CodecEntry :=
  match detectExt tbl path with
  | some c => some c
  | none => detectMagic tbl bytes

/-- `auto_detect_reader` followed by reading the stream to its end -/
def autoReader (K : CodecImpl) (tbl : List CodecEntry) (path : List Char) (bytes : Bytes) :
    Option Bytes :=
  match readerCodec tbl path bytes with
  | some c => K.decompress c.name bytes
  | none => some bytes

/-- `auto_detect_writer` + writing `plain` + flush/drop: extension only -/
def autoWriter (K : CodecImpl) (tbl : List CodecEntry) (path : List Char) (plain : Bytes) : Bytes :=
  match detectExt tbl path with
  | some c => K.compress c.name plain
  | none => plain

/-! ## the cloud writer's own, hard-coded extension chain (`write_cloud_jsonl_vec`) -/

/-- the `if / else if` chain of `write_cloud_jsonl_vec`, in source order -/
def cloudChain : List (String × List String) :=
  [("gzip", [".gz", ".gzip"]), ("zstd", [".zst", ".zstd"]), ("bzip2", [".bz2", ".bzip2"]), ("xz", [".xz"])]

/-- current code: `key.to_lowercase().ends_with(ext)` -/
def cloudWriterCodec (key : List Char) : Option String :=
  let k := lowerPath key
  (cloudChain.find? (fun r => r.2.any (fun e => e.toList.isSuffixOf k))).map (·.1)

def cloudWriter (K : CodecImpl) (key : List Char) (plain : Bytes) : Bytes :=
  match cloudWriterCodec key with
  | some n => K.compress n plain
  | none => plain

/-! ## entry points

Every entry point is "format layer ∘ compression layer". The format layer (serde_json / csv, shard
arithmetic — property C09) produces or consumes the *plain* byte stream; what is modelled here is how
each entry point pushes that stream through the compression layer. -/

inductive Writer
  | raw          -- `auto_detect_writer` used directly
  | jsonlVec     -- `write_jsonl_vec`
  | jsonlPar     -- `write_jsonl_par` (free function)
  | csvVec       -- `write_csv_vec` / `write_csv`
  | csvPar       -- `write_csv_par` (free function)
  | pcJsonl      -- `PCollection::write_jsonl`      → `write_jsonl_vec`
  | pcJsonlPar   -- `PCollection::write_jsonl_par`  → `write_jsonl_par`
  | pcCsv        -- `PCollection::write_csv`        → `write_csv_vec`
  | pcCsvPar     -- `PCollection::write_csv_par`    → `write_csv_vec`
  | cloudJsonl   -- `write_cloud_jsonl_vec`
  deriving DecidableEq, Repr

inductive Reader
  | raw            -- `auto_detect_reader` used directly
  | jsonlVec       -- `read_jsonl_vec`
  | jsonlHelper    -- `read_jsonl` (→ `read_jsonl_vec`)
  | jsonlStreaming -- `read_jsonl_streaming`: `build_jsonl_shards` (count pass) + `read_jsonl_range` per shard
  | csvVec         -- `read_csv_vec`
  | csvHelper      -- `read_csv` (→ `read_csv_vec`)
  | csvStreaming   -- `read_csv_streaming`: `build_csv_shards` + `read_csv_range`
  | cloudJsonl     -- `read_cloud_jsonl_vec`
  deriving DecidableEq, Repr

def Writer.all : List Writer :=
  [.raw, .jsonlVec, .jsonlPar, .csvVec, .csvPar, .pcJsonl, .pcJsonlPar, .pcCsv, .pcCsvPar, .cloudJsonl]

def Reader.all : List Reader :=
  [.raw, .jsonlVec, .jsonlHelper, .jsonlStreaming, .csvVec, .csvHelper, .csvStreaming, .cloudJsonl]

/-- the bytes an entry point stores under `path` when its format layer produced `plain`.
    For the parallel writers `plain` is the in-order concatenation of the shard buffers. -/
def store (K : CodecImpl) (tbl : List CodecEntry) : Writer → List Char → Bytes → Bytes
  | .raw, p, x => autoWriter K tbl p x
  | .jsonlVec, p, x => autoWriter K tbl p x
  | .jsonlPar, p, x => autoWriter K tbl p x      -- shards are plain temp files; the final file is wrapped
  | .csvVec, p, x => autoWriter K tbl p x
  | .csvPar, p, x => autoWriter K tbl p x        -- buffers are plain; the final file is wrapped
  | .pcJsonl, p, x => autoWriter K tbl p x
  | .pcJsonlPar, p, x => autoWriter K tbl p x
  | .pcCsv, p, x => autoWriter K tbl p x
  | .pcCsvPar, p, x => autoWriter K tbl p x
  | .cloudJsonl, p, x => cloudWriter K p x

/-- the plain bytes an entry point hands to its format layer when `file` is stored under `path`.
    The streaming readers open and decode the file once to count and once more per shard. -/
def load (K : CodecImpl) (tbl : List CodecEntry) : Reader → List Char → Bytes → Option Bytes
  | .raw, p, f => autoReader K tbl p f
  | .jsonlVec, p, f => autoReader K tbl p f
  | .jsonlHelper, p, f => autoReader K tbl p f
  | .jsonlStreaming, p, f => (autoReader K tbl p f).bind (fun _ => autoReader K tbl p f)
  | .csvVec, p, f => autoReader K tbl p f
  | .csvHelper, p, f => autoReader K tbl p f
  | .csvStreaming, p, f => (autoReader K tbl p f).bind (fun _ => autoReader K tbl p f)
  | .cloudJsonl, p, f => autoReader K tbl p f

/-- record level: abstract serialiser / parser of the format layer -/
def writeRecs {ρ : Type} (K : CodecImpl) (tbl : List CodecEntry) (ser : List ρ → Bytes)
    (w : Writer) (path : List Char) (rs : List ρ) : Bytes :=
  store K tbl w path (ser rs)

def readRecs {ρ : Type} (K : CodecImpl) (tbl : List CodecEntry) (de : Bytes → Option (List ρ))
    (r : Reader) (path : List Char) (file : Bytes) : Option (List ρ) :=
  (load K tbl r path file).bind de

/-! ## the specification: true format signatures

gzip RFC 1952 §2.3.1 (ID1 ID2); zstd RFC 8878 §3.1.1 (magic 0xFD2FB528 little-endian);
bzip2 file header "BZh"; xz file format §2.1.1.1 (header magic bytes). -/
def specSignatures : List (String × Bytes) :=
  [("gzip", [0x1f, 0x8b]),
   ("zstd", [0x28, 0xb5, 0x2f, 0xfd]),
   ("bzip2", [0x42, 0x5a, 0x68]),
   ("xz", [0xfd, 0x37, 0x7a, 0x58, 0x5a, 0x00])]

def signatureOf (n : String) : Option Bytes := specSignatures.lookup n

/-! ## a concrete codec family for the driver and the non-vacuity examples

`compress n x = signature n ++ tag ++ x`; `decompress` insists on signature and tag (a real decoder
rejects anything that is not a genuine stream of its format). -/
def toyTag : Bytes := [0xde, 0xad, 0xbe, 0xef, 0x00, 0xc1, 0x0c, 0x10]

def toyHeader (n : String) : Bytes := (signatureOf n).getD [] ++ toyTag

def toy : CodecImpl where
  compress n x := toyHeader n ++ x
  decompress n y := if (toyHeader n).isPrefixOf y then some (y.drop (toyHeader n).length) else none

/-! ## the pinned commit -/
namespace Legacy

/-- registry at `a2588b9`: bzip2's magic was the two bytes "BZ" -/
def codecTable : List CodecEntry :=
  [⟨"gzip", [".gz", ".gzip"], some [0x1f, 0x8b]⟩,
   ⟨"zstd", [".zst", ".zstd"], some [0x28, 0xb5, 0x2f, 0xfd]⟩,
   ⟨"bzip2", [".bz2", ".bzip2"], some [0x42, 0x5a]⟩,
   ⟨"xz", [".xz"], some [0xfd, 0x37, 0x7a, 0x58, 0x5a, 0x00]⟩]

/-- `Path::new(&key_lower).extension()` for keys without trailing slashes / `..` components:
    the part of the last `/`-component after its last `.`, unless that `.` is its first character. -/
def pathExtension (k : List Char) : Option (List Char) :=
  let name := ((k.reverse.takeWhile (· ≠ '/')).reverse)
  let afterDot := (name.reverse.takeWhile (· ≠ '.')).reverse
  if afterDot.length = name.length then none           -- no dot at all
  else if afterDot.length + 1 = name.length then none  -- the only dot is the first character
  else some afterDot

/-- pinned `write_cloud_jsonl_vec`: codec chosen from `Path::extension` of the lower-cased key -/
def cloudWriterCodec (key : List Char) : Option String :=
  match pathExtension (lowerPath key) with
  | none => none
  | some e => (cloudChain.find? (fun r => r.2.any (fun x => x.toList == '.' :: e))).map (·.1)

def cloudWriter (K : CodecImpl) (key : List Char) (plain : Bytes) : Bytes :=
  match cloudWriterCodec key with
  | some n => K.compress n plain
  | none => plain

/-- pinned entry points: the two free parallel writers (and `PCollection::write_jsonl_par`, which
    calls one of them) wrote the concatenated shard bytes straight into the final file. -/
def store (K : CodecImpl) (tbl : List CodecEntry) : Writer → List Char → Bytes → Bytes
  | .jsonlPar, _, x => x
  | .csvPar, _, x => x
  | .pcJsonlPar, _, x => x
  | .cloudJsonl, p, x => cloudWriter K p x
  | w, p, x => IB.Compression.store K tbl w p x

end Legacy

end IB.Compression
