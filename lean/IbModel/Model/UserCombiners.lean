import IbModel.Model.Closures
/-!
# USER combiners of the pipeline model (harness: `harness/src/pipe_ucomb.rs`)

Three combiners a user of the crate could write, with accumulators that are NOT options (next to the harness's
`MinT`/`MaxT`), all using the trait's DEFAULT `build_from_group` (the fold):

* `userSumMod m` — accumulator `(sum mod m, count)`, travelling as `pair (int s) (int n)`;
* `userUnion`   — the set of values seen, a strictly ascending `Vec` (order `V: Ord` = `Val.le`); `merge` inserts the
                other accumulator's elements one by one;
* `userMaxAbs`  — the value of largest `(|to_int|, value)`, in a one-slot `Vec`; an empty fold finishes as `N`.

`merge` is associative and commutative with unit `create` on the accumulators reachable from `create`, and
`add_input a v = merge a (add_input create v)`: the plain algebraic laws that
`Proofs/UserCombiners.lean::lawful_of_algebraic_laws` bridges to `LawfulCombiner` (C05).
-/
namespace IB
open Val

/-- `(sum mod m, count)` -/
def userSumMod (m : Int) : VCombiner where
  create := .pair (.int 0) (.int 0)
  add a v := .pair (.int ((a.key.toInt + v.toInt) % m)) (.int (a.value.toInt + 1))
  merge a b := .pair (.int ((a.key.toInt + b.key.toInt) % m)) (.int (a.value.toInt + b.value.toInt))
  finish a := a
  build xs := xs.foldl (fun a v => .pair (.int ((a.key.toInt + v.toInt) % m)) (.int (a.value.toInt + 1)))
    (.pair (.int 0) (.int 0))

/-- `Vec::binary_search` + `insert` on a strictly ascending vector: no-op when present -/
def sortedInsert (l : List Val) (v : Val) : List Val :=
  match l with
  | [] => [v]
  | x :: xs => if v == x then x :: xs else if Val.lt v x then v :: x :: xs else x :: sortedInsert xs v

/-- sorted-`Vec` union -/
def userUnion : VCombiner where
  create := .nil
  add a v := ofList (sortedInsert a.toList v)
  merge a b := ofList (b.toList.foldl sortedInsert a.toList)
  finish a := a
  build xs := xs.foldl (fun a v => ofList (sortedInsert a.toList v)) .nil

/-- `a ≤ b` in the order "by `|to_int|`, ties by `Val.le`" -/
def absLe (a b : Val) : Bool :=
  let x := a.toInt.natAbs; let y := b.toInt.natAbs
  if x < y then true else if y < x then false else Val.le a b

/-- keep the current value unless the new one is strictly larger -/
def pickAbs (cur v : Val) : Val := if absLe v cur then cur else v

def maxAbsAdd (a v : Val) : Val :=
  match a with
  | .cons c _ => .cons (pickAbs c v) .nil
  | _ => .cons v .nil

/-- max by `(|to_int|, value)`; the accumulator is a one-slot `Vec` -/
def userMaxAbs : VCombiner where
  create := .nil
  add := maxAbsAdd
  merge a b := b.toList.foldl maxAbsAdd a
  finish a := match a with | .cons c _ => c | _ => .none
  build xs := xs.foldl maxAbsAdd .nil

/-- round 5 — "last value seen" (`pipe_ucomb::Last`, accumulator `Option<V>`): `add_input` overwrites, `merge` takes
    the other side when it has seen anything. LAWFUL (`Props/C05.lean::lawful_uLast`) but NOT commutative
    (`uLast_not_commutative`): the answer is the last value in the order the engine merges, which is source order. -/
def lastAdd (_acc v : Val) : Val := .some v

def userLast : VCombiner where
  create := .none
  add := lastAdd
  merge a b := match b with | .some v => lastAdd a v | _ => a
  finish a := match a with | .some v => v | _ => .none
  build xs := xs.foldl lastAdd .none

end IB
