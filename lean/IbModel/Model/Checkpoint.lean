/-!
# Model of `src/checkpoint.rs` (C12; reused by C11)

Transliteration of the checkpoint store:

* the bincode-2 *standard* configuration as it is used for `CheckpointState` (serde derive):
  fields in declaration order; `u64`/`usize` as varints (`≤ 250` one byte, markers 251/252/253 followed by a
  little-endian u16/u32/u64; 254/255 are rejected); `u8` raw; `String` = varint length + UTF-8 bytes;
  the decoder's byte accounting (`claim_bytes_read`: 8 per integer, 1 per `u8`, `len` per string) against
  the configured limit, and the buffer it asks the allocator for (`vec![0u8; len]`);
* `load_checkpoint` = decode, then re-compute the checksum of `"{id}:{idx}:{ts}:{parts}"` and compare
  (the hash is a PARAMETER `H`; SHA-256 itself is not modelled);
* the three directory scans (`cleanup_old_checkpoints`, `find_latest_checkpoint`, `clear_checkpoints`)
  over a model file system `List (Name × Bytes)`;
* `should_checkpoint` for the four policies with the clock as an argument.

Strings and file names are byte lists (Rust `String`s are UTF-8 byte sequences; every operation the code
performs on them — prefix/suffix stripping, digit tests, parsing — is byte-wise).

Un-prefixed definitions follow the CURRENT code (after the five `fix:` commits: decode limit,
strict `checkpoint_<id>_<decimal>.bin` names, directory scans take regular files only, read cap
`MAX_CHECKPOINT_FILE_BYTES`, single-component file names). `Legacy.*` is the code
before them. The model file system holds REGULAR FILES only: since the third fix a sub-directory of the checkpoint
directory is invisible to every scan whatever its name (`Legacy.cleanupWithDirs` / `Legacy.latestWithDirs` say what
happened before).
Imports nothing outside core Lean.
-/
namespace IB.Checkpoint

abbrev Bytes := List UInt8
abbrev Name := List UInt8

/-! ## the serialised record -/

/-- `CheckpointMetadata` -/
structure Meta where
  totalNodes : Nat
  lastNodeType : Bytes
  progressPercent : UInt8
deriving DecidableEq, Repr

/-- `CheckpointState` (field order = declaration order = wire order) -/
structure State where
  pipelineId : Bytes
  completedNodeIndex : Nat
  timestamp : Nat
  partitionCount : Nat
  checksum : Bytes
  execMode : Bytes
  metadata : Meta
deriving DecidableEq, Repr

def u64Max : Nat := 18446744073709551615
/-- `isize::MAX`: the largest capacity `Vec<u8>` accepts before panicking with "capacity overflow" -/
def isizeMax : Nat := 9223372036854775807

/-! ## UTF-8 validity (what `String::from_utf8` accepts: Unicode Table 3-7) -/

def isCont (b : UInt8) : Bool := 0x80 ≤ b && b ≤ 0xBF

def validUtf8 : Bytes → Bool
  | [] => true
  | b0 :: rest =>
    if b0 ≤ 0x7F then validUtf8 rest
    else if 0xC2 ≤ b0 && b0 ≤ 0xDF then
      match rest with
      | b1 :: r => isCont b1 && validUtf8 r
      | _ => false
    else if b0 == 0xE0 then
      match rest with
      | b1 :: b2 :: r => (0xA0 ≤ b1 && b1 ≤ 0xBF) && isCont b2 && validUtf8 r
      | _ => false
    else if (0xE1 ≤ b0 && b0 ≤ 0xEC) || b0 == 0xEE || b0 == 0xEF then
      match rest with
      | b1 :: b2 :: r => isCont b1 && isCont b2 && validUtf8 r
      | _ => false
    else if b0 == 0xED then
      match rest with
      | b1 :: b2 :: r => (0x80 ≤ b1 && b1 ≤ 0x9F) && isCont b2 && validUtf8 r
      | _ => false
    else if b0 == 0xF0 then
      match rest with
      | b1 :: b2 :: b3 :: r => (0x90 ≤ b1 && b1 ≤ 0xBF) && isCont b2 && isCont b3 && validUtf8 r
      | _ => false
    else if 0xF1 ≤ b0 && b0 ≤ 0xF3 then
      match rest with
      | b1 :: b2 :: b3 :: r => isCont b1 && isCont b2 && isCont b3 && validUtf8 r
      | _ => false
    else if b0 == 0xF4 then
      match rest with
      | b1 :: b2 :: b3 :: r => (0x80 ≤ b1 && b1 ≤ 0x8F) && isCont b2 && isCont b3 && validUtf8 r
      | _ => false
    else false

/-- the type invariant of the Rust record: `usize`/`u64` ranges, `String`s are UTF-8 -/
structure State.WF (s : State) : Prop where
  idx : s.completedNodeIndex ≤ u64Max
  ts : s.timestamp ≤ u64Max
  pc : s.partitionCount ≤ u64Max
  tn : s.metadata.totalNodes ≤ u64Max
  pidU : validUtf8 s.pipelineId = true
  ckU : validUtf8 s.checksum = true
  emU : validUtf8 s.execMode = true
  lntU : validUtf8 s.metadata.lastNodeType = true
  pidL : s.pipelineId.length ≤ isizeMax
  ckL : s.checksum.length ≤ isizeMax
  emL : s.execMode.length ≤ isizeMax
  lntL : s.metadata.lastNodeType.length ≤ isizeMax

/-! ## encoder (`bincode::serde::encode_to_vec(state, config::standard())`) -/

/-- `k` little-endian bytes of `n` -/
def leBytes : Nat → Nat → Bytes
  | 0, _ => []
  | k + 1, n => UInt8.ofNat (n % 256) :: leBytes k (n / 256)

/-- value of a little-endian byte string -/
def leVal : Bytes → Nat
  | [] => 0
  | b :: r => b.toNat + 256 * leVal r

/-- `varint_encode_u64` -/
def encVarint (n : Nat) : Bytes :=
  if n ≤ 250 then [UInt8.ofNat n]
  else if n ≤ 65535 then 251 :: leBytes 2 n
  else if n ≤ 4294967295 then 252 :: leBytes 4 n
  else 253 :: leBytes 8 n

def encString (s : Bytes) : Bytes := encVarint s.length ++ s

def encode (s : State) : Bytes :=
  encString s.pipelineId ++ encVarint s.completedNodeIndex ++ encVarint s.timestamp ++
  encVarint s.partitionCount ++ encString s.checksum ++ encString s.execMode ++
  encVarint s.metadata.totalNodes ++ encString s.metadata.lastNodeType ++ [s.metadata.progressPercent]

/-! ## decoder (`bincode::serde::decode_from_slice(bytes, config)`) -/

inductive DecErr
  | eof               -- DecodeError::UnexpectedEnd
  | intType           -- DecodeError::InvalidIntegerType (marker 254 / 255)
  | limit             -- DecodeError::LimitExceeded
  | utf8              -- DecodeError::Utf8
  | capacityOverflow  -- `vec![0u8; len]` panics: len > isize::MAX
  | allocFail         -- the allocator cannot satisfy the request: the process aborts
  | checksum          -- "Checkpoint integrity check failed: checksum mismatch"
deriving DecidableEq, Repr

/-- decoder configuration: bincode's `Limit<N>` / `NoLimit`, and the amount of memory the allocator can give -/
structure Cfg where
  limit : Option Nat
  mem : Nat

def andThen {α β : Type} (x : Except DecErr α) (f : α → Except DecErr β) : Except DecErr β :=
  match x with
  | .ok a => f a
  | .error e => .error e

/-- `SliceReader::read` of exactly `n` bytes -/
def takeN (n : Nat) (inp : Bytes) : Except DecErr (Bytes × Bytes) :=
  if n ≤ inp.length then .ok (inp.take n, inp.drop n) else .error .eof

/-- does a running total exceed the configured limit? -/
def overLimit (cfg : Cfg) (total : Nat) : Bool :=
  match cfg.limit with
  | none => false
  | some L => decide (total > L)

/-- `claim_bytes_read(n)`: running total against the limit. (Under `NoLimit` bincode does not keep the
    total; keeping it here is unobservable because nothing compares it.) -/
def claim (cfg : Cfg) (claimed n : Nat) : Except DecErr Nat :=
  if overLimit cfg (claimed + n) then .error .limit else .ok (claimed + n)

/-- `varint_decode_u64` (non-canonical encodings are accepted, exactly as bincode does) -/
def readVarint : Bytes → Except DecErr (Nat × Bytes)
  | [] => .error .eof
  | b :: rest =>
    if b.toNat ≤ 250 then .ok (b.toNat, rest)
    else if b = 251 then andThen (takeN 2 rest) fun p => .ok (leVal p.1, p.2)
    else if b = 252 then andThen (takeN 4 rest) fun p => .ok (leVal p.1, p.2)
    else if b = 253 then andThen (takeN 8 rest) fun p => .ok (leVal p.1, p.2)
    else .error .intType

/-- `u64::decode`: claim 8, read a varint. Reader state = (input left, bytes claimed). -/
def decU64 (cfg : Cfg) (st : Bytes × Nat) : Except DecErr (Nat × (Bytes × Nat)) :=
  andThen (claim cfg st.2 8) fun c =>
  andThen (readVarint st.1) fun p => .ok (p.1, (p.2, c))

/-- `u8::decode`: claim 1, read one byte -/
def decU8 (cfg : Cfg) (st : Bytes × Nat) : Except DecErr (UInt8 × (Bytes × Nat)) :=
  andThen (claim cfg st.2 1) fun c =>
  match st.1 with
  | [] => .error .eof
  | b :: rest => .ok (b, (rest, c))

/-- `vec![0u8; len]` -/
def alloc (cfg : Cfg) (len : Nat) : Except DecErr Unit :=
  if len > isizeMax then .error .capacityOverflow
  else if len > cfg.mem then .error .allocFail
  else .ok ()

/-- `String::decode` = `Vec<u8>::decode` (length, claim, allocate, read) then `String::from_utf8` -/
def decString (cfg : Cfg) (st : Bytes × Nat) : Except DecErr (Bytes × (Bytes × Nat)) :=
  andThen (decU64 cfg st) fun lp =>
  andThen (claim cfg lp.2.2 lp.1) fun c =>
  andThen (alloc cfg lp.1) fun _ =>
  andThen (takeN lp.1 lp.2.1) fun p =>
  if validUtf8 p.1 then .ok (p.1, (p.2, c)) else .error .utf8

/-- the derived `Deserialize` of `CheckpointState` through bincode: fields in order; the bytes left over
    are returned (the Rust code ignores them: `(state, _len)`) -/
def decodeState (cfg : Cfg) (bytes : Bytes) : Except DecErr (State × Bytes) :=
  andThen (decString cfg (bytes, 0)) fun pid =>
  andThen (decU64 cfg pid.2) fun idx =>
  andThen (decU64 cfg idx.2) fun ts =>
  andThen (decU64 cfg ts.2) fun pc =>
  andThen (decString cfg pc.2) fun ck =>
  andThen (decString cfg ck.2) fun em =>
  andThen (decU64 cfg em.2) fun tn =>
  andThen (decString cfg tn.2) fun lnt =>
  andThen (decU8 cfg lnt.2) fun pp =>
  .ok ({ pipelineId := pid.1, completedNodeIndex := idx.1, timestamp := ts.1, partitionCount := pc.1,
         checksum := ck.1, execMode := em.1,
         metadata := { totalNodes := tn.1, lastNodeType := lnt.1, progressPercent := pp.1 } }, pp.2.1)

/-- what the decoder claims in total for a state: 8 per integer (incl. the four length prefixes), 1 for the
    `u8`, and every string byte -/
def claims (s : State) : Nat :=
  65 + s.pipelineId.length + s.checksum.length + s.execMode.length + s.metadata.lastNodeType.length

/-! ## checksum and `load_checkpoint` -/

def digit (d : Nat) : UInt8 := UInt8.ofNat (48 + d)

/-- `u64`'s `Display`: decimal digits, most significant first, no leading zeros -/
def decDigits (n : Nat) : Bytes :=
  if n < 10 then [digit n] else decDigits (n / 10) ++ [digit (n % 10)]
termination_by n
decreasing_by omega

def colon : UInt8 := 58

/-- `format!("{}:{}:{}:{}", pipeline_id, completed_node_index, timestamp, partition_count)` -/
def metaString (s : State) : Bytes :=
  s.pipelineId ++ [colon] ++ decDigits s.completedNodeIndex ++ [colon] ++ decDigits s.timestamp ++
    [colon] ++ decDigits s.partitionCount

/-- the fields the checksum protects -/
def protectedFields (s : State) : Bytes × Nat × Nat × Nat :=
  (s.pipelineId, s.completedNodeIndex, s.timestamp, s.partitionCount)

/-- `load_checkpoint` on the content of the file; `H` = `compute_checksum` (hex SHA-256) -/
def load (H : Bytes → Bytes) (cfg : Cfg) (bytes : Bytes) : Except DecErr State :=
  andThen (decodeState cfg bytes) fun r =>
  if H (metaString r.1) != r.1.checksum then .error .checksum else .ok r.1

/-! ## file names -/

/-- `"checkpoint_"` -/
def sCheckpoint : Bytes := [99, 104, 101, 99, 107, 112, 111, 105, 110, 116, 95]
def underscore : UInt8 := 95
/-- `".bin"` -/
def dotBin : Bytes := [46, 98, 105, 110]

/-- `format!("checkpoint_{pipeline_id}_")` -/
def pfx (pid : Bytes) : Bytes := sCheckpoint ++ pid ++ [underscore]

/-- `format!("checkpoint_{}_{}.bin", state.pipeline_id, state.timestamp)` -/
def fileNameOf (pid : Bytes) (ts : Nat) : Name := pfx pid ++ decDigits ts ++ dotBin
def fileName (s : State) : Name := fileNameOf s.pipelineId s.timestamp

/-- `str::strip_prefix` -/
def stripPrefix : Bytes → Bytes → Option Bytes
  | [], s => some s
  | _ :: _, [] => none
  | p :: ps, c :: cs => if p = c then stripPrefix ps cs else none

/-- `str::strip_suffix` -/
def stripSuffix (suf s : Bytes) : Option Bytes :=
  (stripPrefix suf.reverse s.reverse).map List.reverse

def isDigit (b : UInt8) : Bool := 48 ≤ b && b ≤ 57

/-- digit-by-digit accumulation with the `checked_mul`/`checked_add` overflow test of `u64::from_str` -/
def parseDigitsAux (acc : Nat) : Bytes → Option Nat
  | [] => some acc
  | b :: r =>
    if isDigit b then
      let v := acc * 10 + (b.toNat - 48)
      if v ≤ u64Max then parseDigitsAux v r else none
    else none

/-- Rust `str::parse::<u64>()`: optional leading `+`, at least one digit, digits only, no overflow -/
def rustParseU64 (s : Bytes) : Option Nat :=
  match s with
  | [] => none
  | b :: r =>
    if b = 43 then (if r.isEmpty then none else parseDigitsAux 0 r)
    else parseDigitsAux 0 s

/-- `checkpoint_file_timestamp(name, prefix)`: `Some(ts)` iff `name = prefix ++ <decimal u64> ++ ".bin"` -/
def fileStamp (pre : Bytes) (name : Name) : Option Nat :=
  match stripPrefix pre name with
  | none => none
  | some r =>
    match stripSuffix dotBin r with
    | none => none
    | some stamp =>
      if stamp.isEmpty || !stamp.all isDigit then none else rustParseU64 stamp

/-- the `sort_by_key` key of both scans:
    `strip_prefix(prefix).and_then(strip_suffix(".bin")).and_then(parse::<u64>().ok()).unwrap_or(0)` -/
def sortKey (pre : Bytes) (name : Name) : Nat :=
  match stripPrefix pre name with
  | none => 0
  | some r =>
    match stripSuffix dotBin r with
    | none => 0
    | some stamp => (rustParseU64 stamp).getD 0

/-- current filter of the three scans -/
def isOwn (pid : Bytes) (name : Name) : Bool := (fileStamp (pfx pid) name).isSome

/-! ## the model file system and the directory scans -/

abbrev FS := List (Name × Bytes)

def names (fs : FS) : List Name := fs.map (·.1)

/-- `File::create` + `write_all`: replace the content if the name exists, else a new entry -/
def write (fs : FS) (name : Name) (content : Bytes) : FS :=
  if fs.any (fun f => f.1 == name) then fs.map (fun f => if f.1 == name then (name, content) else f)
  else fs ++ [(name, content)]

/-- `File::open` + `read_to_end` -/
def read (fs : FS) (name : Name) : Option Bytes := (fs.find? (fun f => f.1 == name)).map (·.2)

/-- the names `cleanup_old_checkpoints` removes: candidates in listing order, `len ≤ max` ⇒ none,
    else stable sort by key and take the first `len - max` -/
def doomed (cand : Name → Bool) (key : Name → Nat) (m : Nat) (listing : List Name) : List Name :=
  let cs := listing.filter cand
  if cs.length ≤ m then []
  else (cs.mergeSort (fun a b => decide (key a ≤ key b))).take (cs.length - m)

/-- `cleanup_old_checkpoints` for an arbitrary candidate filter and sort key -/
def cleanupWith (cand : Name → Bool) (key : Name → Nat) (max : Option Nat) (fs : FS) : FS :=
  match max with
  | none => fs
  | some m =>
    let d := doomed cand key m (names fs)
    fs.filter (fun f => !d.contains f.1)

/-- `find_latest_checkpoint` for an arbitrary candidate filter and sort key -/
def latestWith (cand : Name → Bool) (key : Name → Nat) (enabled : Bool) (fs : FS) : Option Name :=
  if !enabled then none
  else ((names fs).filter cand |>.mergeSort (fun a b => decide (key a ≤ key b))).getLast?

/-- `clear_checkpoints` for an arbitrary candidate filter -/
def clearWith (cand : Name → Bool) (fs : FS) : FS := fs.filter (fun f => !cand f.1)

def cleanup (max : Option Nat) (pid : Bytes) (fs : FS) : FS :=
  cleanupWith (isOwn pid) (sortKey (pfx pid)) max fs
def latest (enabled : Bool) (pid : Bytes) (fs : FS) : Option Name :=
  latestWith (isOwn pid) (sortKey (pfx pid)) enabled fs
def clear (pid : Bytes) (fs : FS) : FS := clearWith (isOwn pid) fs

/-- `save_checkpoint`: encode, create/overwrite the file, then clean up this pipeline's surplus -/
def save (max : Option Nat) (fs : FS) (s : State) : FS :=
  cleanup max s.pipelineId (write fs (fileName s) (encode s))

/-! ## the file on disk: `File::open(path)?.take(MAX_CHECKPOINT_FILE_BYTES).read_to_end(&mut encoded)` -/

/-- the bytes `load_checkpoint` reads of a file: at most `cap` (`none` = the whole file — the code before the
    read-cap `fix:`) -/
def readPart (cap : Option Nat) (file : Bytes) : Bytes :=
  match cap with
  | some c => file.take c
  | none => file

/-- `load_checkpoint(path)` on a file with content `file`: the read buffer ends up holding `readPart cap file`
    (its size is requested from the allocator like every other buffer: `alloc`; for this one buffer std uses
    `try_reserve`, so exhausting memory is `Err("Failed to read checkpoint")` rather than an abort — both are the
    "unbounded allocation" of the property and share the class `allocFail`), then the decoder runs on that buffer. -/
def loadFile (H : Bytes → Bytes) (cfg : Cfg) (cap : Option Nat) (file : Bytes) : Except DecErr State :=
  andThen (alloc cfg (readPart cap file).length) fun _ => load H cfg (readPart cap file)

/-! ## which names the file system (and, since the second `fix:`, `save_checkpoint` itself) accepts -/

def slash : UInt8 := 47

/-- a usable entry name of the checkpoint directory: one path component (no `/` — checked by `save_checkpoint`
    via `Path::components` since the `fix:`; before, the OS resolved it as a sub-directory path), no NUL
    (`File::create` → `InvalidInput`), at most `nameMax` bytes (`ENAMETOOLONG`; `NAME_MAX` = 255 on Linux file
    systems, measured by the harness on the scratch file system of the run) -/
def nameOK (nameMax : Nat) (name : Name) : Bool :=
  !name.contains slash && !name.contains 0 && decide (name.length ≤ nameMax)

/-- the checkpoint directory as the manager finds it -/
inductive Dir
  | missing            -- the configured path does not exist
  | notDir             -- the configured path exists and is not a directory (`read_dir` / `File::create` fail)
  | dir (fs : FS)      -- a directory holding these regular files (symlinks to regular files included)

/-- `save_checkpoint` against the real directory: `Err` (nothing created, nothing deleted) when the file name is
    unusable or the directory is not there; otherwise `save`. `enabled` is part of the manager's configuration and
    `save_checkpoint` never reads it (only `new` does: it creates the directory iff enabled). -/
def saveChecked (_enabled : Bool) (nameMax : Nat) (max : Option Nat) (d : Dir) (s : State) : Option FS :=
  match d with
  | .dir fs => if nameOK nameMax (fileName s) then some (save max fs s) else none
  | _ => none

/-- `find_latest_checkpoint`: disabled ⇒ `Ok(None)`; `!directory.exists()` ⇒ `Ok(None)`; `read_dir` error ⇒ `Err`
    (`none` here); else the scan -/
def latestChecked (enabled : Bool) (pid : Bytes) (d : Dir) : Option (Option Name) :=
  if !enabled then some none
  else match d with
    | .missing => some none
    | .notDir => none
    | .dir fs => some (latest true pid fs)

/-- `clear_checkpoints`: `read_dir` error ⇒ `Err` (`none`), whatever `enabled` says -/
def clearChecked (pid : Bytes) (d : Dir) : Option FS :=
  match d with
  | .dir fs => some (clear pid fs)
  | _ => none

/-! ## `should_checkpoint` (clock passed in; times in nanoseconds) -/

inductive Policy
  | afterEveryBarrier
  | everyNNodes (n : Nat)
  | timeInterval (secs : Nat)
  | hybrid (barriers : Bool) (secs : Nat)
deriving DecidableEq, Repr

/-- `last.is_none_or(|last| now.duration_since(last).is_ok_and(|e| e >= Duration::from_secs(secs)))` -/
def timeDue (last : Option Nat) (now secs : Nat) : Bool :=
  match last with
  | none => true
  | some l => decide (l ≤ now) && decide (secs * 1000000000 ≤ now - l)

def shouldCheckpoint (enabled : Bool) (policy : Policy) (last : Option Nat) (now : Nat)
    (nodeIndex : Nat) (isBarrier : Bool) : Bool :=
  if !enabled then false
  else match policy with
    | .afterEveryBarrier => isBarrier
    | .everyNNodes n => decide (nodeIndex > 0) && nodeIndex % n == 0   -- `is_multiple_of(0)` ⇔ `== 0`
    | .timeInterval secs => timeDue last now secs
    | .hybrid barriers secs => (barriers && isBarrier) || timeDue last now secs

/-! ## the code at the pinned commit -/

namespace Legacy

/-- no decode limit: `bincode::config::standard()` -/
def cfg (mem : Nat) : Cfg := { limit := none, mem := mem }

def load (H : Bytes → Bytes) (mem : Nat) (bytes : Bytes) : Except DecErr State :=
  IB.Checkpoint.load H (cfg mem) bytes

def toLowerAscii (b : UInt8) : UInt8 := if 65 ≤ b && b ≤ 90 then b + 32 else b

/-- `Path::new(name).extension()` for a one-component name: the part after the last `.`, unless there is
    no dot, the name is `..`, or the only dot is the first byte -/
def extension (name : Name) : Option Bytes :=
  if name = [46, 46] then none
  else
    let after := (name.reverse.takeWhile (· != 46)).reverse
    if after.length = name.length then none                 -- no dot
    else if after.length + 1 = name.length then none         -- before the last dot is empty
    else some after

/-- pinned-commit filter: `name.starts_with(prefix) && extension.eq_ignore_ascii_case("bin")` -/
def isCandidate (pid : Bytes) (name : Name) : Bool :=
  (stripPrefix (pfx pid) name).isSome &&
    (match extension name with
     | none => false
     | some e => e.map toLowerAscii == [98, 105, 110])

def cleanup (max : Option Nat) (pid : Bytes) (fs : FS) : FS :=
  cleanupWith (isCandidate pid) (sortKey (pfx pid)) max fs
def latest (enabled : Bool) (pid : Bytes) (fs : FS) : Option Name :=
  latestWith (isCandidate pid) (sortKey (pfx pid)) enabled fs
def clear (pid : Bytes) (fs : FS) : FS := clearWith (isCandidate pid) fs
def save (max : Option Nat) (fs : FS) (s : State) : FS :=
  cleanup max s.pipelineId (write fs (fileName s) (encode s))

/-- before the `is_file` fix the scans took every directory ENTRY with a well-formed name as a checkpoint —
    sub-directories (`dirs`) included. `remove_file` fails on a directory and the error is ignored, so a doomed
    directory stays while the doomed files go. -/
def cleanupWithDirs (max : Option Nat) (pid : Bytes) (dirs : List Name) (fs : FS) : FS :=
  match max with
  | none => fs
  | some m =>
    let d := doomed (isOwn pid) (sortKey (pfx pid)) m (names fs ++ dirs)
    fs.filter (fun f => !d.contains f.1)

def latestWithDirs (pid : Bytes) (dirs : List Name) (fs : FS) : Option Name :=
  ((names fs ++ dirs).filter (isOwn pid) |>.mergeSort (fun a b => decide (sortKey (pfx pid) a ≤ sortKey (pfx pid) b))).getLast?

/-- before the read-cap `fix:`: `read_to_end` of the WHOLE file, whatever its size, before any decode limit applied -/
def loadFile (H : Bytes → Bytes) (cfg : Cfg) (file : Bytes) : Except DecErr State :=
  IB.Checkpoint.loadFile H cfg none file

/-- before the single-component `fix:`: a `/` in the file name was resolved by the OS. `sub` = the regular files of
    the sub-directory `checkpoint_<part of the id before the slash>` when it exists: the new file is created THERE
    (name = the part after the last `/`), and the clean-up that follows scans the PARENT with the prefix
    `checkpoint_<whole id>_`, which no entry name (a single component) can start with: nothing is ever deleted.
    Returns (parent after, sub-directory after). -/
def saveSlash (max : Option Nat) (parent sub : FS) (leaf : Name) (s : State) : FS × FS :=
  (cleanup max s.pipelineId parent, write sub leaf (encode s))

end Legacy

end IB.Checkpoint
