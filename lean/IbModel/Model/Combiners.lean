import IbModel.Model.CombinerCore
/-!
# The built-in combiners (C06)

Transliteration of `Count` (src/collection.rs), `Sum`/`Min`/`Max` (src/combiners/basic.rs),
`AverageF64` (statistical.rs), `DistinctCount`/`DistinctSet` (distinct.rs) and `TopK` (topk.rs) as
`Combiner` structures, each with its real `build_from_group` override, plus the merge trees the
correspondence check (`COMB` requests) and the theorems of `Props/C06.lean` range over.

Representation choices (recorded in the trusted base):
* `u64` counters are `Nat`, `i64`/`T: Add` sums are `Int` (no overflow); `f64` is an exact number type
  (`NumOps`, instantiated with `Rat`): IEEE rounding is not modelled.
* `HashSet<T>` is a duplicate-free list (newest element first). Its iteration order is unspecified in
  Rust, so `DistinctSet::finish` returns the canonical (sorted) representative; the harness sorts the
  real `Vec` the same way.
* `BinaryHeap<Reverse<T>>` (a min-heap) is the ascending list of its contents: `push` = ordered insert,
  `pop` = drop the head (the smallest), `len` = length, iteration = the list (then sorted by the code).
* `Option::expect` failing (Min/Max `finish` on an empty accumulator) is output `none` (= PANIC).
-/
namespace IB.Combiners
open IB

/-! ## Count -/

/-- `impl CombineFn<V, u64, u64> for Count`; `build_from_group` = `values.len()` -/
def count (V : Type) : Combiner V Nat Nat where
  create := 0
  add acc _ := acc + 1
  merge acc other := acc + other
  finish acc := acc
  build xs := xs.length

/-! ## Sum, Average over a number type -/

/-- the arithmetic the numeric combiners use: `T::default()`, `+`, and `x / (n as f64)`;
    `sumInit` is the value `Iterator::sum::<f64>()` starts from — `-0.0` since Rust 1.83 (the neutral
    element of IEEE addition), which is the same number as `zero` in exact arithmetic but a different
    bit pattern in `f64` (`AverageF64::build_from_group` is the only user) -/
structure NumOps (α : Type) where
  zero : α
  add : α → α → α
  divNat : α → Nat → α
  sumInit : α

def intOps : NumOps Int := ⟨0, (· + ·), fun x n => x / (n : Int), 0⟩
def ratOps : NumOps Rat := ⟨0, (· + ·), fun x n => x / (n : Rat), 0⟩

/-- `Sum<T>`: `*acc = take(acc) + v`; `build_from_group` = `fold(T::default(), |a, v| a + v)` -/
def sumG {α : Type} (N : NumOps α) : Combiner α α α where
  create := N.zero
  add acc v := N.add acc v
  merge acc other := N.add acc other
  finish acc := acc
  build xs := xs.foldl (fun a v => N.add a v) N.zero

/-- `Sum<i64>` without overflow -/
def sum : Combiner Int Int Int := sumG intOps
/-- `Sum<f64>` in exact arithmetic -/
def sumRat : Combiner Rat Rat Rat := sumG ratOps

/-- `AverageF64`: accumulator `(sum, count)`; `finish` = `0.0` on count 0, else `sum / count`;
    `build_from_group` = `(values.map(into).sum(), values.len())` (`sum()` starts from `sumInit`) -/
def averageG {α : Type} (N : NumOps α) : Combiner α (α × Nat) α where
  create := (N.zero, 0)
  add acc v := (N.add acc.1 v, acc.2 + 1)
  merge acc other := (N.add acc.1 other.1, acc.2 + other.2)
  finish acc := if acc.2 == 0 then N.zero else N.divNat acc.1 acc.2
  build xs := (xs.foldl (fun a v => N.add a v) N.sumInit, xs.length)

/-- `AverageF64` in exact arithmetic -/
def average : Combiner Rat (Rat × Nat) Rat := averageG ratOps

/-! ## Min, Max (`Option<T>` accumulator; `finish` = `expect`, i.e. `none` = panic) -/

/-- `Iterator::min` = `reduce(|x, y| if x > y { y } else { x })` (keeps the first of equals) -/
def iterMin : List Int → Option Int
  | [] => none
  | x :: xs => some (xs.foldl (fun m y => if m > y then y else m) x)

/-- `Iterator::max` = `reduce(|x, y| if x > y { x } else { y })` (keeps the last of equals) -/
def iterMax : List Int → Option Int
  | [] => none
  | x :: xs => some (xs.foldl (fun m y => if m > y then m else y) x)

def minC : Combiner Int (Option Int) (Option Int) where
  create := none
  add acc v :=
    match acc with
    | some cur => if v < cur then some v else some cur
    | none => some v
  merge acc other :=
    match other with
    | some b =>
      match acc with
      | some a => if b < a then some b else some a
      | none => some b
    | none => acc
  finish acc := acc
  build xs := iterMin xs

def maxC : Combiner Int (Option Int) (Option Int) where
  create := none
  add acc v :=
    match acc with
    | some cur => if v > cur then some v else some cur
    | none => some v
  merge acc other :=
    match other with
    | some b =>
      match acc with
      | some a => if b > a then some b else some a
      | none => some b
    | none => acc
  finish acc := acc
  build xs := iterMax xs

/-! ## DistinctCount, DistinctSet (`HashSet<T>` accumulator) -/

section Distinct
variable {α : Type} [DecidableEq α]

/-- `HashSet::insert` -/
def setInsert (s : List α) (v : α) : List α := if v ∈ s then s else v :: s

/-- `HashSet::extend(other)` -/
def setExtend (s other : List α) : List α := other.foldl setInsert s

/-- `if acc.is_empty() { *acc = other } else { acc.extend(other) }` -/
def setMerge (acc other : List α) : List α := if acc.isEmpty then other else setExtend acc other

/-- `values.iter().cloned().collect::<HashSet<_>>()` -/
def setCollect (xs : List α) : List α := xs.foldl setInsert []

def distinctCount (α : Type) [DecidableEq α] : Combiner α (List α) Nat where
  create := []
  add := setInsert
  merge := setMerge
  finish acc := acc.length
  build := setCollect

/-- `finish` = `acc.into_iter().collect::<Vec<_>>()`, reported in canonical (sorted by `le`) order -/
def distinctSetBy (le : α → α → Bool) : Combiner α (List α) (List α) where
  create := []
  add := setInsert
  merge := setMerge
  finish acc := acc.mergeSort le
  build := setCollect

end Distinct

def leInt (a b : Int) : Bool := decide (a ≤ b)

def distinctSet : Combiner Int (List Int) (List Int) := distinctSetBy leInt

/-! ## TopK (`BinaryHeap<Reverse<T>>` accumulator = ascending list) -/

section TopK
variable {α : Type} (le : α → α → Bool)

/-- `BinaryHeap::push(Reverse(v))` on the ascending list: ordered insert -/
def heapPush : List α → α → List α
  | [], v => [v]
  | x :: xs, v => if le v x then v :: x :: xs else x :: heapPush xs v

/-- `acc.push(Reverse(v)); if acc.len() > self.k { acc.pop(); }` (pop drops the smallest = the head) -/
def topAdd (k : Nat) (acc : List α) (v : α) : List α :=
  let acc' := heapPush le acc v
  if acc'.length > k then acc'.tail else acc'

/-- the `while result.len() < k && (i < v1.len() || j < v2.len())` loop over two descending vectors;
    the first argument is `k - result.len()`; returns the values in the order they are pushed -/
def twoPointer : Nat → List α → List α → List α
  | 0, _, _ => []
  | _ + 1, [], [] => []
  | n + 1, [], y :: ys => y :: twoPointer n [] ys
  | n + 1, x :: xs, [] => x :: twoPointer n xs []
  | n + 1, x :: xs, y :: ys =>
    if le y x then x :: twoPointer n xs (y :: ys)     -- `v1[i] >= v2[j]`
    else y :: twoPointer n (x :: xs) ys

/-- `TopK::merge` -/
def topMerge (k : Nat) (acc other : List α) : List α :=
  if acc.length + other.length ≤ k then
    other.foldl (heapPush le) acc                       -- `acc.extend(other)`
  else
    let v1 := acc.reverse                               -- pop everything (ascending), `reverse()`
    let v2 := (other.mergeSort le).reverse              -- `into_iter`, `sort_unstable()`, `reverse()`
    (twoPointer le k v1 v2).foldl (heapPush le) []      -- `result.push(Reverse(val))`

/-- `TopK::finish`: pop everything (ascending), `reverse()` -/
def topFinish (acc : List α) : List α := acc.reverse

/-- `TopK::build_from_group`: the same push / pop-if-larger-than-k loop over the slice -/
def topBuild (k : Nat) (xs : List α) : List α :=
  xs.foldl (fun heap v =>
    let heap' := heapPush le heap v
    if heap'.length > k then heap'.tail else heap') []

def topKBy (k : Nat) : Combiner α (List α) (List α) where
  create := []
  add := topAdd le k
  merge := topMerge le k
  finish := topFinish
  build := topBuild le k

end TopK

def topK (k : Nat) : Combiner Int (List Int) (List Int) := topKBy leInt k

/-! ## Merge trees: how accumulators are produced and combined -/

/-- A way of computing an accumulator from parts of the input:
    `leaf xs` = `create` then `add_input` each value; `built xs` = `build_from_group(xs)`;
    `node l r` = `merge(&mut l, r)`; `more t xs` = `add_input` each value onto the result of `t`. -/
inductive MergeTree (V : Type) where
  | leaf (xs : List V)
  | built (xs : List V)
  | node (l r : MergeTree V)
  | more (t : MergeTree V) (xs : List V)

namespace MergeTree
variable {V A O : Type}

def eval (c : Combiner V A O) : MergeTree V → A
  | leaf xs => c.foldAdd c.create xs
  | built xs => c.build xs
  | node l r => c.merge (eval c l) (eval c r)
  | more t xs => c.foldAdd (eval c t) xs

/-- all values of the tree, left to right -/
def leaves : MergeTree V → List V
  | leaf xs => xs
  | built xs => xs
  | node l r => leaves l ++ leaves r
  | more t xs => leaves t ++ xs

/-- the parts (one list per leaf / added block), left to right -/
def parts : MergeTree V → List (List V)
  | leaf xs => [xs]
  | built xs => [xs]
  | node l r => parts l ++ parts r
  | more t xs => parts t ++ [xs]

end MergeTree

end IB.Combiners
