/-!
# SHA-256 (FIPS 180-4) as a structurally recursive function over lists (C12)

`compute_checksum` of `src/checkpoint.rs` is `format!("{:x}", Sha256::digest(data))`. The checkpoint model takes
the hash as a parameter `H`; this file provides the instance the C12 driver uses AND that the C12 theorems can
talk about: unlike `IbModel/Util/Sha256.lean` (arrays + `for` loops, opaque to the kernel) every function here
is structural recursion / `foldl` over lists, so

* `(sha256Hex x).length = 64` and "`sha256Hex x` is ASCII hex, hence valid UTF-8" are proved for EVERY input
  (`Proofs/CheckpointSha.lean`): the hash hypotheses of the round-trip theorems hold for the real hash;
* `sha256Hex a ≠ sha256Hex b` for concrete `a`, `b` is checked by kernel evaluation (`decide`): the pointwise
  collision hypothesis of the tamper theorems holds for the real hash at concrete pairs.

Its agreement with the `sha2` crate is validated by the correspondence run: every `CKPT-ENC` / accepted `CKPT-DEC`
case needs equal digests on both sides. Imports nothing.
-/
namespace IB.Checkpoint.Sha

def K : List UInt32 := [
  0x428a2f98, 0x71374491, 0xb5c0fbcf, 0xe9b5dba5, 0x3956c25b, 0x59f111f1, 0x923f82a4, 0xab1c5ed5,
  0xd807aa98, 0x12835b01, 0x243185be, 0x550c7dc3, 0x72be5d74, 0x80deb1fe, 0x9bdc06a7, 0xc19bf174,
  0xe49b69c1, 0xefbe4786, 0x0fc19dc6, 0x240ca1cc, 0x2de92c6f, 0x4a7484aa, 0x5cb0a9dc, 0x76f988da,
  0x983e5152, 0xa831c66d, 0xb00327c8, 0xbf597fc7, 0xc6e00bf3, 0xd5a79147, 0x06ca6351, 0x14292967,
  0x27b70a85, 0x2e1b2138, 0x4d2c6dfc, 0x53380d13, 0x650a7354, 0x766a0abb, 0x81c2c92e, 0x92722c85,
  0xa2bfe8a1, 0xa81a664b, 0xc24b8b70, 0xc76c51a3, 0xd192e819, 0xd6990624, 0xf40e3585, 0x106aa070,
  0x19a4c116, 0x1e376c08, 0x2748774c, 0x34b0bcb5, 0x391c0cb3, 0x4ed8aa4a, 0x5b9cca4f, 0x682e6ff3,
  0x748f82ee, 0x78a5636f, 0x84c87814, 0x8cc70208, 0x90befffa, 0xa4506ceb, 0xbef9a3f7, 0xc67178f2]

/-- the eight working variables / the chaining value -/
structure S8 where
  a : UInt32
  b : UInt32
  c : UInt32
  d : UInt32
  e : UInt32
  f : UInt32
  g : UInt32
  h : UInt32

def H0 : S8 :=
  ⟨0x6a09e667, 0xbb67ae85, 0x3c6ef372, 0xa54ff53a, 0x510e527f, 0x9b05688c, 0x1f83d9ab, 0x5be0cd19⟩

def rotr (x : UInt32) (n : UInt32) : UInt32 := (x >>> n) ||| (x <<< (32 - n))

/-- `msg ++ 0x80 ++ 0…0 ++ (bit length as 8 big-endian bytes)`, a multiple of 64 bytes -/
def pad (msg : List UInt8) : List UInt8 :=
  let l := msg.length
  let zeros := (55 + 64 - l % 64) % 64
  let bits := l * 8
  msg ++ [0x80] ++ List.replicate zeros 0 ++
    [7, 6, 5, 4, 3, 2, 1, 0].map (fun i => UInt8.ofNat (bits / 256 ^ i % 256))

def word (b0 b1 b2 b3 : UInt8) : UInt32 :=
  (b0.toUInt32 <<< 24) ||| (b1.toUInt32 <<< 16) ||| (b2.toUInt32 <<< 8) ||| b3.toUInt32

/-- big-endian 32-bit words of a byte string (a trailing partial word is dropped; never happens after `pad`) -/
def words : List UInt8 → List UInt32
  | b0 :: b1 :: b2 :: b3 :: r => word b0 b1 b2 b3 :: words r
  | _ => []

/-- message schedule: emits `n` words from a sliding window of the last 16 (`W[t-16] … W[t-1]`) -/
def sched : Nat → List UInt32 → List UInt32
  | 0, _ => []
  | n + 1, [w0, w1, w2, w3, w4, w5, w6, w7, w8, w9, w10, w11, w12, w13, w14, w15] =>
    let s0 := rotr w1 7 ^^^ rotr w1 18 ^^^ (w1 >>> 3)
    let s1 := rotr w14 17 ^^^ rotr w14 19 ^^^ (w14 >>> 10)
    w0 :: sched n [w1, w2, w3, w4, w5, w6, w7, w8, w9, w10, w11, w12, w13, w14, w15, w0 + s0 + w9 + s1]
  | _ + 1, _ => []

/-- one round; `kw = K[t] + W[t]` -/
def round (s : S8) (kw : UInt32) : S8 :=
  let s1 := rotr s.e 6 ^^^ rotr s.e 11 ^^^ rotr s.e 25
  let ch := (s.e &&& s.f) ^^^ ((~~~ s.e) &&& s.g)
  let t1 := s.h + s1 + ch + kw
  let s0 := rotr s.a 2 ^^^ rotr s.a 13 ^^^ rotr s.a 22
  let maj := (s.a &&& s.b) ^^^ (s.a &&& s.c) ^^^ (s.b &&& s.c)
  ⟨t1 + (s0 + maj), s.a, s.b, s.c, s.d + t1, s.e, s.f, s.g⟩

def compress (h : S8) (block : List UInt8) : S8 :=
  let r := (List.zipWith (· + ·) K (sched 64 (words block))).foldl round h
  ⟨h.a + r.a, h.b + r.b, h.c + r.c, h.d + r.d, h.e + r.e, h.f + r.f, h.g + r.g, h.h + r.h⟩

def blocks : Nat → S8 → List UInt8 → S8
  | 0, h, _ => h
  | fuel + 1, h, bytes =>
    if bytes.isEmpty then h else blocks fuel (compress h (bytes.take 64)) (bytes.drop 64)

def hexNibble (n : UInt8) : UInt8 := if n < 10 then 48 + n else 87 + n

def byteHex (b : UInt8) : List UInt8 := [hexNibble (b >>> 4), hexNibble (b &&& 0x0f)]

def wordHex (w : UInt32) : List UInt8 :=
  byteHex ((w >>> 24) &&& 0xff).toUInt8 ++ byteHex ((w >>> 16) &&& 0xff).toUInt8 ++
  byteHex ((w >>> 8) &&& 0xff).toUInt8 ++ byteHex (w &&& 0xff).toUInt8

def digest (msg : List UInt8) : S8 :=
  let p := pad msg
  blocks (p.length / 64 + 1) H0 p

/-- lower-case hex of the SHA-256 digest, as bytes (what `format!("{:x}", hasher.finalize())` yields) -/
def sha256Hex (msg : List UInt8) : List UInt8 :=
  let h := digest msg
  wordHex h.a ++ wordHex h.b ++ wordHex h.c ++ wordHex h.d ++
  wordHex h.e ++ wordHex h.f ++ wordHex h.g ++ wordHex h.h

end IB.Checkpoint.Sha
