import IbModel.Model.Planner
/-!
# Planner model, part 2: what `build_plan` REPORTS and what `Runner::run_collect` does with it

`src/planner.rs`:
* the `…_tracked` passes — each pass returns its chain AND the `OptimizationDecision` it reports
  (`fuse_stateless_tracked:467`, `reorder_value_only_runs_tracked:523`, `lift_gbk_then_combine_tracked:562`,
  `drop_mid_materialized_tracked:612`);
* `estimate_source_len:646`, `suggest_partitions:660`;
* `build_plan:391` — the pass ORDER and the order of the reported decisions;
* `Plan::explain:269` — per-step node type / description / barrier flag / cost hint and the
  `cost_estimate.{barriers,total_ops,stateless_ops,source_size}` counters (a loop with mutable counters = a fold
  with an accumulator);
`src/runner.rs::run_collect:96` — the chain that is executed is `plan.chain`; the partition count is
`partitions.or(suggested).unwrap_or(default_partitions)`.

The chain component of every tracked pass is the pass of `Model/Planner.lean` (same definition, not a copy).
A `Source` node of the model carries its length (`VecOps::len` of a vector source is always `Some`), so the
"unknown size" branch of `explain` is not reachable in the model.
-/
namespace IB
variable {P : Type}

/-- `OptimizationDecision` -/
inductive Decision where
  | fusedStateless (blocksBefore blocksAfter opsCount : Nat)
  | reorderedValueOps (opsCount : Nat) (byCost : Bool)
  | liftedGbkCombine (removedBarrier : Bool)
  | droppedMidMaterialized (count : Nat)
  | partitionSuggestion (sourceLen : Option Nat) (partitions : Nat)
deriving DecidableEq, Repr

def Node.isStateless : Node P → Bool
  | .stateless _ => true
  | _ => false

/-- `matches!(n, Node::Stateless(_))` counted over a chain -/
def countStateless (c : List (Node P)) : Nat := (c.filter Node.isStateless).length

/-- the `total_ops` counter of the fusion pass: the op count of every `Stateless` node -/
def statelessOpCount : List (Node P) → Nat
  | [] => 0
  | .stateless ops :: rest => ops.length + statelessOpCount rest
  | _ :: rest => statelessOpCount rest

/-- `fuse_stateless_tracked`: `blocks_before` counts every `Stateless` node met (the first of a run and every
    absorbed one), `total_ops` their ops, `blocks_after` the `Stateless` nodes of the output; a decision is
    reported iff `blocks_before > blocks_after`; the empty chain returns early with `None` -/
def fuseTracked (c : List (Node P)) : List (Node P) × Option Decision :=
  if c.isEmpty then (c, none)
  else
    let out := fuse c
    let before := countStateless c
    let after := countStateless out
    (out, if before > after then some (.fusedStateless before after (statelessOpCount c)) else none)

/-- the decisions of `reorder_value_only_runs_tracked`: one `ReorderedValueOps { ops_count, by_cost: true }` per
    block that is all-movable and longer than one op — whether or not the sort moved anything -/
def reorderDecisions : List (Node P) → List Decision
  | [] => []
  | .stateless ops :: rest =>
    (if ops.all movable && ops.length > 1 then [Decision.reorderedValueOps ops.length true] else [])
      ++ reorderDecisions rest
  | _ :: rest => reorderDecisions rest

def reorderTracked (c : List (Node P)) : List (Node P) × List Decision := (reorder c, reorderDecisions c)

/-- the `lifted` flag of `lift_gbk_then_combine_tracked`: some window `GroupByKey, CombineValues{local_groups:
    Some}` was rewritten. (A window is never hidden by an earlier rewrite: a rewrite consumes a `GroupByKey` and a
    `CombineValues`, and a window starts with a `GroupByKey`.) -/
def liftFires : List (Node P) → Bool
  | .gbk _ _ :: .combineValues _ (some _) _ :: _ => true
  | _ :: rest => liftFires rest
  | [] => false

/-- `lift_gbk_then_combine_tracked` (the `chain.len() < 2` early return is the identity of `liftGbk` on such
    chains and `liftFires` is false there) -/
def liftTracked (c : List (Node P)) : List (Node P) × Option Decision :=
  (liftGbk c, if liftFires c then some (.liftedGbkCombine true) else none)

/-- `dropped_count`: the `Materialized` nodes at an index other than the last -/
def midMatCount : List (Node P) → Nat
  | [] => 0
  | [_] => 0
  | .materialized _ :: n :: rest => 1 + midMatCount (n :: rest)
  | _ :: n :: rest => midMatCount (n :: rest)

def dropMidTracked (c : List (Node P)) : List (Node P) × Option Decision :=
  (dropMid c, if midMatCount c > 0 then some (.droppedMidMaterialized (midMatCount c)) else none)

/-- `estimate_source_len`: the length of the head `Source`, `None` when the chain does not start with one -/
def estimateSourceLen : List (Node P) → Option Nat
  | .source _ len _ :: _ => some len
  | _ => none

/-- `suggest_partitions`, `hw = num_cpus::get().max(2)`: `ceil(n / 64 000)` clamped to `[hw, 8·hw]` -/
def suggestPartitions (hw : Nat) : Option Nat → Option Nat
  | none => none
  | some n =>
    let parts := (n + 63999) / 64000
    some (if parts < hw then hw else if parts > hw * 8 then hw * 8 else parts)

structure Plan (P : Type) where
  chain : List (Node P)
  suggestedPartitions : Option Nat
  optimizations : List Decision

/-- `build_plan` after the back-walk, for a machine with `cpus` logical CPUs: the four passes in the code's
    order, their decisions in that order, then the partition suggestion -/
def buildPlan (cpus : Nat) (c : List (Node P)) : Plan P :=
  let lenHint := estimateSourceLen c
  let f := fuseTracked c
  let r := reorderTracked f.1
  let l := liftTracked r.1
  let d := dropMidTracked l.1
  let suggested := suggestPartitions (max cpus 2) lenHint
  { chain := d.1
    suggestedPartitions := suggested
    optimizations := f.2.toList ++ r.2 ++ l.2.toList ++ d.2.toList ++
      (match suggested with
       | some parts => [Decision.partitionSuggestion lenHint parts]
       | none => []) }

/-! ## `Plan::explain` -/

structure ExplainStep where
  step : Nat
  nodeType : String
  description : String
  isBarrier : Bool
  costHint : Nat
deriving DecidableEq, Repr

structure CostEstimate where
  barriers : Nat
  totalOps : Nat
  statelessOps : Nat
  sourceSize : Option Nat
deriving DecidableEq, Repr

structure Explanation where
  steps : List ExplainStep
  costEstimate : CostEstimate
  optimizations : List Decision
  suggestedPartitions : Option Nat

/-- `node_type` -/
def Node.typeName : Node P → String
  | .source .. => "Source"
  | .stateless _ => "Stateless"
  | .gbk .. => "GroupByKey"
  | .combineValues .. => "CombineValues"
  | .combineGlobal .. => "CombineGlobal"
  | .coGroup .. => "CoGroup"
  | .materialized _ => "Materialized"

/-- `is_barrier` -/
def Node.isBarrier : Node P → Bool
  | .gbk .. | .combineValues .. | .combineGlobal .. | .coGroup .. => true
  | _ => false

/-- the per-step `cost_hint`: 1 / Σ op costs / 100 / 80 / 150 / 90 / 1 -/
def Node.stepCost : Node P → Nat
  | .source .. => 1
  | .stateless ops => (ops.map (·.cost)).foldl (· + ·) 0
  | .gbk .. => 100
  | .combineValues .. => 80
  | .coGroup .. => 150
  | .combineGlobal .. => 90
  | .materialized _ => 1

/-- `description` -/
def Node.description : Node P → String
  | .source _ len _ => "Read data source (" ++ toString len ++ " elements)"
  | .stateless ops =>
    "Apply " ++ toString ops.length ++ " operations: [" ++
      ", ".intercalate (ops.map (fun op => "op(cost=" ++ toString op.cost ++ ")")) ++ "]"
  | .gbk .. => "Group elements by key (BARRIER)"
  | .combineValues _ lg _ =>
    "Combine values per key " ++ (if lg.isSome then "with local pre-aggregation" else "on pairs") ++ " (BARRIER)"
  | .coGroup .. => "Co-group two collections (BARRIER)"
  | .combineGlobal _ _ _ fo =>
    "Global aggregation with fanout=" ++ (match fo with | some f => toString f | none => "unbounded") ++ " (BARRIER)"
  | .materialized _ => "Materialize results"

/-- the mutable state of the loop in `explain` -/
structure ExplainAcc where
  steps : List ExplainStep := []
  barriers : Nat := 0
  totalOps : Nat := 0
  statelessOps : Nat := 0
  sourceSize : Option Nat := none

/-- one iteration: `idx` is the 0-based position -/
def explainIter (acc : ExplainAcc) (idx : Nat) (n : Node P) : ExplainAcc :=
  let acc1 : ExplainAcc :=
    match n with
    | .source _ len _ => { acc with sourceSize := some len }
    | .stateless ops => { acc with statelessOps := acc.statelessOps + ops.length, totalOps := acc.totalOps + ops.length }
    | .gbk .. => { acc with barriers := acc.barriers + 1, totalOps := acc.totalOps + 1 }
    | .combineValues .. => { acc with barriers := acc.barriers + 1, totalOps := acc.totalOps + 1 }
    | .coGroup .. => { acc with barriers := acc.barriers + 1, totalOps := acc.totalOps + 1 }
    | .combineGlobal .. => { acc with barriers := acc.barriers + 1, totalOps := acc.totalOps + 1 }
    | .materialized _ => { acc with totalOps := acc.totalOps + 1 }
  { acc1 with steps := acc1.steps ++
      [{ step := idx + 1, nodeType := n.typeName, description := n.description, isBarrier := n.isBarrier,
         costHint := n.stepCost }] }

/-- `for (idx, node) in self.chain.iter().enumerate()` -/
def explainLoop : ExplainAcc → Nat → List (Node P) → ExplainAcc
  | acc, _, [] => acc
  | acc, idx, n :: rest => explainLoop (explainIter acc idx n) (idx + 1) rest

def Plan.explain (p : Plan P) : Explanation :=
  let acc := explainLoop {} 0 p.chain
  { steps := acc.steps
    costEstimate := ⟨acc.barriers, acc.totalOps, acc.statelessOps, acc.sourceSize⟩
    optimizations := p.optimizations
    suggestedPartitions := p.suggestedPartitions }

/-! ## `Runner::run_collect` -/

inductive ExecMode where
  | sequential
  | parallel (partitions : Option Nat)

/-- `Runner::default().default_partitions = 2 * num_cpus::get().max(2)` -/
def defaultPartitions (cpus : Nat) : Nat := 2 * max cpus 2

/-- `partitions.or(suggested_parts).unwrap_or(self.default_partitions)` -/
def chosenPartitions (cpus : Nat) (requested suggested : Option Nat) : Nat :=
  match requested with
  | some n => n
  | none => match suggested with
    | some n => n
    | none => defaultPartitions cpus

/-- `run_collect` of a default `Runner` with the given mode on the back-walked chain `c`: plan, then execute
    `plan.chain` -/
def runCollect (concat : List P → P) (cpus : Nat) (mode : ExecMode) (c : List (Node P)) : M P :=
  let plan := buildPlan cpus c
  match mode with
  | .sequential => execSeq plan.chain
  | .parallel partitions => execPar concat plan.chain (chosenPartitions cpus partitions plan.suggestedPartitions)

/-! ## canonical one-line rendering shared with the harness (`c03.rs::render_explain`) -/

def optNat : Option Nat → String
  | some n => toString n
  | none => "none"

def Decision.render : Decision → String
  | .fusedStateless b a o => s!"Fused({b},{a},{o})"
  | .reorderedValueOps n byCost => s!"Reordered({n},{if byCost then 1 else 0})"
  | .liftedGbkCombine rb => s!"Lifted({if rb then 1 else 0})"
  | .droppedMidMaterialized n => s!"Dropped({n})"
  | .partitionSuggestion len parts => s!"Parts({optNat len},{parts})"

def renderDecisions (ds : List Decision) : String :=
  if ds.isEmpty then "-" else ",".intercalate (ds.map Decision.render)

def underscored (s : String) : String := s.map (fun ch => if ch == ' ' then '_' else ch)

def ExplainStep.render (s : ExplainStep) : String :=
  s!"{s.step}:{s.nodeType}:{if s.isBarrier then 1 else 0}:{s.costHint}:{underscored s.description}"

def Explanation.render (e : Explanation) : String :=
  let steps := if e.steps.isEmpty then "-" else ";".intercalate (e.steps.map ExplainStep.render)
  s!"opts={renderDecisions e.optimizations} est={e.costEstimate.barriers}/{e.costEstimate.totalOps}/{e.costEstimate.statelessOps}/{optNat e.costEstimate.sourceSize} parts={optNat e.suggestedPartitions} steps={steps}"

end IB
