import IbModel.Util.Wire
import IbModel.Model.Window
/-!
Driver handlers for C13.

* `TUMBLE <ts> <size> <off>` ↦ `W <start> <end>` | `PANIC`   (`tumble`: current code, overflow-checking build)
* `TUMBLE-WRAP …` (`tumbleWrapping`: current code, release arithmetic), `TUMBLE-LEGACY …` (`Legacy.tumble`:
  pre-fix code, overflow-checking), `TUMBLE-LEGACY-WRAP …` (`Legacy.tumbleWrapping`) — same answer format; the
  harness compiles the text of `src/window.rs` (current / pre-fix revision from git) under those profiles
* `WCMP <s1> <e1> <s2> <e2>` ↦ `<T|F> <LT|EQ|GT> <T|F>` (`==`, `cmp`, hash consistent with `==`)
* `WGROUP <kbw|gbw|kkbw|gbkw> <size> <off> <seq|par:T:P|par:T:none:EFF> <d|t|a> <rows>` ↦ `OK <rows>` | `PANIC`
  (row syntax: see `harness/src/c13.rs`; the model never answers `ERR …`). Grouped answers are canonicalised
  exactly like the harness canonicalises the real output: groups sorted by key (hash-map order is not
  modelled), group CONTENTS left in the order produced (input order — clause 2 of `groupByWindow_exact`).
-/
namespace IB.D13
open IB.Wire IB.Window

def u64? (s : String) : Option Nat :=
  match parseNat? s with
  | some n => if n < U64 then some n else none
  | none => none

def tumbleWith (f : Nat → Nat → Nat → Option Window) : List String → String
  | [ts, size, off] =>
    match u64? ts, u64? size, u64? off with
    | some ts, some size, some off =>
      match f ts size off with
      | some w => s!"W {w.start} {w.stop}"
      | none => "PANIC"
    | _, _, _ => "BAD-OP"
  | _ => "BAD-OP"

def handleTumble : List String → String := tumbleWith tumble
/-- the current code under release arithmetic -/
def handleTumbleWrap : List String → String := tumbleWith tumbleWrapping
/-- the pre-fix code, overflow-checking build / release arithmetic -/
def handleTumbleLegacy : List String → String := tumbleWith Legacy.tumble
def handleTumbleLegacyWrap : List String → String := tumbleWith Legacy.tumbleWrapping

/-- `key:ts:val` -/
def krow? (s : String) : Option (Int × Timestamped Int) :=
  match s.splitOn ":" with
  | [k, t, v] => do pure (← parseInt? k, ⟨← u64? t, ← parseInt? v⟩)
  | _ => none

def rows? {α : Type} (p : String → Option α) (s : String) : Option (List α) :=
  if s == "-" then some [] else (s.splitOn ",").mapM p

/-- `seq` ↦ one partition holding everything; `par:T:P` ↦ `exec_par`'s split of the source into `P`
    (`Some(P)`, 0 included); `par:T:none:EFF` ↦ the split into `EFF`, the count the real planner/runner
    resolved `None` to (the answer does not depend on it: `groupByWindow_seq_eq_par`) -/
def parts? {α : Type} (mode : String) (xs : List α) : Option (List (List α)) :=
  if mode == "seq" then some [xs]
  else match mode.splitOn ":" with
    | ["par", t, p] =>
      match parseNat? t, parseNat? p with
      | some _, some p => some (sourceParts xs p)
      | _, _ => none
    | ["par", t, "none", eff] =>
      match parseNat? t, parseNat? eff with
      | some _, some p => some (sourceParts xs p)
      | _, _ => none
    | _ => none

def joinOrDash (l : List String) : String := if l.isEmpty then "-" else ",".intercalate l

def showW (w : Window) : String := s!"{w.start}-{w.stop}"
def dots (vs : List Int) : String := ".".intercalate (vs.map toString)

def leW (a b : Window) : Bool := a.start < b.start || (a.start == b.start && a.stop ≤ b.stop)
def leKW (a b : Int × Window) : Bool := a.1 < b.1 || (a.1 == b.1 && leW a.2 b.2)

/-- `ts:val` as a raw source row -/
def rawRow? (s : String) : Option (Nat × Int) :=
  match s.splitOn ":" with
  | [t, v] => do pure (← u64? t, ← parseInt? v)
  | _ => none

def showRows (rs : List (Window × Int)) : String :=
  "OK " ++ joinOrDash (rs.map (fun r => s!"{showW r.1}:{r.2}"))

def showGroups (gs : List (Window × List Int)) : String :=
  let gs := gs.mergeSort (fun a b => leW a.1 b.1)
  "OK " ++ joinOrDash (gs.map (fun g => s!"{showW g.1}:{dots g.2}"))

/-- unkeyed ops over source partitions of raw `(ts, val)` rows; `src` selects the helper that builds
    the `Timestamped` collection (stateless, applied per partition like every `map`) -/
def unkeyed (op src : String) (size off : Nat) (parts : List (List (Nat × Int))) : String :=
  if src == "d" || src == "t" then
    let tparts : List (List (Timestamped Int)) :=
      if src == "d" then parts.map (fun p => p.map (fun r => ⟨r.1, r.2⟩)) else parts.map toTimestamped
    if op == "kbw" then
      match keyByWindowPar size off tparts with
      | none => "PANIC"
      | some rs => showRows rs
    else
      match groupByWindow size off tparts with
      | none => "PANIC"
      | some gs => showGroups gs
  else if src == "a" then
    let tparts : List (List (Timestamped (Nat × Int))) := parts.map (attachTimestamps Prod.fst)
    if op == "kbw" then
      match keyByWindowPar size off tparts with
      | none => "PANIC"
      | some rs => showRows (rs.map (fun r => (r.1, r.2.2)))
    else
      match groupByWindow size off tparts with
      | none => "PANIC"
      | some gs => showGroups (gs.map (fun g => (g.1, g.2.map Prod.snd)))
  else "BAD-OP"

def handleWGroup : List String → String
  | [op, size, off, mode, src, rows] =>
    match u64? size, u64? off with
    | some size, some off =>
      if op == "kbw" || op == "gbw" then
        match rows? rawRow? rows with
        | none => "BAD-OP"
        | some xs =>
          match parts? mode xs with
          | none => "BAD-OP"
          | some parts => unkeyed op src size off parts
      else if (op == "kkbw" || op == "gbkw") && src == "d" then
        match rows? krow? rows with
        | none => "BAD-OP"
        | some xs =>
          match parts? mode xs with
          | none => "BAD-OP"
          | some parts =>
            if op == "kkbw" then
              match keyByKeyAndWindowPar size off parts with
              | none => "PANIC"
              | some rs => "OK " ++ joinOrDash (rs.map (fun r => s!"{r.1.1}@{showW r.1.2}:{r.2}"))
            else
              match groupByKeyAndWindow size off parts with
              | none => "PANIC"
              | some gs =>
                let gs := gs.mergeSort (fun a b => leKW a.1 b.1)
                "OK " ++ joinOrDash (gs.map (fun g => s!"{g.1.1}@{showW g.1.2}:{dots g.2}"))
      else "BAD-OP"
    | _, _ => "BAD-OP"
  | _ => "BAD-OP"

def ordStr : Ordering → String
  | .lt => "LT" | .eq => "EQ" | .gt => "GT"

/-- `WCMP s1 e1 s2 e2` ↦ `<a == b> <a.cmp(b)> <a == b → hash a == hash b> <a.partial_cmp(b)>` -/
def handleWCmp : List String → String
  | [s1, e1, s2, e2] =>
    match u64? s1, u64? e1, u64? s2, u64? e2 with
    | some s1, some e1, some s2, some e2 =>
      let a : Window := ⟨s1, e1⟩
      let b : Window := ⟨s2, e2⟩
      let pc := match a.partialCmpImpl b with
        | some o => ordStr o
        | none => "NONE"
      s!"{boolStr (a.eqImpl b)} {ordStr (a.cmpImpl b)} {boolStr (!(a.eqImpl b) || a.hashWords == b.hashWords)} {pc}"
    | _, _, _, _ => "BAD-OP"
  | _ => "BAD-OP"

def handlers : List (String × (List String → String)) :=
  [("TUMBLE", handleTumble), ("TUMBLE-WRAP", handleTumbleWrap), ("TUMBLE-LEGACY", handleTumbleLegacy),
   ("TUMBLE-LEGACY-WRAP", handleTumbleLegacyWrap), ("WGROUP", handleWGroup),
   ("WCMP", handleWCmp)]

end IB.D13
