import IbModel.Util.Wire
import IbModel.Model.Window
import IbModel.Model.WindowPlan
/-!
Driver handlers for C13.

* `TUMBLE <ts> <size> <off>` ↦ `W <start> <end>` | `PANIC`   (`tumble`: current code, overflow-checking build)
* `TUMBLE-WRAP …` (`tumbleWrapping`: current code, release arithmetic), `TUMBLE-LEGACY …` (`Legacy.tumble`:
  pre-fix code, overflow-checking), `TUMBLE-LEGACY-WRAP …` (`Legacy.tumbleWrapping`) — same answer format; the
  harness compiles the text of `src/window.rs` (current / vendored pre-fix text) under those profiles
* `WNEW <s> <e>` (`Window.new?`, debug assertions on) / `WNEW-REL <s> <e>` (`Window.newRelease`)
* `WPLAN <op> <src>` ↦ the node kinds of the chain the runner executes for that pipeline, comma separated
  (`planKinds`: the planner model `optimise` applied to the builders' chain `builderChain`)
* `WCMP <s1> <e1> <s2> <e2>` ↦ `<T|F> <LT|EQ|GT> <T|F>` (`==`, `cmp`, hash consistent with `==`)
* `WGROUP <op> <size> <off> <mode> <src> <rows>` ↦ `OK <rows>` | `PANIC`, `op` one of `kbw gbw gbwv gbwl gbws gbwj`
  (unkeyed; `src` `d|t|a`) or `kkbw kkbwv gbkw` (keyed; `src` `d|k`), `mode` one of `seq`, `par:T:P`, `par:T:none`, `ckseq`,
  `ckpar:T:P` (row syntax: see `harness/src/c13.rs`; the model never answers `ERR …`). Grouped answers are
  canonicalised exactly like the harness canonicalises the real output: groups sorted by key (hash-map order is not
  modelled) — except `gbws`, whose row order is the model's sort by `Window.cmpImpl` —, group contents sorted (the
  order inside a group is not part of the property).
-/
namespace IB.D13
open IB.Wire IB.Window

def u64? (s : String) : Option Nat :=
  match parseNat? s with
  | some n => if n < U64 then some n else none
  | none => none

def tumbleWith (f : Nat → Nat → Nat → Option Window) : List String → String
  | [ts, size, off] =>
    match u64? ts, u64? size, u64? off with
    | some ts, some size, some off =>
      match f ts size off with
      | some w => s!"W {w.start} {w.stop}"
      | none => "PANIC"
    | _, _, _ => "BAD-OP"
  | _ => "BAD-OP"

def handleTumble : List String → String := tumbleWith tumble
/-- the current code under release arithmetic -/
def handleTumbleWrap : List String → String := tumbleWith tumbleWrapping
/-- the pre-fix code, overflow-checking build / release arithmetic -/
def handleTumbleLegacy : List String → String := tumbleWith Legacy.tumble
def handleTumbleLegacyWrap : List String → String := tumbleWith Legacy.tumbleWrapping

/-- `key:ts:val` -/
def krow? (s : String) : Option (Int × Nat × Int) :=
  match s.splitOn ":" with
  | [k, t, v] => do pure (← parseInt? k, ← u64? t, ← parseInt? v)
  | _ => none

def rows? {α : Type} (p : String → Option α) (s : String) : Option (List α) :=
  if s == "-" then some [] else (s.splitOn ",").mapM p

/-- `seq` / `ckseq` ↦ one partition holding everything; `par:T:P` / `ckpar:T:P` ↦ `exec_par`'s split of the source
    into `P` (`Some(P)`, 0 included); `par:T:none` ↦ the runner resolves `None` to a machine-dependent count (the
    planner's suggestion or 2 × cores) that is deliberately NOT part of the request: the model evaluates with 32 —
    by `keyByWindow_seq_eq_par` / `groupByWindow_seq_eq_par` the answer is the same for every count.
    Checkpointing is transparent in the model (the `ck*` modes run the same plan). -/
def parts? {α : Type} (mode : String) (xs : List α) : Option (List (List α)) :=
  if mode == "seq" || mode == "ckseq" then some [xs]
  else match mode.splitOn ":" with
    | [m, t, "none"] =>
      if m == "par" then (parseNat? t).map (fun _ => sourceParts xs 32) else none
    | [m, t, p] =>
      if m == "par" || m == "ckpar" then
        match parseNat? t, parseNat? p with
        | some _, some p => some (sourceParts xs p)
        | _, _ => none
      else none
    | _ => none

def joinOrDash (l : List String) : String := if l.isEmpty then "-" else ",".intercalate l

def showW (w : Window) : String := s!"{w.start}-{w.stop}"
def sortInts (vs : List Int) : List Int := vs.mergeSort (fun a b => decide (a ≤ b))
def dots (vs : List Int) : String := ".".intercalate ((sortInts vs).map toString)

/-- canonical row order of the harness (`sort` on `(u64, u64)` tuples); `gbws` uses `sortByWindow` instead -/
def leW (a b : Window) : Bool := a.start < b.start || (a.start == b.start && a.stop ≤ b.stop)
def leKW (a b : Int × Window) : Bool := a.1 < b.1 || (a.1 == b.1 && leW a.2 b.2)

/-- `ts:val` as a raw source row -/
def rawRow? (s : String) : Option (Nat × Int) :=
  match s.splitOn ":" with
  | [t, v] => do pure (← u64? t, ← parseInt? v)
  | _ => none

def showRows (rs : List (Window × Int)) : String :=
  "OK " ++ joinOrDash (rs.map (fun r => s!"{showW r.1}:{r.2}"))

def showGroupRows (gs : List (Window × List Int)) : String :=
  "OK " ++ joinOrDash (gs.map (fun g => s!"{showW g.1}:{dots g.2}"))

def showGroups (gs : List (Window × List Int)) : String :=
  showGroupRows (gs.mergeSort (fun a b => leW a.1 b.1))

/-- how the `PCollection<Timestamped<i64>>` is built from the raw `(ts, val)` rows of one partition (every helper is a
    stateless `map`, applied per partition): `d` direct, `t` `to_timestamped`, `a` `attach_timestamps(|r| r.0)` followed
    by the `map` that drops the carried row -/
def buildTs (src : String) (p : List (Nat × Int)) : Option (List (Timestamped Int)) :=
  if src == "d" then some (p.map (fun r => ⟨r.1, r.2⟩))
  else if src == "t" then some (toTimestamped p)
  else if src == "a" then some ((attachTimestamps Prod.fst p).map (fun ev => ⟨ev.ts, ev.value.2⟩))
  else none

/-- keyed: `d` direct, `k` = `attach_timestamps(|r| r.1).key_by(|ev| ev.value.0).map_values(drop the carried row)` -/
def buildKts (src : String) (p : List (Int × Nat × Int)) : Option (List (Int × Timestamped Int)) :=
  if src == "d" then some (p.map (fun r => (r.1, ⟨r.2.1, r.2.2⟩)))
  else if src == "k" then
    some ((keyBy (fun ev : Timestamped (Int × Nat × Int) => ev.value.1) (attachTimestamps (fun r => r.2.1) p)).map
      (fun kv => (kv.1, ⟨kv.2.ts, kv.2.value.2.2⟩)))
  else none

def unkeyed (op : String) (size off : Nat) (tparts : List (List (Timestamped Int))) : String :=
  if op == "kbw" then
    match keyByWindowPar size off tparts with
    | none => "PANIC"
    | some rs => showRows rs
  else
    match groupByWindow size off tparts with
    | none => "PANIC"
    | some gs =>
      if op == "gbw" || op == "gbwv" then showGroups gs            -- `map_values(clone).filter_values(true)` = identity
      else if op == "gbws" then showGroupRows (sortByWindow gs)     -- rows in the order of `impl Ord for Window`
      else if op == "gbwl" then
        showRows ((sumGroups gs).mergeSort (fun a b => leW a.1 b.1 && (a.1 != b.1 || a.2 ≤ b.2)))
      else if op == "gbwj" then
        -- both join sides are `group_by_window` of the same events
        let rows := (Window.joinInner gs gs).mergeSort (fun a b => leW a.1 b.1)
        "OK " ++ joinOrDash (rows.map (fun r => s!"{showW r.1}:{dots r.2.1}|{dots r.2.2}"))
      else "BAD-OP"

def handleWGroup : List String → String
  | [op, size, off, mode, src, rows] =>
    match u64? size, u64? off with
    | some size, some off =>
      if op == "kbw" || op == "gbw" || op == "gbwv" || op == "gbws" || op == "gbwl" || op == "gbwj" then
        match rows? rawRow? rows with
        | none => "BAD-OP"
        | some xs =>
          match parts? mode xs with
          | none => "BAD-OP"
          | some parts =>
            match parts.mapM (buildTs src) with
            | none => "BAD-OP"
            | some tparts => unkeyed op size off tparts
      else if op == "kkbw" || op == "gbkw" || op == "kkbwv" then
        match rows? krow? rows with
        | none => "BAD-OP"
        | some xs =>
          match parts? mode xs with
          | none => "BAD-OP"
          | some rparts =>
            match rparts.mapM (buildKts src) with
            | none => "BAD-OP"
            | some parts =>
              if op == "kkbw" then
                match keyByKeyAndWindowPar size off parts with
                | none => "PANIC"
                | some rs => "OK " ++ joinOrDash (rs.map (fun r => s!"{r.1.1}@{showW r.1.2}:{r.2}"))
              else if op == "kkbwv" then
                -- value steps around the windowing step, AS WRITTEN: `map_values(v*2)` before it (on the timestamped
                -- value), `filter_values(v % 4 == 0)` and `map_values(v+1)` after it. The windowing step is an
                -- ordinary `map` (not movable), so the planner's value-only sort must leave this block alone.
                match keyByKeyAndWindowPar size off parts with
                | none => "PANIC"
                | some rs =>
                  let rs := ((rs.map (fun r => (r.1, r.2 * 2))).filter (fun r => r.2 % 4 == 0)).map (fun r => (r.1, r.2 + 1))
                  "OK " ++ joinOrDash (rs.map (fun r => s!"{r.1.1}@{showW r.1.2}:{r.2}"))
              else
                match groupByKeyAndWindow size off parts with
                | none => "PANIC"
                | some gs =>
                  let gs := gs.mergeSort (fun a b => leKW a.1 b.1)
                  "OK " ++ joinOrDash (gs.map (fun g => s!"{g.1.1}@{showW g.1.2}:{dots g.2}"))
      else "BAD-OP"
    | _, _ => "BAD-OP"
  | _ => "BAD-OP"

def handleWNew (release : Bool) : List String → String
  | [s, e] =>
    match u64? s, u64? e with
    | some s, some e =>
      if release then (let w := Window.newRelease s e; s!"W {w.start} {w.stop}")
      else match Window.new? s e with
        | some w => s!"W {w.start} {w.stop}"
        | none => "PANIC"
    | _, _ => "BAD-OP"
  | _ => "BAD-OP"

def handleWPlan : List String → String
  | [op, src] =>
    match planKinds 10 25 op src with
    | some ks => ",".intercalate ks
    | none => "BAD-OP"
  | _ => "BAD-OP"

def ordStr : Ordering → String
  | .lt => "LT" | .eq => "EQ" | .gt => "GT"

/-- `WCMP s1 e1 s2 e2` ↦ `<a == b> <a.cmp(b)> <a == b → hash a == hash b> <a.partial_cmp(b)>` -/
def handleWCmp : List String → String
  | [s1, e1, s2, e2] =>
    match u64? s1, u64? e1, u64? s2, u64? e2 with
    | some s1, some e1, some s2, some e2 =>
      let a : Window := ⟨s1, e1⟩
      let b : Window := ⟨s2, e2⟩
      let pc := match a.partialCmpImpl b with
        | some o => ordStr o
        | none => "NONE"
      s!"{boolStr (a.eqImpl b)} {ordStr (a.cmpImpl b)} {boolStr (!(a.eqImpl b) || a.hashWords == b.hashWords)} {pc}"
    | _, _, _, _ => "BAD-OP"
  | _ => "BAD-OP"

def handlers : List (String × (List String → String)) :=
  [("TUMBLE", handleTumble), ("TUMBLE-WRAP", handleTumbleWrap), ("TUMBLE-LEGACY", handleTumbleLegacy),
   ("TUMBLE-LEGACY-WRAP", handleTumbleLegacyWrap), ("WGROUP", handleWGroup),
   ("WCMP", handleWCmp), ("WNEW", handleWNew false), ("WNEW-REL", handleWNew true),
   ("WPLAN", handleWPlan)]

end IB.D13
