import IbModel.Util.Wire
/-! Driver handlers for C13 (request kinds served for that property). -/
namespace IB.D13

def handlers : List (String × (List String → String)) := []

end IB.D13
