import IbModel.Util.Wire
import IbModel.Model.Window
/-!
Driver handlers for C13.

* `TUMBLE <ts> <size> <off>` ↦ `W <start> <end>` | `PANIC`
* `WCMP <s1> <e1> <s2> <e2>` ↦ `<T|F> <LT|EQ|GT> <T|F>` (`==`, `cmp`, hash consistent with `==`)
* `WGROUP <kbw|gbw|kkbw|gbkw> <size> <off> <seq|par:T:P> <d|t|a> <rows>` ↦ `OK <rows>` | `PANIC`
  (row syntax: see `harness/src/c13.rs`). Grouped answers are canonicalised exactly like the harness
  canonicalises the real output: groups sorted by key, group contents sorted.
-/
namespace IB.D13
open IB.Wire IB.Window

def u64? (s : String) : Option Nat :=
  match parseNat? s with
  | some n => if n < U64 then some n else none
  | none => none

def handleTumble : List String → String
  | [ts, size, off] =>
    match u64? ts, u64? size, u64? off with
    | some ts, some size, some off =>
      match tumble ts size off with
      | some w => s!"W {w.start} {w.stop}"
      | none => "PANIC"
    | _, _, _ => "BAD-OP"
  | _ => "BAD-OP"

/-- the pinned-commit code (kept so that the legacy model can be replayed against an old checkout) -/
def handleTumbleLegacy : List String → String
  | [ts, size, off] =>
    match u64? ts, u64? size, u64? off with
    | some ts, some size, some off =>
      match Legacy.tumble ts size off with
      | some w => s!"W {w.start} {w.stop}"
      | none => "PANIC"
    | _, _, _ => "BAD-OP"
  | _ => "BAD-OP"


/-- `key:ts:val` -/
def krow? (s : String) : Option (Int × Timestamped Int) :=
  match s.splitOn ":" with
  | [k, t, v] => do pure (← parseInt? k, ⟨← u64? t, ← parseInt? v⟩)
  | _ => none

def rows? {α : Type} (p : String → Option α) (s : String) : Option (List α) :=
  if s == "-" then some [] else (s.splitOn ",").mapM p

/-- `seq` ↦ one partition holding everything; `par:T:P` ↦ `exec_par`'s split of the source -/
def parts? {α : Type} (mode : String) (xs : List α) : Option (List (List α)) :=
  if mode == "seq" then some [xs]
  else match mode.splitOn ":" with
    | ["par", t, p] =>
      match parseNat? t, parseNat? p with
      | some _, some p => some (sourceParts xs p)
      | _, _ => none
    | _ => none

def joinOrDash (l : List String) : String := if l.isEmpty then "-" else ",".intercalate l

def showW (w : Window) : String := s!"{w.start}-{w.stop}"
def dots (vs : List Int) : String := ".".intercalate (vs.map toString)

def leW (a b : Window) : Bool := a.start < b.start || (a.start == b.start && a.stop ≤ b.stop)
def leKW (a b : Int × Window) : Bool := a.1 < b.1 || (a.1 == b.1 && leW a.2 b.2)
def sortInts (vs : List Int) : List Int := vs.mergeSort (fun a b => decide (a ≤ b))

/-- `ts:val` as a raw source row -/
def rawRow? (s : String) : Option (Nat × Int) :=
  match s.splitOn ":" with
  | [t, v] => do pure (← u64? t, ← parseInt? v)
  | _ => none

def showRows (rs : List (Window × Int)) : String :=
  "OK " ++ joinOrDash (rs.map (fun r => s!"{showW r.1}:{r.2}"))

def showGroups (gs : List (Window × List Int)) : String :=
  let gs := (gs.map (fun g => (g.1, sortInts g.2))).mergeSort (fun a b => leW a.1 b.1)
  "OK " ++ joinOrDash (gs.map (fun g => s!"{showW g.1}:{dots g.2}"))

/-- unkeyed ops over source partitions of raw `(ts, val)` rows; `src` selects the helper that builds
    the `Timestamped` collection (stateless, applied per partition like every `map`) -/
def unkeyed (op src : String) (size off : Nat) (parts : List (List (Nat × Int))) : String :=
  if src == "d" || src == "t" then
    let tparts : List (List (Timestamped Int)) :=
      if src == "d" then parts.map (fun p => p.map (fun r => ⟨r.1, r.2⟩)) else parts.map toTimestamped
    if op == "kbw" then
      match mapAll (keyByWindow size off) tparts with
      | none => "PANIC"
      | some ps => showRows ps.flatten
    else
      match groupByWindow size off tparts with
      | none => "PANIC"
      | some gs => showGroups gs
  else if src == "a" then
    let tparts : List (List (Timestamped (Nat × Int))) := parts.map (attachTimestamps Prod.fst)
    if op == "kbw" then
      match mapAll (keyByWindow size off) tparts with
      | none => "PANIC"
      | some ps => showRows (ps.flatten.map (fun r => (r.1, r.2.2)))
    else
      match groupByWindow size off tparts with
      | none => "PANIC"
      | some gs => showGroups (gs.map (fun g => (g.1, g.2.map Prod.snd)))
  else "BAD-OP"

def handleWGroup : List String → String
  | [op, size, off, mode, src, rows] =>
    match u64? size, u64? off with
    | some size, some off =>
      if op == "kbw" || op == "gbw" then
        match rows? rawRow? rows with
        | none => "BAD-OP"
        | some xs =>
          match parts? mode xs with
          | none => "BAD-OP"
          | some parts => unkeyed op src size off parts
      else if (op == "kkbw" || op == "gbkw") && src == "d" then
        match rows? krow? rows with
        | none => "BAD-OP"
        | some xs =>
          match parts? mode xs with
          | none => "BAD-OP"
          | some parts =>
            if op == "kkbw" then
              match mapAll (keyByKeyAndWindow size off) parts with
              | none => "PANIC"
              | some ps => "OK " ++ joinOrDash (ps.flatten.map (fun r => s!"{r.1.1}@{showW r.1.2}:{r.2}"))
            else
              match groupByKeyAndWindow size off parts with
              | none => "PANIC"
              | some gs =>
                let gs := (gs.map (fun g => (g.1, sortInts g.2))).mergeSort (fun a b => leKW a.1 b.1)
                "OK " ++ joinOrDash (gs.map (fun g => s!"{g.1.1}@{showW g.1.2}:{dots g.2}"))
      else "BAD-OP"
    | _, _ => "BAD-OP"
  | _ => "BAD-OP"

/-- `WCMP s1 e1 s2 e2` ↦ `<a == b> <a.cmp(b)> <a == b → hash a == hash b>` -/
def handleWCmp : List String → String
  | [s1, e1, s2, e2] =>
    match u64? s1, u64? e1, u64? s2, u64? e2 with
    | some s1, some e1, some s2, some e2 =>
      let a : Window := ⟨s1, e1⟩
      let b : Window := ⟨s2, e2⟩
      let c := match a.cmpImpl b with
        | .lt => "LT" | .eq => "EQ" | .gt => "GT"
      s!"{boolStr (a.eqImpl b)} {c} {boolStr (!(a.eqImpl b) || a.hashWords == b.hashWords)}"
    | _, _, _, _ => "BAD-OP"
  | _ => "BAD-OP"

def handlers : List (String × (List String → String)) :=
  [("TUMBLE", handleTumble), ("TUMBLE-LEGACY", handleTumbleLegacy), ("WGROUP", handleWGroup),
   ("WCMP", handleWCmp)]

end IB.D13
