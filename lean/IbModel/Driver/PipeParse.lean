import IbModel.Model.Program
/-! Parsing of `PIPE` requests (driver glue; not the subject of theorems). -/
namespace IB.PipeParse
open IB IB.Wire

def fn? : List String → Option (Fn × List String)
  | "add" :: n :: r => (parseInt? n).map (fun n => (.add n, r))
  | "mul" :: n :: r => (parseInt? n).map (fun n => (.mul n, r))
  | "modn" :: n :: r => (parseInt? n).map (fun n => (.modn n, r))
  | "neg" :: r => some (.neg, r)
  | "dup" :: r => some (.dup, r)
  | "fst" :: r => some (.fst, r)
  | "snd" :: r => some (.snd, r)
  | "wrap" :: r => some (.wrap, r)
  | "len" :: r => some (.len, r)
  | "tostr" :: r => some (.tostr, r)
  | "ident" :: r => some (.ident, r)
  | _ => none

def pred? : List String → Option (Pred × List String)
  | "even" :: r => some (.even, r)
  | "lt" :: n :: r => (parseInt? n).map (fun n => (.lt n, r))
  | "ge" :: n :: r => (parseInt? n).map (fun n => (.ge n, r))
  | "ne" :: n :: r => (parseInt? n).map (fun n => (.ne n, r))
  | "tt" :: r => some (.tt, r)
  | "ff" :: r => some (.ff, r)
  | _ => none

def flat? : List String → Option (FlatFn × List String)
  | "rep" :: n :: r => (parseNat? n).map (fun n => (.rep n, r))
  | "upto" :: r => some (.upto, r)
  | "ifeven" :: r => some (.ifeven, r)
  | "twice" :: r => some (.twice, r)
  | _ => none

def keyfn? : List String → Option (KeyFn × List String)
  | "kmod" :: n :: r => (parseInt? n).map (fun n => (.kmod n, r))
  | "kself" :: r => some (.kself, r)
  | "kconst" :: n :: r => (parseInt? n).map (fun n => (.kconst n, r))
  | "kstr" :: r => some (.kstr, r)
  | _ => none

def batch? : List String → Option (BatchFn × List String)
  | "each" :: r => (fn? r).map (fun p => (.each p.1, p.2))
  | "rev" :: r => some (.rev, r)
  | "sumall" :: r => some (.sumall, r)
  | "droplast" :: r => some (.droplast, r)
  | "dupfirst" :: r => some (.dupfirst, r)
  | "countrow" :: r => some (.countrow, r)
  | _ => none

def comb? : List String → Option (Comb × List String)
  | "count" :: r => some (.count, r)
  | "sum" :: r => some (.sum, r)
  | "min" :: r => some (.min, r)
  | "max" :: r => some (.max, r)
  | "mint" :: r => some (.minT, r)
  | "maxt" :: r => some (.maxT, r)
  | "dset" :: r => some (.distinctSet, r)
  | "topk" :: k :: r => (parseNat? k).map (fun k => (.topK k, r))
  | "usummod" :: m :: r => (parseInt? m).map (fun m => (.uSumMod m, r))
  | "uunion" :: r => some (.uUnion, r)
  | "umaxabs" :: r => some (.uMaxAbs, r)
  | "ulast" :: r => some (.uLast, r)
  | _ => none

def fanout? : List String → Option (Option Nat × List String)
  | "none" :: r => some (none, r)
  | n :: r => (parseNat? n).map (fun n => (some n, r))
  | _ => none

def kind? : String → Option JoinKind
  | "inner" => some .inner | "left" => some .left | "right" => some .right | "full" => some .full
  | _ => none

/-- `1,2,3` or `-` -/
def ints? (s : String) : Option (List Int) :=
  if s == "-" then some [] else (s.splitOn ",").mapM parseInt?

/-- `0:10,1:20,0:30` or `-` -/
def intPairs? (s : String) : Option (List (Int × Int)) :=
  if s == "-" then some [] else (s.splitOn ",").mapM (fun kv =>
    match kv.splitOn ":" with
    | [k, v] => do let k ← parseInt? k; let v ← parseInt? v; pure (k, v)
    | _ => none)

/-- rows: one `Val` that must be a list -/
def rows? (toks : List String) : Option (List Val × List String) :=
  match Val.parse (toks.length + 1) toks with
  | some (v, r) => if v.isList then some (v.toList, r) else none
  | none => none

mutual
/-- one step; `fuel` bounds the nesting of joins -/
def step? : Nat → List String → Option (Step × List String)
  | 0, _ => none
  | fuel + 1, toks =>
    match toks with
    | "map" :: r => (fn? r).map (fun p => (.map p.1, p.2))
    | "filter" :: r => (pred? r).map (fun p => (.filter p.1, p.2))
    | "flat_map" :: r => (flat? r).map (fun p => (.flatMap p.1, p.2))
    | "key_by" :: r => (keyfn? r).map (fun p => (.keyBy p.1, p.2))
    | "map_batches" :: n :: r => do
        let n ← parseNat? n
        let (f, r) ← batch? r
        pure (.mapBatches n f, r)
    | "map_values" :: r => (fn? r).map (fun p => (.mapValues p.1, p.2))
    | "filter_values" :: r => (pred? r).map (fun p => (.filterValues p.1, p.2))
    | "map_values_batches" :: n :: r => do
        let n ← parseNat? n
        let (f, r) ← batch? r
        pure (.mapValuesBatches n f, r)
    | "unkey" :: r => some (.unkey, r)
    | "swapkv" :: r => some (.swapkv, r)
    | "values" :: r => some (.values, r)
    | "keys" :: r => some (.keys, r)
    | "topair" :: r => some (.topair, r)
    | "gbk" :: r => some (.gbk, r)
    | "ungroup" :: r => some (.ungroup, r)
    | "glen" :: r => some (.glen, r)
    | "gsum" :: r => some (.gsum, r)
    | "combine_values" :: r => (comb? r).map (fun p => (.combineValues p.1, p.2))
    | "combine_values_lifted" :: r => (comb? r).map (fun p => (.combineValuesLifted p.1, p.2))
    | "combine_globally" :: r => do
        let (c, r) ← comb? r
        let (fo, r) ← fanout? r
        pure (.combineGlobally c fo, r)
    | "combine_globally_lifted" :: r => do
        let (c, r) ← comb? r
        let (fo, r) ← fanout? r
        pure (.combineGloballyLifted c fo, r)
    | "distinct" :: r => some (.distinct, r)
    | "distinct_per_key" :: r => some (.distinctPerKey, r)
    | "top_k_per_key" :: k :: r => (parseNat? k).map (fun k => (.topKPerKey k, r))
    | "map_side" :: side :: r => (ints? side).map (fun l => (.mapSide l, r))
    | "filter_side" :: side :: r => (ints? side).map (fun l => (.filterSide l, r))
    | "try_map" :: r => some (.tryMap, r)
    | "unresult" :: r => some (.unresult, r)
    | "debug_inspect" :: r => some (.debugInspect, r)
    | "debug_count" :: r => some (.debugCount, r)
    | "debug_sample" :: n :: r => (parseNat? n).map (fun n => (.debugSample n, r))
    | "custom_op" :: n :: r => (parseInt? n).map (fun n => (.customOp n, r))
    | "map_side_map" :: r => some (.mapSideMap, r)
    | "join" :: k :: "[" :: r => do
        let k ← kind? k
        let (src, r) ← rows? r
        let (steps, r) ← steps? fuel r
        match r with
        | "]" :: r => pure (.join k src steps, r)
        | _ => none
    | "try_map_p" :: r => (pred? r).map (fun p => (.tryMapP p.1, p.2))
    | "try_flat_map" :: r => do
        let (f, r) ← flat? r
        let (p, r) ← pred? r
        pure (.tryFlatMap f p, r)
    | "res_map" :: r => (fn? r).map (fun p => (.resMap p.1, p.2))
    | "res_filter" :: r => (pred? r).map (fun p => (.resFilter p.1, p.2))
    | "map_side_map_p" :: pairs :: r => (intPairs? pairs).map (fun l => (.mapSideMapP l, r))
    | "custom_value_op" :: n :: c :: r => do
        let n ← parseInt? n
        let c ← parseNat? c
        pure (.customValueOp n c, r)
    | _ => none

/-- `; step ; step …` until `]` or the end -/
def steps? : Nat → List String → Option (List Step × List String)
  | 0, _ => none
  | fuel + 1, toks =>
    match toks with
    | ";" :: r =>
      match step? fuel r with
      | some (s, r') =>
        match steps? fuel r' with
        | some (ss, r'') => some (s :: ss, r'')
        | none => none
      | none => none
    | r => some ([], r)
end

structure Req where
  mode : String
  canon : String
  src : List Val
  steps : List Step

/-- `mode=… canon=… src <rows> ; step ; …` -/
def parseReq (toks : List String) : Option Req :=
  match toks with
  | m :: c :: "src" :: r =>
    if m.startsWith "mode=" && c.startsWith "canon=" then
      match rows? r with
      | some (src, r) =>
        match steps? (r.length + 2) r with
        | some (steps, []) => some { mode := (m.drop 5).toString, canon := (c.drop 6).toString, src, steps }
        | _ => none
      | none => none
    else none
  | _ => none

end IB.PipeParse
