import IbModel.Util.Wire
/-! Driver handlers for C01 (request kinds served for that property). -/
namespace IB.D01

def handlers : List (String × (List String → String)) := []

end IB.D01
