import IbModel.Util.Wire
import IbModel.Driver.PipeParse
/-! Driver handlers for the pipeline family (C01, C02, C04, C05, C07): `PIPE mode=… canon=… src … ; steps`. -/
namespace IB.D01
open IB IB.Wire IB.PipeParse

partial def hasErr : Val → Bool
  | .err => true
  | .some v => hasErr v
  | .pair a b => hasErr a || hasErr b
  | .cons h t => hasErr h || hasErr t
  | _ => false

def render (canon : String) (r : M Part) : String :=
  match r with
  | .error .nestedCoGroup => "ERR nested-cogroup"
  | .error .nonTermination => "HANG"
  | .error .noSource => "ERR no-source"
  | .error .unexpectedSource => "ERR unexpected-source"
  | .error .emptyBuf => "PANIC"
  | .ok rows =>
    if rows.any hasErr then "PANIC"
    else
      let v := Val.ofList rows
      let v := if canon == "deep" then Val.deepCanon v
               else if canon == "top" then Val.ofList (Val.sortByEnc rows) else v
      "OK " ++ v.enc

def handlePipe (toks : List String) : String :=
  match parseReq toks with
  | none => "BAD-OP"
  | some q =>
    if q.mode == "seq" then render q.canon (runSeq q.src q.steps)
    else if q.mode == "lit" then render q.canon (runLiteral q.src q.steps)
    else if q.mode == "noreorder" then render q.canon (runSeqNoReorder q.src q.steps)
    else if q.mode.startsWith "par:" then
      match parseNat? (q.mode.drop 4).toString with
      | some n => render q.canon (runPar q.src q.steps n)
      | none => "BAD-OP"
    -- `collect()` is the sequential collect
    else if q.mode == "collect" then render q.canon (runSeq q.src q.steps)
    -- `collect_par(None, None)`: the engine picks the partition count (planner suggestion / 2 x cores); by
    -- `C01_program` every count gives the sequential answer, which is what the model answers
    else if q.mode == "parauto" then render q.canon (runSeq q.src q.steps)
    -- `collect_par(Some(t), Some(n))`: the thread count only sizes the rayon pool; partitions as in `par:n`
    else if q.mode.startsWith "part:" then
      match ((q.mode.drop 5).toString.splitOn ":").map parseNat? with
      | [some _, some n] => render q.canon (runPar q.src q.steps n)
      | _ => "BAD-OP"
    else "BAD-OP"

/-- `PIPEF per=<n> mode=… canon=… src … ; steps`: the same program over a streamed file source -/
def handlePipeFile : List String → String
  | p :: toks =>
    match parseNat? (p.drop 4).toString, parseReq toks with
    | some per, some q =>
      if !p.startsWith "per=" then "BAD-OP"
      else if q.mode == "seq" then render q.canon (runSeqFile q.src per q.steps)
      else if q.mode.startsWith "par:" then
        match parseNat? (q.mode.drop 4).toString with
        | some n => render q.canon (runParFile q.src per q.steps n)
        | none => "BAD-OP"
      else "BAD-OP"
    | _, _ => "BAD-OP"
  | _ => "BAD-OP"

/-- large-input cases are judged by the harness oracles only; the driver just acknowledges them -/
def handleOracleOnly (_ : List String) : String := "-"

def handlers : List (String × (List String → String)) := [("PIPE", handlePipe), ("PIPEH", handlePipe), ("PIPEF", handlePipeFile), ("ORACLE-ONLY", handleOracleOnly)]

end IB.D01
