import IbModel.Util.Wire
/-! Driver handlers for C03 (request kinds served for that property). -/
namespace IB.D03

def handlers : List (String × (List String → String)) := []

end IB.D03
