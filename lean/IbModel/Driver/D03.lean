import IbModel.Util.Wire
import IbModel.Driver.PipeParse
import IbModel.Model.PlannerExplain
import IbModel.Model.PlanSynth
/-! Driver handlers for C03: `PLAN` (pass-by-pass shapes AND reported decisions on synthetic chains, `build_plan`'s
    chain, decisions and `explain()`), `PLANX` / `LIFTNEG` (execution of literal vs optimised synthetic chains, and of
    `run_collect` on them), `EXPLAIN` (plan + `explain()` of builder programs), `PARTS` (partition suggestion and the
    partition count `collect_par(None, None)` uses). -/
namespace IB.D03
open IB IB.Wire IB.PipeParse

def rowsOf? (s : String) : Option (List Val) :=
  if s == "-" then some []
  else (s.splitOn ",").mapM (fun r => match r.splitOn ":" with
    | [k, v] => do pure (Val.pair (.int (← parseInt? k)) (.int (← parseInt? v)))
    | _ => none)

def sumList (v : Val) : Int := (v.toList.map Val.toInt).foldl (· + ·) 0

def customApply (code : Char) (arg : Int) : Part → Part :=
  if code == 'A' then List.map (fun r => .pair r.key (.int (r.value.toInt + arg)))
  else if code == 'M' then List.map (fun r => .pair r.key (.int (r.value.toInt * arg)))
  else if code == 'F' then List.filter (fun r => r.value.toInt % (max arg 1) != 0)
  else if code == 'K' then List.map (fun r => .pair (.int (r.key.toInt + arg)) r.value)
  else if code == 'D' then List.flatMap (fun r => [r, r])
  else if code == 'G' then List.map (fun r => .pair r.key (.int (sumList r.value)))
  else if code == 'H' then List.filter (fun r => r.key.toInt % 2 == 0)
  else id

def bit? (c : Char) : Option Bool := if c == '1' then some true else if c == '0' then some false else none

/-- `A1/111/3` -/
def op? (s : String) : Option (DynOp Part) :=
  match s.splitOn "/" with
  | [ca, flags, cost] =>
    match ca.toList, flags.toList with
    | code :: argcs, [a, b, c] => do
      let arg ← parseInt? (String.ofList argcs)
      let kp ← bit? a
      let vo ← bit? b
      let rs ← bit? c
      let cost ← parseNat? cost
      pure { apply := customApply code arg, keyPreserving := kp, valueOnly := vo, reorderSafe := rs,
             cost := cost, label := ca }
    | _, _ => none
  | _ => none

def fanoutTok? (s : String) : Option (Option Nat) :=
  if s == "none" then some none else (parseNat? s).map some

/-- nodes allowed inside a co-group side (`COGN` = a nested co-group) -/
def subNode? : List String → Option (Node Part)
  | ["SRC", rows] => (rowsOf? rows).map vecSource
  | ["ST", ops] => ((ops.splitOn ";").mapM op?).map Node.stateless
  | ["GBK"] => some gbkNode
  | ["CVL"] => some (combineValuesLiftedNode Comb.sum.toCombiner)
  | ["CV"] => some (combineValuesNode Comb.sum.toCombiner)
  | ["CVB"] => some (combineValuesLiftedNode badSum)
  | ["CG", fo] => (fanoutTok? fo).map (combineGlobalNode pairSum)
  | ["MAT", rows] => (rowsOf? rows).map Node.materialized
  | ["COGN"] => some (.coGroup [] [] List.flatten List.flatten cogExec)
  | _ => none

/-- split a token list at every `sep` -/
def splitTok (sep : String) : List String → List (List String)
  | [] => [[]]
  | t :: ts =>
    match splitTok sep ts with
    | g :: gs => if t == sep then [] :: g :: gs else (t :: g) :: gs
    | [] => [[t]]

/-- `< n & n & … >`: the tokens between the brackets -/
def subChain? (toks : List String) : Option (List (Node Part)) :=
  if toks.isEmpty then some [] else (splitTok "&" toks).mapM subNode?

/-- `COG < … > < … >` -/
def cog? (toks : List String) : Option (Node Part) :=
  match splitTok ">" toks with
  | [l, r, []] =>
    match l, r with
    | "<" :: lt, "<" :: rt => do
      let lc ← subChain? lt
      let rc ← subChain? rt
      pure (.coGroup lc rc List.flatten List.flatten cogExec)
    | _, _ => none
  | _ => none

def node? : List String → Option (Node Part)
  | "COG" :: rest => cog? rest
  | toks => subNode? toks

def chain? (toks : List String) : Option (List (Node Part)) := (splitTok "|" toks).mapM node?

def shapeOf (c : List (Node Part)) : String :=
  if c.isEmpty then "-" else
  ",".intercalate (c.map (fun n => match n with
    | .source .. => "SRC"
    | .stateless ops => "ST[" ++ ";".intercalate (ops.map (·.label)) ++ "]"
    | .gbk .. => "GBK"
    | .combineValues _ lg _ => if lg.isSome then "CVL" else "CV"
    | .coGroup .. => "COGROUP"
    | .combineGlobal .. => "CG"
    | .materialized _ => "MAT"))

def optDec (d : Option Decision) : String := renderDecisions d.toList

def cpus? (tok : String) : Option Nat :=
  if tok.startsWith "cpus=" then parseNat? (tok.drop 5).toString else none

/-- `PLAN cpus=<n> <chain>`: every pass alone (chain + reported decision), then `build_plan` and its `explain()` -/
def handlePlan : List String → String
  | c0 :: toks =>
    match cpus? c0, chain? toks with
    | some cpus, some c =>
      let f := fuseTracked c
      let r := reorderTracked f.1
      let l := liftTracked r.1
      let d := dropMidTracked l.1
      let plan := buildPlan cpus c
      s!"fuse={shapeOf f.1} reorder={shapeOf r.1} lift={shapeOf l.1} drop={shapeOf d.1} fdec={optDec f.2} rdec={renderDecisions r.2} ldec={optDec l.2} ddec={optDec d.2} plan={shapeOf plan.chain} {plan.explain.render}"
    | _, _ => "BAD-OP"
  | _ => "BAD-OP"

def insPair (x : Int × Int) : List (Int × Int) → List (Int × Int)
  | [] => [x]
  | y :: ys => if x.1 < y.1 || (x.1 == y.1 && x.2 ≤ y.2) then x :: y :: ys else y :: insPair x ys

def execAnswer (r : M Part) : String :=
  match r with
  | .ok rows =>
    if rows.isEmpty then "-"
    else
      let ps := (rows.map (fun r => (r.key.toInt, r.value.toInt))).foldl (fun acc x => insPair x acc) []
      ",".intercalate (ps.map (fun p => s!"{p.1}:{p.2}"))
  | .error .unexpectedSource => "ERR:unexpected-source"
  | .error .noSource => "ERR:no-source"
  | .error .nestedCoGroup => "ERR:nested-cogroup"
  | .error .nonTermination => "HANG"
  | .error .emptyBuf => "PANIC"

/-- `PLANX cpus=<n> parts=<n> <chain>`: literal, optimised (the four passes composed), optimised in parallel, and
    `run_collect` (which plans by itself) sequentially and with `parts` partitions -/
def handlePlanx : List String → String
  | c0 :: p :: toks =>
    match cpus? c0, parseNat? (p.drop 6).toString, chain? toks with
    | some cpus, some parts, some c =>
      s!"lit={execAnswer (execSeq c)} opt={execAnswer (execSeq (optimise c))} par={execAnswer (execPar List.flatten (optimise c) parts)} run={execAnswer (runCollect List.flatten cpus .sequential c)} runpar={execAnswer (runCollect List.flatten cpus (.parallel (some parts)) c)} ran={",".intercalate ((buildPlan cpus c).chain.map Node.kind)}"
    | _, _, _ => "BAD-OP"
  | _ => "BAD-OP"

/-- `EXPLAIN cpus=<n> <program>`: node kinds of the chain the runner executes (both modes plan the same chain),
    then `explain()` -/
def handleExplain : List String → String
  | c0 :: toks =>
    match cpus? c0, parseReq toks with
    | some cpus, some q =>
      let plan := buildPlan cpus (litChain q.src q.steps)
      let kinds := ",".intercalate (plan.chain.map Node.kind)
      s!"ran={kinds} ranpar={kinds} {plan.explain.render}"
    | _, _ => "BAD-OP"
  | _ => "BAD-OP"

/-- `PARTS cpus=<n> len=<n|none> obs=<0|1>`: `suggest_partitions` and (when the harness can observe it) the partition
    count `collect_par(None, None)` hands to the parallel engine -/
def handleParts : List String → String
  | [c0, l, o] =>
    match cpus? c0, (if l.startsWith "len=" then fanoutTok? (l.drop 4).toString else none) with
    | some cpus, some len =>
      let sug := suggestPartitions (max cpus 2) len
      if o == "obs=1" then s!"suggested={optNat sug} used={chosenPartitions cpus none sug}"
      else if o == "obs=0" then s!"suggested={optNat sug} used=-"
      else "BAD-OP"
    | _, _ => "BAD-OP"
  | _ => "BAD-OP"

def handlers : List (String × (List String → String)) :=
  [("PLAN", handlePlan), ("PLANX", handlePlanx), ("LIFTNEG", handlePlanx), ("EXPLAIN", handleExplain),
   ("PARTS", handleParts)]

end IB.D03
