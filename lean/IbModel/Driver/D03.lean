import IbModel.Util.Wire
import IbModel.Driver.PipeParse
/-! Driver handlers for C03: `PLAN` (pass-by-pass shapes on synthetic chains), `PLANX` (execution of
    literal vs optimised synthetic chains), `EXPLAIN` (node kinds of the optimised builder chain). -/
namespace IB.D03
open IB IB.Wire IB.PipeParse

def rowsOf? (s : String) : Option (List Val) :=
  if s == "-" then some []
  else (s.splitOn ",").mapM (fun r => match r.splitOn ":" with
    | [k, v] => do pure (Val.pair (.int (← parseInt? k)) (.int (← parseInt? v)))
    | _ => none)

def sumList (v : Val) : Int := (v.toList.map Val.toInt).foldl (· + ·) 0

def customApply (code : Char) (arg : Int) : Part → Part :=
  if code == 'A' then List.map (fun r => .pair r.key (.int (r.value.toInt + arg)))
  else if code == 'M' then List.map (fun r => .pair r.key (.int (r.value.toInt * arg)))
  else if code == 'F' then List.filter (fun r => r.value.toInt % (max arg 1) != 0)
  else if code == 'K' then List.map (fun r => .pair (.int (r.key.toInt + arg)) r.value)
  else if code == 'D' then List.flatMap (fun r => [r, r])
  else if code == 'G' then List.map (fun r => .pair r.key (.int (sumList r.value)))
  else if code == 'H' then List.filter (fun r => r.key.toInt % 2 == 0)
  else id

def bit? (c : Char) : Option Bool := if c == '1' then some true else if c == '0' then some false else none

/-- `A1/111/3` -/
def op? (s : String) : Option (DynOp Part) :=
  match s.splitOn "/" with
  | [ca, flags, cost] =>
    match ca.toList, flags.toList with
    | code :: argcs, [a, b, c] => do
      let arg ← parseInt? (String.ofList argcs)
      let kp ← bit? a
      let vo ← bit? b
      let rs ← bit? c
      let cost ← parseNat? cost
      pure { apply := customApply code arg, keyPreserving := kp, valueOnly := vo, reorderSafe := rs,
             cost := cost, label := ca }
    | _, _ => none
  | _ => none

def node? : List String → Option (Node Part)
  | ["SRC", rows] => (rowsOf? rows).map vecSource
  | ["ST", ops] => ((ops.splitOn ";").mapM op?).map Node.stateless
  | ["GBK"] => some gbkNode
  | ["CVL"] => some (combineValuesLiftedNode Comb.sum.toCombiner)
  | ["CV"] => some (combineValuesNode Comb.sum.toCombiner)
  | ["MAT", rows] => (rowsOf? rows).map Node.materialized
  | _ => none

/-- split a token list at `|` -/
def splitBar : List String → List (List String)
  | [] => [[]]
  | t :: ts =>
    match splitBar ts with
    | g :: gs => if t == "|" then [] :: g :: gs else (t :: g) :: gs
    | [] => [[t]]

def chain? (toks : List String) : Option (List (Node Part)) := (splitBar toks).mapM node?

def shapeOf (c : List (Node Part)) : String :=
  ",".intercalate (c.map (fun n => match n with
    | .source .. => "SRC"
    | .stateless ops => "ST[" ++ ";".intercalate (ops.map (·.label)) ++ "]"
    | .gbk .. => "GBK"
    | .combineValues _ lg _ => if lg.isSome then "CVL" else "CV"
    | .coGroup .. => "COGROUP"
    | .combineGlobal .. => "CG"
    | .materialized _ => "MAT"))

def handlePlan (toks : List String) : String :=
  match chain? toks with
  | none => "BAD-OP"
  | some c =>
    let f := fuse c
    let r := reorder f
    let l := liftGbk r
    let d := dropMid l
    s!"fuse={shapeOf f} reorder={shapeOf r} lift={shapeOf l} drop={shapeOf d}"

def insPair (x : Int × Int) : List (Int × Int) → List (Int × Int)
  | [] => [x]
  | y :: ys => if x.1 < y.1 || (x.1 == y.1 && x.2 ≤ y.2) then x :: y :: ys else y :: insPair x ys

def execAnswer (r : M Part) : String :=
  match r with
  | .ok rows =>
    if rows.isEmpty then "-"
    else
      let ps := (rows.map (fun r => (r.key.toInt, r.value.toInt))).foldl (fun acc x => insPair x acc) []
      ",".intercalate (ps.map (fun p => s!"{p.1}:{p.2}"))
  | .error .unexpectedSource => "ERR:unexpected_additional_source/materialized"
  | .error _ => "PANIC"

def handlePlanx : List String → String
  | p :: toks =>
    match parseNat? (p.drop 6).toString, chain? toks with
    | some parts, some c =>
      s!"lit={execAnswer (execSeq c)} opt={execAnswer (execSeq (optimise c))} par={execAnswer (execPar List.flatten (optimise c) parts)}"
    | _, _ => "BAD-OP"
  | _ => "BAD-OP"

def handleExplain (toks : List String) : String :=
  match parseReq toks with
  | none => "BAD-OP"
  | some q => ",".intercalate ((optimise (litChain q.src q.steps)).map Node.kind)

def handlers : List (String × (List String → String)) :=
  [("PLAN", handlePlan), ("PLANX", handlePlanx), ("EXPLAIN", handleExplain)]

end IB.D03
